"""C02 - emitted bytes are spec-conformant TTLV; responses follow the envelope."""
import prims

HEADER = 'From PK Require Import Base.PrimCases.\nFrom Coq Require Import List ZArith.\nImport ListNotations.\nOpen Scope Z_scope.\n'


def prim_cases(ctx, n_random, n_corrupt_per_kind):
    rng = ctx.subrng('prims')
    cases, meta = [], []
    for kind in prims.PT:
        goods = []
        for v in prims.values_for(kind, rng, n_random):
            cs, r = prims.case_enc(kind, v)
            for c in cs:
                cases.append(c)
                meta.append(('enc', kind, repr(v)[:80], r[0]))
            ctx.count('prim.enc.%s.%s' % (kind, r[0]))
            new = ctx.case_seen(('enc', kind, v), nontrivial=True)
            if r[0] == 'ok' and not (kind == 'PEnum' and v not in prims.ENUM_MEMBERS):
                goods.append(r[1])
                # the implementation must decode its own output to the same value
                d = prims.impl_decode(kind, r[1] + b'\x42\x00\x08')
                if d is None or d[0] != v or d[1] != b'\x42\x00\x08':
                    ctx.violation({'class': kind, 'what': 'roundtrip'}, {'kind': kind, 'value': repr(v), 'decoded': repr(d)},
                                  'primitive %s does not decode its own encoding of %r' % (kind, v))
        picks = goods if len(goods) <= n_corrupt_per_kind else rng.sample(goods, n_corrupt_per_kind)
        for g in picks:
            for bad in prims.corruptions(g, rng):
                c, r = prims.case_dec(kind, bad)
                cases.append(c)
                meta.append(('dec', kind, bad.hex(), 'accept' if r else 'reject'))
                ctx.count('prim.dec.%s.%s' % (kind, 'accept' if r else 'reject'))
                ctx.case_seen(('dec', kind, bad), nontrivial=True)
            c, r = prims.case_dec(kind, g)
            cases.append(c)
            meta.append(('dec', kind, g.hex(), 'accept' if r else 'reject'))
        if kind == 'PText':
            for probe in prims.utf8_probes():
                c, r = prims.case_dec(kind, probe)
                cases.append(c)
                meta.append(('dec', kind, probe.hex(), 'accept' if r else 'reject'))
                ctx.count('prim.dec.PText.utf8probe.%s' % ('accept' if r else 'reject'))
                ctx.case_seen(('dec', kind, probe), nontrivial=True)
    return cases, meta


def run(ctx):
    ctx.cov['rule'] = ('primitives: every boundary value (2^k, 2^k+-1 for k in 7..192, 0, +-1), all string/byte lengths 0..40, '
                       'seeded random values; decoders on valid encodings with every truncation and single-field corruption. '
                       'A case is non-trivial when distinct after canonicalisation (kind, value or byte string).')
    ctx.regen(only=['enums', 'kmiperrors', 'schemas'])
    ctx.prove('props/C02.v', extra_targets=['props/C02E.v'])
    quick = ctx.tier == 'quick'
    cases, meta = prim_cases(ctx, 40 if quick else 400, 6 if quick else 40)
    bad = ctx.run_cases('prims', HEADER, cases, 'check_pcase', what='enc_prim/dec_prim/validate_prim vs kmip.core.primitives')
    for i in bad[:20]:
        ctx.disagreement('prims', {'case': meta[i], 'coq': cases[i][:400]})
    ctx.sample({'primitive_case': cases[0]})
    ctx.sample({'primitive_case': cases[len(cases) // 2][:300]})


# ---------------------------------------------------------------------- response envelope
ENV_HEADER = ('From PK Require Import Codec.Envelope.\nFrom Coq Require Import List ZArith String.\n'
              'Import ListNotations.\nOpen Scope Z_scope.\nOpen Scope string_scope.\n')


def _coq_str(s):
    from vlib import coqprint as cp
    try:
        return cp.string(s)
    except ValueError:
        return None


def envelope_run(ctx, n_requests):
    """Drive the real engine, record what _process_operation raised per item, compare the composed
    result item with the model (Coq), and check the encoded response against the envelope with the
    independent parser (direct oracle)."""
    import random
    import kdrv
    import workload
    import ttlvparse
    from kmip.core import enums, utils, exceptions as kexc
    from vlib import coqprint as cp
    rng = ctx.subrng('envelope')
    eng = kdrv.Engine(workdir=ctx.work)
    st = workload.State()
    raised = []
    orig = eng.engine._process_operation

    def spy(operation, payload):
        try:
            r = orig(operation, payload)
            raised.append(('ok',))
            return r
        except kexc.KmipError as e:
            raised.append(('kmip', e.status.value, e.reason.value, str(e)))
            raise
        except Exception as e:
            raised.append(('other', type(e).__name__))
            raise
    eng.engine._process_operation = spy
    cases, meta = [], []
    held = None
    try:
        for k in range(n_requests):
            items, kw, desc = workload.gen_request(rng, st)
            eng.clock.t += rng.choice([0, 0, 1, 5])
            del raised[:]
            user, groups = kw.pop('user'), kw.pop('groups')
            version = kw.get('version', (1, 2))
            order = rng.choice([None, None, True, False])        # Batch Order Option (the workload itself never sets it)
            if order is not None:
                kw['batch_order'] = order
                ctx.count('envelope.batch_order.%s' % order)
            try:
                req = eng.build(items, **kw)
            except Exception as e:      # a request the library refuses to construct is not a server response
                ctx.count('envelope.unbuildable')
                continue
            resp = eng.process(req, user, groups)
            workload.note_result(st, resp)
            if resp['error'] is not None:
                # the session answers request-level KMIP errors through build_error_response
                ctx.count('envelope.request_error.' + resp['error']['reason'])
                from kmip.core.messages import contents
                msg = eng.engine.build_error_response(contents.ProtocolVersion(*version),
                                                      enums.ResultReason[resp['error']['reason']], resp['error']['message'])
                s = utils.BytearrayStream()
                msg.write(s)
                probs, _ = ttlvparse.envelope_problems(s.buffer, version)
                ctx.case_seen(('reqerr', resp['error']['reason'], version))
                for p in probs:
                    ctx.violation({'path': 'build_error_response', 'problem': p.split(' (')[0][:60]},
                                  {'request': desc, 'kwargs': repr(kw), 'bytes': bytes(s.buffer).hex()},
                                  'error response violates the envelope: ' + p)
                continue
            s = utils.BytearrayStream()
            try:
                resp['raw'].write(s, kmip_version=enums.KMIPVersion['KMIP_%d_%d' % version])
            except Exception as e:
                # what the session does since /repo commit d6c2cec: answer with an error response
                ctx.count('envelope.unencodable_response_replaced.' + '/'.join(sorted(set(desc))))
                from kmip.core.messages import contents
                msg = eng.engine.build_error_response(resp['raw'].response_header.protocol_version,
                                                      enums.ResultReason.GENERAL_FAILURE,
                                                      'An unexpected error occurred while encoding the response. See server logs for more information.')
                s = utils.BytearrayStream()
                msg.write(s, kmip_version=enums.KMIPVersion['KMIP_%d_%d' % version])
                probs, _ = ttlvparse.envelope_problems(s.buffer, version)
                for p in probs:
                    ctx.violation({'path': 'encode-failure-replacement', 'problem': p.split(' (')[0][:60]},
                                  {'request': desc, 'kwargs': repr(kw)}, 'replacement response violates the envelope: ' + p)
                continue
            # what was returned for the PREVIOUS request must still encode to the same bytes now that another request
            # has been served (the session encodes after process_request returned, outside the engine lock)
            if held is not None:
                h = utils.BytearrayStream()
                try:
                    held[0].write(h, kmip_version=enums.KMIPVersion['KMIP_%d_%d' % held[2]])
                    late = bytes(h.buffer)
                except Exception as e:
                    late = 'raised ' + type(e).__name__
                if late != held[1]:
                    ctx.violation({'path': 'process_request', 'problem': 'returned response changed by a later request'},
                                  {'first_request': held[3], 'later_request': desc, 'encoded_at_once': held[1].hex(),
                                   'encoded_after_the_later_request': late.hex() if isinstance(late, bytes) else late},
                                  'the response returned for one request encodes differently once another request has been served '
                                  '(shared response state): ' + '; '.join(ttlvparse.envelope_problems(late, held[2])[0][:2] if isinstance(late, bytes) else [late]))
            held = (resp['raw'], bytes(s.buffer), version, desc)
            probs, summ = ttlvparse.envelope_problems(s.buffer, version)
            for p in probs:
                ctx.violation({'path': 'process_request', 'problem': p.split(' (')[0][:60], 'ops': '/'.join(sorted(set(desc)))},
                              {'request': desc, 'kwargs': repr(kw), 'bytes': bytes(s.buffer).hex()},
                              'response violates the envelope: ' + p)
            # one result per processed item, in order
            if len(resp['items']) != len(raised):
                ctx.violation({'path': 'process_request', 'problem': 'results != processed items'},
                              {'request': desc, 'kwargs': repr(kw)}, 'number of results differs from the number of processed items')
            for it, ra in zip(resp['items'], raised):
                ctx.count('envelope.item.%s.%s' % (it['op'], it['reason'] or 'SUCCESS'))
                nontrivial = ctx.case_seen(('item', it['op'], it['status'], it['reason'], it['message']))
                if ra[0] == 'ok':
                    o = 'OSuccess'
                elif ra[0] == 'kmip':
                    m = _coq_str(ra[3])
                    if m is None:
                        continue
                    o = '(OKmipError %s %s %s)' % (cp.z(ra[1]), cp.z(ra[2]), m)
                else:
                    o = 'OOther'
                rm = None if it['message'] is None else _coq_str(it['message'])
                if it['message'] is not None and rm is None:
                    continue
                st_v = enums.ResultStatus[it['status']].value
                rs_v = enums.ResultReason[it['reason']].value if it['reason'] else None
                cases.append('ECase %s %s %s %s' % (o, cp.z(st_v), cp.option(rs_v, cp.z), 'None' if rm is None else '(Some %s)' % rm))
                meta.append((desc, it['op'], it['status'], it['reason'], it['message'], ra))
    finally:
        eng.close()
    return cases, meta


def run_envelope(ctx):
    quick = ctx.tier == 'quick'
    cases, meta = envelope_run(ctx, 400 if quick else 4000)
    bad = ctx.run_cases('envelope', ENV_HEADER, cases, 'check_ecase',
                        what='compose (Envelope.v) vs the result items built by KmipEngine._process_batch')
    for i in bad[:20]:
        ctx.disagreement('envelope', {'case': repr(meta[i])[:500], 'coq': cases[i][:300]})
    if cases:
        ctx.sample({'envelope_case': cases[0], 'request': repr(meta[0][0])})


# ---------------------------------------------------------------------- structure writers (direct oracle)
def struct_emission(ctx):
    """Everything the write() methods of the codec classes emit is parsed by the independent TTLV parser.
    Objects come from (a) schema-generated values (independent encoder -> real read() -> real write()), for every
    translated class under every version that defines it, and (b) the encodings harvested from the unit tests, for
    every Struct subclass including the five outside the translator."""
    import c01
    import schemagen as sg
    import ttlvparse
    quick = ctx.tier == 'quick'
    doc = c01.load_schema()
    schema = sg.Schema(doc)
    n = nw = 0

    def emitted(cname, v, out, src, how):
        probs = ttlvparse.check(out)
        if not probs and int.from_bytes(out[:3], 'big') >> 16 not in (0x42, 0x54):
            probs = ['tag %06x is outside 42xxxx / 54xxxx' % int.from_bytes(out[:3], 'big')]
        for p in probs:
            ctx.violation({'class': cname, 'what': 'struct-emission', 'problem': p.split(' (')[0][:50]},
                          {'class': cname, 'version': v, 'emitted': out.hex(), 'decoded_from': src.hex(), 'how': how},
                          '%s.write() under version %d emits bytes that are not well-formed TTLV: %s' % (cname, v, p))

    for cdoc in doc['classes']:
        cname = cdoc['name']
        if 'stub' in cdoc.get('flags', []):
            continue
        cls = c01.real_class(cdoc)
        tag = cdoc['default_tag']
        gen = sg.Gen(schema, ctx.subrng('emit/' + cname))
        for v in schema.versions_of(cname):
            vectors, _ = gen.count_vectors(cname, v, 4 if quick else 24, exhaustive_limit=4 if quick else 6)
            for counts in vectors:
                bs = sg.encode(tag, gen.struct(cname, v, 0, counts))
                obj, rest = c01.impl_read(cls, bs, v)
                if obj is None:
                    continue
                out = c01.impl_write(obj, v)
                n += 1
                if out is None:
                    ctx.count('emit.write-refused')
                    continue
                nw += 1
                ctx.case_seen(('emit', cname, v, out), nontrivial=True)
                emitted(cname, v, out, bs, 'schema-generated value')
    by_tag = {}
    from kmip.core import primitives
    for mn, name, c, tag in c01.all_struct_classes():
        if c.write is primitives.Base.write or c.read is primitives.Base.read:
            continue        # abstract bases (RequestPayload, ResponsePayload, ...): no codec of their own, never emitted
        by_tag.setdefault(tag, []).append((name, c))
    per = {}
    for f, b in c01.harvest_blobs(ctx.repo):
        for name, c in by_tag.get(int.from_bytes(b[:3], 'big'), []):
            for v in sg.VERSIONS:
                if quick and per.get((name, v), 0) >= 12:
                    continue
                obj, rest = c01.impl_read(c, b, v)
                if obj is None:
                    continue
                out = c01.impl_write(obj, v)
                if out is None:
                    continue
                per[(name, v)] = per.get((name, v), 0) + 1
                nw += 1
                ctx.case_seen(('emit', name, v, out), nontrivial=True)
                emitted(name, v, out, b, 'harvested unit-test encoding')
    # the two classes that keep the raw remainder of their structure: constructed with opaque content
    from kmip.core import objects, misc, utils
    for name, c in (('KeyMaterialStruct', objects.KeyMaterialStruct), ('ServerInformation', misc.ServerInformation)):
        for content in (b'', b'\x42\x00\x08\x07\x00\x00\x00\x01a\x00\x00\x00\x00\x00\x00\x00', b'\x01\x02\x03'):
            o = c()
            o.data = utils.BytearrayStream(content)
            out = c01.impl_write(o, 12)
            if out is not None:
                nw += 1
                emitted(name, 12, out, content, 'constructed with opaque content')
    ctx.cov['struct_emission'] = {'objects': n, 'emitted_and_parsed': nw, 'classes_from_harvest': len({k[0] for k in per})}
    ctx.log('struct emission: %d emitted byte strings parsed by the independent parser (%d classes reached through harvested encodings)' % (
        nw, len({k[0] for k in per})))


# ---------------------------------------------------------------------- envelope on the wire (real KmipSession)
def session_envelope(ctx):
    """What the client actually receives: requests of every supported version, ordinary and refused at message level
    (stale / future time stamp, asynchronous indicator, Undo, a multi-item batch without ids, a response larger than
    the stated maximum, an engine failure, a response that cannot be encoded), sent over ONE connection per version
    through the real KmipSession; every answer is parsed by the independent parser and must carry the REQUEST's
    version, a time stamp, a batch count equal to its items and the status / reason / message rule."""
    import kdrv
    import sessdrv
    import ttlvparse
    from kmip.core import enums
    rng = ctx.subrng('session-envelope')
    A, M = enums.CryptographicAlgorithm, enums.CryptographicUsageMask
    n = bad = 0
    outcomes = {}
    sized, exact = {}, 0
    for version in kdrv.VERSIONS:
        eng = kdrv.Engine(workdir=ctx.work)
        try:
            proxy = sessdrv.EngineProxy(eng)
            ts = 1600000000
            create = lambda: kdrv.create(A.AES, 256, (M.ENCRYPT, M.DECRYPT))
            scen = [
                ('create', [create()], {}, None),
                ('get-missing', [kdrv.get('999')], {}, None),
                ('batch-stop', [kdrv.get('999'), create()], {}, None),
                ('batch-continue', [kdrv.get('999'), create(), kdrv.get('998')], {'batch_option': enums.BatchErrorContinuationOption.CONTINUE}, None),
                ('stale-time-stamp', [create()], {'time_stamp': ts - 1000}, None),
                ('future-time-stamp', [create()], {'time_stamp': ts + 1000}, None),
                ('asynchronous', [create()], {'asynchronous': True}, None),
                ('undo', [create(), create()], {'batch_option': enums.BatchErrorContinuationOption.UNDO}, None),
                ('batch-without-ids', [create(), create()], {'ids': False}, None),
                ('too-large', [kdrv.query()], {'max_size': 16}, None),
                ('limit-that-fits', [kdrv.discover_versions([])], {'max_size': 4096}, None),
                ('engine-crash', [create()], {}, ('crash',)),
                ('unencodable-response', [create()], {}, ('unencodable',)),
                ('query', [kdrv.query()], {}, None),
                ('locate', [kdrv.locate([], None, None)], {}, None),
                ('ordered-stop-mid-failure', [create(), kdrv.get('999'), create()], {'batch_order': True}, None),
                ('ordered-stop-first-failure', [kdrv.get('999'), create(), create()], {'batch_order': True}, None),
                ('ordered-continue', [create(), kdrv.get('999'), create()],
                 {'batch_order': True, 'batch_option': enums.BatchErrorContinuationOption.CONTINUE}, None),
                ('unordered-stop-mid-failure', [create(), kdrv.get('999'), create()], {'batch_order': False}, None),
            ]
            # answers whose encoded size is exactly a power of two (and its neighbours): the identifier of a Get that
            # finds nothing is echoed once in the result message, so the size of the answer can be chosen
            probe = sessdrv.run_spec(sessdrv.EngineProxy(eng), sessdrv.default_spec(
                sessdrv.encode_request(eng.build([kdrv.get('x' * 39)], version=version), version), ts=ts), dumps=False)[0]
            size0 = len(b''.join(probe['frames'][0]['sent']))
            for target in (512, 1024, 2048, 4096, 8192, 16384):
                for delta in (-8, 0, 8):
                    ln = 39 + (target + delta - size0)
                    if ln > 0:
                        scen.append(('size-%d%+d' % (target, delta), [kdrv.get('x' * ln)], {}, None))
                        sized[(version, 'size-%d%+d' % (target, delta))] = target + delta
            # objects for the wrapped Get: 1 = wrapping key (Active, Wrap Key), 2 = a 16-byte key, 3 = secret data
            from kmip.core import objects as cobjects
            OT = enums.ObjectType
            wrapspec = lambda: cobjects.KeyWrappingSpecification(
                wrapping_method=enums.WrappingMethod.ENCRYPT,
                encryption_key_information=cobjects.EncryptionKeyInformation(
                    unique_identifier='1',
                    cryptographic_parameters=kdrv.crypto_params(block_cipher_mode=enums.BlockCipherMode.NIST_KEY_WRAP)),
                encoding_option=enums.EncodingOption.NO_ENCODING)
            setup = [
                ('register-wrapping-key', [kdrv.register(OT.SYMMETRIC_KEY, mask=(M.WRAP_KEY, M.ENCRYPT, M.DECRYPT))], {}, None),
                ('activate-wrapping-key', [kdrv.activate('1')], {}, None),
                ('register-key', [kdrv.register(OT.SYMMETRIC_KEY)], {}, None),
                ('register-secret-data', [kdrv.register(OT.SECRET_DATA, mask=(M.EXPORT,))], {}, None),
            ]
            scen += [
                ('get-plain', [kdrv.get('2')], {}, None),
                ('get-wrapped-key', [kdrv.get('2', wrap=wrapspec())], {}, None),
                ('get-wrapped-secret-data', [kdrv.get('3', wrap=wrapspec())], {}, None),
                ('get-wrapped-in-batch', [kdrv.get('2', wrap=wrapspec()), kdrv.get('2')], {}, None),
                ('too-large-multi', [kdrv.query(), kdrv.query()], {'max_size': 64}, None),
                ('too-large-multi-continue', [kdrv.get('999'), kdrv.query(), kdrv.query()],
                 {'max_size': 64, 'batch_option': enums.BatchErrorContinuationOption.CONTINUE}, None),
                ('unencodable-multi', [create(), create()], {}, ('unencodable',)),
            ]
            # client text that is echoed in a result message: every Unicode category that is awkward to print
            for k, text in enumerate(['tab\there', 'line\nbreak', u'nel\u0085x', u'nbsp\u00a0x', u'zwsp\u200bx', u'ls\u2028x', u'ps\u2029x',
                                      u'bom\ufeffx', u'rtl\u202ex', u'acc\u0301ent', u'\u00e9\u00e8', u'\u0416\u0434', u'\U0001f511key',
                                      u'\u212b', u'\u1100\u1161', u'nul\x00x', u'del\x7fx', u'pua\ue000x']):
                scen.append(('echo-text-%d' % k, [kdrv.get(text)], {}, None))
            # a Maximum Response Size at every 8-byte step around the sizes of the replacement answer itself
            for lim in list(range(0, 320, 8)) + [1, 100, 127, 207, 209, 2 ** 31 - 1]:
                scen.append(('limit-%d' % lim, [kdrv.query()], {'max_size': lim}, None))
            for lim in (-1, -2 ** 31):
                scen.append(('limit-negative-%d' % -lim, [kdrv.query()], {'max_size': lim}, None))
            # items addressed through the ID placeholder: the identifier in the answer is filled in by the server
            for nm, follow in (('activate', kdrv.activate(None)), ('revoke', kdrv.revoke(None)), ('destroy', kdrv.destroy(None)),
                               ('get', kdrv.get(None)), ('get-attributes', kdrv.get_attributes(None)),
                               ('get-attribute-list', kdrv.get_attribute_list(None))):
                scen.append(('placeholder-create-' + nm, [create(), follow], {}, None))
                scen.append(('placeholder-register-' + nm, [kdrv.register(OT.SYMMETRIC_KEY), follow], {}, None))
            scen.append(('placeholder-chain', [create(), kdrv.activate(None), kdrv.revoke(None), kdrv.destroy(None)], {}, None))
            rng.shuffle(scen)
            scen = setup + scen + [('create-again', [create()], {}, None)]
            stream = b''
            for name, items, kw, fault in scen:
                stream += sessdrv.encode_request(eng.build(items, version=version, **kw), version)
                proxy.faults.append(fault)
            obs, conn = sessdrv.run_spec(proxy, sessdrv.default_spec(stream, ts=ts), dumps=False)
            frames = obs['frames']
            if len(frames) != len(scen):
                ctx.violation({'path': 'session', 'problem': 'answers != requests'},
                              {'version': version, 'scenarios': [x[0] for x in scen], 'frames': len(frames)},
                              '%d requests on one connection got %d answers' % (len(scen), len(frames)))
            for (name, items, kw, fault), fr in zip(scen, frames):
                n += 1
                ctx.count('session-envelope.%s' % name)
                sent = b''.join(fr['sent'])
                ctx.case_seen(('session-envelope', version, name, sent[:64]), nontrivial=True)
                if (version, name) in sized and int.from_bytes(sent[4:8], 'big') + 8 == sized[(version, name)]:
                    exact += 1          # the FIRST item on the wire has exactly the intended size
                probs, summ = (['no response was sent'], None) if not sent else ttlvparse.envelope_problems(sent, version)
                outcomes.setdefault(name, set()).add(repr(summ['items']) if summ else 'unparsed')
                for pr in probs:
                    bad += 1
                    ctx.violation({'path': 'session', 'scenario': name, 'problem': pr.split(' (')[0][:60]},
                                  {'version': version, 'scenario': name, 'kwargs': repr(kw), 'injected': fault,
                                   'connection': [x[0] for x in scen], 'response': sent.hex()},
                                  'KmipSession answer to a KMIP %d.%d request (%s) violates the envelope: %s' % (version[0], version[1], name, pr))
        finally:
            eng.close()
    if exact < len(sized):
        ctx.notes.append('session envelope: only %d of %d sized answers had exactly the intended size' % (exact, len(sized)))
    ctx.cov['session_envelope'] = {'requests': n, 'versions': len(kdrv.VERSIONS), 'answers_of_exact_intended_size': exact,
                                   'outcomes (status, reason) per scenario': {k: sorted(v) for k, v in sorted(outcomes.items())}}
    ctx.log('session envelope: %d answers of the real KmipSession parsed (%d problems)' % (n, bad))


def _walk_items(bs, pos=0, end=None, out=None):
    """(offset, tag, type, length) of every item of a well-formed encoding, depth first."""
    out = [] if out is None else out
    end = len(bs) if end is None else end
    while pos + 8 <= end:
        tag, typ, ln = int.from_bytes(bs[pos:pos + 3], 'big'), bs[pos + 3], int.from_bytes(bs[pos + 4:pos + 8], 'big')
        out.append((pos, tag, typ, ln))
        if typ == 1:
            _walk_items(bs, pos + 8, pos + 8 + ln, out)
            pos += 8 + ln
        else:
            pos += 8 + ln + (-ln) % 8
    return out


def _noncanonical_variants(req):
    """Requests that differ from a well-formed request in ONE item header or padding byte and keep every enclosing
    length (and the size of the frame) as it is: declared length 8 on a 4-byte type and 4 on an 8-byte type, the type
    byte exchanged for another of the same width, a length that reaches into the padding, padding that is not zero."""
    out = []
    for pos, tag, typ, ln in _walk_items(req):
        def put(label, at, byts):
            m = bytearray(req)
            m[at:at + len(byts)] = byts
            out.append(('%06x@%d:%s' % (tag, pos, label), bytes(m)))
        if typ in (2, 5, 10) and ln == 4:
            put('length-8', pos + 4, (8).to_bytes(4, 'big'))
            put('padding-nonzero', pos + 12, b'\x00\x00\x00\x01')
            for t2 in (2, 5, 10):
                if t2 != typ:
                    put('type-%d' % t2, pos + 3, bytes([t2]))
        elif typ in (3, 6, 9) and ln == 8:
            put('length-4', pos + 4, (4).to_bytes(4, 'big'))
            for t2 in (3, 6, 9):
                if t2 != typ:
                    put('type-%d' % t2, pos + 3, bytes([t2]))
        elif typ in (7, 8):
            if ln % 8:
                put('length+1', pos + 4, (ln + 1).to_bytes(4, 'big'))
                put('padding-nonzero', pos + 8 + ln, b'\x01')
            if ln:
                put('length-1', pos + 4, (ln - 1).to_bytes(4, 'big'))
            put('type-%d' % (15 - typ), pos + 3, bytes([15 - typ]))
    return out


def noncanonical_requests(ctx):
    """Whatever the server answers to a request that is NOT canonical must itself be canonical: the server echoes
    objects it decoded from the request (the protocol version of the header, identifiers, names), and a decoder that
    tolerates a non-canonical item must not hand its form on to the encoder.  One connection per version through the
    real KmipSession: variants of ordinary requests (see _noncanonical_variants), all items of the header and a seeded
    sample of the others, then an ordinary request; every answer is parsed by the independent parser."""
    import kdrv
    import sessdrv
    import ttlvparse
    from kmip.core import enums
    rng = ctx.subrng('noncanonical-requests')
    A, M = enums.CryptographicAlgorithm, enums.CryptographicUsageMask
    per_base = 14 if ctx.tier == 'quick' else 120
    n = bad = accepted = 0
    kinds = {}
    for version in kdrv.VERSIONS:
        eng = kdrv.Engine(workdir=ctx.work)
        try:
            proxy = sessdrv.EngineProxy(eng)
            ts = 1600000000
            bases = [('create', [kdrv.create(A.AES, 256, (M.ENCRYPT, M.DECRYPT))]),
                     ('get-missing', [kdrv.get('no-such-object')]),
                     ('query', [kdrv.query()])]
            scen = []
            for bname, items in bases:
                req = sessdrv.encode_request(eng.build(items, version=version), version)
                vs = _noncanonical_variants(req)
                hdr_end = 8 + 8 + int.from_bytes(req[12:16], 'big')          # end of the request header
                head = [v for v in vs if int(v[0].split('@')[1].split(':')[0]) < hdr_end]
                rest = [v for v in vs if v not in head]
                rng.shuffle(rest)
                for label, byts in head + rest[:per_base]:
                    scen.append((bname + ' ' + label, byts))
            rng.shuffle(scen)
            scen.append(('ordinary create', sessdrv.encode_request(
                eng.build([kdrv.create(A.AES, 128, (M.ENCRYPT,))], version=version), version)))
            for _ in scen:
                proxy.faults.append(None)
            obs, conn = sessdrv.run_spec(proxy, sessdrv.default_spec(b''.join(b for _, b in scen), ts=ts), dumps=False)
            frames = obs['frames']
            if len(frames) != len(scen):
                ctx.violation({'path': 'noncanonical', 'problem': 'answers != requests'},
                              {'version': version, 'requests': [x[0] for x in scen], 'frames': len(frames)},
                              '%d requests on one connection got %d answers' % (len(scen), len(frames)))
            for (name, byts), fr in zip(scen, frames):
                n += 1
                kind = name.split(':')[-1]
                kinds[kind] = kinds.get(kind, 0) + 1
                ctx.count('noncanonical.%s' % kind)
                sent = b''.join(fr['sent'])
                ctx.case_seen(('noncanonical', version, name), nontrivial=True)
                probs, summ = (['no response was sent'], None) if not sent else ttlvparse.envelope_problems(sent, None)
                if summ and summ['items'] and summ['items'][0][0] == 0:
                    accepted += 1
                for pr in probs:
                    bad += 1
                    ctx.violation({'path': 'noncanonical', 'variant': kind, 'problem': pr.split(' (')[0][:60]},
                                  {'version': version, 'request_variant': name, 'request': byts.hex(), 'response': sent.hex()},
                                  'KmipSession answer to a non-canonical KMIP %d.%d request (%s) is not a conformant response: %s'
                                  % (version[0], version[1], name, pr))
        finally:
            eng.close()
    ctx.cov['noncanonical_requests'] = {'requests': n, 'accepted_by_the_server': accepted, 'variants': dict(sorted(kinds.items()))}
    ctx.log('non-canonical requests: %d answers of the real KmipSession parsed (%d problems, %d requests accepted)' % (n, bad, accepted))


_run_prims = run


def run(ctx):
    _run_prims(ctx)
    ctx.cov['rule'] += (' Structures: props/C02E.v instantiates wr_wf at the writer schemas regenerated from the tree; in addition '
                        'every class writes schema-generated and harvested objects and the output is parsed by the independent parser.')
    struct_emission(ctx)
    session_envelope(ctx)
    noncanonical_requests(ctx)
    ctx.cov['rule'] += (' Envelope: seeded random request histories (~70% successes, every error class reachable by the workload, '
                        'request-level errors) on the real engine; every response is encoded and parsed by an independent TTLV '
                        'parser; distinct = distinct (operation, status, reason, message).  The same rule is checked on what the real KmipSession '
                        'puts on the wire for ordinary and message-level-refused requests of every version.')
    ctx.regen(only=['kmiperrors'])
    run_envelope(ctx)


# ---------------------------------------------------------------------- replay
def replay(ctx, payload):
    """Re-run, with the seed and tier recorded in the replay file, the phase that produced the recorded violation and
    report whether the same signature occurs again (exit 1) or not (exit 0).  Broken-tie replays (no concrete input)
    name the theorem / correspondence; they are re-checked by running the whole check."""
    import random
    sig = payload.get('signature')
    ctx.seed = payload.get('seed', ctx.seed)
    ctx.rng = random.Random(ctx.seed)
    ctx.tier = payload.get('tier', ctx.tier)
    if not sig:
        print('replay names no concrete input (%s); re-running the whole check' % (payload.get('no_longer_checks') or payload.get('detail', ''))[:200])
        run(ctx)
        return ctx.finish()
    ctx.regen(only=['enums', 'kmiperrors', 'schemas'])
    if sig.get('what') == 'struct-emission':
        struct_emission(ctx)
    elif sig.get('path') == 'session':
        session_envelope(ctx)
    elif sig.get('path') == 'noncanonical':
        noncanonical_requests(ctx)
    elif 'path' in sig:
        envelope_run(ctx, 400 if ctx.tier == 'quick' else 4000)
    else:
        prim_cases(ctx, 40 if ctx.tier == 'quick' else 400, 6 if ctx.tier == 'quick' else 40)
    from vlib.core import sig_matches
    again = [v for v in ctx.violations if sig_matches(sig, v['signature'])]
    known = [k for k, h in ctx.known_hits.items()]
    if again:
        print('REPRODUCED: %s' % again[0]['what'])
        print('VIOLATION property=C02 replay=%s' % ctx.write_replay(dict(payload, reproduced=True)))
        return 1
    print('not reproduced on this tree (%d other violations, known findings hit: %s)' % (len(ctx.violations), known))
    return 0
