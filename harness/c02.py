"""C02 - emitted bytes are spec-conformant TTLV; responses follow the envelope."""
import prims

HEADER = 'From PK Require Import Base.PrimCases.\nFrom Coq Require Import List ZArith.\nImport ListNotations.\nOpen Scope Z_scope.\n'


def prim_cases(ctx, n_random, n_corrupt_per_kind):
    rng = ctx.subrng('prims')
    cases, meta = [], []
    for kind in prims.PT:
        goods = []
        for v in prims.values_for(kind, rng, n_random):
            cs, r = prims.case_enc(kind, v)
            for c in cs:
                cases.append(c)
                meta.append(('enc', kind, repr(v)[:80], r[0]))
            ctx.count('prim.enc.%s.%s' % (kind, r[0]))
            new = ctx.case_seen(('enc', kind, v), nontrivial=True)
            if r[0] == 'ok' and not (kind == 'PEnum' and v not in prims.ENUM_MEMBERS):
                goods.append(r[1])
                # the implementation must decode its own output to the same value
                d = prims.impl_decode(kind, r[1] + b'\x42\x00\x08')
                if d is None or d[0] != v or d[1] != b'\x42\x00\x08':
                    ctx.violation({'class': kind, 'what': 'roundtrip'}, {'kind': kind, 'value': repr(v), 'decoded': repr(d)},
                                  'primitive %s does not decode its own encoding of %r' % (kind, v))
        picks = goods if len(goods) <= n_corrupt_per_kind else rng.sample(goods, n_corrupt_per_kind)
        for g in picks:
            for bad in prims.corruptions(g, rng):
                c, r = prims.case_dec(kind, bad)
                cases.append(c)
                meta.append(('dec', kind, bad.hex(), 'accept' if r else 'reject'))
                ctx.count('prim.dec.%s.%s' % (kind, 'accept' if r else 'reject'))
                ctx.case_seen(('dec', kind, bad), nontrivial=True)
            c, r = prims.case_dec(kind, g)
            cases.append(c)
            meta.append(('dec', kind, g.hex(), 'accept' if r else 'reject'))
        if kind == 'PText':
            for probe in prims.utf8_probes():
                c, r = prims.case_dec(kind, probe)
                cases.append(c)
                meta.append(('dec', kind, probe.hex(), 'accept' if r else 'reject'))
                ctx.count('prim.dec.PText.utf8probe.%s' % ('accept' if r else 'reject'))
                ctx.case_seen(('dec', kind, probe), nontrivial=True)
    return cases, meta


def run(ctx):
    ctx.cov['rule'] = ('primitives: every boundary value (2^k, 2^k+-1 for k in 7..192, 0, +-1), all string/byte lengths 0..40, '
                       'seeded random values; decoders on valid encodings with every truncation and single-field corruption. '
                       'A case is non-trivial when distinct after canonicalisation (kind, value or byte string).')
    ctx.regen(only=['enums', 'kmiperrors'])
    ctx.prove('props/C02.v')
    quick = ctx.tier == 'quick'
    cases, meta = prim_cases(ctx, 40 if quick else 400, 6 if quick else 40)
    bad = ctx.run_cases('prims', HEADER, cases, 'check_pcase', what='enc_prim/dec_prim/validate_prim vs kmip.core.primitives')
    for i in bad[:20]:
        ctx.disagreement('prims', {'case': meta[i], 'coq': cases[i][:400]})
    ctx.sample({'primitive_case': cases[0]})
    ctx.sample({'primitive_case': cases[len(cases) // 2][:300]})


# ---------------------------------------------------------------------- response envelope
ENV_HEADER = ('From PK Require Import Codec.Envelope.\nFrom Coq Require Import List ZArith String.\n'
              'Import ListNotations.\nOpen Scope Z_scope.\nOpen Scope string_scope.\n')


def _coq_str(s):
    from vlib import coqprint as cp
    try:
        return cp.string(s)
    except ValueError:
        return None


def envelope_run(ctx, n_requests):
    """Drive the real engine, record what _process_operation raised per item, compare the composed
    result item with the model (Coq), and check the encoded response against the envelope with the
    independent parser (direct oracle)."""
    import random
    import kdrv
    import workload
    import ttlvparse
    from kmip.core import enums, utils, exceptions as kexc
    from vlib import coqprint as cp
    rng = ctx.subrng('envelope')
    eng = kdrv.Engine(workdir=ctx.work)
    st = workload.State()
    raised = []
    orig = eng.engine._process_operation

    def spy(operation, payload):
        try:
            r = orig(operation, payload)
            raised.append(('ok',))
            return r
        except kexc.KmipError as e:
            raised.append(('kmip', e.status.value, e.reason.value, str(e)))
            raise
        except Exception as e:
            raised.append(('other', type(e).__name__))
            raise
    eng.engine._process_operation = spy
    cases, meta = [], []
    try:
        for k in range(n_requests):
            items, kw, desc = workload.gen_request(rng, st)
            eng.clock.t += rng.choice([0, 0, 1, 5])
            del raised[:]
            user, groups = kw.pop('user'), kw.pop('groups')
            version = kw.get('version', (1, 2))
            try:
                req = eng.build(items, **kw)
            except Exception as e:      # a request the library refuses to construct is not a server response
                ctx.count('envelope.unbuildable')
                continue
            resp = eng.process(req, user, groups)
            workload.note_result(st, resp)
            if resp['error'] is not None:
                # the session answers request-level KMIP errors through build_error_response
                ctx.count('envelope.request_error.' + resp['error']['reason'])
                from kmip.core.messages import contents
                msg = eng.engine.build_error_response(contents.ProtocolVersion(*version),
                                                      enums.ResultReason[resp['error']['reason']], resp['error']['message'])
                s = utils.BytearrayStream()
                msg.write(s)
                probs, _ = ttlvparse.envelope_problems(s.buffer, version)
                ctx.case_seen(('reqerr', resp['error']['reason'], version))
                for p in probs:
                    ctx.violation({'path': 'build_error_response', 'problem': p.split(' (')[0][:60]},
                                  {'request': desc, 'kwargs': repr(kw), 'bytes': bytes(s.buffer).hex()},
                                  'error response violates the envelope: ' + p)
                continue
            s = utils.BytearrayStream()
            try:
                resp['raw'].write(s, kmip_version=enums.KMIPVersion['KMIP_%d_%d' % version])
            except Exception as e:
                # what the session does since /repo commit d6c2cec: answer with an error response
                ctx.count('envelope.unencodable_response_replaced.' + '/'.join(sorted(set(desc))))
                from kmip.core.messages import contents
                msg = eng.engine.build_error_response(resp['raw'].response_header.protocol_version,
                                                      enums.ResultReason.GENERAL_FAILURE,
                                                      'An unexpected error occurred while encoding the response. See server logs for more information.')
                s = utils.BytearrayStream()
                msg.write(s, kmip_version=enums.KMIPVersion['KMIP_%d_%d' % version])
                probs, _ = ttlvparse.envelope_problems(s.buffer, version)
                for p in probs:
                    ctx.violation({'path': 'encode-failure-replacement', 'problem': p.split(' (')[0][:60]},
                                  {'request': desc, 'kwargs': repr(kw)}, 'replacement response violates the envelope: ' + p)
                continue
            probs, summ = ttlvparse.envelope_problems(s.buffer, version)
            for p in probs:
                ctx.violation({'path': 'process_request', 'problem': p.split(' (')[0][:60], 'ops': '/'.join(sorted(set(desc)))},
                              {'request': desc, 'kwargs': repr(kw), 'bytes': bytes(s.buffer).hex()},
                              'response violates the envelope: ' + p)
            # one result per processed item, in order
            if len(resp['items']) != len(raised):
                ctx.violation({'path': 'process_request', 'problem': 'results != processed items'},
                              {'request': desc, 'kwargs': repr(kw)}, 'number of results differs from the number of processed items')
            for it, ra in zip(resp['items'], raised):
                ctx.count('envelope.item.%s.%s' % (it['op'], it['reason'] or 'SUCCESS'))
                nontrivial = ctx.case_seen(('item', it['op'], it['status'], it['reason'], it['message']))
                if ra[0] == 'ok':
                    o = 'OSuccess'
                elif ra[0] == 'kmip':
                    m = _coq_str(ra[3])
                    if m is None:
                        continue
                    o = '(OKmipError %s %s %s)' % (cp.z(ra[1]), cp.z(ra[2]), m)
                else:
                    o = 'OOther'
                rm = None if it['message'] is None else _coq_str(it['message'])
                if it['message'] is not None and rm is None:
                    continue
                st_v = enums.ResultStatus[it['status']].value
                rs_v = enums.ResultReason[it['reason']].value if it['reason'] else None
                cases.append('ECase %s %s %s %s' % (o, cp.z(st_v), cp.option(rs_v, cp.z), 'None' if rm is None else '(Some %s)' % rm))
                meta.append((desc, it['op'], it['status'], it['reason'], it['message'], ra))
    finally:
        eng.close()
    return cases, meta


def run_envelope(ctx):
    quick = ctx.tier == 'quick'
    cases, meta = envelope_run(ctx, 400 if quick else 4000)
    bad = ctx.run_cases('envelope', ENV_HEADER, cases, 'check_ecase',
                        what='compose (Envelope.v) vs the result items built by KmipEngine._process_batch')
    for i in bad[:20]:
        ctx.disagreement('envelope', {'case': repr(meta[i])[:500], 'coq': cases[i][:300]})
    if cases:
        ctx.sample({'envelope_case': cases[0], 'request': repr(meta[0][0])})


_run_prims = run


def run(ctx):
    _run_prims(ctx)
    ctx.cov['rule'] += (' Envelope: seeded random request histories (~70% successes, every error class reachable by the workload, '
                        'request-level errors) on the real engine; every response is encoded and parsed by an independent TTLV '
                        'parser; distinct = distinct (operation, status, reason, message).')
    ctx.regen(only=['kmiperrors'])
    run_envelope(ctx)
