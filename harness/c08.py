"""C08 - batch results are complete and failed items leave no trace.

regenerate (nothing to translate) -> prove props/C08.v -> correspondence K (Batch/Store.v model vs the real
KmipEngine on generated batches, Coq compares) -> direct oracles on the implementation alone.

An abstract request is  {'ver', 'ts' (offset to now or None), 'async', 'opt', 'order', 'user', 'items': [item]}
an abstract item is     {'op': Operation name, 'bid': hex | None, 'b': body tuple}      (body tuples: see coq_body)
"""
import copy
import datetime
import json
import logging
import shutil
import sqlite3
from pathlib import Path

import kdrv
from kdrv import enums, OP, OT, AT, payloads, primitives
from vlib import coqprint as cp

HEADER = ('From PK Require Import Batch.Cases.\nFrom Coq Require Import List ZArith.\n'
          'Import ListNotations.\nOpen Scope Z_scope.\n')
SHEADER = HEADER.replace('Batch.Cases', 'Batch.SessionCases')
USERS = {'alice': 1, 'bob': 2}
BEO = enums.BatchErrorContinuationOption
OPTS = {None: None, 'CONTINUE': BEO.CONTINUE, 'STOP': BEO.STOP, 'UNDO': BEO.UNDO}
OPT_Z = {None: None, 'CONTINUE': 1, 'STOP': 2, 'UNDO': 3}
ERRS = {'NoResponse': 'ENoResponse', 'Response message length too large': 'ETooLarge', 'KMIP': 'EVersion', 'Future': 'EFuture', 'Stale': 'EStale', 'Asynchronous': 'EAsync', 'Undo': 'EUndo', 'Batch item ID': 'ENoBid'}
ATTR_NAMES = {'AName': 'Name', 'AGroup': 'Object Group', 'ASens': 'Sensitive', 'AAlg': 'Cryptographic Algorithm', 'AUnknown': 'Bogus Attribute'}
ATTR_TAGS = {'AName': 'NAME', 'AGroup': 'OBJECT_GROUP', 'ASens': 'SENSITIVE', 'AAlg': 'CRYPTOGRAPHIC_ALGORITHM'}
AES = enums.CryptographicAlgorithm.AES
ID_LESS_KINDS = ('get', 'activate', 'revoke', 'destroy', 'modify', 'set', 'delete')
RAW_PLACEHOLDER_USERS = {'encrypt_placeholder', 'get_wrapped_placeholder', 'get_attribute_list_placeholder'}
READ_ONLY_OPS = {'GET', 'GET_ATTRIBUTES', 'GET_ATTRIBUTE_LIST', 'LOCATE', 'QUERY', 'DISCOVER_VERSIONS', 'ENCRYPT', 'DECRYPT', 'SIGN',
                 'SIGNATURE_VERIFY', 'MAC', 'CHECK'}


# ---------------------------------------------------------------------------------------------- abstract -> real
def uid_s(t):
    return None if t is None else str(t)


def attr_v1(a, idx, v):
    if a == 'AName':
        return kdrv.attr(AT.NAME, kdrv.name_value('n%d' % v), idx)
    if a == 'AGroup':
        return kdrv.attr(AT.OBJECT_GROUP, 'g%d' % v, idx)
    if a == 'ASens':
        return kdrv.attr(AT.SENSITIVE, bool(v), idx)
    if a == 'AAlg':
        return kdrv.attr(AT.CRYPTOGRAPHIC_ALGORITHM, AES, idx)
    return kdrv.raw_attr(ATTR_NAMES[a], primitives.TextString('x', tag=enums.Tags.ATTRIBUTE_VALUE), idx)


def attr_v2(a, v):
    if a == 'AName':
        return kdrv.attr_value('NAME', kdrv.name_value('n%d' % v))
    if a == 'AGroup':
        return kdrv.attr_value('OBJECT_GROUP', 'g%d' % v)
    if a == 'ASens':
        return kdrv.attr_value('SENSITIVE', bool(v))
    if a == 'AAlg':
        return kdrv.attr_value('CRYPTOGRAPHIC_ALGORITHM', AES)
    raise ValueError('no KMIP 2.0 form for %s' % a)


def build_payload(item, ver):
    """Real request payload of an abstract item under protocol version `ver`."""
    b = item['b']
    k = b[0]
    v2 = tuple(ver) >= (2, 0)
    if k == 'create':
        _, sym, unsup, has_alg, has_len, has_mask, len_ok, names, groups, sens = b
        attrs = []
        if has_alg:
            attrs.append(kdrv.attr(AT.CRYPTOGRAPHIC_ALGORITHM, AES))
        if has_len:
            attrs.append(kdrv.attr(AT.CRYPTOGRAPHIC_LENGTH, 256 if len_ok else 100))
        if has_mask:
            attrs.append(kdrv.attr(AT.CRYPTOGRAPHIC_USAGE_MASK, list(kdrv.ENC_DEC)))
        for i, n in enumerate(names):
            attrs.append(kdrv.attr(AT.NAME, kdrv.name_value('n%d' % n), None if v2 else i))     # KMIP 2.0 attributes carry no index
        for i, g in enumerate(groups):
            attrs.append(kdrv.attr(AT.OBJECT_GROUP, 'g%d' % g, None if v2 else i))
        if sens is not None:
            attrs.append(kdrv.attr(AT.SENSITIVE, bool(sens)))
        if unsup:
            attrs.append(kdrv.attr(AT.ACTIVATION_DATE, 5))
        return payloads.CreateRequestPayload(object_type=(OT.SYMMETRIC_KEY if sym else OT.PUBLIC_KEY),
                                             template_attribute=kdrv.template(attrs))
    if k == 'register':
        _, kind, unsup, inap, names, groups = b
        otype = OT(kind)
        attrs = []
        if otype != OT.OPAQUE_DATA and otype != OT.TEMPLATE:
            attrs.append(kdrv.attr(AT.CRYPTOGRAPHIC_USAGE_MASK, list(kdrv.ENC_DEC)))
        for i, n in enumerate(names):
            attrs.append(kdrv.attr(AT.NAME, kdrv.name_value('n%d' % n), None if v2 else i))
        for i, g in enumerate(groups):
            attrs.append(kdrv.attr(AT.OBJECT_GROUP, 'g%d' % g, None if v2 else i))
        if unsup:
            attrs.append(kdrv.attr(AT.ACTIVATION_DATE, 5))
        if inap:
            assert kind in (7, 8)
            attrs.append(kdrv.attr(AT.CRYPTOGRAPHIC_ALGORITHM, AES))
        secret = kdrv.secret_for(OT.SYMMETRIC_KEY if otype == OT.TEMPLATE else otype)
        return payloads.RegisterRequestPayload(object_type=otype, template_attribute=kdrv.template(attrs), managed_object=secret)
    if k == 'get':
        u = uid_s(b[1])
        if item['op'] == 'GET':
            return payloads.GetRequestPayload(unique_identifier=u)
        if item['op'] == 'GET_ATTRIBUTES':
            return payloads.GetAttributesRequestPayload(unique_identifier=u)
        return payloads.GetAttributeListRequestPayload(unique_identifier=u)
    if k == 'activate':
        return kdrv.activate(uid_s(b[1]))[1]
    if k == 'revoke':
        code = enums.RevocationReasonCode.KEY_COMPROMISE if b[2] else enums.RevocationReasonCode.CESSATION_OF_OPERATION
        return kdrv.revoke(uid_s(b[1]), code=code)[1]
    if k == 'destroy':
        return kdrv.destroy(uid_s(b[1]))[1]
    if k == 'modify':
        _, t, a, idx, v = b
        if v2:
            return kdrv.modify_attribute_v2(uid_s(t), attr_v2(a, v))[1]
        return kdrv.modify_attribute_v1(uid_s(t), attr_v1(a, idx, v))[1]
    if k == 'set':
        _, t, a, v = b
        return kdrv.set_attribute(uid_s(t), attr_v2(a, v))[1]
    if k == 'delete':
        _, t, a, idx = b
        if v2:
            return kdrv.delete_attribute_v2(uid_s(t), reference=kdrv.attr_ref2(ATTR_NAMES[a]))[1]
        return kdrv.delete_attribute_v1(uid_s(t), ATTR_NAMES[a], idx)[1]
    if k == 'readonly':
        if item['op'] == 'QUERY':
            return kdrv.query()[1]
        if item['op'] == 'DISCOVER_VERSIONS':
            return kdrv.discover_versions()[1]
        return kdrv.locate()[1]
    if k == 'unsupported':
        return None
    if k in ('raw', 'oracle_ro', 'oracle_kp', 'oracle_derive'):
        return RAW[b[1]]()[1]
    raise KeyError(k)


def expressible(item, ver):
    """AUnknown has no KMIP 2.0 payload form for Modify/Set (attributes are addressed by tag there)."""
    b = item['b']
    if b[0] == 'set' and b[2] == 'AUnknown':
        return False
    if b[0] == 'modify' and b[2] == 'AUnknown' and tuple(ver) >= (2, 0):
        return False
    return True


def build_items(req):
    return [(OP[it['op']], build_payload(it, req['ver']), bytes.fromhex(it['bid']) if it['bid'] is not None else None)
            for it in req['items']]


# ---------------------------------------------------------------------------------------------- abstract -> Coq
def cz(n):
    return str(int(n)) if int(n) >= 0 else '(%d)' % int(n)


def czl(l):
    return '[' + ';'.join(cz(x) for x in l) + ']'


def copt(x, pr=cz):
    return 'None' if x is None else '(Some %s)' % pr(x)


def cb(b):
    return 'true' if b else 'false'


def coq_body(b, ok=False):
    k = b[0]
    if k == 'oracle_ro':
        return '(BOpaqueRO %s)' % cb(ok)
    if k == 'oracle_kp':
        pn, vn = RAW_KEYPAIR_NAMES.get(b[1], ([], []))
        return '(BKeyPair %s %s %s)' % (cb(ok), czl(pn), czl(vn))
    if k == 'oracle_derive':
        return '(BDerive %s %d [])' % (cb(ok), 7 if 'secret_data' in b[1] else 2)
    if k == 'create':
        _, sym, unsup, a, l, m, lok, names, groups, sens = b
        return '(BCreate %s %s %s %s %s %s %s %s %s)' % (cb(sym), cb(unsup), cb(a), cb(l), cb(m), cb(lok), czl(names), czl(groups), copt(sens, cb))
    if k == 'register':
        _, kind, unsup, inap, names, groups = b
        return '(BRegister %s %s %s %s %s)' % (cz(kind), cb(unsup), cb(inap), czl(names), czl(groups))
    if k == 'get':
        return '(BGet %s)' % copt(b[1])
    if k == 'activate':
        return '(BActivate %s)' % copt(b[1])
    if k == 'revoke':
        return '(BRevoke %s %s)' % (copt(b[1]), cb(b[2]))
    if k == 'destroy':
        return '(BDestroy %s)' % copt(b[1])
    if k == 'modify':
        return '(BModify %s %s %s %s)' % (copt(b[1]), b[2], copt(b[3]), cz(b[4]))
    if k == 'set':
        return '(BSet %s %s %s)' % (copt(b[1]), b[2], cz(b[3]))
    if k == 'delete':
        return '(BDelete %s %s %s)' % (copt(b[1]), b[2], copt(b[3]))
    if k == 'readonly':
        return '(BReadOnly (1,%d))' % b[1]
    if k == 'unsupported':
        return 'BUnsupported'
    raise KeyError(k)


def coq_bid(h):
    return 'None' if h is None else '(Some %s)' % czl(bytes.fromhex(h))


def coq_item(it, ok=False):
    return '(Build_item %d %s %s)' % (OP[it['op']].value, coq_bid(it['bid']), coq_body(it['b'], ok))


def coq_items(req, obs):
    """Items as Coq terms; an oracle item carries the success flag the implementation reported for it.  Under the
    RESPONSE_TOO_LARGE substitution the per-item answers are lost: the trace tells how many items ran, not how."""
    oks = [r['ok'] for r in obs['results']]
    return '; '.join(coq_item(i, oks[k] if k < len(oks) else False) for k, i in enumerate(req['items']))


def coq_store(st):
    objs = '; '.join('(Build_obj %s %s %s %s %s %s %s)' % (cz(o['uid']), cz(o['owner']), cz(o['kind']), cz(o['state']),
                                                           czl(o['names']), czl(o['groups']), cb(o['sens'])) for o in st['objs'])
    return '(Build_store [%s] %s)' % (objs, cz(st['next']))


def coq_header(req, now):
    ts = None if req['ts'] is None else now + req['ts']
    return '(Build_header (%s,%s) %s %s %s %s %s %s)' % (cz(req['ver'][0]), cz(req['ver'][1]), cz(now), copt(ts), copt(req['async'], cb),
                                                         copt(OPT_Z[req['opt']]), copt(req['order'], cb), cz(USERS[req['user']]))


def coq_case(pre, req, now, obs):
    res = '; '.join('(%d, %s, %s)' % (OP[r['op']].value, coq_bid(r['bid']), cb(r['ok'])) for r in obs['results'])
    tr = '; '.join('(%s, %s, %s)' % (cb(c), cb(d), copt(p)) for c, d, p in obs['trace'])
    count = (obs.get('envelope') or {}).get('count')
    return '(Build_kcase %s %s [%s] %s [%s] %s [%s] %s)' % (
        coq_store(pre), coq_header(req, now), coq_items(req, obs),
        copt(obs['err'], str), res, cz(count if count is not None else 0), tr, coq_store(obs['final']))


def coq_scase(pre, req, now, obs, max_size):
    if obs['err'] == 'ETooLarge':
        ans = 'OTooLarge'
    elif obs['err'] == 'ENoResponse':
        ans = '(OResults [(0, None, false); (0, None, false); (0, None, false); (0, None, false); (0, None, false)])'   # no model answer looks like this
    elif obs['err'] is not None:
        ans = '(OError %s)' % obs['err']
    else:
        ans = '(OResults [%s])' % '; '.join('(%d, %s, %s)' % (OP[r['op']].value, coq_bid(r['bid']), cb(r['ok'])) for r in obs['results'])
    return '(Build_scase %s %s [%s] %s %s %s %s)' % (
        coq_store(pre), coq_header(req, now), coq_items(req, obs),
        copt(max_size), cz(obs['size'] or 0), ans, coq_store(obs['final']))


# ---------------------------------------------------------------------------------------------- items outside the model
# Operations and parameter shapes the Gallina model does not cover.  They take part in batches that are judged by the
# direct oracle only (failed item => store unchanged; complete, ordered, echoed results; twin run without the failed items).
def _asi(ns, data):
    return {'application_namespace': ns, 'application_data': data}


def _cp(**kw):
    return kdrv.crypto_params(**kw)


E = enums


def _dparams():
    return kdrv.cattrs.DerivationParameters(cryptographic_parameters=_cp(hashing_algorithm=E.HashingAlgorithm.SHA_256), derivation_data=b'x')


def _wrap_spec(key_uid, encoding=None, names=None):
    return kdrv.cobjects.KeyWrappingSpecification(
        wrapping_method=E.WrappingMethod.ENCRYPT,
        encryption_key_information=kdrv.cobjects.EncryptionKeyInformation(
            unique_identifier=key_uid, cryptographic_parameters=_cp(block_cipher_mode=E.BlockCipherMode.NIST_KEY_WRAP)),
        encoding_option=(encoding or E.EncodingOption.NO_ENCODING), attribute_names=names)


RAW = {
    'ckp': lambda: kdrv.create_key_pair(),
    'ckp_no_private_mask': lambda: kdrv.create_key_pair(private=[]),
    'ckp_bad_length': lambda: kdrv.create_key_pair(length=1000),
    'ckp_dup_private_names': lambda: kdrv.create_key_pair(private=[kdrv.attr(AT.CRYPTOGRAPHIC_USAGE_MASK, [E.CryptographicUsageMask.SIGN]),
                                                                    kdrv.attr(AT.NAME, kdrv.name_value('q1'), 0), kdrv.attr(AT.NAME, kdrv.name_value('q1'), 1)]),
    'ckp_private_sensitive_twice': lambda: kdrv.create_key_pair(private=[kdrv.attr(AT.CRYPTOGRAPHIC_USAGE_MASK, [E.CryptographicUsageMask.SIGN]),
                                                                          kdrv.attr(AT.OPERATION_POLICY_NAME, 'default')],
                                                                 common=[kdrv.attr(AT.CRYPTOGRAPHIC_ALGORITHM, E.CryptographicAlgorithm.RSA),
                                                                         kdrv.attr(AT.CRYPTOGRAPHIC_LENGTH, 1024), kdrv.attr(AT.OPERATION_POLICY_NAME, 'public')]),
    'ckp_named': lambda: kdrv.create_key_pair(public=[kdrv.attr(AT.CRYPTOGRAPHIC_USAGE_MASK, [E.CryptographicUsageMask.VERIFY]), kdrv.attr(AT.NAME, kdrv.name_value('n95'), 0)],
                                              private=[kdrv.attr(AT.CRYPTOGRAPHIC_USAGE_MASK, [E.CryptographicUsageMask.SIGN]), kdrv.attr(AT.NAME, kdrv.name_value('n96'), 0)]),
    'ckp_dup_public_names': lambda: kdrv.create_key_pair(public=[kdrv.attr(AT.CRYPTOGRAPHIC_USAGE_MASK, [E.CryptographicUsageMask.VERIFY]),
                                                                  kdrv.attr(AT.NAME, kdrv.name_value('p1'), 0), kdrv.attr(AT.NAME, kdrv.name_value('p1'), 1)]),
    'derive_no_mask': lambda: kdrv.derive_key(['2'], method=E.DerivationMethod.HMAC, params=_dparams()),
    'derive_missing': lambda: kdrv.derive_key(['99'], method=E.DerivationMethod.HMAC, params=_dparams()),
    'derive_ok': lambda: kdrv.derive_key(['10'], method=E.DerivationMethod.HMAC, params=_dparams()),
    'derive_hash_both': lambda: kdrv.derive_key(['10'], params=_dparams()),
    'derive_no_params': lambda: kdrv.derive_key(['10'], method=E.DerivationMethod.HMAC, params=kdrv.cattrs.DerivationParameters(derivation_data=b'x')),
    'derive_bad_length': lambda: kdrv.derive_key(['10'], method=E.DerivationMethod.HMAC, params=_dparams(), attrs=kdrv.sym_attrs(AES, 100, kdrv.ENC_DEC)),
    'derive_too_long': lambda: kdrv.derive_key(['10'], method=E.DerivationMethod.HMAC, params=_dparams(), attrs=kdrv.sym_attrs(AES, 4096, kdrv.ENC_DEC)),
    'derive_dup_names': lambda: kdrv.derive_key(['10'], method=E.DerivationMethod.HMAC, params=_dparams(),
                                                attrs=kdrv.sym_attrs(AES, 128, kdrv.ENC_DEC, names=['d', 'd'])),
    'derive_secret_data': lambda: kdrv.derive_key(['10'], method=E.DerivationMethod.HMAC, params=_dparams(), otype=OT.SECRET_DATA,
                                                  attrs=[kdrv.attr(AT.CRYPTOGRAPHIC_LENGTH, 128), kdrv.attr(AT.CRYPTOGRAPHIC_USAGE_MASK, list(kdrv.ENC_DEC))]),
    'derive_secret_data_with_alg': lambda: kdrv.derive_key(['10'], method=E.DerivationMethod.HMAC, params=_dparams(), otype=OT.SECRET_DATA),
    'encrypt_ok': lambda: kdrv.encrypt('2', _cp(block_cipher_mode=E.BlockCipherMode.CBC, padding_method=E.PaddingMethod.PKCS5,
                                               cryptographic_algorithm=AES), b'data', b'\x01' * 16),
    'encrypt_preactive': lambda: kdrv.encrypt('1', _cp(block_cipher_mode=E.BlockCipherMode.CBC, padding_method=E.PaddingMethod.PKCS5,
                                                     cryptographic_algorithm=AES), b'data', b'\x01' * 16),
    'encrypt_placeholder': lambda: kdrv.encrypt(None, _cp(block_cipher_mode=E.BlockCipherMode.CBC, padding_method=E.PaddingMethod.PKCS5,
                                                        cryptographic_algorithm=AES), b'data', b'\x01' * 16),
    'encrypt_bad_params': lambda: kdrv.encrypt('2', _cp(block_cipher_mode=E.BlockCipherMode.CBC), b'data', b'\x01' * 3),
    'decrypt_garbage': lambda: kdrv.decrypt('2', _cp(block_cipher_mode=E.BlockCipherMode.CBC, padding_method=E.PaddingMethod.PKCS5,
                                                   cryptographic_algorithm=AES), b'\x00' * 16, b'\x01' * 16),
    'sign_symmetric': lambda: kdrv.sign('2', _cp(hashing_algorithm=E.HashingAlgorithm.SHA_256), b'data'),
    'sigver_missing': lambda: kdrv.signature_verify('99', None, b'd', b's'),
    'mac_no_mask': lambda: kdrv.mac('2', _cp(cryptographic_algorithm=E.CryptographicAlgorithm.HMAC_SHA256), b'data'),
    'mac_opaque': lambda: kdrv.mac('3', _cp(cryptographic_algorithm=E.CryptographicAlgorithm.HMAC_SHA256), b'data'),
    'locate_all': lambda: kdrv.locate(),
    'locate_name': lambda: kdrv.locate([kdrv.attr(AT.NAME, kdrv.name_value('n1'))]),
    'locate_state': lambda: kdrv.locate([kdrv.attr(AT.STATE, E.State.ACTIVE)]),
    'locate_bad_offset': lambda: kdrv.locate(offset=50, maximum=1),
    'get_wrapped_missing_key': lambda: kdrv.get('1', wrap=kdrv.cobjects.KeyWrappingSpecification(
        wrapping_method=E.WrappingMethod.ENCRYPT,
        encryption_key_information=kdrv.cobjects.EncryptionKeyInformation(
            unique_identifier='99', cryptographic_parameters=_cp(block_cipher_mode=E.BlockCipherMode.NIST_KEY_WRAP)))),
    'get_wrapped_ok': lambda: kdrv.get('1', wrap=_wrap_spec('12')),
    'get_wrapped_placeholder': lambda: kdrv.get(None, wrap=_wrap_spec('12')),
    'get_wrapped_key_not_active': lambda: kdrv.get('1', wrap=_wrap_spec('1')),
    'get_wrapped_no_mask': lambda: kdrv.get('1', wrap=_wrap_spec('2')),
    'get_wrapped_bad_encoding': lambda: kdrv.get('1', wrap=_wrap_spec('12', encoding=E.EncodingOption.TTLV_ENCODING)),
    'get_wrapped_attr_names': lambda: kdrv.get('1', wrap=_wrap_spec('12', names=['Name'])),
    'get_bad_format': lambda: kdrv.get('1', fmt=E.KeyFormatType.PKCS_8),
    'get_compressed': lambda: kdrv.get('1', compression=E.KeyCompressionType.EC_PUBLIC_KEY_TYPE_UNCOMPRESSED),
    'register_certificate': lambda: kdrv.register(OT.CERTIFICATE),
    'register_public_key': lambda: kdrv.register(OT.PUBLIC_KEY, names=['pk']),
    'register_private_key': lambda: kdrv.register(OT.PRIVATE_KEY),
    'register_split_key': lambda: kdrv.register(OT.SPLIT_KEY),
    'register_with_asi': lambda: kdrv.register(OT.SYMMETRIC_KEY, attrs=[kdrv.attr(AT.CRYPTOGRAPHIC_USAGE_MASK, list(kdrv.ENC_DEC)),
                                                                         kdrv.attr(AT.APPLICATION_SPECIFIC_INFORMATION, _asi('ns', 'd1'), 0)]),
    'register_policy_name': lambda: kdrv.register(OT.SYMMETRIC_KEY, attrs=[kdrv.attr(AT.OPERATION_POLICY_NAME, 'public')]),
    'register_two_masks': lambda: kdrv.register(OT.SYMMETRIC_KEY, attrs=[kdrv.attr(AT.CRYPTOGRAPHIC_USAGE_MASK, list(kdrv.ENC_DEC)),
                                                                          kdrv.attr(AT.CRYPTOGRAPHIC_USAGE_MASK, [E.CryptographicUsageMask.SIGN])]),
    'register_index_gap': lambda: kdrv.register(OT.SYMMETRIC_KEY, attrs=[kdrv.attr(AT.NAME, kdrv.name_value('a1')), kdrv.attr(AT.NAME, kdrv.name_value('a2'))]),
    'create_with_asi': lambda: kdrv.create(extra=[kdrv.attr(AT.APPLICATION_SPECIFIC_INFORMATION, _asi('ns', 'd2'), 0)], names=['wa']),
    'create_wrong_alg_length': lambda: kdrv.create(alg=E.CryptographicAlgorithm.TRIPLE_DES, length=256),
    'create_template_name': lambda: (OP.CREATE, payloads.CreateRequestPayload(object_type=OT.SYMMETRIC_KEY, template_attribute=kdrv.cobjects.TemplateAttribute(
        names=[kdrv.cattrs.Name.create('tmpl', E.NameType.UNINTERPRETED_TEXT_STRING)], attributes=kdrv.sym_attrs(AES, 256, kdrv.ENC_DEC)))),
    'modify_asi_v1': lambda: kdrv.modify_attribute_v1('11', kdrv.attr(AT.APPLICATION_SPECIFIC_INFORMATION, _asi('ns2', 'd3'), 0)),
    'modify_asi_v1_out_of_range': lambda: kdrv.modify_attribute_v1('11', kdrv.attr(AT.APPLICATION_SPECIFIC_INFORMATION, _asi('ns2', 'd3'), 4)),
    'modify_link_v1': lambda: kdrv.modify_attribute_v1('1', kdrv.raw_attr('Link', primitives.TextString('x', tag=E.Tags.ATTRIBUTE_VALUE))),
    'modify_state_v1': lambda: kdrv.modify_attribute_v1('1', kdrv.attr(AT.STATE, E.State.ACTIVE)),
    'modify_name_v2_match': lambda: kdrv.modify_attribute_v2('9', kdrv.attr_value('NAME', kdrv.name_value('n31')), kdrv.attr_value('NAME', kdrv.name_value('n8'))),
    'modify_name_v2_mismatch': lambda: kdrv.modify_attribute_v2('9', kdrv.attr_value('NAME', kdrv.name_value('n32')), kdrv.attr_value('NAME', kdrv.name_value('zz'))),
    'modify_group_v2_match': lambda: kdrv.modify_attribute_v2('7', kdrv.attr_value('OBJECT_GROUP', 'g33'), kdrv.attr_value('OBJECT_GROUP', 'g3')),
    'modify_sens_v2_current_mismatch': lambda: kdrv.modify_attribute_v2('1', kdrv.attr_value('SENSITIVE', True), kdrv.attr_value('SENSITIVE', True)),
    'delete_name_v2_value': lambda: kdrv.delete_attribute_v2('9', kdrv.attr_value('NAME', kdrv.name_value('n7'))),
    'delete_name_v2_value_missing': lambda: kdrv.delete_attribute_v2('9', kdrv.attr_value('NAME', kdrv.name_value('zz'))),
    'delete_v2_nothing': lambda: kdrv.delete_attribute_v2('9'),
    'delete_asi_v1': lambda: kdrv.delete_attribute_v1('11', 'Application Specific Information', 0),
    'delete_noname_v1': lambda: kdrv.delete_attribute_v1('1', None),
    'get_attribute_list_placeholder': lambda: kdrv.get_attribute_list(),
    'discover_versions_list': lambda: kdrv.discover_versions([(1, 2), (9, 9)]),
    'query_all': lambda: kdrv.query(list(E.QueryFunction)[:6]),
}
# ---- every optional request field of the state-changing operations at extreme values (dates, indices, texts, identifiers)
EXTREME_DATES = [0, 1, -1, 2 ** 31 - 1, 2 ** 31, 2 ** 32, 2 ** 55, 2 ** 56, 2 ** 62, 2 ** 63 - 1, -2 ** 31, -2 ** 55, -2 ** 63]
EXTREME_INDICES = [2 ** 31 - 1, -2 ** 31, 2 ** 16]
EXTREME_TEXTS = {'empty': '', 'long': 'x' * 300, 'huge': 'y' * 2500}
EXTREME_UIDS = {'zero': '0', 'minus': '-1', 'beyond_int64': '99999999999999999999999', 'int64_max': str(2 ** 63 - 1), 'long_text': 'z' * 400,
                'spaces': ' 1 ', 'float': '1e0'}
KC = E.RevocationReasonCode.KEY_COMPROMISE


def _extreme(name, fn):
    RAW['x_' + name] = fn


for _d in EXTREME_DATES:
    _extreme('revoke_compromise_date_%d' % _d, lambda d=_d: kdrv.revoke('1', code=KC, date=d))
    _extreme('revoke_deactivate_date_%d' % _d, lambda d=_d: kdrv.revoke('2', date=d))
    _extreme('revoke_placeholder_date_%d' % _d, lambda d=_d: kdrv.revoke(None, code=KC, date=d))
for _k, _t in EXTREME_TEXTS.items():
    _extreme('revoke_message_' + _k, lambda t=_t: kdrv.revoke('2', message=t))
    _extreme('revoke_compromise_message_' + _k, lambda t=_t: kdrv.revoke('1', code=KC, message=t, date=5))
    _extreme('create_name_' + _k, lambda t=_t: kdrv.create(names=[t]))
    _extreme('create_group_' + _k, lambda t=_t: kdrv.create(extra=[kdrv.attr(AT.OBJECT_GROUP, t, 0)]))
    _extreme('create_policy_' + _k, lambda t=_t: kdrv.create(extra=[kdrv.attr(AT.OPERATION_POLICY_NAME, t)]))
    _extreme('create_asi_' + _k, lambda t=_t: kdrv.create(extra=[kdrv.attr(AT.APPLICATION_SPECIFIC_INFORMATION, _asi(t or 'n', t), 0)]))
    _extreme('register_name_' + _k, lambda t=_t: kdrv.register(OT.SECRET_DATA, names=[t]))
    _extreme('register_opaque_value_' + _k, lambda t=_t: kdrv.register(OT.OPAQUE_DATA, secret=kdrv.secret_for(OT.OPAQUE_DATA, t.encode() or None)))
    _extreme('ckp_name_' + _k, lambda t=_t: kdrv.create_key_pair(private=[kdrv.attr(AT.CRYPTOGRAPHIC_USAGE_MASK, [E.CryptographicUsageMask.SIGN]),
                                                                          kdrv.attr(AT.NAME, kdrv.name_value(t), 0)]))
    _extreme('modify_name_value_' + _k, lambda t=_t: kdrv.modify_attribute_v1('1', kdrv.attr(AT.NAME, kdrv.name_value(t), 0)))
    _extreme('modify_group_value_' + _k, lambda t=_t: kdrv.modify_attribute_v1('7', kdrv.attr(AT.OBJECT_GROUP, t, 1)))
    _extreme('derive_data_' + _k, lambda t=_t: kdrv.derive_key(['10'], method=E.DerivationMethod.HMAC, params=kdrv.cattrs.DerivationParameters(
        cryptographic_parameters=_cp(hashing_algorithm=E.HashingAlgorithm.SHA_256), derivation_data=t.encode())))
for _i in EXTREME_INDICES:
    _extreme('modify_name_index_%d' % _i, lambda i=_i: kdrv.modify_attribute_v1('1', kdrv.attr(AT.NAME, kdrv.name_value('m'), i)))
    _extreme('delete_name_index_%d' % _i, lambda i=_i: kdrv.delete_attribute_v1('9', 'Name', i))
    _extreme('create_name_index_%d' % _i, lambda i=_i: kdrv.create(attrs=kdrv.sym_attrs(AES, 256, kdrv.ENC_DEC) + [kdrv.attr(AT.NAME, kdrv.name_value('ci'), i)]))
for _k, _u in EXTREME_UIDS.items():
    _extreme('activate_uid_' + _k, lambda u=_u: kdrv.activate(u))
    _extreme('revoke_uid_' + _k, lambda u=_u: kdrv.revoke(u, code=KC, date=2 ** 40))
    _extreme('destroy_uid_' + _k, lambda u=_u: kdrv.destroy(u))
    _extreme('modify_uid_' + _k, lambda u=_u: kdrv.modify_attribute_v1(u, kdrv.attr(AT.NAME, kdrv.name_value('u'), 0)))
    _extreme('delete_uid_' + _k, lambda u=_u: kdrv.delete_attribute_v1(u, 'Name', 0))
EXTREME = sorted(n for n in RAW if n.startswith('x_'))

# objects the raw items refer to, created after SETUP: 10 = active key that may derive, 11 = key with application specific
# information, 12 = active key that may wrap
RAW_SETUP = [('derive_base', lambda: kdrv.create(mask=(E.CryptographicUsageMask.DERIVE_KEY,))), ('activate_10', lambda: kdrv.activate('10')),
             ('asi_key', lambda: kdrv.create(extra=[kdrv.attr(AT.APPLICATION_SPECIFIC_INFORMATION, _asi('ns', 'd0'), 0)], names=['k11'])),
             ('wrap_key', lambda: kdrv.create(mask=(E.CryptographicUsageMask.WRAP_KEY,))), ('activate_12', lambda: kdrv.activate('12'))]
for _n, _f in RAW_SETUP:
    RAW[_n] = _f


RAW_READ_ONLY = {n for n in RAW if n.split('_')[0] in ('encrypt', 'decrypt', 'sign', 'sigver', 'mac', 'locate', 'get', 'discover', 'query')}
RAW_KEYPAIR = {n for n in RAW if n.startswith('ckp')}
RAW_DERIVE = {n for n in RAW if n.startswith('derive_') and n != 'derive_base'}
RAW_KEYPAIR_NAMES = {'ckp_named': ([95], [96])}


def I_raw(name):
    """('raw', name): judged by the direct oracle only.  ('oracle_ro' | 'oracle_kp' | 'oracle_derive', name): also in the
    correspondence - the model takes the item's success flag from the implementation and predicts its effects."""
    kind = 'oracle_ro' if name in RAW_READ_ONLY else 'oracle_kp' if name in RAW_KEYPAIR else 'oracle_derive' if name in RAW_DERIVE else 'raw'
    return it(RAW[name]()[0].name, (kind, name))


def in_model(r):
    return all(i['b'][0] != 'raw' for i in r['items'])


def det_key_pair(real):
    """create_asymmetric_key_pair without the RSA key generation (C08 is not about key material): the library's
    argument checks are kept by asking it for the smallest key only when the arguments differ from the usual ones."""
    from kmip.core import exceptions as kexc
    def f(algorithm, length):
        if algorithm != E.CryptographicAlgorithm.RSA or length not in (1024, 2048):
            raise kexc.InvalidField('The cryptographic length ({0}) is not valid for the cryptographic algorithm ({1}).'.format(length, algorithm))
        return ({'value': b'\x30\x81' + b'\x11' * 40, 'format': E.KeyFormatType.PKCS_1},
                {'value': b'\x30\x82' + b'\x22' * 40, 'format': E.KeyFormatType.PKCS_8})
    return f


# ---------------------------------------------------------------------------------------------- the implementation
def det_key(real):
    """create_symmetric_key with the library's own validation but key bytes that do not depend on os.urandom."""
    def f(algorithm, length):
        out = real(algorithm, length)
        out['value'] = bytes([(length // 8) % 251]) * (length // 8)
        return out
    return f


# ---------------------------------------------------------------------------------------------- the real session
_CERTS = {}


def client_cert(cn):
    """Self-signed DER certificate whose common name is the client identity (no plugin: identity = CN)."""
    if cn not in _CERTS:
        from cryptography import x509
        from cryptography.hazmat.backends import default_backend
        from cryptography.hazmat.primitives import hashes, serialization
        from cryptography.hazmat.primitives.asymmetric import ec
        if 'key' not in _CERTS:
            _CERTS['key'] = ec.generate_private_key(ec.SECP256R1(), default_backend())
        key = _CERTS['key']
        name = x509.Name([x509.NameAttribute(x509.oid.NameOID.COMMON_NAME, cn)])
        t = datetime.datetime(2020, 1, 1)
        b = (x509.CertificateBuilder().serial_number(1).issuer_name(name).subject_name(name)
             .not_valid_before(t).not_valid_after(t + datetime.timedelta(days=36500)).public_key(key.public_key())
             .add_extension(x509.ExtendedKeyUsage([x509.oid.ExtendedKeyUsageOID.CLIENT_AUTH]), True))
        _CERTS[cn] = b.sign(key, hashes.SHA256(), default_backend()).public_bytes(serialization.Encoding.DER)
    return _CERTS[cn]


class NotSendable(Exception):
    """The request cannot be encoded by the library's own writer (it only exists in process)."""


class Conn:
    """What KmipSession needs of a TLS socket: the request bytes once, then end of stream."""
    def __init__(self, data, cert):
        self.data, self.cert, self.sent = bytes(data), cert, []

    def recv(self, n):
        out, self.data = self.data[:n], self.data[n:]
        return out

    def sendall(self, data):
        self.sent.append(bytes(data))

    def getpeercert(self, binary_form=False):
        return self.cert

    def cipher(self):
        return ('ECDHE-RSA-AES256-GCM-SHA384', 'TLSv1.2', 256)

    def shared_ciphers(self):
        return [self.cipher()]


class EngineTap:
    """Stands where KmipSession expects its engine; forwards to the real one, remembers the response it returned."""
    def __init__(self, engine):
        self.engine = engine
        self.response = None
        self.version = None
        self.size = None

    @property
    def default_protocol_version(self):
        return self.engine.default_protocol_version

    def build_error_response(self, *a):
        return self.engine.build_error_response(*a)

    def process_request(self, request, credential=None):
        out = self.engine.process_request(request, credential)
        self.response, self.version = out[0], out[2]
        real_write = self.response.write

        def measured(stream, **kw):          # the session's own encoding of this response: remember its length
            n0 = len(stream)
            real_write(stream, **kw)
            self.size = len(stream) - n0
        self.response.write = measured
        return out


class Impl:
    """One real KmipEngine on its own SQLite file, observed from outside."""
    def __init__(self, workdir, path=None):
        self.eng = kdrv.Engine(path=path, workdir=workdir)
        self._patch()
        self.connection = None
        self.last_dump = None

    def _patch(self):
        ce = self.eng.engine._cryptography_engine
        ce.create_symmetric_key = det_key(ce.create_symmetric_key)
        ce.create_asymmetric_key_pair = det_key_pair(ce.create_asymmetric_key_pair)
        import sqlalchemy

        def short_busy_timeout(dbapi_connection, record):      # only matters when the harness holds a lock on purpose
            dbapi_connection.execute('PRAGMA busy_timeout=60')
        sqlalchemy.event.listen(self.eng.engine._data_store, 'connect', short_busy_timeout)

    @property
    def now(self):
        return self.eng.clock.t

    def store(self):
        return abstract_store(self.dump())

    def reset(self, src):
        """Same engine object, database file replaced by a copy of `src` (keeps SQLAlchemy's statement cache warm)."""
        self.eng.engine._data_store.dispose()
        shutil.copy(src, self.eng.path)
        self.last_dump = None
        self.connection = None
        return self

    def dump(self):
        """kdrv.Engine.dump with a short lock timeout (a held write lock must not cost 5 s per look)."""
        con = sqlite3.connect(self.eng.path, timeout=0.25)
        con.row_factory = sqlite3.Row
        out = {}
        try:
            tables = [r[0] for r in con.execute("select name from sqlite_master where type='table' order by name")]
            for t in tables:
                rows = [dict(r) for r in con.execute('select * from "%s"' % t)]
                for r in rows:
                    for k, v in list(r.items()):
                        if isinstance(v, (bytes, memoryview)):
                            r[k] = bytes(v).hex()
                rows.sort(key=lambda r: repr(sorted(r.items(), key=lambda kv: kv[0])))
                if rows:
                    out[t] = rows
        finally:
            con.close()
        return out

    def dump_or(self, fallback, unreadable):
        """Raw dump of the store; when the engine's own connection still holds a write lock (a refused COMMIT that nobody rolled
        back) the file cannot be read by others: nothing new can be visible, so the last readable dump stands."""
        try:
            return self.dump()
        except sqlite3.OperationalError:
            unreadable.append(True)
            if fallback is None:
                raise
            return fallback

    def run(self, req, wire=None, lock_items=()):
        """Process one abstract request (wire = {'max': n | None}: as bytes through the real KmipSession). -> observation dict (everything the oracles and the comparator need)."""
        e = self.eng.engine
        trace, touched = [], []
        real = e._process_operation
        unreadable = []
        d_before = self.dump_or(self.last_dump, unreadable)
        last = [d_before]

        pending = []                # sessions opened by the batch; their state is looked at when the next item starts / at close

        def session_dirty(sess):
            return bool(sess.dirty) or bool(sess.new) or bool(sess.deleted)

        def settle(closed=False):
            """What the item before left behind, looked at when the loop is done with it (after _process_batch had its chance to
            roll back): store dump, session state, placeholder."""
            if not trace or trace[-1][1] is not None:
                return
            after = self.dump_or(last[0], unreadable)
            before = last[0]
            pl = e._id_placeholder
            trace[-1] = (before != after, bool(trace[-1][0]) if closed else session_dirty(e._data_session), int(pl) if pl is not None else None)
            touched.append(touched_uids(before, after) if before != after else [])
            last[0] = after

        def traced(operation, payload):
            settle()
            blocker = None
            if len(trace) in lock_items:         # a second connection holds a read transaction: this item's COMMIT is refused
                blocker = sqlite3.connect(self.eng.path, isolation_level=None, timeout=0.05)
                blocker.execute('BEGIN')
                blocker.execute('select count(*) from sqlite_master').fetchall()
            try:
                return real(operation, payload)
            finally:
                if blocker is not None:
                    blocker.execute('ROLLBACK')
                    blocker.close()
                trace.append((None, None, None))
        real_factory = e._data_store_session_factory

        def factory():
            sess = real_factory()
            real_close = sess.close

            def close():
                if trace and trace[-1][1] is None:
                    trace[-1] = (session_dirty(sess), None, None)     # session state first, the dump once the session is closed
                    real_close()
                    settle(closed=True)
                else:
                    real_close()
            sess.close = close
            return sess
        e._process_operation = traced
        e._data_store_session_factory = factory
        try:
            kw = dict(version=tuple(req['ver']), batch_option=OPTS[req['opt']], batch_order=req['order'],
                      time_stamp=(None if req['ts'] is None else self.now + req['ts']), asynchronous=req['async'])
            if wire is None:
                r = self.eng.request(build_items(req), user=req['user'], groups=None, **kw)
                size = None
            else:
                r, size = self.through_session(req, kw, wire['max'], wire.get('same', False))
        finally:
            del e._process_operation
            e._data_store_session_factory = real_factory
        trace[:] = [(c, bool(d), p) for c, d, p in trace]
        final_unreadable = []
        d_after = self.dump_or(last[0], final_unreadable)
        self.last_dump = d_after
        envelope = response_envelope(r, tuple(req['ver']))
        err = None
        if r['error'] is not None:
            for key, name in ERRS.items():
                if r['error']['message'].startswith(key) or (' ' + key) in r['error']['message'][:40]:
                    err = name
                    break
            else:
                err = 'UNKNOWN:' + r['error']['message']
        results = [{'op': i['op'], 'bid': i['bid'], 'ok': kdrv.ok(i), 'reason': i['reason'], 'message': i['message'],
                    'uid': kdrv.first_uid(i)} for i in r['items']]
        return {'err': err, 'err_message': r['error'] and r['error']['message'], 'results': results, 'trace': trace, 'touched': touched, 'store_unreadable': bool(unreadable), 'final_store_unreadable': bool(final_unreadable), 'size': size, 'envelope': envelope,
                'final': abstract_store(d_after), 'dump_before': d_before, 'dump_after': d_after,
                'moved_outside_items': last[0] != d_after}

    def through_session(self, req, kw, max_size, same_connection=False):
        """Encode the request, hand the bytes to a real KmipSession, decode what it sends back."""
        from kmip.core import utils as kutils
        from kmip.core.messages import contents, messages
        from kmip.services.server import session as session_mod, engine as engine_mod
        ver = contents.ProtocolVersion(*kw['version'])
        kv = contents.protocol_version_to_kmip_version(ver) or enums.KMIPVersion.KMIP_1_2
        try:
            rm = self.eng.build(build_items(req), max_size=max_size, **kw)
            buf = kutils.BytearrayStream()
            rm.write(buf, kmip_version=kv)
        except Exception as e:
            raise NotSendable(type(e).__name__)
        engine_mod.time = self.eng.clock
        if same_connection and self.connection is not None and self.connection[0] == req['user']:
            _, sess, conn, tap = self.connection            # the next request on the SAME connection / session object
            conn.data, conn.sent = bytes(buf.buffer), []
            tap.response = tap.version = tap.size = None
        else:
            conn = Conn(buf.buffer, client_cert(req['user']))
            tap = EngineTap(self.eng.engine)
            sess = session_mod.KmipSession(tap, conn, ('192.0.2.8', 5696), name='c08', enable_tls_client_auth=True, auth_settings=[])
            sess._logger.setLevel(logging.CRITICAL + 1)
            self.connection = (req['user'], sess, conn, tap) if same_connection else None
        try:
            sess._handle_message_loop()
            escaped = None
        except Exception as e:     # KmipSession.run logs it and waits for the next request: the client gets nothing
            escaped = type(e).__name__
        received = b''.join(conn.sent)          # what the client receives: every sendall of the session, in order
        if escaped is not None or not received:
            return {'error': {'reason': 'NO_RESPONSE', 'message': 'NoResponse: %s escaped from the session, %d bytes sent' % (escaped, len(received))},
                    'items': [], 'bytes': received or None}, tap.size
        resp = messages.ResponseMessage()
        try:
            resp.read(kutils.BytearrayStream(received), kmip_version=kv)
        except Exception as e:        # the client cannot read what the server sent: nothing is reported to it
            return {'error': {'reason': 'UNREADABLE', 'message': 'NoResponse: the %d bytes the client received cannot be decoded (%s); the engine '
                                                                  'encoded %s bytes' % (len(received), type(e).__name__, tap.size)},
                    'items': [], 'bytes': received}, tap.size
        size = tap.size
        items = [kdrv.project_item(bi) for bi in resp.batch_items]
        if len(items) == 1 and items[0]['op'] is None and not kdrv.ok(items[0]):
            return {'error': {'reason': items[0]['reason'], 'message': items[0]['message']}, 'items': [], 'bytes': received}, size
        return {'error': None, 'items': items, 'bytes': received}, size

    def close(self):
        self.eng.close()


def response_envelope(r, ver):
    """Header batch count of the response vs the result items it carries: on the response object, on its encoding read back
    by the library's own reader, and on the bytes as seen by the independent TTLV reader (harness/ttlvparse).
    r: what kdrv.Engine.process / through_session returned.  -> {'count', 'items', 'problems': [...]} or None (error answers
    built by build_error_response go the same way; a request-level KmipError in process has no response object)."""
    import ttlvparse
    from kmip.core import utils as kutils
    from kmip.core.messages import contents, messages
    raw, data = r.get('raw'), r.get('bytes')
    if raw is None and data is None:
        return None
    out = {'count': None, 'items': None, 'problems': []}
    kv = contents.protocol_version_to_kmip_version(contents.ProtocolVersion(*ver)) or enums.KMIPVersion.KMIP_1_2
    if raw is not None:
        out['count'], out['items'] = raw.response_header.batch_count.value, len(raw.batch_items)
        if out['count'] != out['items']:
            out['problems'].append('response header announces %d results, the response carries %d' % (out['count'], out['items']))
        if data is None:
            try:
                buf = kutils.BytearrayStream()
                copy.deepcopy(raw).write(buf, kmip_version=kv)
                data = bytes(buf.buffer)
            except Exception as e:
                out['problems'].append('the response cannot be encoded: %s' % type(e).__name__)
    if data is not None:
        probs, _ = ttlvparse.envelope_problems(data, None)
        out['problems'] += ['bytes: ' + x for x in probs if 'batch count' in x or 'malformed' in x or 'trailing' in x]
        try:
            back = messages.ResponseMessage()
            back.read(kutils.BytearrayStream(data), kmip_version=kv)
            if back.response_header.batch_count.value != len(back.batch_items):
                out['problems'].append('decoded response: batch count %d, %d items' % (back.response_header.batch_count.value, len(back.batch_items)))
        except Exception as e:
            # The library's reader also gives up on well-formed answers it has no payload class for (a failed item echoing an
            # operation the library does not implement: NotImplementedError) - that is the client library's matter (C19), not
            # the batch's.  Its failure is reported only together with an envelope the independent reader finds inconsistent.
            if out['problems']:
                out['problems'].append("the library's own reader cannot decode the response: %s" % type(e).__name__)
    return out


def touched_uids(before, after):
    """Unique identifiers whose stored object (or any of its child rows) differs between two dumps."""
    def by_uid(d):
        a = {o['uid']: o for o in abstract_store(d)['objs']}
        raw = {}
        for t, rows in d.items():
            for r in rows:
                u = r.get('uid', r.get('mo_uid', r.get('managed_object_id')))
                if u is not None and t != 'sqlite_sequence':
                    raw.setdefault(u, []).append((t, sorted(r.items(), key=lambda kv: kv[0])))
        return a, raw
    a0, r0 = by_uid(before)
    a1, r1 = by_uid(after)
    return sorted(u for u in set(a0) | set(a1) | set(r0) | set(r1)
                  if a0.get(u) != a1.get(u) or sorted(map(repr, r0.get(u, []))) != sorted(map(repr, r1.get(u, []))))


def abstract_store(d):
    names, groups = {}, {}
    for r in sorted(d.get('managed_object_names', []), key=lambda r: r['id']):
        names.setdefault(r['mo_uid'], []).append(r['name'])
    gname = {r['id']: r['object_group'] for r in d.get('object_groups', [])}
    gm = d.get('object_group_map', [])
    for r in sorted(gm, key=lambda r: (r['managed_object_id'], r['object_group_id'])):
        groups.setdefault(r['managed_object_id'], []).append(gname.get(r['object_group_id'], 'g0'))
    state = {r['uid']: r['state'] for r in d.get('crypto_objects', [])}
    objs = []
    for r in sorted(d.get('managed_objects', []), key=lambda r: r['uid']):
        u = r['uid']
        objs.append({'uid': u, 'owner': USERS.get(r['owner'], 0), 'kind': r['object_type'], 'state': state.get(u, 0) or 0,
                     'names': [num(n) for n in names.get(u, [])], 'groups': [num(g) for g in groups.get(u, [])],
                     'sens': bool(r['sensitive'])})
    nxt = 1
    for r in d.get('sqlite_sequence', []):
        if r['name'] == 'managed_objects':
            nxt = r['seq'] + 1
    return {'objs': objs, 'next': nxt}


def num(s):
    try:
        return int(str(s)[1:])
    except ValueError:
        return -1


# ---------------------------------------------------------------------------------------------- abstract requests
def it(op, body, bid=None):
    return {'op': op, 'bid': bid, 'b': body}


def req(items, ver=(1, 2), ts=None, asyn=None, opt=None, order=None, user='alice', ids='auto'):
    items = [dict(i) for i in items]
    for k, i in enumerate(items):
        if i['bid'] is None and (ids is True or (ids == 'auto' and len(items) > 1)):
            i['bid'] = '%02x' % (k + 1)
    return {'ver': tuple(ver), 'ts': ts, 'async': asyn, 'opt': opt, 'order': order, 'user': user, 'items': items}


def I_create(names=(), groups=(), sens=None, sym=True, unsup=False, alg=True, length=True, mask=True, len_ok=True):
    return it('CREATE', ('create', sym, unsup, alg, length, mask, len_ok, list(names), list(groups), sens))


def I_register(kind=2, names=(), groups=(), unsup=False, inap=False):
    return it('REGISTER', ('register', kind, unsup, inap, list(names), list(groups)))


def I_get(t=None, op='GET'):
    return it(op, ('get', t))


def I_activate(t=None):
    return it('ACTIVATE', ('activate', t))


def I_revoke(t=None, compromise=False):
    return it('REVOKE', ('revoke', t, compromise))


def I_destroy(t=None):
    return it('DESTROY', ('destroy', t))


def I_modify(t, a, idx, v):
    return it('MODIFY_ATTRIBUTE', ('modify', t, a, idx, v))


def I_set(t, a, v):
    return it('SET_ATTRIBUTE', ('set', t, a, v))


def I_delete(t, a, idx):
    return it('DELETE_ATTRIBUTE', ('delete', t, a, idx))


def I_ro(op='QUERY'):
    return it(op, ('readonly', 1 if op == 'DISCOVER_VERSIONS' else 0))


def I_unsup(op='REKEY'):
    return it(op, ('unsupported',))


SETUP = [
    req([I_create(names=[1, 2], groups=[1])]),                                   # 1 alice pre-active, two names, a group
    req([I_create(names=[3]), I_activate()]),                                     # 2 alice active
    req([I_register(8, names=[4])]),                                              # 3 alice opaque (no state)
    req([I_create(names=[5])], user='bob'),                                       # 4 bob's key
    req([I_create(), I_activate(), I_revoke()]),                                  # 5 alice deactivated
    req([I_create(), I_revoke(compromise=True)]),                                 # 6 alice compromised
    req([I_register(7, names=[6], groups=[2, 3])]),                               # 7 alice secret data
    req([I_create(), I_destroy()]),                                               # 8 created and destroyed
    req([I_create(names=[7, 8, 9], sens=True)], ver=(1, 4)),                      # 9 alice pre-active, sensitive, three names
]
TARGETS = [1, 2, 3, 4, 5, 6, 7, 8, 9, 99]


def menu(rng=None):
    """Every item shape the model knows, over every kind of target.  -> list of abstract items (no batch ids yet)."""
    m = []
    m += [I_create(), I_create(names=[11, 12], groups=[4]), I_create(sens=True), I_create(sens=False, names=[13]),
          I_create(sym=False), I_create(unsup=True), I_create(alg=False), I_create(length=False), I_create(mask=False),
          I_create(len_ok=False), I_create(names=[14, 14]), I_create(names=[15, 16, 15], groups=[5])]
    m += [I_register(2), I_register(7, names=[17]), I_register(8, groups=[6]), I_register(6), I_register(2, unsup=True),
          I_register(8, inap=True), I_register(7, inap=True), I_register(2, names=[18, 18])]
    for t in TARGETS + [None]:
        m += [I_get(t), I_get(t, 'GET_ATTRIBUTES'), I_activate(t), I_revoke(t), I_revoke(t, True), I_destroy(t)]
        m += [I_modify(t, 'AName', None, 21), I_modify(t, 'AName', 1, 22), I_modify(t, 'AName', 5, 23), I_modify(t, 'AGroup', 0, 7),
              I_modify(t, 'ASens', None, 1), I_modify(t, 'ASens', None, 0), I_modify(t, 'ASens', 0, 1), I_modify(t, 'AAlg', None, 0),
              I_modify(t, 'AUnknown', None, 0), I_modify(t, 'AName', -1, 24)]
        m += [I_set(t, 'ASens', 1), I_set(t, 'ASens', 0), I_set(t, 'AName', 25), I_set(t, 'AAlg', 0)]
        m += [I_delete(t, 'AName', None), I_delete(t, 'AName', 2), I_delete(t, 'AName', 7), I_delete(t, 'AGroup', 1),
              I_delete(t, 'AAlg', None), I_delete(t, 'ASens', None), I_delete(t, 'AUnknown', None), I_delete(t, 'AName', -1)]
    m += [I_get(None, 'GET_ATTRIBUTE_LIST'), I_get(1, 'GET_ATTRIBUTE_LIST')]
    m += [I_ro('QUERY'), I_ro('DISCOVER_VERSIONS'), I_ro('LOCATE'), I_unsup('REKEY'), I_unsup('CERTIFY'), I_unsup('ARCHIVE')]
    return m


def canon(x):
    return json.dumps(x, sort_keys=True, default=str)


# ---------------------------------------------------------------------------------------------- direct oracles
def creating(itm):
    return itm['b'][0] in ('create', 'register') or (itm['b'][0] in ('raw', 'oracle_kp', 'oracle_derive') and itm['op'] in ('CREATE', 'REGISTER', 'CREATE_KEY_PAIR', 'DERIVE_KEY'))


def limit_from(extra, obs):
    """Whose limit made the answer too large: 'this-request' only when the request itself states a Maximum Response Size that
    the encoding of its own response exceeds."""
    mx = (extra or {}).get('max_response_size')
    if mx is not None and (obs.get('size') is None or obs['size'] > mx):
        return 'this-request'
    return 'not-this-request'


def oracle(ctx, history, req_, pre_dump, obs, twin_factory=None, extra=None, extra_witness=None):
    """The property itself, evaluated on the implementation's behaviour alone.  -> list of violation kinds found."""
    found = []
    items, res, tr = req_['items'], obs['results'], obs['trace']
    wit = {'setup': 'harness/c08.py SETUP' if not (extra_witness or {}).get('note', '').startswith('one of the requests that build') else 'empty store, then `history_after_setup` (the earlier set-up requests)', 'history_after_setup': history, 'request': req_,
           'observed': {'error': obs['err_message'], 'results': [{k: r[k] for k in ('op', 'bid', 'ok', 'reason', 'message')} for r in res],
                        'per_item(store_changed, session_dirty, placeholder)': tr, 'response_envelope': obs.get('envelope')}}

    if extra:
        wit.update(extra)
    if extra_witness:
        wit.update(extra_witness)

    def v(kind, what, **more):
        sig = {'kind': kind}
        sig.update(more)
        found.append(kind)
        ctx.violation(sig, wit, what)

    env = obs.get('envelope')
    if env and env['problems']:
        v('response-envelope', 'the response does not carry what its header announces (%s); %d item(s) were executed' % ('; '.join(env['problems'][:3]), len(tr)),
          through=('KmipSession' if extra else 'KmipEngine'))
    if obs['err'] is not None:
        if obs['dump_before'] != obs['dump_after'] or tr:
            v('request-error-with-effect', 'error answer %r although %d item(s) were executed (store %s)' % (
                obs['err_message'], len(tr), 'changed' if obs['dump_before'] != obs['dump_after'] else 'unchanged'),
              error=obs['err'], through=('KmipSession' if extra else 'KmipEngine'),
              **({'limit_from': limit_from(extra, obs)} if obs['err'] == 'ETooLarge' else {}))
        return found
    # one result per processed item, in order, echoing operation and batch item id
    if len(res) > len(items) or len(res) != len(tr):
        v('result-count', '%d results for %d items, %d items executed' % (len(res), len(items), len(tr)))
    for k, r in enumerate(res[:len(items)]):
        if r['op'] != items[k]['op'] or r['bid'] != items[k]['bid']:
            v('echo', 'result %d echoes (%s, %s) for item (%s, %s)' % (k, r['op'], r['bid'], items[k]['op'], items[k]['bid']), position=k)
    fails = [k for k, r in enumerate(res) if not r['ok']]
    if req_['opt'] == 'CONTINUE':
        if len(res) != len(items):
            v('continue-incomplete', 'Continue was requested but %d of %d items were answered' % (len(res), len(items)))
    else:
        want = (fails[0] + 1) if fails else len(items)
        if len(res) != want:
            v('stop-wrong-cut', 'Stop: %d results, first failure at %s, %d items' % (len(res), fails[:1], len(items)))
    # a failed item leaves the store as it was; nothing happens outside reported items
    for k, (changed, dirty, pl) in enumerate(tr):
        if k < len(res) and not res[k]['ok'] and changed:
            v('failed-item-changed-store', 'item %d (%s) reported %s but changed the stored objects' % (k, res[k]['op'], res[k]['reason']),
              op=res[k]['op'], reason=res[k]['reason'])
    if obs['moved_outside_items']:
        v('effect-outside-items', 'the store changed outside the processing of a reported item')
    if not any(c for c, _, _ in tr) and obs['dump_before'] != obs['dump_after']:
        v('unreported-effect', 'no item changed the store but the store differs after the request')
    # placeholder: an identifier-less item addresses the object created last in this batch by ANY of the four creating
    # operations - judged by the identifier its answer names and by which stored object it changed, not by its status
    last_uid, alive = None, False
    tch = obs.get('touched') or []
    for k, r in enumerate(res):
        b = items[k]['b']
        idless = (b[0] in ID_LESS_KINDS and b[1] is None) or (b[0] in ('raw', 'oracle_ro') and b[1] in RAW_PLACEHOLDER_USERS)
        if idless:
            if last_uid is None and r['ok']:
                v('placeholder-leak', 'identifier-less %s succeeded although nothing was created earlier in the batch' % r['op'], position=k)
            if last_uid is not None and r['ok'] and r['uid'] is not None and r['uid'] != last_uid:
                v('placeholder-wrong', 'identifier-less %s answered for %s, the batch created %s last' % (r['op'], r['uid'], last_uid), position=k)
            if last_uid is not None and r['ok'] and k < len(tch) and tch[k] and set(tch[k]) != {int(last_uid)}:
                v('placeholder-wrong-target', 'identifier-less %s changed object(s) %s, the batch created %s last' % (r['op'], tch[k], last_uid), position=k)
            if last_uid is not None and alive and not r['ok'] and (r['message'] or '').startswith('Could not locate object: None'):
                v('placeholder-lost', 'identifier-less %s failed (%s) although the batch created %s and did not destroy it' % (r['op'], r['message'], last_uid), position=k)
        if r['ok'] and r['op'] == 'DESTROY' and k < len(tch) and last_uid is not None and int(last_uid) in tch[k]:
            alive = False
        if r['ok'] and creating(items[k]) and r['uid'] is not None and k < len(tch):
            own = {int(r['uid'])} | ({int(r['uid']) - 1} if r['op'] == 'CREATE_KEY_PAIR' else set())
            if not set(tch[k]) <= own:
                v('creating-item-changed-other-objects', '%s answered with identifier %s but the objects %s appeared or changed while it ran' % (
                    r['op'], r['uid'], sorted(set(tch[k]) - own)), op=r['op'])
        if r['ok'] and creating(items[k]):
            if r['uid'] is None:
                v('creation-without-identifier', '%s succeeded without naming the object it created' % r['op'], position=k)
            last_uid, alive = r['uid'], True
    # Neither failed items nor items that only read leave anything behind: the batch reduced to its successful
    # WRITING items gives the same answers for them and ends in the same store.
    writes = [k for k, r in enumerate(res) if r['ok'] and r['op'] not in READ_ONLY_OPS]
    if len(writes) < len(res):
        if not writes:
            if obs['dump_before'] != obs['dump_after']:
                v('no-writing-item-but-store-changed', 'no item that may change the store succeeded, yet the store differs after the request',
                  ops=sorted({r['op'] for r in res}))
        elif twin_factory is not None:
            def reduced(keep):
                treq = dict(req_, items=[items[k] for k in keep])
                tobs = twin_factory().run(treq)
                same_answers = (tobs['err'] is None and [(r['op'], r['bid'], r['ok'], r['uid']) for r in tobs['results']] ==
                                [(res[k]['op'], res[k]['bid'], True, res[k]['uid']) for k in keep])
                return treq, tobs, same_answers, tobs['dump_after'] == obs['dump_after']
            treq, tobs, same_answers, same_store = reduced(writes)
            if not (same_answers and same_store):
                culprit = 'read-only-item-leaves-trace'
                dropped = [k for k in range(len(res)) if k not in writes]
                if fails:
                    ok_items = [k for k, r in enumerate(res) if r['ok']]
                    _, _, sa2, ss2 = reduced(ok_items)
                    if not (sa2 and ss2):
                        culprit, dropped = 'failed-item-disturbs', fails
                wit['twin'] = {'request_reduced_to_successful_writing_items': treq,
                               'results': [{k: r[k] for k in ('op', 'bid', 'ok', 'reason')} for r in tobs['results']], 'same_store': same_store}
                v(culprit, 'removing the %s items %s from the batch changes the %s' % (
                    'failed' if culprit == 'failed-item-disturbs' else 'failed and read-only', dropped,
                    'answers of the other items' if not same_answers else 'final store'),
                  dropped_ops=sorted({res[k]['op'] for k in dropped}))
    return found


# ---------------------------------------------------------------------------------------------- driver
class Runner:
    def __init__(self, ctx):
        self.ctx = ctx
        self.work = ctx.work
        self.cases, self.meta = [], []
        self.scases, self.smeta = [], []
        self.snap = self.snap2 = None
        self.main = self.twin = None

    def snapshot(self):
        """Database file after SETUP (built once; every case starts from a copy)."""
        if self.snap is None:
            im = Impl(self.work)
            done = []
            for r in SETUP:
                o = im.run(r)
                # the set-up requests are ordinary requests: the direct oracle judges them too, and a set-up item that does not
                # succeed is no reason to stop (every case reads the store it really starts from)
                oracle(self.ctx, list(done), r, None, o, None, extra_witness={'note': 'one of the requests that build the common store (SETUP)'})
                if not (o['err'] is None and all(x['ok'] for x in o['results'])):
                    self.ctx.count('setup.request_not_successful')
                    self.ctx.notes.append('set-up request not successful: %s -> %s' % (canon(r)[:200], [(x['op'], x['ok'], x['reason']) for x in o['results']]))
                done.append(r)
            self.setup_store = im.store()
            im.eng.engine._data_store.dispose()
            self.snap = self.work / 'setup.snapshot'
            shutil.copy(im.eng.path, self.snap)
            im.close()
        return self.snap

    def fresh(self, src=None):
        if self.main is None:
            self.main = Impl(self.work)
        return self.main.reset(src or self.snapshot())

    def fresh_twin(self, src):
        if self.twin is None:
            self.twin = Impl(self.work)
        return self.twin.reset(src)

    def close(self):
        for im in (self.main, self.twin):
            if im is not None:
                im.close()
        self.main = self.twin = None

    def history(self, reqs, label, twin=True):
        """Run a list of requests on one engine that starts from the setup snapshot; one K case per request."""
        ctx = self.ctx
        im = self.fresh()
        hits = []
        done = []
        pre = self.setup_store
        for r in reqs:
            r = dict(r, items=[i for i in r['items'] if expressible(i, r['ver'])])
            obs = im.run(r)
            if obs['err'] is not None and obs['err'].startswith('UNKNOWN'):
                raise RuntimeError('unclassified request-level error: %s' % obs['err'])
            assert abstract_store(obs['dump_before']) == pre
            self.cases.append(coq_case(pre, r, im.now, obs))
            self.meta.append({'label': label, 'history_after_setup': list(done), 'request': r,
                              'impl': {'err': obs['err'], 'results': [(x['op'], x['bid'], x['ok'], x['reason']) for x in obs['results']],
                                       'trace': obs['trace'], 'final': obs['final']}})

            def twin_at_same_point(prefix=list(done)):
                t = self.fresh_twin(self.snapshot())
                for q in prefix:
                    t.run(q)
                return t
            hits += oracle(ctx, list(done), r, None, obs, twin_at_same_point if twin else None)
            self.account(r, obs)
            done.append(r)
            pre = obs['final']
        return hits

    def snapshot2(self):
        """The setup snapshot plus the objects the raw items refer to."""
        if self.snap2 is None:
            im = self.fresh()
            self.raw_prefix = [req([I_raw(n)]) for n, _ in RAW_SETUP]
            done = []
            for q in self.raw_prefix:
                o = im.run(q)
                oracle(self.ctx, list(done), q, None, o, None, extra_witness={'note': 'one of the requests that build the common store (RAW_SETUP)'})
                if not (o['err'] is None and all(x['ok'] for x in o['results'])):
                    self.ctx.count('setup.request_not_successful')
                done.append(q)
            im.eng.engine._data_store.dispose()
            self.snap2 = self.work / 'setup2.snapshot'
            shutil.copy(im.eng.path, self.snap2)
        return self.snap2

    def sweep(self, reqs, label):
        """Requests containing items outside the model: direct oracle only (no K case)."""
        ctx = self.ctx
        im = self.fresh(self.snapshot2())
        hits, done = [], []
        for r in reqs:
            r = dict(r, items=[i for i in r['items'] if expressible(i, r['ver'])])
            obs = im.run(r)

            def twin_at_same_point(pfx=list(done)):
                t = self.fresh_twin(self.snapshot2())
                for q in pfx:
                    t.run(q)
                return t
            hits += oracle(ctx, self.raw_prefix + done, r, None, obs, twin_at_same_point)
            ctx.case_seen(canon(['sweep', r, [(x['ok'], x['reason']) for x in obs['results']]]), nontrivial=True)
            if in_model(r):
                self.cases.append(coq_case(abstract_store(obs['dump_before']), r, im.now, obs))
                self.meta.append({'label': label + ':oracle-flag', 'history_after_setup': self.raw_prefix + list(done), 'request': r,
                                  'impl': {'err': obs['err'], 'results': [(x['op'], x['bid'], x['ok'], x['reason']) for x in obs['results']],
                                           'trace': obs['trace'], 'final': obs['final']}})
                ctx.count('sweep.in_correspondence')
            else:
                ctx.count('oracle_only.requests')
            for x in obs['results']:
                ctx.count('sweep.item.%s.%s' % (x['op'], 'ok' if x['ok'] else x['reason']))
            done.append(r)
        return hits

    def locked(self, steps, label):
        """steps = [(request, indices of the items whose COMMIT the database refuses)].  While such an item runs a second
        SQLite connection holds a read transaction on the file ('database is locked').  Direct oracle only; the twin engine
        runs the reduced batch undisturbed."""
        ctx = self.ctx
        im = self.fresh(self.snapshot2())
        hits, done, before = [], [], []
        for r, lock_items in steps:
            obs = im.run(r, lock_items=set(lock_items))

            def twin_at_same_point(pfx=list(done)):
                t = self.fresh_twin(self.snapshot2())
                for q in pfx:
                    t.run(q)
                return t
            refused = [k for k in lock_items if k < len(obs['results']) and not obs['results'][k]['ok']]
            hits += oracle(ctx, self.raw_prefix + [q for q in done], r, None, obs, twin_at_same_point,
                           extra_witness={'commit_refused_for_items': sorted(lock_items), 'locked_steps_before': list(before),
                                          'how': 'a second sqlite3 connection holds BEGIN; SELECT on the database file while the item runs '
                                                 '(busy timeout of the engine connections 60 ms)'})
            ctx.case_seen(canon(['locked', r, sorted(lock_items), [(x['ok'], x['reason']) for x in obs['results']]]), nontrivial=True)
            ctx.count('lock.requests')
            for k in lock_items:
                if k < len(obs['results']):
                    x = obs['results'][k]
                    ctx.count('lock.item.%s.%s' % (x['op'], 'ok' if x['ok'] else x['reason']))
            before.append({'request': r, 'commit_refused_for_items': sorted(lock_items)})
            # only the successful items of earlier requests are part of what the twin replays
            keep = [k for k, x in enumerate(obs['results']) if x['ok']]
            if keep:
                done.append(dict(r, items=[r['items'][k] for k in keep]))
            # across requests: the store is the effect of exactly the items that were reported successful so far
            t = self.fresh_twin(self.snapshot2())
            for q in done:
                tobs = t.run(q)
            if not obs['final_store_unreadable'] and (t.dump() != obs['dump_after']):
                ctx.violation({'kind': 'store-differs-from-reported-successes', 'refused_commit': True},
                              {'setup': 'harness/c08.py SETUP + RAW_SETUP', 'requests': [{'request': q, 'commit_refused_for_items': sorted(l)} for q, l in steps],
                               'after_request': len(done), 'reported_successful_so_far': done,
                               'how': 'a second sqlite3 connection holds BEGIN; SELECT on the database file while the marked items run'},
                              'after a refused COMMIT the store is not what the reported successes alone produce (a failed item became visible later)')
                hits.append('store-differs-from-reported-successes')
        return hits

    def wire(self, prefix, r, max_size, label):
        """`prefix` in process, then `r` as bytes through the real KmipSession with Maximum Response Size `max_size`."""
        ctx = self.ctx
        r = dict(r, items=[i for i in r['items'] if expressible(i, r['ver'])])
        im = self.fresh()
        pre = self.setup_store
        for q in prefix:
            pre = im.run(q)['final']
        try:
            obs = im.run(r, wire={'max': max_size})
        except NotSendable as e:
            ctx.count('wire.not_sendable.%s' % e)
            return []
        if obs['err'] is not None and obs['err'].startswith('UNKNOWN'):
            ctx.count('wire.rejected_by_parser')
            if obs['dump_before'] != obs['dump_after'] or obs['trace']:
                ctx.violation({'kind': 'request-error-with-effect', 'error': 'parse'}, {'request': r, 'max_response_size': max_size},
                              'the session answered %r although items were executed' % obs['err_message'])
            return []
        self.scases.append(coq_scase(pre, r, im.now, obs, max_size))
        self.smeta.append({'label': label, 'history_after_setup': list(prefix), 'request': r, 'max_response_size': max_size,
                           'impl': {'err': obs['err'], 'size': obs['size'], 'results': [(x['op'], x['bid'], x['ok'], x['reason']) for x in obs['results']],
                                    'trace': obs['trace'], 'final': obs['final']}})
        hits = oracle(ctx, list(prefix), r, None, obs, None, extra={'max_response_size': max_size, 'through': 'KmipSession'})
        ctx.case_seen(canon(['wire', r, max_size, obs['err']]), nontrivial=True)
        ctx.count('wire.max_%s.%s' % (max_size, obs['err'] or 'results'))
        return hits

    def wire_sequence(self, steps, label):
        """Several requests over ONE connection (one KmipSession object): steps = [(request, Maximum Response Size | None)]."""
        ctx = self.ctx
        im = self.fresh()
        pre, earlier, hits = self.setup_store, [], []
        for r, mx in steps:
            r = dict(r, items=[i for i in r['items'] if expressible(i, r['ver'])])
            try:
                obs = im.run(r, wire={'max': mx, 'same': True})
            except NotSendable as e:
                ctx.count('wire.not_sendable.%s' % e)
                return hits
            if obs['err'] is not None and obs['err'].startswith('UNKNOWN'):
                ctx.count('wire.rejected_by_parser')
                return hits
            self.scases.append(coq_scase(pre, r, im.now, obs, mx))
            self.smeta.append({'label': label, 'history_after_setup': [], 'earlier_on_this_connection': list(earlier), 'request': r,
                               'max_response_size': mx,
                               'impl': {'err': obs['err'], 'size': obs['size'], 'results': [(x['op'], x['bid'], x['ok'], x['reason']) for x in obs['results']],
                                        'trace': obs['trace'], 'final': obs['final']}})
            hits += oracle(ctx, [], r, None, obs, None, extra={'max_response_size': mx, 'through': 'KmipSession',
                                                               'earlier_on_this_connection': list(earlier)})
            ctx.case_seen(canon(['wire-seq', earlier, r, mx, obs['err']]), nontrivial=True)
            ctx.count('wire.sequence.position_%d.%s' % (len(earlier) + 1, obs['err'] or 'results'))
            earlier.append({'request': r, 'max_response_size': mx})
            pre = obs['final']
        return hits

    def account(self, r, obs):
        ctx = self.ctx
        n = len(r['items'])
        fails = [k for k, x in enumerate(obs['results']) if not x['ok']]
        nontrivial = obs['err'] is not None or n > 1 or bool(fails)
        ctx.case_seen(canon([r, obs['err'], [(x['ok'], x['reason']) for x in obs['results']]]), nontrivial=nontrivial)
        ctx.count('batch.size.%d' % n)
        ctx.count('batch.option.%s' % r['opt'])
        ctx.count('version.%d.%d' % tuple(r['ver']))
        if obs['err'] is not None:
            ctx.count('request_error.%s' % obs['err'])
        for k, x in enumerate(obs['results']):
            ctx.count('item.%s.%s' % (x['op'], 'ok' if x['ok'] else x['reason']))
            if not x['ok']:
                ctx.count('failure.position.%d_of_%d' % (k + 1, n))
        if fails and len(fails) < len(obs['results']):
            ctx.count('batch.mixed_success_failure')
        if any(i['b'][0] in ('get', 'activate', 'revoke', 'destroy', 'modify', 'set', 'delete') and i['b'][1] is None for i in r['items']):
            ctx.count('batch.uses_placeholder')


VERSIONS = [(1, 0), (1, 2), (1, 4), (2, 0)]


def gen_all(run, ctx):
    quick = ctx.tier == 'quick'
    rng = ctx.subrng('c08')
    M = menu()
    # (0) corpus: shapes that once mattered while building the check
    run.history([req([I_create(), I_ro()], ids=False)], 'corpus:second item lacks id (fixed 4b4567c)')
    run.history([req([I_create(), I_get(), I_activate(), I_get(None, 'GET_ATTRIBUTES'), I_destroy()])], 'corpus:placeholder chain')
    run.history([req([I_get()]), req([I_create()]), req([I_get()])], 'corpus:placeholder does not cross requests')
    for opt in ['CONTINUE', None]:
        run.history([req([I_create(names=[33]), I_get(99), I_activate(), I_get()], opt=opt)], 'corpus:placeholder survives a failed item')
        run.history([req([I_create(names=[34]), I_create(len_ok=False), I_unsup(), I_get(None, 'GET_ATTRIBUTES'), I_destroy()], opt=opt)],
                    'corpus:placeholder survives a failed item')
        run.history([req([I_get(1), I_create(names=[35])], opt=opt), req([I_get(1, 'GET_ATTRIBUTES'), I_ro('LOCATE'), I_ro('QUERY'), I_activate(1)], opt=opt)],
                    'corpus:read-only items then a commit')
    # (1) every menu item alone, under each version
    for ver in VERSIONS:
        for i in M:
            if quick and ver == (1, 0) and i['b'][0] in ('get', 'activate', 'revoke', 'destroy', 'register', 'unsupported'):
                continue                      # these shapes do not look at the version; 1.2 / 1.4 / 2.0 cover them in the quick tier
            run.history([req([i], ver=ver)], 'single', twin=False)
    # (2) header grid in front of a batch that would change the store
    body = [I_create(names=[31]), I_activate(), I_destroy(1)]
    for ver in [(0, 9), (1, 5), (3, 0), (2, 1), (1, 0), (1, 3), (2, 0)]:
        run.history([req(body, ver=ver)], 'header:version')
    for ts in [None, 0, -1, -59, -60, -61, -100000, 1, 2, 1000, 2 ** 63 - 1 - 1600000000, -2 ** 63 - 1600000000 + 2 ** 33, -1600000000, 2 ** 31]:
        run.history([req(body, ts=ts)], 'header:time stamp')
    for asyn in [None, False, True]:
        for opt in [None, 'STOP', 'CONTINUE', 'UNDO']:
            for order in [None, False, True]:
                run.history([req(body, asyn=asyn, opt=opt, order=order)], 'header:options')
    for n in range(0, 5):
        for missing in range(0, n + 1):
            items = [I_create(names=[40 + k]) for k in range(n)]
            r = req(items, ids=True, opt='CONTINUE')
            if missing < n:
                r['items'][missing]['bid'] = None
            run.history([r], 'header:batch ids')
    run.history([req([I_create(), I_create()], ids=False)], 'header:batch ids')
    run.history([req([dict(I_create(), bid=''), dict(I_get(), bid='')])], 'header:empty ids')
    run.history([req([dict(I_create(), bid='07'), dict(I_get(), bid='07')])], 'header:duplicate ids')
    run.history([req([dict(I_ro(), bid='0708090a0b')])], 'header:single with id')
    # (3) every failing item shape F at every position next to items that commit: [F, S], [S, F], [S, F, S'], Continue and Stop
    succ_same = lambda t: [I_modify(t, 'AName', 0, 51), I_delete(t, 'AName', 0), I_activate(t), I_revoke(t, True)]
    fl = [i for i in M]
    rng.shuffle(fl)
    n_f = 45 if quick else (len(fl) * 3) // 4
    for i in fl[:n_f]:
        t = i['b'][1] if i['b'][0] not in ('create', 'register', 'readonly', 'unsupported') else None
        tt = t if isinstance(t, int) and t in (1, 9, 7, 5) else 1
        s_same = rng.choice(succ_same(tt))
        for ver in ([(1, 2), (2, 0)] if quick else [(1, 2), (1, 4), (2, 0)]):
            for opt in ['CONTINUE', None]:
                run.history([req([i, s_same, I_create(names=[52])], ver=ver, opt=opt)], 'mix:F S S')
                run.history([req([I_create(names=[53]), i, s_same], ver=ver, opt=opt)], 'mix:S F S')
            run.history([req([s_same, I_get(tt, 'GET_ATTRIBUTES'), i, I_get(tt, 'GET_ATTRIBUTES')], ver=ver, opt='CONTINUE')], 'mix:S R F R')
            run.history([req([i, s_same], ver=ver, opt=rng.choice(['CONTINUE', 'STOP']))], 'mix:F S')
            run.history([req([s_same, i], ver=ver, opt=rng.choice([None, 'STOP', 'CONTINUE']), ids=True)], 'mix:S F')
    # (4) placeholder batches
    users = ['alice', 'bob']
    for ver in VERSIONS:
        for creator in [I_create(names=[61]), I_register(7), I_register(8), I_create(names=[62, 62])]:
            for mid in [[], [I_get(4)], [I_create(len_ok=False)], [I_register(2)], [I_destroy(2)], [I_unsup()]]:
                for use in [I_get(), I_activate(), I_destroy(), I_modify(None, 'AName', 0, 63), I_delete(None, 'AName', None), I_revoke(None, True), I_set(None, 'ASens', 1)]:
                    if quick and rng.random() < 0.7:
                        continue
                    run.history([req([creator] + mid + [use, I_get(None, 'GET_ATTRIBUTES')], ver=ver, opt='CONTINUE', user=rng.choice(users))], 'placeholder')
    # (5) seeded random batches and histories
    n_hist = 50 if quick else 350
    for h in range(n_hist):
        reqs = []
        for _ in range(rng.randint(1, 4)):
            n = rng.choice([1, 2, 2, 3, 3, 4, 4])
            items = [copy.deepcopy(rng.choice(M)) for _ in range(n)]
            ver = rng.choice(VERSIONS + [(1, 1), (1, 3)])
            r = req(items, ver=ver, opt=rng.choice([None, 'STOP', 'CONTINUE', 'CONTINUE', 'CONTINUE']),
                    order=rng.choice([None, True, False]), user=rng.choice(['alice', 'alice', 'alice', 'bob']),
                    ids=rng.choice(['auto', 'auto', 'auto', True]))
            k = rng.random()
            if k < 0.04:
                r['opt'] = 'UNDO'
            elif k < 0.08:
                r['ts'] = rng.choice([-60, -3000, 5])
            elif k < 0.11:
                r['async'] = True
            elif k < 0.15 and n > 1:
                r['items'][rng.randrange(n)]['bid'] = None
            elif k < 0.18:
                r['ver'] = rng.choice([(1, 5), (3, 0)])
            elif k < 0.25:
                r['ts'] = rng.choice([0, -1, -59])
            reqs.append(r)
        run.history(reqs, 'random')


def gen_sweep(run, ctx):
    quick = ctx.tier == 'quick'
    rng = ctx.subrng('c08-sweep')
    names = [n for n in RAW if n not in dict(RAW_SETUP) and not n.startswith('x_')]
    M = menu()
    committing = [I_modify(1, 'AName', 0, 91), I_create(names=[92]), I_activate(1), I_delete(9, 'AName', 0), I_revoke(6, True)]
    for n in names:
        for ver in [(1, 2), (2, 0)] + ([] if quick else [(1, 0), (1, 4)]):
            run.sweep([req([I_raw(n)], ver=ver)], 'sweep:single')
            if quick and rng.random() < 0.5:
                continue
            run.sweep([req([I_raw(n), rng.choice(committing), I_get(1, 'GET_ATTRIBUTES')], ver=ver, opt='CONTINUE')], 'sweep:F S R')
            run.sweep([req([rng.choice(committing), I_raw(n), rng.choice(committing)], ver=ver, opt=rng.choice([None, 'CONTINUE']))], 'sweep:S F S')
    # items that only read, then items that commit (a read that dirtied a loaded object would be published here)
    for n in sorted(RAW_READ_ONLY):
        for ver in [(1, 2)] + ([] if quick else [(1, 4), (2, 0)]):
            run.sweep([req([I_raw(n), rng.choice(committing)], ver=ver, opt='CONTINUE')], 'sweep:R S')
            run.sweep([req([rng.choice(committing), I_raw(n), I_get(1), rng.choice(committing), I_get(1, 'GET_ATTRIBUTES')], ver=ver, opt='CONTINUE')], 'sweep:S R R S R')
    # each of the four creating operations, behind an earlier creation K: the identifier-less items must act on the NEW object
    creators = {'CREATE': lambda: I_create(names=[93]), 'REGISTER': lambda: I_register(7, names=[94]),
                'CREATE_KEY_PAIR': lambda: I_raw('ckp'), 'DERIVE_KEY': lambda: I_raw('derive_ok')}
    for first in sorted(creators):
        for second in sorted(creators):
            for ver in [(1, 2)] + ([] if quick else [(1, 0), (2, 0)]):
                for opt in ['CONTINUE', None]:
                    run.sweep([req([creators[first](), creators[second](), I_activate(), I_get(None, 'GET_ATTRIBUTES'), I_modify(None, 'AName', None, 90),
                                    I_get(), I_revoke(None, True), I_destroy()], ver=ver, opt=opt)], 'sweep:creator creator users')
        run.sweep([req([creators[first](), I_get(None, 'GET_ATTRIBUTES'), I_activate(), I_raw('encrypt_placeholder'), I_destroy(), I_get()], opt='CONTINUE')],
                  'sweep:creator users')
    # optional request fields at extreme values: the item alone, and between a creation and items that commit / read
    thorough_only = ('x_revoke_placeholder_date', 'x_modify_group_value', 'x_create_asi', 'x_ckp_name', 'x_delete_uid', 'x_create_policy')
    order = [n for n in EXTREME if not (quick and n.startswith(thorough_only))]
    rng.shuffle(order)
    for k in range(0, len(order), 6):        # six of them in one Continue batch, a creation in front, a commit and a read behind
        run.sweep([req([I_create(names=[115]), I_activate()] + [I_raw(n) for n in order[k:k + 6]] + [I_modify(9, 'AName', 0, 116), I_get(1, 'GET_ATTRIBUTES')],
                       opt='CONTINUE')], 'sweep:extreme S S X X X X X S R')
    for n in order:
        if quick and rng.random() < 0.9:
            continue
        run.sweep([req([I_raw(n)])], 'sweep:extreme single')
        run.sweep([req([I_create(names=[117]), I_raw(n), I_ro('LOCATE')])], 'sweep:extreme S X R (Stop)')
    # Register of every storable object class, then identifier-less items and a Locate
    registers = [I_register(2, names=[110]), I_register(7, names=[111]), I_register(8, names=[112]), I_raw('register_certificate'),
                 I_raw('register_public_key'), I_raw('register_private_key'), I_raw('register_split_key')]
    for reg in registers:
        for ver in [(1, 2)] + ([] if quick else [(1, 0), (2, 0)]):
            run.sweep([req([reg, I_get(), I_get(None, 'GET_ATTRIBUTES'), I_ro('LOCATE'), I_modify(None, 'AName', None, 113), I_destroy(), I_ro('LOCATE')],
                           ver=ver, opt='CONTINUE')], 'sweep:register users locate')
            run.sweep([req([I_create(names=[114]), reg, I_get(None, 'GET_ATTRIBUTE_LIST'), I_destroy()], ver=ver)], 'sweep:create register users')
    # creating items that fail late (after part of their work), then items that commit
    for n in sorted(RAW_KEYPAIR | RAW_DERIVE | {x for x in names if x.startswith(('register_', 'create_'))}):
        for opt in ['CONTINUE']:
            run.sweep([req([I_raw(n), I_create(names=[97]), I_get(), I_ro('LOCATE')], opt=opt)], 'sweep:C S R')
            run.sweep([req([I_create(names=[98]), I_raw(n), I_modify(1, 'AName', 0, 99), I_get()], opt=opt)], 'sweep:S C S R')
    for n in names:
        if RAW[n]()[0].name in ('CREATE', 'REGISTER', 'CREATE_KEY_PAIR', 'DERIVE_KEY'):
            for ver in [(1, 2)] + ([] if quick else [(1, 0), (2, 0)]):
                run.sweep([req([I_raw(n), I_get(), I_activate(), I_get(None, 'GET_ATTRIBUTES'), I_raw('encrypt_placeholder')], ver=ver, opt='CONTINUE')],
                          'sweep:placeholder')
    for _ in range(20 if quick else 250):
        reqs = []
        for _ in range(rng.randint(1, 3)):
            n = rng.randint(1, 4)
            items = [I_raw(rng.choice(names)) if rng.random() < 0.6 else copy.deepcopy(rng.choice(M)) for _ in range(n)]
            reqs.append(req(items, ver=rng.choice(VERSIONS), opt=rng.choice([None, 'CONTINUE', 'CONTINUE']), user=rng.choice(['alice', 'alice', 'bob'])))
        run.sweep(reqs, 'sweep:random')


def gen_locked(run, ctx):
    """A COMMIT the database refuses: the item is answered as failed, so nothing of it may ever become visible - neither
    through a later item of the same batch nor through a later request."""
    quick = ctx.tier == 'quick'
    writers = [I_create(names=[101]), I_register(7, names=[102]), I_activate(1), I_revoke(1, True), I_destroy(5), I_modify(1, 'AName', 0, 103),
               I_delete(9, 'AName', 1), I_raw('ckp'), I_raw('derive_ok')]
    for w in writers:
        run.locked([(req([w, I_create(names=[104]), I_get(1, 'GET_ATTRIBUTES')], opt='CONTINUE'), [0])], 'lock:L S R')
        run.locked([(req([w]), [0]), (req([I_create(names=[105])]), []), (req([I_get(1, 'GET_ATTRIBUTES'), I_ro('LOCATE')]), [])], 'lock:L / S / R')
        if not quick:
            run.locked([(req([I_create(names=[106]), w, I_modify(9, 'AName', 0, 107), w], opt='CONTINUE'), [1])], 'lock:S L S W')
            run.locked([(req([w, w], opt='CONTINUE', ver=(2, 0)), [0, 1]), (req([I_activate(9)]), [])], 'lock:L L / S')
    run.locked([(req([I_set(9, 'ASens', 1), I_create(names=[108])], ver=(2, 0), opt='CONTINUE'), [0])], 'lock:L S')
    run.locked([(req([I_get(1), I_create(names=[109])], opt='CONTINUE'), [0])], 'lock:read-only item under lock')


def gen_wire(run, ctx):
    """A sample of the requests above once more, as bytes through the real session, with a Maximum Response Size."""
    quick = ctx.tier == 'quick'
    rng = ctx.subrng('c08-wire')
    fixed = [req([I_create(names=[81])]), req([I_ro('QUERY')]), req([I_create(names=[82]), I_activate(), I_get()], opt='CONTINUE'),
             req([I_destroy(1)]), req([I_get(99)]), req([I_create(len_ok=False), I_create()], opt='CONTINUE'),
             req([I_create(), I_create()], ids=False), req([I_create()], opt='UNDO'), req([I_modify(1, 'AName', 0, 83)]),
             req([I_delete(9, 'AName', None)], ver=(2, 0))]
    for r in fixed:
        for mx in [None, 0, 1, 64, 150, 300, 1048576, 2 ** 31 - 1, -1]:
            run.wire([], r, mx, 'wire:fixed')
    # large batches: answers of 4-20 KiB must reach the client whole - one result per executed item in the bytes it receives
    big = [(60, None, 'CONTINUE'), (75, 1048576, None), (90, 3000, 'CONTINUE')] + ([] if quick else [(120, None, None), (200, None, None), (64, 20000, 'STOP')])
    for n, mx, opt in big:
        items = [I_create(names=[1000 + k]) if k % 7 else I_get(99) for k in range(n)] if opt == 'CONTINUE' else [I_create(names=[1000 + k]) for k in range(n)]
        run.wire([], req(items, opt=opt), mx, 'wire:large answer')
    run.wire_sequence([(req([I_create(names=[2000 + k]) for k in range(70)]), None), (req([I_ro('QUERY')]), None),
                       (req([I_register(7, names=[2100 + k]) for k in range(65)], ver=(1, 4)), None)], 'wire:sequence:large answers')
    # one connection, several requests: a limit stated by one request must not outlive it
    four = req([I_create(names=[84]), I_create(names=[85]), I_create(names=[86]), I_create(names=[87])])
    for small in [1, 64, 256, 400]:
        run.wire_sequence([(req([I_create(names=[88])]), small), (four, None), (req([I_ro('QUERY')]), None)], 'wire:sequence')
        run.wire_sequence([(req([I_ro('QUERY')]), small), (req([I_create(names=[89]), I_activate(), I_get()], opt='CONTINUE'), 1048576), (four, None)],
                          'wire:sequence')
    run.wire_sequence([(four, None), (req([I_get(1)]), 0), (four, None), (req([I_destroy(1)]), 2000), (four, None)], 'wire:sequence')
    seqpool = [m for m in run.meta if m['label'] in ('random', 'placeholder', 'mix:F S S') and not m['history_after_setup']]
    rng.shuffle(seqpool)
    for k in range(0, min(len(seqpool) - 3, 24 if quick else 300), 3):
        run.wire_sequence([(m['request'], rng.choice([None, None, 1, 100, 300, 600, 1048576])) for m in seqpool[k:k + 3]], 'wire:sequence:random')
    pool = [m for m in run.meta if m['label'] in ('random', 'placeholder', 'mix:F S S', 'mix:S F S', 'mix:F S', 'header:options', 'header:time stamp')]
    rng.shuffle(pool)
    for m in pool[:(120 if quick else 900)]:
        run.wire(m['history_after_setup'], m['request'], rng.choice([None, None, 0, 1, 100, 200, 300, 500, 1048576]), 'wire:' + m['label'])


def describe(run, i):
    m = run.meta[i]
    return {'label': m['label'], 'history_after_setup': m['history_after_setup'], 'request': m['request'], 'implementation': m['impl']}


def find_failing_input(run, ctx, bad):
    """A disagreement is not yet a violation: probe the disagreeing requests with the direct oracle in the
    contexts where a hidden effect would surface (a later item that commits, a later item that reads)."""
    def suspicion(i):       # a session left dirty, then a failed item, then the rest
        tr = run.meta[i]['impl']['trace']
        res = run.meta[i]['impl']['results']
        return (0 if any(d for _, d, _ in tr) else 1, 0 if any(not x[2] for x in res) else 1, i)
    for i in sorted(bad, key=suspicion)[:12]:
        m = run.meta[i]
        r = m['request']
        for tail in ([I_create(names=[71])], [I_get(1, 'GET_ATTRIBUTES'), I_modify(1, 'AName', 0, 72)], [I_ro('LOCATE'), I_create()],
                     [I_get(None), I_get(None, 'GET_ATTRIBUTES')]):
            items = [dict(x) for x in r['items']] + tail
            r2 = req([dict(x, bid=None) for x in items], ver=r['ver'], opt='CONTINUE', user=r['user'])
            if tuple(r2['ver']) not in [(1, 0), (1, 1), (1, 2), (1, 3), (1, 4), (2, 0)]:
                r2['ver'] = (1, 2)
            sub = Runner(ctx)
            sub.snap, sub.setup_store = run.snapshot(), run.setup_store
            try:
                sub.history(m['history_after_setup'] + [r2], 'finder')
            except Exception as e:  # the finder must not hide the original disagreement
                ctx.notes.append('finder probe raised %r' % (e,))
            finally:
                sub.close()


def run(ctx):
    ctx.cov['rule'] = ('a case is one request (1-4 batch items, header options) processed by a real KmipEngine that starts from a copy of a fixed '
                       'ten-object store (or from where the previous request of its history left it); generated as: every item shape of the model '
                       '(11 handlers x every guard outcome x 11 kinds of target) alone under 4 versions; header grid (versions, time stamps, '
                       'asynchronous, Stop/Continue/Undo, order, batch-id patterns) in front of a store-changing batch; every failing shape at first/middle/last '
                       'position next to items that commit on the same object; placeholder chains; seeded random histories.  Distinct = canonical '
                       '(request, error, per-item success/reason); non-trivial = request-level error, more than one item, or at least one failed item.')
    ctx.cov['trusted_extra'] = [
        'harness/c08.py: abstract item -> real payload builders, dump -> abstract store projection (uid, owner, type, state, names, groups, sensitive), '
        'observation wrapper around KmipEngine._process_operation (attached from outside), deterministic key bytes for Create',
        'model scope: Batch/Store.v handlers for Create, Register, Get*, Activate, Revoke, Destroy, Modify/Set/DeleteAttribute, Query-like, unsupported '
        'operations under the `default` operation policy; other handlers are covered by the direct oracle only when generated (they are not)']
    # findings.d/C08.json is the source of known_findings.json (merged by bin/mkmanifest); read it directly as well so
    # that an entry recorded there is honoured before the next merge.  Nothing is written.
    fd = Path(__file__).resolve().parents[1] / 'findings.d' / 'C08.json'
    if fd.exists():
        mine = [f for f in json.loads(fd.read_text()) if f.get('property') == 'C08']
        ids = {f.get('id') for f in mine}
        ctx.findings = [f for f in ctx.findings if f.get('id') not in ids] + mine     # findings.d is the source: its entry wins
    ctx.regen(only=['batchorder'])       # tie T: raise / mutation / commit order of every handler, from engine.py
    ctx.prove('props/C08.v', extra_targets=['theories/Batch/Cases.v', 'theories/Batch/SessionCases.v'])
    ctx.cov['source_order_residual'] = ctx.model_output(
        'From Coq Require Import String List.\nFrom PK Require Import Batch.Order.\nFrom PKGen Require Import BatchOrder.\n',
        'late_raises engine_methods operation_handlers')
    runner = Runner(ctx)
    gen_all(runner, ctx)
    gen_sweep(runner, ctx)
    gen_locked(runner, ctx)
    ctx.log('%d requests processed by the implementation' % len(runner.cases))
    bad = ctx.run_cases('batch', HEADER, runner.cases, 'check_case',
                        what='Batch/Store.v process vs KmipEngine.process_request: error | (operation, batch id, success) list, per-item '
                             '(store changed, session dirty, placeholder), final abstract store')
    for i in bad[:20]:
        says = ctx.model_output(HEADER, 'model_says %s' % runner.cases[i]) if i in bad[:3] else None
        ctx.disagreement('batch', describe(runner, i), model_says=says, impl_says=runner.meta[i]['impl'])
    if bad:
        find_failing_input(runner, ctx, bad)
    gen_wire(runner, ctx)
    sbad = ctx.run_cases('session', SHEADER, runner.scases, 'check_scase',
                         what='Batch/Session.v session_answer vs KmipSession._handle_message_loop: error | too large | results, final store')
    for i in sbad[:20]:
        says = ctx.model_output(SHEADER, 'smodel_says %s' % runner.scases[i]) if i in sbad[:3] else None
        ctx.disagreement('session', runner.smeta[i], model_says=says, impl_says=runner.smeta[i]['impl'])
    for k in (0, len(runner.cases) // 2, len(runner.cases) - 1):
        ctx.sample({'request': runner.meta[k]['request'], 'implementation': runner.meta[k]['impl']})
    runner.close()


def replay(ctx, data):
    """bin/check C08 --replay file: re-run the recorded history on a fresh engine and re-evaluate the direct oracles."""
    w = data.get('input') or {}
    cands = [w] if 'request' in w else [c['case'] for c in data.get('first_disagreeing_cases', [])]
    rc = 0
    for c in cands:
        r = Runner(ctx)
        if 'locked_steps_before' in c:            # a refused-COMMIT witness: raw setup, then the earlier requests with their locks
            im = r.fresh(r.snapshot2())
            for stp in c['locked_steps_before']:
                im.run(stp['request'], lock_items=set(stp['commit_refused_for_items']))
            obs = im.run(c['request'], lock_items=set(c.get('commit_refused_for_items', [])))
            hits = oracle(ctx, [], c['request'], None, obs, None)
            print('replayed (refused COMMIT for items %s)' % c.get('commit_refused_for_items'), canon(c['request'])[:400])
            print('  results:', [(x['op'], x['bid'], x['ok'], x['reason'], x['uid']) for x in obs['results']])
            print('  per item (store changed, session dirty, placeholder):', obs['trace'], ' touched:', obs['touched'])
            print('  direct oracle:', hits or 'no violation')
            r.close()
            rc = rc or (1 if hits else 0)
            continue
        im = r.fresh()
        prefix = list(c.get('history_after_setup', []))
        for q in prefix:
            im.run(q)
        wire = {'max': c.get('max_response_size'), 'same': True} if c.get('through') == 'KmipSession' or 'max_response_size' in c else None
        for e in c.get('earlier_on_this_connection', []):       # earlier requests on the same connection / session object
            im.run(e['request'], wire={'max': e['max_response_size'], 'same': True})
        obs = im.run(c['request'], wire=wire)

        def twin_at_same_point():
            t = r.fresh_twin(r.snapshot())
            for q in prefix:
                t.run(q)
            return t
        before = len(ctx.violations) + len(ctx.known_hits)
        hits = oracle(ctx, prefix, c['request'], None, obs, None if wire else twin_at_same_point,
                      extra=({'max_response_size': wire['max'], 'through': 'KmipSession',
                              'earlier_on_this_connection': c.get('earlier_on_this_connection', [])} if wire else None))
        print('replayed', canon(c['request'])[:400])
        print('  error:', obs['err_message'], ' results:', [(x['op'], x['bid'], x['ok'], x['reason']) for x in obs['results']])
        print('  per item (store changed, session dirty, placeholder):', obs['trace'])
        print('  direct oracle:', hits or 'no violation')
        r.close()
        if hits:
            rc = 1
    return rc
