(* The error response of the session is always encodable (given sane version numbers, clock and reason), has a
   known size, and reads back - with the primitive decoders of Base.Prim - as exactly one failed batch item
   carrying the version, time stamp, reason and message it was built from. *)
From Coq Require Import ZArith List Bool Lia ZifyBool.
From PK Require Import Base.Bytes Base.BytesProofs Base.Prim Base.PrimProofs Session.Encode.
Import ListNotations.
Open Scope Z_scope.

Definition int32 (v : Z) : Prop := - TWO31 <= v < TWO31.
Definition ver_ok (v : Z * Z) : Prop := int32 (fst v) /\ int32 (snd v).
Definition clock_ok (ts : Z) : Prop := - TWO63 <= ts < TWO63.
Definition reason_ok (r : Z) : Prop := 0 <= r < TWO32.
Definition msg_ok (m : list Z) : Prop := text_ok m = true /\ zlen m < TWO31.

(* ---- sizes of the encoded primitives ---- *)
Lemma with_hdr_len tag ty len body bs : with_hdr tag ty len body = Some bs -> zlen bs = 8 + zlen body.
Proof.
  intro H. apply with_hdr_some in H. destruct H as (h & Hh & ->). unfold hdr in Hh.
  destruct ((0 <=? len) && (len <? TWO32)); [|discriminate]. injection Hh as Hh. subst h.
  unfold zlen. rewrite app_length. simpl length. lia.
Qed.

Lemma enc_prim_len tag p bs : enc_prim tag p = Some bs ->
  match p with
  | VInt _ | VEnum _ | VDate _ => zlen bs = 16
  | VText cs => zlen bs = 8 + zlen cs + pad_len (zlen cs)
  | _ => True
  end.
Proof.
  destruct p as [v|v|v|v|b|cs|bs0|v|v]; cbn [enc_prim]; intro H; auto.
  - destruct ((- TWO31 <=? v) && (v <? TWO31)); [|discriminate].
    apply with_hdr_len in H. rewrite H, zlen_app, !zlen_be_enc. lia.
  - destruct ((0 <=? v) && (v <? TWO32)); [|discriminate].
    apply with_hdr_len in H. rewrite H, zlen_app, !zlen_be_enc. lia.
  - destruct (text_ok cs); [|discriminate].
    apply with_hdr_len in H. rewrite H, zlen_app, zpad_length. lia.
  - destruct ((- TWO63 <=? v) && (v <? TWO63)); [|discriminate].
    apply with_hdr_len in H. rewrite H, zlen_be_enc. lia.
Qed.

(* ---- structures ---- *)
Lemma enc_struct_some tag b : zlen b < TWO32 ->
  exists h, hdr tag STRUCT_CODE (zlen b) = Some h /\ enc_struct tag (Some b) = Some (h ++ b) /\ zlen (h ++ b) = 8 + zlen b.
Proof.
  intro Hb. destruct (hdr_total tag STRUCT_CODE (zlen b)) as (h & Hh); [pose proof (zlen_nonneg b); lia|].
  exists h. split; [exact Hh|]. unfold enc_struct, with_hdr. rewrite Hh. split; [reflexivity|].
  apply (with_hdr_len tag STRUCT_CODE (zlen b) b). unfold with_hdr. rewrite Hh. reflexivity.
Qed.

Lemma dec_struct_enc tag h b r : tag_ok tag = true -> hdr tag STRUCT_CODE (zlen b) = Some h ->
  dec_struct tag ((h ++ b) ++ r) = Some (b, r).
Proof.
  intros Ht Hh. unfold dec_struct. rewrite <- app_assoc.
  rewrite (dec_hdr_hdr tag STRUCT_CODE (zlen b) h (b ++ r) Ht) by (unfold STRUCT_CODE; lia || exact Hh).
  apply take_exact_app.
Qed.

Lemma tags_ok :
  tag_ok T_RESPONSE_MESSAGE = true /\ tag_ok T_RESPONSE_HEADER = true /\ tag_ok T_PROTOCOL_VERSION = true /\
  tag_ok T_VERSION_MAJOR = true /\ tag_ok T_VERSION_MINOR = true /\ tag_ok T_TIME_STAMP = true /\
  tag_ok T_BATCH_COUNT = true /\ tag_ok T_BATCH_ITEM = true /\ tag_ok T_RESULT_STATUS = true /\
  tag_ok T_RESULT_REASON = true /\ tag_ok T_RESULT_MESSAGE = true.
Proof. repeat split; reflexivity. Qed.

Lemma pad_len_small n : 0 <= pad_len n < 8.
Proof. apply pad_len_range. Qed.

(* ---- well-formedness of the primitives involved ---- *)
Lemma wf_int v : int32 v -> wf_prim any_enum (VInt v) = true.
Proof. unfold int32. intro H. cbn [wf_prim]. apply andb_true_intro. split; [apply Z.leb_le | apply Z.ltb_lt]; lia. Qed.
Lemma wf_date v : clock_ok v -> wf_prim any_enum (VDate v) = true.
Proof. unfold clock_ok. intro H. cbn [wf_prim]. apply andb_true_intro. split; [apply Z.leb_le | apply Z.ltb_lt]; lia. Qed.
Lemma wf_enum v : reason_ok v -> wf_prim any_enum (VEnum v) = true.
Proof.
  unfold reason_ok. intro H. cbn [wf_prim]. unfold any_enum. rewrite andb_true_r.
  apply andb_true_intro. split; [apply Z.leb_le | apply Z.ltb_lt]; lia.
Qed.
Lemma wf_text m : msg_ok m -> wf_prim any_enum (VText m) = true.
Proof.
  intros [H1 H2]. cbn [wf_prim]. rewrite H1. cbn [andb]. apply Z.ltb_lt. unfold TWO31, TWO32 in *. lia.
Qed.

(* ---- the error response ---- *)
Theorem err_response_wf v ts reason msg :
  ver_ok v -> clock_ok ts -> reason_ok reason -> msg_ok msg ->
  exists b, err_response v ts reason msg = Some b
    /\ zlen b = 136 + zlen msg + pad_len (zlen msg)
    /\ dec_err_response b = Some {| ef_version := v; ef_ts := ts; ef_count := 1; ef_status := OPERATION_FAILED;
                                    ef_reason := reason; ef_msg := msg |}.
Proof.
  intros [Hma Hmi] Hts Hr Hmsg.
  destruct tags_ok as (TM & TH & TPV & TMA & TMI & TTS & TBC & TBI & TRS & TRR & TRM).
  (* the primitives *)
  destruct (prim_roundtrip any_enum T_VERSION_MAJOR (VInt (fst v)) TMA (wf_int _ Hma)) as (bma & Ema & Dma).
  destruct (prim_roundtrip any_enum T_VERSION_MINOR (VInt (snd v)) TMI (wf_int _ Hmi)) as (bmi & Emi & Dmi).
  destruct (prim_roundtrip any_enum T_TIME_STAMP (VDate ts) TTS (wf_date _ Hts)) as (bts & Ets & Dts).
  destruct (prim_roundtrip any_enum T_BATCH_COUNT (VInt 1) TBC eq_refl) as (bbc & Ebc & Dbc).
  destruct (prim_roundtrip any_enum T_RESULT_STATUS (VEnum OPERATION_FAILED) TRS eq_refl) as (brs & Ers & Drs).
  destruct (prim_roundtrip any_enum T_RESULT_REASON (VEnum reason) TRR (wf_enum _ Hr)) as (brr & Err & Drr).
  destruct (prim_roundtrip any_enum T_RESULT_MESSAGE (VText msg) TRM (wf_text _ Hmsg)) as (brm & Erm & Drm).
  destruct Hmsg as [Htxt Hlen].
  pose proof (enc_prim_len _ _ _ Ema) as Lma. pose proof (enc_prim_len _ _ _ Emi) as Lmi.
  pose proof (enc_prim_len _ _ _ Ets) as Lts. pose proof (enc_prim_len _ _ _ Ebc) as Lbc.
  pose proof (enc_prim_len _ _ _ Ers) as Lrs. pose proof (enc_prim_len _ _ _ Err) as Lrr.
  pose proof (enc_prim_len _ _ _ Erm) as Lrm. cbn beta iota in Lma, Lmi, Lts, Lbc, Lrs, Lrr, Lrm.
  pose proof (pad_len_small (zlen msg)) as Hpad. pose proof (zlen_nonneg msg) as Hmn.
  unfold TWO31 in Hlen.
  unfold err_response. rewrite Ema, Emi, Ets, Ebc, Ers, Err, Erm. cbn [cat2].
  (* protocol version *)
  assert (Bpv : zlen (bma ++ bmi) = 32) by (rewrite zlen_app; clear - Lma Lmi; lia).
  destruct (enc_struct_some T_PROTOCOL_VERSION (bma ++ bmi)) as (hpv & Hhpv & Epv & Lpv);
    [rewrite Bpv; reflexivity|].
  rewrite Epv. cbn [cat2]. rewrite Bpv in Lpv.
  (* header *)
  assert (Bh : zlen (((hpv ++ bma ++ bmi) ++ bts) ++ bbc) = 72)
    by (rewrite !zlen_app; rewrite !zlen_app in Lpv; clear - Lpv Lts Lbc; lia).
  destruct (enc_struct_some T_RESPONSE_HEADER (((hpv ++ bma ++ bmi) ++ bts) ++ bbc)) as (hh & Hhh & Eh & Lh);
    [rewrite Bh; reflexivity|].
  rewrite Eh. cbn [cat2]. rewrite Bh in Lh.
  (* batch item *)
  assert (Bi : zlen ((brs ++ brr) ++ brm) = 40 + zlen msg + pad_len (zlen msg))
    by (rewrite !zlen_app; clear - Lrs Lrr Lrm; lia).
  destruct (enc_struct_some T_BATCH_ITEM ((brs ++ brr) ++ brm)) as (hi & Hhi & Ei & Li);
    [rewrite Bi; unfold TWO32; clear - Hpad Hmn Hlen; lia|].
  rewrite Ei. cbn [cat2]. rewrite Bi in Li.
  (* message *)
  assert (Bm : zlen ((hh ++ ((hpv ++ bma ++ bmi) ++ bts) ++ bbc) ++ hi ++ (brs ++ brr) ++ brm)
               = 128 + zlen msg + pad_len (zlen msg))
    by (rewrite (zlen_app (hh ++ _)), Lh, Li; clear; lia).
  destruct (enc_struct_some T_RESPONSE_MESSAGE ((hh ++ ((hpv ++ bma ++ bmi) ++ bts) ++ bbc) ++ hi ++ (brs ++ brr) ++ brm))
    as (hm & Hhm & Em & Lm); [rewrite Bm; unfold TWO32; clear - Hpad Hmn Hlen; lia|].
  rewrite Em. eexists. split; [reflexivity|]. split.
  - rewrite Lm, Bm. clear; lia.
  - (* read it back *)
    cbn [ptype_of] in Dma, Dmi, Dts, Dbc, Drs, Drr, Drm.
    unfold dec_err_response.
    rewrite <- (app_nil_r (hm ++ _)). rewrite (dec_struct_enc _ _ _ [] TM Hhm).
    rewrite (dec_struct_enc _ _ _ _ TH Hhh).
    rewrite <- !app_assoc.
    replace (hpv ++ bma ++ bmi ++ bts ++ bbc) with ((hpv ++ bma ++ bmi) ++ bts ++ bbc) by (rewrite <- !app_assoc; reflexivity).
    rewrite (dec_struct_enc _ _ _ _ TPV Hhpv).
    rewrite (Dma bmi).
    rewrite <- (app_nil_r bmi). rewrite (Dmi []).
    rewrite (Dts bbc).
    rewrite <- (app_nil_r bbc). rewrite (Dbc []).
    replace (hi ++ brs ++ brr ++ brm) with ((hi ++ (brs ++ brr) ++ brm) ++ []) by (rewrite app_nil_r, <- !app_assoc; reflexivity).
    rewrite (dec_struct_enc _ _ _ [] TBI Hhi).
    rewrite <- !app_assoc.
    rewrite (Drs (brr ++ brm)).
    rewrite (Drr brm).
    rewrite <- (app_nil_r brm). rewrite (Drm []).
    destruct v; reflexivity.
Qed.
