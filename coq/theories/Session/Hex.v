(* Packed byte strings -> bytes.  The harness ships byte strings to Coq as lists of primitive 63-bit integers,
   seven bytes per integer under a sentinel bit (value = 2^(8k) + the k <= 7 bytes read big-endian), because a
   literal of that kind parses an order of magnitude faster than a list of Z numerals or a string literal.
   This file turns them into the `bytes` of Base.Bytes.  Used only by the comparator (SessionCases.v), never by
   a theorem. *)
From Coq Require Import Uint63.
From PK Require Export Base.Bytes.
Open Scope Z_scope.

Definition packed := list int.

Definition bit_z (v k : int) (w : Z) : Z :=
  if Uint63.is_zero (Uint63.land (Uint63.lsr v k) 1%uint63) then 0 else w.
Definition byte_z (v : int) : Z :=
  bit_z v 0%uint63 1 + bit_z v 1%uint63 2 + bit_z v 2%uint63 4 + bit_z v 3%uint63 8
  + bit_z v 4%uint63 16 + bit_z v 5%uint63 32 + bit_z v 6%uint63 64 + bit_z v 7%uint63 128.
Fixpoint unpack (fuel : nat) (v : int) (acc : bytes) : bytes :=
  match fuel with
  | O => acc
  | S f => if Uint63.leb v 1%uint63 then acc else unpack f (Uint63.lsr v 8%uint63) (byte_z v :: acc)
  end.
Definition hx (l : packed) : bytes := flat_map (fun i => unpack 8 i []) l.
