(* Hex strings -> bytes.  The harness ships byte strings to Coq as string literals ("42007801...") because
   they parse much faster than lists of numerals; this file turns them into the `bytes` of Base.Bytes. *)
From Coq Require Import String Ascii.
From PK Require Export Base.Bytes.
Open Scope Z_scope.

Definition hexval (c : ascii) : Z :=
  let n := Z.of_N (N_of_ascii c) in
  if n <? 58 then n - 48 else if n <? 71 then n - 55 else n - 87.

Fixpoint hx (s : string) : bytes :=
  match s with
  | String a (String b r) => (16 * hexval a + hexval b) :: hx r
  | _ => []
  end.
