(* Comparator for the correspondence run (tie K) of C12 and C17: one case = one connection.
   The harness fills in the script (chunks, certificate, configuration, clock), what the REAL parser said about
   every frame, what the REAL engine returned on every call, and everything observed at the fake connection.
   `check_conn` recomputes framing and serving with the model and compares. *)
From Coq Require Import String.
From PK Require Export Session.Hex Session.Framing Session.Session.
Open Scope Z_scope.

Record observed_step := {
  o_sent : list packed;             (* every sendall during this frame *)
  o_call : option identity;         (* credential passed to process_request, if it was entered *)
  o_ncalls : Z;                     (* number of process_request calls during this frame *)
  o_escaped : bool;                 (* an exception other than ConnectionClosed left _handle_message_loop *)
  o_store_changed : bool            (* raw store dump differs before/after the frame *)
}.

Inductive keresult :=
| KResp (enc : option packed) (max : option Z) (ver : Z * Z)
| KKmipErr (reason : Z) (msg : list Z)        (* UTF-8 bytes of str(e) *)
| KCrash.

Record kcase := {
  k_chunks : list packed;                   (* each scripted chunk *)
  k_cfg : cfg;
  k_parse : list (option (Z * Z));          (* per frame: the real parser's verdict (version of the request) *)
  k_engine : list keresult;                 (* per process_request call, in order *)
  k_frames : list packed;                   (* each frame the session handed to the parser *)
  k_asked : list Z;                         (* the sizes asked of recv, whole connection *)
  k_closed : bool;                          (* the loop ended with ConnectionClosed *)
  k_steps : list observed_step
}.

Definition to_eresult (k : keresult) : eresult :=
  match k with
  | KResp enc max ver => EResp (option_map hx enc) max ver
  | KKmipErr reason msg => EKmipErr reason msg
  | KCrash => ECrash
  end.

(* the instance of the section parameters: a request is (index of the frame, version) *)
Definition krequest := (Z * Z)%type.
Fixpoint assoc_bytes (tbl : list (bytes * option (Z * Z))) (f : bytes) : option krequest :=
  match tbl with
  | [] => None
  | (b, v) :: r => if bytes_eqb b f then v else assoc_bytes r f
  end.
Definition kengine (outs : list eresult) (_ : krequest) (_ : identity) (n : nat) : eresult * nat :=
  (nth n outs ECrash, S n).

Fixpoint list_eqb {A} (eq : A -> A -> bool) (a b : list A) : bool :=
  match a, b with
  | [], [] => true
  | x :: a', y :: b' => eq x y && list_eqb eq a' b'
  | _, _ => false
  end.
Definition opt_eqb {A} (eq : A -> A -> bool) (a b : option A) : bool :=
  match a, b with
  | None, None => true
  | Some x, Some y => eq x y
  | _, _ => false
  end.
Definition identity_eqb (a b : identity) : bool :=
  String.eqb (fst a) (fst b) && opt_eqb (list_eqb String.eqb) (snd a) (snd b).

Definition step_agrees (m : step) (calls_before calls_after : nat) (o : observed_step) : bool :=
  match out m with
  | Sent b => list_eqb bytes_eqb [b] (map hx (o_sent o)) && negb (o_escaped o)
  | Escaped => match o_sent o with [] => o_escaped o | _ => false end
  end
  && opt_eqb identity_eqb (call m) (o_call o)
  && (o_ncalls o =? Z.of_nat (calls_after - calls_before))
  && (if Nat.eqb calls_before calls_after then negb (o_store_changed o) else true).

(* serve, step by step, so that the engine-call counter before/after each frame is visible *)
Fixpoint steps_agree (g : cfg) (tbl : list (bytes * option (Z * Z))) (outs : list eresult)
         (fs : list bytes) (n : nat) (os : list observed_step) : bool :=
  match fs, os with
  | [], [] => true
  | f :: fs', o :: os' =>
      let (m, n') := handle krequest (assoc_bytes tbl) (fun r => r) nat (kengine outs) g f n in
      step_agrees m n n' o && steps_agree g tbl outs fs' n' os'
  | _, _ => false
  end.

Definition ending_closed (e : ending) : bool := match e with EndClosed => true | _ => false end.

Definition check_conn (k : kcase) : bool :=
  let '(frs, asked, e) := frames_conn (map hx (k_chunks k)) in
  list_eqb bytes_eqb frs (map hx (k_frames k))
  && list_eqb Z.eqb asked (k_asked k)
  && Bool.eqb (ending_closed e) (k_closed k)
  && (Nat.eqb (length frs) (length (k_parse k)))
  && steps_agree (k_cfg k) (combine frs (k_parse k)) (map to_eresult (k_engine k)) frs 0 (k_steps k)
  (* the chunk-free specification gives the same frames *)
  && list_eqb bytes_eqb frs (frames_stream (concat (map hx (k_chunks k)))).

(* serve and steps_agree walk the same way: used by the harness only through check_conn *)
