(* Model of KmipSession._receive_request / _receive_bytes (kmip/services/server/session.py l.324-359) over a
   scripted transport.  Definitions only.

   Transport: a list of chunks.  socket.recv(n) hands out at most n bytes of the first chunk (what is left of the
   chunk stays first in line); no chunk left, or an empty chunk, is the empty byte string (peer closed).
   Tie K: harness/sessdrv.py FakeConn behaves exactly like `conn_recv`; the sizes asked of recv and the frames
   handed to the parser are compared with `frames_of` on every run (Session/SessionCases.v). *)
From PK Require Export Base.Bytes.
Open Scope Z_scope.

Definition BUF : Z := 4096.                       (* self._max_buffer_size *)

Definition conn_recv (n : Z) (cs : list bytes) : bytes * list bytes :=
  match cs with
  | [] => ([], [])
  | c :: rest =>
      if zlen c <=? n then (c, rest)
      else (firstn (Z.to_nat n) c, skipn (Z.to_nat n) c :: rest)      (* n <= 4096 here *)
  end.

Inductive rres :=
| Got (msg : bytes) (rest : list bytes) (asked : list Z)
| Closed (asked : list Z)          (* len(partial_message) == 0 -> ConnectionClosed *)
| Overrun (asked : list Z)         (* bytes_received != message_size -> ValueError *)
| NoFuel.

(* while bytes_received < message_size: recv(min(message_size - bytes_received, 4096)) ...
   `remaining` is message_size - bytes_received. *)
Fixpoint recv_loop (fuel : nat) (remaining : Z) (cs : list bytes) : rres :=
  if 0 <? remaining then
    match fuel with
    | O => NoFuel
    | S f =>
        let n := Z.min remaining BUF in
        let (part, cs') := conn_recv n cs in
        if zlen part =? 0 then Closed [n]
        else match recv_loop f (remaining - zlen part) cs' with
             | Got m r a => Got (part ++ m) r (n :: a)
             | Closed a => Closed (n :: a)
             | Overrun a => Overrun (n :: a)
             | NoFuel => NoFuel
             end
    end
  else if remaining =? 0 then Got [] cs [] else Overrun [].

Inductive ending := EndClosed | EndValueError | EndNoFuel.

(* _receive_request: 8 header bytes, then struct.unpack('!I', header[4:]) more *)
Inductive fres :=
| Frame (f : bytes) (rest : list bytes) (asked : list Z)
| NoFrame (e : ending) (asked : list Z).

Definition receive_request (fuel : nat) (cs : list bytes) : fres :=
  match recv_loop fuel 8 cs with
  | Got h cs1 a1 =>
      match recv_loop fuel (be_dec (skipn 4 h)) cs1 with
      | Got p cs2 a2 => Frame (h ++ p) cs2 (a1 ++ a2)
      | Closed a2 => NoFrame EndClosed (a1 ++ a2)
      | Overrun a2 => NoFrame EndValueError (a1 ++ a2)
      | NoFuel => NoFrame EndNoFuel a1
      end
  | Closed a => NoFrame EndClosed a
  | Overrun a => NoFrame EndValueError a
  | NoFuel => NoFrame EndNoFuel []
  end.

(* the frames of a whole connection, the sizes asked of recv, and how the connection ends *)
Fixpoint frames_of (fuel0 fuel : nat) (cs : list bytes) : list bytes * list Z * ending :=
  match fuel with
  | O => ([], [], EndNoFuel)
  | S f =>
      match receive_request fuel0 cs with
      | Frame fr rest a =>
          let '(frs, a', e) := frames_of fuel0 f rest in (fr :: frs, a ++ a', e)
      | NoFrame e a => ([], a, e)
      end
  end.

Definition conn_fuel (cs : list bytes) : nat := S (length (concat cs)).
Definition frames_conn (cs : list bytes) := frames_of (conn_fuel cs) (conn_fuel cs) cs.

(* ---- specification on the flat byte stream (no chunks, no buffer size) ---- *)
Fixpoint frames (fuel : nat) (s : bytes) : list bytes :=
  match fuel with
  | O => []
  | S f =>
      if zlen s <? 8 then [] else
      let size := be_dec (firstn 4 (skipn 4 s)) in
      if size <? 0 then [] else
      if zlen s - 8 <? size then [] else
      firstn (Z.to_nat (8 + size)) s :: frames f (skipn (Z.to_nat (8 + size)) s)
  end.
Definition frames_stream (s : bytes) : list bytes := frames (S (length s)) s.
