(* Framing does not depend on how the transport chunks the stream: frames_of over any chunking equals `frames`
   on the concatenated stream (induction over the receive loop; no bound on stream, chunk or frame sizes). *)
From Coq Require Import ZArith List Bool Lia ZifyBool.
From PK Require Import Base.Bytes Base.BytesProofs Session.Framing.
Import ListNotations.
Open Scope Z_scope.

Definition nonempty (c : bytes) : Prop := c <> [].

Lemma zlen_app' {A} (a b : list A) : zlen (a ++ b) = zlen a + zlen b.
Proof. unfold zlen. rewrite app_length. lia. Qed.
Lemma zlen_nonneg' {A} (l : list A) : 0 <= zlen l.
Proof. unfold zlen. lia. Qed.
Lemma zlen_nil_iff {A} (l : list A) : zlen l = 0 <-> l = [].
Proof. unfold zlen. destruct l; simpl; split; intro H; try reflexivity; try discriminate; lia. Qed.

Lemma conn_recv_spec n cs part cs' :
  Forall nonempty cs -> 0 < n -> conn_recv n cs = (part, cs') ->
  (cs = [] /\ part = []) \/
  (part <> [] /\ zlen part <= n /\ part ++ concat cs' = concat cs /\ Forall nonempty cs').
Proof.
  intros Hne Hn H. destruct cs as [|c rest]; simpl in H.
  - inversion H; subst. left; auto.
  - right. inversion Hne as [|? ? Hc Hrest]; subst.
    destruct (zlen c <=? n) eqn:E.
    + inversion H; subst. repeat split; auto. lia.
    + inversion H; subst. clear H.
      assert (Hlen : (Z.to_nat n < length c)%nat) by (unfold zlen in E; lia).
      repeat split.
      * intro K. apply (f_equal (@length Z)) in K. rewrite firstn_length in K. simpl in K. lia.
      * unfold zlen. rewrite firstn_length. lia.
      * simpl. rewrite app_assoc. rewrite firstn_skipn. reflexivity.
      * constructor; auto. intro K. apply (f_equal (@length Z)) in K. rewrite skipn_length in K. simpl in K. lia.
Qed.

Lemma firstn_app_ge {A} (n : nat) (a b : list A) :
  (length a <= n)%nat -> firstn n (a ++ b) = a ++ firstn (n - length a) b.
Proof. intro H. rewrite firstn_app. rewrite firstn_all2 by lia. reflexivity. Qed.
Lemma skipn_app_ge {A} (n : nat) (a b : list A) :
  (length a <= n)%nat -> skipn n (a ++ b) = skipn (n - length a) b.
Proof. intro H. rewrite skipn_app. rewrite skipn_all2 by lia. reflexivity. Qed.

Lemma skipn_skipn' {A} : forall (y x : nat) (l : list A), skipn x (skipn y l) = skipn (y + x) l.
Proof.
  induction y as [|y IH]; intros x l; simpl; [reflexivity|].
  destruct l; [destruct x; reflexivity | apply IH].
Qed.

(* what the receive loop does, said without chunks *)
Lemma recv_loop_spec : forall fuel remaining cs,
  Forall nonempty cs -> (length (concat cs) < fuel)%nat ->
  (remaining < 0 -> recv_loop fuel remaining cs = Overrun []) /\
  (0 <= remaining <= zlen (concat cs) ->
     exists cs' a, recv_loop fuel remaining cs = Got (firstn (Z.to_nat remaining) (concat cs)) cs' a
                   /\ concat cs' = skipn (Z.to_nat remaining) (concat cs) /\ Forall nonempty cs') /\
  (zlen (concat cs) < remaining -> exists a, recv_loop fuel remaining cs = Closed a).
Proof.
  induction fuel as [|f IH]; intros remaining cs Hne Hfuel; [lia|].
  pose proof (zlen_nonneg' (concat cs)) as Hzn.
  simpl. destruct (0 <? remaining) eqn:Epos.
  - (* the loop body runs *)
    assert (Hn : 0 < Z.min remaining BUF) by (unfold BUF; lia).
    destruct (conn_recv (Z.min remaining BUF) cs) as [part cs'] eqn:Erecv.
    destruct (conn_recv_spec _ _ _ _ Hne Hn Erecv) as [[Hcs Hpart] | (Hpart & Hle & Hcat & Hne')].
    + subst. simpl. repeat split; intros; try lia.
      * unfold zlen in *. simpl in *. lia.
      * eexists; reflexivity.
    + assert (Hz : zlen part =? 0 = false).
      { destruct (zlen part =? 0) eqn:K; auto. apply Z.eqb_eq, zlen_nil_iff in K. contradiction. }
      rewrite Hz.
      assert (Hpl : (1 <= length part)%nat).
      { destruct part; [contradiction|simpl; lia]. }
      assert (Hlen : length (concat cs) = (length part + length (concat cs'))%nat).
      { rewrite <- Hcat, app_length. reflexivity. }
      assert (Hf : (length (concat cs') < f)%nat) by lia.
      destruct (IH (remaining - zlen part) cs' Hne' Hf) as (_ & IHgot & IHclosed).
      assert (Hzl : zlen (concat cs) = zlen part + zlen (concat cs')) by (unfold zlen; lia).
      repeat split; intros.
      * lia.
      * destruct IHgot as (cs'' & a & Hr & Hc & Hn''); [lia|].
        rewrite Hr. exists cs'', (Z.min remaining BUF :: a). repeat split; auto.
        -- f_equal. rewrite <- Hcat. rewrite firstn_app_ge by (unfold zlen in *; lia).
           f_equal. f_equal. unfold zlen in *. lia.
        -- rewrite Hc. rewrite <- Hcat. rewrite skipn_app_ge by (unfold zlen in *; lia).
           f_equal. unfold zlen in *. lia.
      * destruct IHclosed as (a & Hr); [lia|]. rewrite Hr. eexists; reflexivity.
  - destruct (remaining =? 0) eqn:E0.
    + assert (remaining = 0) by lia. subst. repeat split; intros; try lia.
      exists cs, []. simpl. repeat split; auto.
    + repeat split; intros; try lia.
Qed.

(* the header bytes the model and the specification look at are the same *)
Lemma header_len_bytes (s : bytes) : skipn 4 (firstn 8 s) = firstn 4 (skipn 4 s).
Proof. rewrite firstn_skipn_comm. reflexivity. Qed.

Inductive frame_view (s : bytes) : fres -> Prop :=
| FV_short a : zlen s < 8 -> frame_view s (NoFrame EndClosed a)
| FV_negative a : 8 <= zlen s -> be_dec (firstn 4 (skipn 4 s)) < 0 -> frame_view s (NoFrame EndValueError a)
| FV_incomplete a : 8 <= zlen s -> 0 <= be_dec (firstn 4 (skipn 4 s)) -> zlen s - 8 < be_dec (firstn 4 (skipn 4 s)) ->
    frame_view s (NoFrame EndClosed a)
| FV_frame cs2 a : 8 <= zlen s -> 0 <= be_dec (firstn 4 (skipn 4 s)) <= zlen s - 8 ->
    concat cs2 = skipn (Z.to_nat (8 + be_dec (firstn 4 (skipn 4 s)))) s -> Forall nonempty cs2 ->
    frame_view s (Frame (firstn (Z.to_nat (8 + be_dec (firstn 4 (skipn 4 s)))) s) cs2 a).

Lemma receive_request_spec fuel cs :
  Forall nonempty cs -> (length (concat cs) < fuel)%nat -> frame_view (concat cs) (receive_request fuel cs).
Proof.
  intros Hne Hfuel. unfold receive_request. set (s := concat cs).
  destruct (recv_loop_spec fuel 8 cs Hne Hfuel) as (_ & Hgot & Hclosed).
  destruct (Z_lt_le_dec (zlen s) 8) as [Hshort | Hlong].
  - destruct Hclosed as (a & Hr); [exact Hshort|]. rewrite Hr. constructor. exact Hshort.
  - destruct Hgot as (cs1 & a1 & Hr & Hc1 & Hne1); [fold s; pose proof (zlen_nonneg' s); lia|].
    rewrite Hr. fold s in Hc1 |- *. change (Z.to_nat 8) with 8%nat in *.
    rewrite header_len_bytes. set (size := be_dec (firstn 4 (skipn 4 s))).
    assert (Hf1 : (length (concat cs1) < fuel)%nat).
    { rewrite Hc1, skipn_length. fold s in Hfuel. lia. }
    assert (Hz1 : zlen (concat cs1) = zlen s - 8).
    { rewrite Hc1. unfold zlen in *. rewrite skipn_length. lia. }
    destruct (recv_loop_spec fuel size cs1 Hne1 Hf1) as (Hover & Hgot2 & Hclosed2).
    destruct (Z_lt_le_dec size 0) as [Hneg | Hnn].
    + rewrite (Hover Hneg). apply FV_negative; auto.
    + destruct (Z_lt_le_dec (zlen s - 8) size) as [Hinc | Hfit].
      * destruct Hclosed2 as (a & Hr2); [lia|]. rewrite Hr2. apply FV_incomplete; auto.
      * destruct Hgot2 as (cs2 & a2 & Hr2 & Hc2 & Hne2); [lia|]. rewrite Hr2.
        assert (Hnat : Z.to_nat (8 + size) = (8 + Z.to_nat size)%nat) by lia.
        assert (Hfr : firstn 8 s ++ firstn (Z.to_nat size) (concat cs1) = firstn (Z.to_nat (8 + size)) s).
        { rewrite Hnat, Hc1. rewrite <- (firstn_skipn 8 s) at 3.
          rewrite firstn_app_ge by (rewrite firstn_length; lia).
          rewrite firstn_length. unfold zlen in Hlong.
          replace (8 + Z.to_nat size - Nat.min 8 (length s))%nat with (Z.to_nat size) by lia. reflexivity. }
        rewrite Hfr. apply FV_frame; auto.
        fold size. rewrite Hc2, Hc1, Hnat. rewrite skipn_skipn'. reflexivity.
Qed.

(* the frames of a chunked connection are the frames of its byte stream *)
Lemma frames_of_S fuel0 f cs :
  frames_of fuel0 (S f) cs =
  match receive_request fuel0 cs with
  | Frame fr rest a => let '(frs, a', e) := frames_of fuel0 f rest in (fr :: frs, a ++ a', e)
  | NoFrame e a => ([], a, e)
  end.
Proof. reflexivity. Qed.

Lemma frames_S f s :
  frames (S f) s =
  if zlen s <? 8 then [] else
  let size := be_dec (firstn 4 (skipn 4 s)) in
  if size <? 0 then [] else
  if zlen s - 8 <? size then [] else
  firstn (Z.to_nat (8 + size)) s :: frames f (skipn (Z.to_nat (8 + size)) s).
Proof. reflexivity. Qed.

Lemma receive_request_cases fuel cs :
  Forall nonempty cs -> (length (concat cs) < fuel)%nat ->
  let s := concat cs in
  let size := be_dec (firstn 4 (skipn 4 s)) in
  (zlen s < 8 /\ exists a, receive_request fuel cs = NoFrame EndClosed a) \/
  (8 <= zlen s /\ size < 0 /\ exists a, receive_request fuel cs = NoFrame EndValueError a) \/
  (8 <= zlen s /\ 0 <= size /\ zlen s - 8 < size /\ exists a, receive_request fuel cs = NoFrame EndClosed a) \/
  (8 <= zlen s /\ 0 <= size <= zlen s - 8 /\
   exists cs2 a, receive_request fuel cs = Frame (firstn (Z.to_nat (8 + size)) s) cs2 a
                 /\ concat cs2 = skipn (Z.to_nat (8 + size)) s /\ Forall nonempty cs2).
Proof.
  intros Hne Hfuel s size. pose proof (receive_request_spec fuel cs Hne Hfuel) as V.
  fold s in V. remember (receive_request fuel cs) as r eqn:Hr.
  destruct V as [a Hs | a Hl Hneg | a Hl Hnn Hinc | cs2 a Hl Hfit Hc2 Hne2].
  - left. split; [assumption | eexists; reflexivity].
  - right; left. repeat split; try assumption. eexists; reflexivity.
  - right; right; left. repeat split; try assumption. eexists; reflexivity.
  - right; right; right. repeat split; try apply Hfit; try assumption.
    exists cs2, a. repeat split; assumption.
Qed.

Lemma frames_of_spec : forall fuel fuel0 cs,
  Forall nonempty cs -> (length (concat cs) < fuel0)%nat ->
  fst (fst (frames_of fuel0 fuel cs)) = frames fuel (concat cs).
Proof.
  induction fuel as [|f IH]; intros fuel0 cs Hne Hfuel; [reflexivity|].
  rewrite frames_of_S, frames_S.
  pose proof (receive_request_cases fuel0 cs Hne Hfuel) as V. cbv zeta in *.
  remember (concat cs) as s eqn:Hs in *.
  remember (be_dec (firstn 4 (skipn 4 s))) as size eqn:Hsize in *.
  destruct V as [(Hshort & a & Hr) | [(Hl & Hneg & a & Hr) | [(Hl & Hnn & Hinc & a & Hr) | (Hl & Hfit & cs2 & a & Hr & Hc2 & Hne2)]]];
    rewrite Hr.
  - destruct (zlen s <? 8) eqn:E; [reflexivity | lia].
  - destruct (zlen s <? 8) eqn:E; [lia|]. destruct (size <? 0) eqn:E2; [reflexivity | lia].
  - destruct (zlen s <? 8) eqn:E; [lia|]. destruct (size <? 0) eqn:E2; [lia|].
    destruct (zlen s - 8 <? size) eqn:E3; [reflexivity | lia].
  - destruct (zlen s <? 8) eqn:E; [lia|]. destruct (size <? 0) eqn:E2; [lia|].
    destruct (zlen s - 8 <? size) eqn:E3; [lia|].
    assert (Hf2 : (length (concat cs2) < fuel0)%nat).
    { rewrite Hc2, skipn_length. lia. }
    specialize (IH fuel0 cs2 Hne2 Hf2).
    destruct (frames_of fuel0 f cs2) as [[frs a'] e]. cbn [fst] in *. rewrite IH, Hc2. reflexivity.
Qed.

Theorem frames_conn_stream cs :
  Forall nonempty cs -> fst (fst (frames_conn cs)) = frames_stream (concat cs).
Proof.
  intro Hne. unfold frames_conn, frames_stream, conn_fuel. apply frames_of_spec; auto.
Qed.

Theorem framing_chunk_independent_lemma stream cs1 cs2 :
  concat cs1 = stream -> concat cs2 = stream -> Forall nonempty cs1 -> Forall nonempty cs2 ->
  fst (fst (frames_conn cs1)) = fst (fst (frames_conn cs2)) /\ fst (fst (frames_conn cs1)) = frames_stream stream.
Proof.
  intros H1 H2 N1 N2. rewrite (frames_conn_stream cs1 N1), (frames_conn_stream cs2 N2), H1, H2. auto.
Qed.

(* ---- how a connection ends, and what is asked of recv ---- *)
Lemma bytes_ok_firstn n (s : bytes) : bytes_ok s = true -> bytes_ok (firstn n s) = true.
Proof.
  unfold bytes_ok. revert n. induction s as [|b s IH]; intros n H; destruct n; cbn in *; auto.
  apply andb_true_iff in H. destruct H as [Hb Hs]. rewrite Hb. cbn. auto.
Qed.
Lemma bytes_ok_skipn n (s : bytes) : bytes_ok s = true -> bytes_ok (skipn n s) = true.
Proof.
  unfold bytes_ok. revert n. induction s as [|b s IH]; intros n H; destruct n; cbn in *; auto.
  apply andb_true_iff in H. destruct H as [Hb Hs]. auto.
Qed.

Lemma frames_of_ending : forall fuel fuel0 cs,
  Forall nonempty cs -> (length (concat cs) < fuel0)%nat -> (length (concat cs) < fuel)%nat ->
  bytes_ok (concat cs) = true ->
  snd (frames_of fuel0 fuel cs) = EndClosed.
Proof.
  induction fuel as [|f IH]; intros fuel0 cs Hne Hf0 Hf Hok; [lia|].
  rewrite frames_of_S.
  pose proof (receive_request_cases fuel0 cs Hne Hf0) as V. cbv zeta in V.
  remember (concat cs) as s eqn:Hs in *.
  assert (Hnn : 0 <= be_dec (firstn 4 (skipn 4 s))).
  { apply be_dec_bound. apply bytes_ok_firstn, bytes_ok_skipn. exact Hok. }
  remember (be_dec (firstn 4 (skipn 4 s))) as size eqn:Hsize in *.
  destruct V as [(Hshort & a & Hr) | [(Hl & Hneg & a & Hr) | [(Hl & _ & Hinc & a & Hr) | (Hl & Hfit & cs2 & a & Hr & Hc2 & Hne2)]]];
    rewrite Hr; try reflexivity; [lia|].
  assert (Hlen2 : length (concat cs2) = (length s - Z.to_nat (8 + size))%nat) by (rewrite Hc2; apply skipn_length).
  assert (Hok2 : bytes_ok (concat cs2) = true) by (rewrite Hc2; apply bytes_ok_skipn; exact Hok).
  assert (H0 : (length (concat cs2) < fuel0)%nat) by lia.
  assert (H1 : (length (concat cs2) < f)%nat) by (unfold zlen in *; lia).
  specialize (IH fuel0 cs2 Hne2 H0 H1 Hok2).
  destruct (frames_of fuel0 f cs2) as [[frs a'] e]. cbn [snd] in *. exact IH.
Qed.

(* a connection whose peer sends bytes (values 0..255) in non-empty chunks always ends with ConnectionClosed:
   neither the ValueError of _receive_bytes nor fuel exhaustion can happen *)
Theorem frames_conn_ends_closed cs :
  Forall nonempty cs -> bytes_ok (concat cs) = true -> snd (frames_conn cs) = EndClosed.
Proof.
  intros Hne Hok. unfold frames_conn, conn_fuel. apply frames_of_ending; auto.
Qed.

Definition asked_of (r : rres) : list Z :=
  match r with Got _ _ a | Closed a | Overrun a => a | NoFuel => [] end.

(* bounded reads: recv is never asked for more than the 4096-byte buffer, nor for more than is still missing *)
Theorem recv_asked_bounded : forall fuel remaining cs,
  Forall (fun n => 0 < n <= BUF /\ n <= remaining) (asked_of (recv_loop fuel remaining cs)).
Proof.
  induction fuel as [|f IH]; intros remaining cs; simpl.
  - destruct (0 <? remaining); [constructor|]. destruct (remaining =? 0); constructor.
  - destruct (0 <? remaining) eqn:E.
    + destruct (conn_recv (Z.min remaining BUF) cs) as [part cs'] eqn:Er.
      assert (Hn : 0 < Z.min remaining BUF <= BUF /\ Z.min remaining BUF <= remaining) by (unfold BUF; lia).
      destruct (zlen part =? 0) eqn:Ez; [repeat constructor; lia|].
      assert (Hp : 0 <= zlen part) by apply zlen_nonneg'.
      specialize (IH (remaining - zlen part) cs').
      destruct (recv_loop f (remaining - zlen part) cs'); cbn [asked_of] in *;
        try (constructor; [exact Hn|]); try constructor;
        (eapply Forall_impl; [|exact IH]; cbv beta; intros; lia).
    + destruct (remaining =? 0); constructor.
Qed.
