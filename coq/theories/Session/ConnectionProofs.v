From Coq Require Import ZArith List Bool Lia.
From PK Require Import Base.Bytes Session.Framing Session.FramingProofs Session.Session Session.SessionProofs Session.Connection.
Import ListNotations.
Open Scope Z_scope.

Section ConnectionProofs.
  Variable request : Type.
  Variable parse : bytes -> option request.
  Variable rq_version : request -> Z * Z.
  Variable estate : Type.
  Variable engine : request -> identity -> estate -> eresult * estate.
  Notation connection := (connection request parse rq_version estate engine).

  (* everything a client observes on a connection - every answer, every engine call, the final store - is a
     function of the byte stream alone *)
  Theorem connection_chunk_independent_lemma g cs1 cs2 st :
    concat cs1 = concat cs2 -> Forall nonempty cs1 -> Forall nonempty cs2 ->
    connection g cs1 st = connection g cs2 st.
  Proof.
    intros H N1 N2. unfold Connection.connection.
    rewrite (frames_conn_stream cs1 N1), (frames_conn_stream cs2 N2), H. reflexivity.
  Qed.

  (* one answer per frame of the stream *)
  Theorem connection_answers_per_frame g cs st :
    Forall nonempty cs ->
    length (fst (connection g cs st)) = length (frames_stream (concat cs)).
  Proof.
    intro N. unfold Connection.connection. rewrite serve_length, (frames_conn_stream cs N). reflexivity.
  Qed.
End ConnectionProofs.
