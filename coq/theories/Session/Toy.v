(* A small concrete parser/engine/configuration used by the `Example`s of props/C12.v and props/C17.v to show
   that the hypotheses of the theorems are satisfiable by non-trivial states.  Definitions only. *)
From Coq Require Import String.
From PK Require Export Session.Session.
Open Scope Z_scope.
Local Open Scope string_scope.

Definition toy_request := (Z * Z)%type.
(* frames starting with 0x42 decode (as a KMIP 1.2 request), everything else does not *)
Definition toy_parse (b : bytes) : option toy_request :=
  match b with 66 :: _ => Some (1, 2) | _ => None end.
(* the engine counts its calls; it answers 300 bytes and reports a requested maximum of 100 on even calls *)
Definition toy_engine (rq : toy_request) (id : identity) (n : nat) : eresult * nat :=
  (EResp (Some (repeat 7 300)) (if Nat.even n then Some 100 else None) (1, 2), S n).

Definition alice_cert := {| c_cns := ["alice"]; c_eku := EkuClient |}.
Definition toy_cfg := {| tls_client_auth := true; plugins := []; peer := Some alice_cert; now := 1600000000 |}.

Definition slugs_ok := {| p_name := "auth:slugs"; p_enabled_text := Some "True"; p_url := UrlString;
                          p_user := UStatus 200; p_groups := GStatus 200 (GJson (Some ["Group A"])) |}.
Definition slugs_404 := {| p_name := "auth:slugs"; p_enabled_text := Some "True"; p_url := UrlString;
                           p_user := UStatus 404; p_groups := GStatus 200 (GJson (Some ["X"])) |}.
Definition slugs_500 := {| p_name := "auth:slugs"; p_enabled_text := Some "True"; p_url := UrlString;
                           p_user := UStatus 500; p_groups := GStatus 500 (GJson None) |}.
Definition slugs_off := {| p_name := "auth:slugs"; p_enabled_text := Some "False"; p_url := UrlString;
                           p_user := UStatus 200; p_groups := GStatus 200 (GJson (Some ["Off"])) |}.
Definition slugs_cfg (ps : list plugin) := {| tls_client_auth := true; plugins := ps; peer := Some alice_cert; now := 1600000000 |}.
Definition no_cert_cfg := {| tls_client_auth := false; plugins := []; peer := None; now := 1600000000 |}.

Definition toy_handle := handle toy_request toy_parse (fun r => r) nat toy_engine.
Definition toy_serve := serve toy_request toy_parse (fun r => r) nat toy_engine.
