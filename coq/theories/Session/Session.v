(* Model of KmipSession._handle_message_loop and KmipSession.authenticate (kmip/services/server/session.py
   l.126-322), kmip/services/server/auth/utils.py and auth/slugs.py SLUGSConnector.authenticate.
   Definitions only.

   The request parser and the engine are parameters: `parse` stands for RequestMessage.read (None = it raised),
   `engine` for KmipEngine.process_request.  In the correspondence run they are instantiated with what the real
   parser and the real engine did on the same connection (Session/SessionCases.v). *)
From Coq Require Import String.
From PK Require Export Base.Bytes Session.Encode.
Open Scope Z_scope.

(* ---------- what the session sees of the TLS peer certificate ---------- *)
Inductive eku := EkuAbsent          (* no extendedKeyUsage extension *)
               | EkuNoClient        (* extension present, clientAuth not listed *)
               | EkuClient.         (* clientAuth listed *)
Record cert := { c_cns : list string; c_eku : eku }.

Definition identity := (string * option (list string))%type.     (* (user, groups) *)

(* ---------- one ('auth:...', {...}) settings block and what its SLUGS service answers ---------- *)
Inductive url := UrlAbsent | UrlString | UrlNotString.
Inductive ulookup := UUnreachable | UStatus (code : Z).
Inductive gbody := GBadJson | GJson (groups : option (list string)).     (* response.json().get('groups') *)
Inductive glookup := GUnreachable | GStatus (code : Z) (body : gbody).
Record plugin := {
  p_name : string;                 (* name of the settings block *)
  p_enabled_text : option string;  (* plugin_config.get("enabled") *)
  p_url : url;             (* plugin_config.get("url") *)
  p_user : ulookup;        (* GET <url>/users/<cn> *)
  p_groups : glookup       (* GET <url>/users/<cn>/groups *)
}.

Definition p_slugs (p : plugin) : bool := prefix "auth:slugs" (p_name p).     (* plugin_name.startswith("auth:slugs") *)
Definition p_enabled (p : plugin) : bool :=                                   (* plugin_config.get("enabled") == "True" *)
  match p_enabled_text p with Some s => String.eqb s "True" | None => false end.

Record cfg := {
  tls_client_auth : bool;              (* enable_tls_client_auth *)
  plugins : list plugin;               (* auth_settings, in order *)
  peer : option cert;                  (* connection.getpeercert(binary_form=True) *)
  now : Z                              (* int(time.time()) seen by the engine *)
}.

(* auth/utils.py get_client_identity_from_certificate: exactly one common name *)
Definition cn_identity (c : cert) : option string :=
  match c_cns c with
  | [x] => Some x
  | _ => None
  end.

(* auth/slugs.py SLUGSConnector.authenticate; None = it raised *)
Definition slugs_authenticate (c : cert) (p : plugin) : option identity :=
  match p_url p with
  | UrlAbsent | UrlNotString => None                       (* "The SLUGS URL must be specified." *)
  | UrlString =>
      match cn_identity c with
      | None => None
      | Some user =>
          match p_user p with
          | UUnreachable => None
          | UStatus code =>
              if code =? 404 then None else                 (* "Unrecognized user ID" *)
              if negb (code =? 200) then None else          (* any other status: refused (/repo commit 19af158) *)
              match p_groups p with
              | GUnreachable => None
              | GStatus gcode body =>
                  if gcode =? 404 then None else
                  if negb (gcode =? 200) then None else
                  match body with
                  | GBadJson => None
                  | GJson groups => Some (user, groups)
                  end
              end
          end
      end
  end.

(* KmipSession.authenticate; None = PermissionDenied (or the TypeError of SLUGSConnector(url) for a non-string url) *)
Fixpoint run_plugins (c : cert) (ps : list plugin) (plugin_enabled : bool) : option identity :=
  match ps with
  | [] =>
      if plugin_enabled then None
      else match cn_identity c with
           | Some user => Some (user, None)
           | None => None
           end
  | p :: rest =>
      if p_slugs p && p_enabled p then
        match p_url p with
        | UrlNotString => None                               (* the constructor raises outside the inner try *)
        | _ =>
            match slugs_authenticate c p with
            | Some id => Some id
            | None => run_plugins c rest true
            end
        end
      else run_plugins c rest plugin_enabled
  end.
Definition authenticate (c : cert) (ps : list plugin) : option identity := run_plugins c ps false.

(* the certificate checks at the top of _handle_message_loop *)
Definition cert_checks (g : cfg) : option cert :=
  match peer g with
  | None => None
  | Some c =>
      if tls_client_auth g then
        match c_eku c with EkuClient => Some c | _ => None end
      else Some c
  end.

(* the identity the session establishes (C17) *)
Definition establish (g : cfg) : option identity :=
  match cert_checks g with
  | None => None
  | Some c => authenticate c (plugins g)
  end.

(* ---------- one request ---------- *)
Inductive eresult :=
| EResp (enc : option bytes) (max : option Z) (ver : Z * Z)
      (* process_request returned (response, max_response_size, protocol_version);
         enc = response.write under that version, None when it raises *)
| EKmipErr (reason : Z) (msg : list Z)         (* it raised a KmipError *)
| ECrash.                                      (* it raised anything else *)

Inductive outcome :=
| Sent (b : bytes)          (* exactly one connection.sendall(b) *)
| Escaped.                  (* an exception left _handle_message_loop; nothing was sent *)

Record step := { out : outcome; call : option identity }.     (* call: process_request entered, with this credential *)

Definition DEFAULT_MAX : Z := 1048576.                          (* self._max_response_size *)

(* `if max_response_size is not None: max_size = max_response_size` (repaired by /repo commit 0ad0134; before it
   the test was `if max_response_size:` and a requested maximum of 0 was ignored) *)
Definition effective_max (m : option Z) : Z :=
  match m with
  | None => DEFAULT_MAX
  | Some v => v
  end.

Definition send (r : option bytes) : outcome :=
  match r with Some b => Sent b | None => Escaped end.

Section Handle.
  Variable request : Type.
  Variable parse : bytes -> option request.            (* RequestMessage.read under the engine's default version *)
  Variable rq_version : request -> Z * Z.              (* request.request_header.protocol_version *)
  Variable estate : Type.
  Variable engine : request -> identity -> estate -> eresult * estate.

  Definition error (g : cfg) (v : Z * Z) (reason : Z) (msg : list Z) : outcome :=
    send (err_response v (now g) reason msg).

  (* the tail of _handle_message_loop: write the response (if that raises: a GENERAL_FAILURE error response at the
     response's own version is written instead, /repo commit d6c2cec), compare with max_size, replace, send.
     On the two paths where the request could not be used (certificate refused, parse failed) the same steps run
     on a fixed 200-byte error response against the default maximum; nothing can fire there
     (SessionProofs.fixed_errors_small) and `handle` sends those directly. *)
  Definition reply (g : cfg) (rq : request) (enc : option bytes) (respver : Z * Z) (max : option Z) : outcome :=
    let written :=
      match enc with
      | Some b => Some b
      | None => err_response respver (now g) R_GENERAL_FAILURE MSG_ENCODE
      end in
    match written with
    | None => Escaped
    | Some b =>
        if effective_max max <? zlen b
        then error g (rq_version rq) R_RESPONSE_TOO_LARGE MSG_TOO_LARGE
        else Sent b
    end.

  Definition handle (g : cfg) (f : bytes) (st : estate) : step * estate :=
    match cert_checks g with
    | None => ({| out := error g (1, 0) R_AUTHENTICATION_NOT_SUCCESSFUL MSG_CERT; call := None |}, st)
    | Some c =>
        match parse f with
        | None => ({| out := error g (1, 0) R_INVALID_MESSAGE MSG_PARSE; call := None |}, st)
        | Some rq =>
            match authenticate c (plugins g) with
            | None => ({| out := reply g rq (err_response (rq_version rq) (now g) R_AUTHENTICATION_NOT_SUCCESSFUL MSG_AUTH)
                                        (rq_version rq) None;
                          call := None |}, st)
            | Some id =>
                let (r, st') := engine rq id st in
                ({| out := match r with
                           | EResp enc max ver => reply g rq enc ver max
                           | EKmipErr reason msg =>
                               (* build_error_response(..., str(e)) runs inside the `except KmipError` clause:
                                  ResultMessage(text) raises for a text that cannot be UTF-8 encoded *)
                               if text_ok msg
                               then reply g rq (err_response (rq_version rq) (now g) reason msg) (rq_version rq) None
                               else Escaped
                           | ECrash => reply g rq (err_response (rq_version rq) (now g) R_GENERAL_FAILURE MSG_GENERAL)
                                              (rq_version rq) None
                           end;
                    call := Some id |}, st')
            end
        end
    end.

  (* the `while True` of KmipSession.run over the frames of one connection *)
  Fixpoint serve (g : cfg) (fs : list bytes) (st : estate) : list step * estate :=
    match fs with
    | [] => ([], st)
    | f :: rest =>
        let (s, st1) := handle g f st in
        let (ss, st2) := serve g rest st1 in
        (s :: ss, st2)
    end.
End Handle.
