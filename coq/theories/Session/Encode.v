(* KmipEngine.build_error_response + ResponseMessage.write for the single-item error response
   (kmip/services/server/engine.py l.319-354, kmip/core/messages/messages.py ResponseHeader/ResponseBatchItem/
   ResponseMessage.write).  Definitions only.  Tie K: every error response the session sends is compared
   byte for byte with `err_response` (Session/SessionCases.v). *)
From PK Require Export Base.Bytes Base.Prim.
Open Scope Z_scope.

Definition T_RESPONSE_MESSAGE := 4325499.   (* 0x42007B *)
Definition T_RESPONSE_HEADER := 4325498.    (* 0x42007A *)
Definition T_PROTOCOL_VERSION := 4325481.   (* 0x420069 *)
Definition T_VERSION_MAJOR := 4325482.      (* 0x42006A *)
Definition T_VERSION_MINOR := 4325483.      (* 0x42006B *)
Definition T_TIME_STAMP := 4325522.         (* 0x420092 *)
Definition T_BATCH_COUNT := 4325389.        (* 0x42000D *)
Definition T_BATCH_ITEM := 4325391.         (* 0x42000F *)
Definition T_RESULT_STATUS := 4325503.      (* 0x42007F *)
Definition T_RESULT_REASON := 4325502.      (* 0x42007E *)
Definition T_RESULT_MESSAGE := 4325501.     (* 0x42007D *)

Definition OPERATION_FAILED := 1.
Definition R_RESPONSE_TOO_LARGE := 2.
Definition R_AUTHENTICATION_NOT_SUCCESSFUL := 3.
Definition R_INVALID_MESSAGE := 4.
Definition R_GENERAL_FAILURE := 256.

(* Struct.write: header with the length of the already encoded body *)
Definition enc_struct (tag : Z) (body : option bytes) : option bytes :=
  match body with
  | None => None
  | Some b => with_hdr tag STRUCT_CODE (zlen b) b
  end.

Definition cat2 (a b : option bytes) : option bytes :=
  match a, b with Some x, Some y => Some (x ++ y) | _, _ => None end.
Notation "a +++ b" := (cat2 a b) (at level 61, left associativity).

(* version: (major, minor); ts: int(time.time()); reason: enumeration value; msg: the characters of the message *)
Definition err_response (version : Z * Z) (ts reason : Z) (msg : list Z) : option bytes :=
  let pv := enc_struct T_PROTOCOL_VERSION
              (enc_prim T_VERSION_MAJOR (VInt (fst version)) +++ enc_prim T_VERSION_MINOR (VInt (snd version))) in
  let header := enc_struct T_RESPONSE_HEADER
              (pv +++ enc_prim T_TIME_STAMP (VDate ts) +++ enc_prim T_BATCH_COUNT (VInt 1)) in
  let item := enc_struct T_BATCH_ITEM
              (enc_prim T_RESULT_STATUS (VEnum OPERATION_FAILED) +++ enc_prim T_RESULT_REASON (VEnum reason)
               +++ enc_prim T_RESULT_MESSAGE (VText msg)) in
  enc_struct T_RESPONSE_MESSAGE (header +++ item).

(* ---- reader for the same shape (used to state that error responses are well-formed) ---- *)
Definition dec_struct (tag : Z) (bs : bytes) : option (bytes * bytes) :=
  match dec_hdr tag STRUCT_CODE bs with
  | None => None
  | Some (len, r) => take_exact len r
  end.

Record err_fields := { ef_version : Z * Z; ef_ts : Z; ef_count : Z; ef_status : Z; ef_reason : Z; ef_msg : list Z }.

Definition any_enum (_ : Z) := true.

Definition dec_err_response (bs : bytes) : option err_fields :=
  match dec_struct T_RESPONSE_MESSAGE bs with
  | Some (body, []) =>
    match dec_struct T_RESPONSE_HEADER body with
    | Some (hd, items) =>
      match dec_struct T_PROTOCOL_VERSION hd with
      | Some (pv, hd1) =>
        match dec_prim any_enum PInt T_VERSION_MAJOR pv with
        | Some (VInt ma, pv1) =>
          match dec_prim any_enum PInt T_VERSION_MINOR pv1 with
          | Some (VInt mi, []) =>
            match dec_prim any_enum PDate T_TIME_STAMP hd1 with
            | Some (VDate ts, hd2) =>
              match dec_prim any_enum PInt T_BATCH_COUNT hd2 with
              | Some (VInt n, []) =>
                match dec_struct T_BATCH_ITEM items with
                | Some (it, []) =>
                  match dec_prim any_enum PEnum T_RESULT_STATUS it with
                  | Some (VEnum st, it1) =>
                    match dec_prim any_enum PEnum T_RESULT_REASON it1 with
                    | Some (VEnum rs, it2) =>
                      match dec_prim any_enum PText T_RESULT_MESSAGE it2 with
                      | Some (VText m, []) =>
                          Some {| ef_version := (ma, mi); ef_ts := ts; ef_count := n; ef_status := st;
                                  ef_reason := rs; ef_msg := m |}
                      | _ => None end
                    | _ => None end
                  | _ => None end
                | _ => None end
              | _ => None end
            | _ => None end
          | _ => None end
        | _ => None end
      | _ => None end
    | _ => None end
  | _ => None end.

(* the message texts of session.py, as character codes *)
From Coq Require Import String Ascii.
Fixpoint codes (s : string) : list Z :=
  match s with EmptyString => [] | String c r => Z.of_N (N_of_ascii c) :: codes r end.

Definition MSG_CERT := codes "Error verifying the client certificate. See server logs for more information.".
Definition MSG_PARSE := codes "Error parsing request message. See server logs for more information.".
Definition MSG_AUTH := codes "An error occurred during client authentication. See server logs for more information.".
Definition MSG_GENERAL := codes "An unexpected error occurred while processing request. See server logs for more information.".
Definition MSG_TOO_LARGE := codes "Response message length too large. See server logs for more information.".
Definition MSG_ENCODE := codes "An unexpected error occurred while encoding the response. See server logs for more information.".
