(* Theorems about the session model (C12 and C17).  The parser and the engine stay abstract (section variables):
   everything below holds for every parser and every engine. *)
From Coq Require Import ZArith List Bool Lia ZifyBool String.
From PK Require Import Base.Bytes Base.Prim Session.Encode Session.EncodeProofs Session.Session.
Import ListNotations.
Open Scope Z_scope.

(* ---------- facts about the fixed messages ---------- *)
Lemma fixed_msgs_ok : msg_ok MSG_CERT /\ msg_ok MSG_PARSE /\ msg_ok MSG_AUTH /\ msg_ok MSG_GENERAL /\ msg_ok MSG_TOO_LARGE /\ msg_ok MSG_ENCODE.
Proof. repeat split; vm_compute; reflexivity. Qed.

Lemma fixed_reasons_ok : reason_ok R_RESPONSE_TOO_LARGE /\ reason_ok R_AUTHENTICATION_NOT_SUCCESSFUL /\ reason_ok R_INVALID_MESSAGE /\ reason_ok R_GENERAL_FAILURE.
Proof. unfold reason_ok, TWO32. repeat split; vm_compute; congruence. Qed.

Definition is_fixed_msg (m : list Z) : Prop :=
  m = MSG_CERT \/ m = MSG_PARSE \/ m = MSG_AUTH \/ m = MSG_GENERAL \/ m = MSG_TOO_LARGE \/ m = MSG_ENCODE.

Lemma fixed_msg_ok m : is_fixed_msg m -> msg_ok m /\ zlen m + pad_len (zlen m) <= 96.
Proof.
  destruct fixed_msgs_ok as (A & B & C & D & E & F).
  intros [->|[->|[->|[->|[->| ->]]]]]; (split; [assumption | vm_compute; congruence]).
Qed.

(* a session-built error response is sent, decodes to what it was built from, and is small *)
Lemma error_sent g v reason m :
  clock_ok (now g) -> ver_ok v -> reason_ok reason -> msg_ok m ->
  exists b, err_response v (now g) reason m = Some b /\ error g v reason m = Sent b
            /\ zlen b = 136 + zlen m + pad_len (zlen m)
            /\ dec_err_response b = Some {| ef_version := v; ef_ts := now g; ef_count := 1; ef_status := OPERATION_FAILED;
                                            ef_reason := reason; ef_msg := m |}.
Proof.
  intros Hc Hv Hr Hm. destruct (err_response_wf v (now g) reason m Hv Hc Hr Hm) as (b & E & L & D).
  exists b. unfold error, send. rewrite E. auto.
Qed.

(* the two error responses sent without the size comparison are far below the default maximum *)
Theorem fixed_errors_small g reason m b :
  clock_ok (now g) -> reason_ok reason -> is_fixed_msg m ->
  err_response (1, 0) (now g) reason m = Some b -> zlen b <= 232 /\ (DEFAULT_MAX <? zlen b) = false.
Proof.
  intros Hc Hr Hm E. destruct (fixed_msg_ok m Hm) as (Hok & Hsz).
  destruct (err_response_wf (1, 0) (now g) reason m) as (b' & E' & L & _); auto.
  { split; cbn; unfold int32, TWO31; lia. }
  rewrite E in E'. injection E' as <-. unfold DEFAULT_MAX. lia.
Qed.

Section Proofs.
  Variable request : Type.
  Variable parse : bytes -> option request.
  Variable rq_version : request -> Z * Z.
  Variable estate : Type.
  Variable engine : request -> identity -> estate -> eresult * estate.

  Notation handle := (handle request parse rq_version estate engine).
  Notation serve := (serve request parse rq_version estate engine).
  Notation reply := (reply request rq_version).

  (* ================================================================ C17 *)

  (* the engine is entered exactly when an identity is established and the request decodes - with that identity *)
  Theorem call_iff_established g f st :
    call (fst (handle g f st)) =
    match establish g, parse f with
    | Some id, Some _ => Some id
    | _, _ => None
    end.
  Proof.
    unfold Session.handle, establish. destruct (cert_checks g) as [c|]; [|reflexivity].
    destruct (parse f) as [rq|].
    - destruct (authenticate c (plugins g)) as [id|]; [|reflexivity].
      destruct (engine rq id st). reflexivity.
    - destruct (authenticate c (plugins g)); reflexivity.
  Qed.

  (* whenever the engine is not entered its state is untouched *)
  Theorem not_entered_state_unchanged g f st :
    call (fst (handle g f st)) = None -> snd (handle g f st) = st.
  Proof.
    unfold Session.handle. destruct (cert_checks g) as [c|]; [|reflexivity].
    destruct (parse f) as [rq|]; [|reflexivity].
    destruct (authenticate c (plugins g)) as [id|]; [|reflexivity].
    destruct (engine rq id st). cbn. discriminate.
  Qed.

  (* what a failing path answers *)
  Definition failure_outcome (g : cfg) (f : bytes) : outcome :=
    match cert_checks g with
    | None => error g (1, 0) R_AUTHENTICATION_NOT_SUCCESSFUL MSG_CERT
    | Some c =>
        match parse f with
        | None => error g (1, 0) R_INVALID_MESSAGE MSG_PARSE
        | Some rq => reply g rq (err_response (rq_version rq) (now g) R_AUTHENTICATION_NOT_SUCCESSFUL MSG_AUTH) (rq_version rq) None
        end
    end.

  Theorem auth_failure_step g f st :
    establish g = None ->
    handle g f st = ({| out := failure_outcome g f; call := None |}, st).
  Proof.
    unfold Session.handle, establish, failure_outcome. destruct (cert_checks g) as [c|]; [|reflexivity].
    intro H. rewrite H. destruct (parse f); reflexivity.
  Qed.

  (* ================================================================ C12 *)

  Lemma serve_cons g f fs st :
    serve g (f :: fs) st =
    (fst (handle g f st) :: fst (serve g fs (snd (handle g f st))), snd (serve g fs (snd (handle g f st)))).
  Proof.
    cbn [Session.serve]. destruct (handle g f st) as [s st1]. cbn [fst snd].
    destruct (serve g fs st1) as [ss st2]. reflexivity.
  Qed.

  Theorem serve_length g fs : forall st, length (fst (serve g fs st)) = length fs.
  Proof.
    induction fs as [|f fs IH]; intro st; [reflexivity|].
    rewrite serve_cons. cbn [fst length]. rewrite IH. reflexivity.
  Qed.

  Lemma serve_app g fs1 : forall fs2 st,
    serve g (fs1 ++ fs2) st =
    (fst (serve g fs1 st) ++ fst (serve g fs2 (snd (serve g fs1 st))), snd (serve g fs2 (snd (serve g fs1 st)))).
  Proof.
    induction fs1 as [|f fs1 IH]; intros fs2 st.
    - cbn [app Session.serve fst snd]. destruct (serve g fs2 st); reflexivity.
    - rewrite <- app_comm_cons. rewrite !serve_cons. rewrite IH. cbn [fst snd]. reflexivity.
  Qed.

  (* an undecodable request: never executed, answered INVALID_MESSAGE at version 1.0 (unless the certificate is refused first) *)
  Theorem undecodable_step g f st :
    parse f = None ->
    handle g f st =
    ({| out := match cert_checks g with
               | None => error g (1, 0) R_AUTHENTICATION_NOT_SUCCESSFUL MSG_CERT
               | Some _ => error g (1, 0) R_INVALID_MESSAGE MSG_PARSE
               end;
        call := None |}, st).
  Proof.
    intro H. unfold Session.handle. destruct (cert_checks g); [rewrite H|]; reflexivity.
  Qed.

  (* frames that are not executed leave no trace: whatever follows is served as if they had never been sent *)
  Theorem skipped_frames_no_trace g bad : forall st,
    Forall (fun b => call (fst (handle g b st)) = None) bad ->
    snd (serve g bad st) = st.
  Proof.
    induction bad as [|b bad IH]; intros st H; [reflexivity|].
    inversion H as [|? ? Hb Hrest]; subst. rewrite serve_cons. cbn [snd].
    rewrite (not_entered_state_unchanged g b st Hb). apply IH.
    (* `call` does not depend on the state *)
    eapply Forall_impl; [|exact Hrest]. intros a Ha. cbv beta in Ha.
    rewrite call_iff_established. rewrite call_iff_established in Ha. exact Ha.
  Qed.

  Theorem next_request_unaffected g bad good st :
    Forall (fun b => parse b = None) bad ->
    serve g (bad ++ [good]) st =
    (fst (serve g bad st) ++ fst (serve g [good] st), snd (serve g [good] st))
    /\ length (fst (serve g bad st)) = length bad.
  Proof.
    intro H. split; [|apply serve_length].
    rewrite serve_app.
    assert (Hst : snd (serve g bad st) = st).
    { apply skipped_frames_no_trace. eapply Forall_impl; [|exact H].
      intros a Ha. rewrite call_iff_established, Ha. destruct (establish g); reflexivity. }
    rewrite Hst. reflexivity.
  Qed.

  (* the maximum-response-size rule *)
  Theorem too_large_replaced_lemma g f st c rq id b max ver st' :
    cert_checks g = Some c -> parse f = Some rq -> authenticate c (plugins g) = Some id ->
    engine rq id st = (EResp (Some b) max ver, st') ->
    out (fst (handle g f st)) =
    if effective_max max <? zlen b
    then error g (rq_version rq) R_RESPONSE_TOO_LARGE MSG_TOO_LARGE
    else Sent b.
  Proof.
    intros Hc Hp Ha He. unfold Session.handle. rewrite Hc, Hp, Ha, He. reflexivity.
  Qed.

  (* ---------- nothing but ConnectionClosed leaves the loop ---------- *)
  Hypothesis versions_ok : forall rq, ver_ok (rq_version rq).
  Hypothesis engine_versions_ok : forall rq id st enc max ver st', engine rq id st = (EResp enc max ver, st') -> ver_ok ver.
  Hypothesis engine_messages_ok : forall rq id st reason msg st', engine rq id st = (EKmipErr reason msg, st') -> text_ok msg = true.

  Lemma reply_sent g rq enc respver max :
    clock_ok (now g) -> ver_ok respver -> exists b, reply g rq enc respver max = Sent b.
  Proof.
    intros Hc Hv. destruct fixed_msgs_ok as (_ & _ & _ & _ & MT & ME).
    destruct fixed_reasons_ok as (RT & _ & _ & RG).
    destruct (error_sent g (rq_version rq) R_RESPONSE_TOO_LARGE MSG_TOO_LARGE Hc (versions_ok rq) RT MT) as (bt & _ & Et & _).
    unfold Session.reply.
    assert (Hw : exists b, match enc with Some b => Some b | None => err_response respver (now g) R_GENERAL_FAILURE MSG_ENCODE end = Some b).
    { destruct enc as [b|]; [eauto|].
      destruct (err_response_wf respver (now g) R_GENERAL_FAILURE MSG_ENCODE Hv Hc RG ME) as (b & E & _). eauto. }
    destruct Hw as (b & ->). destruct (effective_max max <? zlen b); eauto.
  Qed.

  Theorem handle_sends g f st : clock_ok (now g) -> exists b, out (fst (handle g f st)) = Sent b.
  Proof.
    intro Hc. destruct fixed_msgs_ok as (MC & MP & _). destruct fixed_reasons_ok as (_ & RA & RI & _).
    assert (V10 : ver_ok (1, 0)) by (split; cbn; unfold int32, TWO31; lia).
    unfold Session.handle. destruct (cert_checks g) as [c|].
    - destruct (parse f) as [rq|].
      + destruct (authenticate c (plugins g)) as [id|].
        * destruct (engine rq id st) as [r st'] eqn:E. cbn [fst out].
          destruct r as [enc max ver | reason msg |].
          -- apply reply_sent; auto. eapply engine_versions_ok; eauto.
          -- rewrite (engine_messages_ok _ _ _ _ _ _ E). apply reply_sent; auto.
          -- apply reply_sent; auto.
        * cbn [fst out]. apply reply_sent; auto.
      + cbn [fst out]. destruct (error_sent g (1, 0) R_INVALID_MESSAGE MSG_PARSE Hc V10 RI MP) as (b & _ & E & _). eauto.
    - cbn [fst out]. destruct (error_sent g (1, 0) R_AUTHENTICATION_NOT_SUCCESSFUL MSG_CERT Hc V10 RA MC) as (b & _ & E & _). eauto.
  Qed.

  Theorem serve_all_sent g fs : clock_ok (now g) ->
    forall st, Forall (fun s => exists b, out s = Sent b) (fst (serve g fs st)).
  Proof.
    intro Hc. induction fs as [|f fs IH]; intro st; [constructor|].
    rewrite serve_cons. cbn [fst]. constructor; [apply handle_sends; assumption | apply IH].
  Qed.

  (* with sane versions, the failure answers are exactly the AUTHENTICATION_NOT_SUCCESSFUL / INVALID_MESSAGE errors *)
  Theorem failure_outcome_decodes g f : clock_ok (now g) ->
    exists b, failure_outcome g f = Sent b /\
      exists v reason m, dec_err_response b = Some {| ef_version := v; ef_ts := now g; ef_count := 1; ef_status := OPERATION_FAILED;
                                                   ef_reason := reason; ef_msg := m |}
        /\ ((reason = R_AUTHENTICATION_NOT_SUCCESSFUL /\ (cert_checks g = None \/ exists rq, parse f = Some rq /\ v = rq_version rq))
            \/ (reason = R_INVALID_MESSAGE /\ parse f = None /\ cert_checks g <> None /\ v = (1, 0))).
  Proof.
    intro Hc. destruct fixed_msgs_ok as (MC & MP & MA & _). destruct fixed_reasons_ok as (_ & RA & RI & _).
    assert (V10 : ver_ok (1, 0)) by (split; cbn; unfold int32, TWO31; lia).
    unfold failure_outcome. destruct (cert_checks g) as [c|] eqn:Ec.
    - destruct (parse f) as [rq|] eqn:Ep.
      + destruct (error_sent g (rq_version rq) R_AUTHENTICATION_NOT_SUCCESSFUL MSG_AUTH Hc (versions_ok rq) RA MA) as (b & E & _ & L & D).
        exists b. unfold Session.reply. rewrite E. cbn [effective_max].
        assert (Hsmall : (DEFAULT_MAX <? zlen b) = false).
        { destruct (fixed_msg_ok MSG_AUTH) as (_ & Hs); [unfold is_fixed_msg; tauto|]. unfold DEFAULT_MAX. lia. }
        rewrite Hsmall. split; [reflexivity|]. do 3 eexists. split; [exact D|]. left. split; [reflexivity|]. right. eauto.
      + destruct (error_sent g (1, 0) R_INVALID_MESSAGE MSG_PARSE Hc V10 RI MP) as (b & _ & E & _ & D).
        exists b. split; [exact E|]. do 3 eexists. split; [exact D|]. right. repeat split; congruence.
    - destruct (error_sent g (1, 0) R_AUTHENTICATION_NOT_SUCCESSFUL MSG_CERT Hc V10 RA MC) as (b & _ & E & _ & D).
      exists b. split; [exact E|]. do 3 eexists. split; [exact D|]. left. split; [reflexivity|]. left. reflexivity.
  Qed.
End Proofs.

(* ================================================================ the engine is consulted only through that one call *)
Section Independence.
  Variable request : Type.
  Variable parse : bytes -> option request.
  Variable rq_version : request -> Z * Z.
  Variable estate : Type.
  Variables engine1 engine2 : request -> identity -> estate -> eresult * estate.

  Theorem unestablished_ignores_engine g f st :
    establish g = None ->
    handle request parse rq_version estate engine1 g f st = handle request parse rq_version estate engine2 g f st.
  Proof. intro H. rewrite !auth_failure_step by assumption. reflexivity. Qed.

  Theorem undecodable_ignores_engine g f st :
    parse f = None ->
    handle request parse rq_version estate engine1 g f st = handle request parse rq_version estate engine2 g f st.
  Proof. intro H. rewrite !undecodable_step by assumption. reflexivity. Qed.

  Theorem engine_used_once_with_identity g f st id rq :
    establish g = Some id -> parse f = Some rq ->
    engine1 rq id st = engine2 rq id st ->
    handle request parse rq_version estate engine1 g f st = handle request parse rq_version estate engine2 g f st.
  Proof.
    unfold handle, establish. destruct (cert_checks g) as [c|]; [|discriminate].
    intros Ha Hp He. rewrite Hp, Ha, He. reflexivity.
  Qed.
End Independence.

(* ================================================================ characterisation of `establish` (C17) *)

(* a plugin block the session actually consults *)
Definition consulted (p : plugin) : bool := p_slugs p && p_enabled p.

(* the SLUGS service vouches for the (single) common name and supplies this group list *)
Definition vouches (p : plugin) (groups : option (list string)) : Prop :=
  p_url p = UrlString /\ p_user p = UStatus 200 /\ p_groups p = GStatus 200 (GJson groups).

Lemma slugs_authenticate_spec c p id :
  slugs_authenticate c p = Some id <->
  exists user groups, id = (user, groups) /\ c_cns c = [user] /\ vouches p groups.
Proof.
  unfold slugs_authenticate, vouches, cn_identity. split.
  - intro H. destruct (p_url p); try discriminate.
    destruct (c_cns c) as [|u [|u2 r]]; try discriminate.
    destruct (p_user p) as [|code]; try discriminate.
    destruct (code =? 404) eqn:E1; try discriminate.
    destruct (code =? 200) eqn:E2; try discriminate. cbn [negb] in H.
    destruct (p_groups p) as [|gcode body]; try discriminate.
    destruct (gcode =? 404) eqn:E3; try discriminate.
    destruct (gcode =? 200) eqn:E4; try discriminate. cbn [negb] in H.
    destruct body as [|groups]; try discriminate. injection H as <-.
    exists u, groups. assert (code = 200) by lia. assert (gcode = 200) by lia. subst. auto.
  - intros (user & groups & -> & Hc & Hu & Hus & Hg). rewrite Hu, Hc, Hus, Hg. reflexivity.
Qed.

(* plugins in order: the first consulted block that vouches wins; a consulted block with a non-string url aborts *)
Inductive plugin_walk (c : cert) : list plugin -> bool -> option identity -> Prop :=
| PW_end_fallback : forall user, c_cns c = [user] -> plugin_walk c [] false (Some (user, None))
| PW_end_no_cn : (forall user, c_cns c <> [user]) -> plugin_walk c [] false None
| PW_end_enabled : plugin_walk c [] true None
| PW_skip : forall p rest en r, consulted p = false -> plugin_walk c rest en r -> plugin_walk c (p :: rest) en r
| PW_bad_url : forall p rest en, consulted p = true -> p_url p = UrlNotString -> plugin_walk c (p :: rest) en None
| PW_vouch : forall p rest en id, consulted p = true -> p_url p <> UrlNotString ->
    slugs_authenticate c p = Some id -> plugin_walk c (p :: rest) en (Some id)
| PW_refuse : forall p rest en r, consulted p = true -> p_url p <> UrlNotString ->
    slugs_authenticate c p = None -> plugin_walk c rest true r -> plugin_walk c (p :: rest) en r.

Lemma run_plugins_walk c ps : forall en, plugin_walk c ps en (run_plugins c ps en).
Proof.
  induction ps as [|p rest IH]; intro en; cbn [run_plugins].
  - destruct en; [constructor|]. unfold cn_identity.
    destruct (c_cns c) as [|u [|u2 r]] eqn:E; try (apply PW_end_no_cn; intros user K; rewrite E in K; discriminate).
    apply PW_end_fallback. exact E.
  - fold (consulted p). destruct (consulted p) eqn:Ec.
    + destruct (p_url p) eqn:Eu.
      * destruct (slugs_authenticate c p) eqn:Es.
        -- apply PW_vouch; auto. congruence.
        -- apply PW_refuse; auto. congruence.
      * destruct (slugs_authenticate c p) eqn:Es.
        -- apply PW_vouch; auto. congruence.
        -- apply PW_refuse; auto. congruence.
      * apply PW_bad_url; auto.
    + apply PW_skip; auto.
Qed.

(* the property's list of conditions, as a necessary condition for any established identity *)
Theorem establish_conditions g user groups :
  establish g = Some (user, groups) ->
  exists c, peer g = Some c
    /\ (tls_client_auth g = true -> c_eku c = EkuClient)
    /\ c_cns c = [user]
    /\ ((forall p, In p (plugins g) -> consulted p = false) /\ groups = None
        \/ exists p, In p (plugins g) /\ consulted p = true /\ vouches p groups).
Proof.
  unfold establish, cert_checks. destruct (peer g) as [c|]; [|discriminate].
  intro H. exists c. split; [reflexivity|].
  assert (Hc : (tls_client_auth g = true -> c_eku c = EkuClient) /\ authenticate c (plugins g) = Some (user, groups)).
  { destruct (tls_client_auth g); [destruct (c_eku c); try discriminate|]; split; auto; discriminate. }
  destruct Hc as (Heku & Ha). split; [exact Heku|]. clear H Heku.
  unfold authenticate in Ha. pose proof (run_plugins_walk c (plugins g) false) as W. rewrite Ha in W.
  remember (plugins g) as ps eqn:Eps. clear Eps Ha.
  remember false as en eqn:Een. remember (Some (user, groups)) as r eqn:Er.
  assert (Hgen : (en = false -> c_cns c = [user] /\ ((forall p, In p ps -> consulted p = false) /\ groups = None
                                   \/ exists p, In p ps /\ consulted p = true /\ vouches p groups))
                 /\ (en = true -> c_cns c = [user] /\ exists p, In p ps /\ consulted p = true /\ vouches p groups)).
  { clear Een. induction W as [u Hu | Hn | | p rest en r Hk W IH | p rest en Hk Hu | p rest en id Hk Hu Hs | p rest en r Hk Hu Hs W IH].
    - injection Er as -> <-. split; [|discriminate]. intros _. split; [exact Hu|]. left. split; [intros p []|reflexivity].
    - discriminate.
    - discriminate.
    - destruct (IH Er) as (IHf & IHt). split; intro E.
      + destruct (IHf E) as (Hc & [(Hall & Hg) | (q & Hin & Hq & Hv)]); split; auto.
        * left. split; [|exact Hg]. intros q [<-|Hin]; auto.
        * right. exists q. split; [right; exact Hin|auto].
      + destruct (IHt E) as (Hc & q & Hin & Hq & Hv). split; auto. exists q. split; [right; exact Hin|auto].
    - discriminate.
    - injection Er as Er. subst id. apply slugs_authenticate_spec in Hs. destruct Hs as (u & gs & Hid & Hc & Hv).
      injection Hid as -> ->.
      split; intros _; (split; [exact Hc|]); [right|]; exists p; (split; [left; reflexivity|auto]).
    - destruct (IH Er) as (_ & IHt). destruct (IHt eq_refl) as (Hc & q & Hin & Hq & Hv).
      split; intros _; (split; [exact Hc|]); [right|]; exists q; (split; [right; exact Hin|auto]). }
  destruct Hgen as (Hf & _). destruct (Hf Een) as (Hc & Hrest). subst en. split; assumption.
Qed.

(* and sufficient, when no consulted block is misconfigured: the first vouching block decides *)
Theorem establish_no_plugins g c user :
  peer g = Some c -> (tls_client_auth g = true -> c_eku c = EkuClient) -> c_cns c = [user] ->
  (forall p, In p (plugins g) -> consulted p = false) ->
  establish g = Some (user, None).
Proof.
  intros Hp He Hc Hall. unfold establish, cert_checks. rewrite Hp.
  assert (Hcc : (if tls_client_auth g then match c_eku c with EkuClient => Some c | _ => None end else Some c) = Some c).
  { destruct (tls_client_auth g); [rewrite (He eq_refl)|]; reflexivity. }
  rewrite Hcc. unfold authenticate. revert Hall. generalize (plugins g) as ps.
  induction ps as [|p rest IH]; intro Hall; cbn [run_plugins].
  - unfold cn_identity. rewrite Hc. reflexivity.
  - fold (consulted p). rewrite (Hall p (or_introl eq_refl)). apply IH. intros q Hq. apply Hall. right. exact Hq.
Qed.

Theorem establish_first_voucher g c user pre p post groups :
  peer g = Some c -> (tls_client_auth g = true -> c_eku c = EkuClient) -> c_cns c = [user] ->
  plugins g = pre ++ p :: post ->
  (forall q, In q pre -> consulted q = false \/ (p_url q <> UrlNotString /\ slugs_authenticate c q = None)) ->
  consulted p = true -> vouches p groups ->
  establish g = Some (user, groups).
Proof.
  intros Hp He Hc Hps Hpre Hk Hv. unfold establish, cert_checks. rewrite Hp.
  assert (Hcc : (if tls_client_auth g then match c_eku c with EkuClient => Some c | _ => None end else Some c) = Some c).
  { destruct (tls_client_auth g); [rewrite (He eq_refl)|]; reflexivity. }
  rewrite Hcc. unfold authenticate. rewrite Hps. generalize false as en. clear Hps.
  induction pre as [|q pre IH]; intro en; cbn [app run_plugins].
  - fold (consulted p). rewrite Hk.
    assert (Hs : slugs_authenticate c p = Some (user, groups)).
    { apply slugs_authenticate_spec. exists user, groups. auto. }
    destruct Hv as (Hu & _). rewrite Hu, Hs. reflexivity.
  - fold (consulted q). destruct (Hpre q (or_introl eq_refl)) as [Hq | (Hu & Hs)].
    + rewrite Hq. apply IH. intros r Hr. apply Hpre. right. exact Hr.
    + destruct (consulted q).
      * rewrite Hs. destruct (p_url q); try contradiction; apply IH; intros r Hr; apply Hpre; right; exact Hr.
      * apply IH. intros r Hr. apply Hpre. right. exact Hr.
Qed.
