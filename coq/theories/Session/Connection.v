(* A whole connection: frame the chunked stream, then serve the frames.  Definitions only. *)
From PK Require Export Session.Framing Session.Session.
Open Scope Z_scope.

Section Connection.
  Variable request : Type.
  Variable parse : bytes -> option request.
  Variable rq_version : request -> Z * Z.
  Variable estate : Type.
  Variable engine : request -> identity -> estate -> eresult * estate.

  (* KmipSession.run after the handshake: one _handle_message_loop per frame until the stream ends *)
  Definition connection (g : cfg) (cs : list bytes) (st : estate) : list step * estate :=
    serve request parse rq_version estate engine g (fst (fst (frames_conn cs))) st.
End Connection.
