(* C15 - executable model of SetAttribute / ModifyAttribute / DeleteAttribute of
   kmip/services/server/engine.py (as the code is now), consulting the rule table regenerated
   from kmip/services/server/policy.py (gen/AttrRuleTable.v).

   Structure of every handler, as in the Python: guards in source order, every mutation of the
   managed object at the very end of its path.  The model therefore computes an [effect]
   ([decide_*]) and applies it ([apply_effect]); a failing path returns [Err reason] and the
   store is not touched.  [RCrash] stands for a non-KMIP exception (GENERAL_FAILURE, property C13's
   business); after the repairs of /repo it is left only for payloads in the form of the other protocol
   generation and for values whose shape does not fit their attribute name (which no decoder produces);
   the comparator accepts any failure for it. *)
From Coq Require Import ZArith List String Bool.
From PKGen Require Import AttrRuleTable.
Import ListNotations.
Open Scope string_scope.
Open Scope Z_scope.

(* ------------------------------------------------------------------ versions and rule queries *)
Definition version := (Z * Z)%type.
Definition ver_ge (a b : version) : bool :=
  (fst b <? fst a) || ((fst a =? fst b) && (snd b <=? snd a)).
Definition is_v2 (v : version) : bool := ver_ge v (2, 0).

(* policy.py query methods answer False for a name that is not in the table *)
Definition q_rule (f : attr_rule -> bool) (n : string) : bool :=
  match find_rule n with Some r => f r | None => false end.
Definition q_modifiable (n : string) : bool := q_rule ar_modifiable_by_client n.
Definition q_deletable (n : string) : bool := q_rule ar_deletable_by_client n.
Definition q_multivalued (n : string) : bool := q_rule ar_multivalued n.
Definition q_applicable (n : string) (ot : Z) : bool :=
  q_rule (fun r => existsb (Z.eqb ot) (ar_object_types r)) n.
Definition q_supported (v : version) (n : string) : bool :=
  match find_rule n with None => false | Some r => ver_ge v (ar_version_added r) end.
Definition q_deprecated (v : version) (r : attr_rule) : bool :=
  match ar_version_deprecated r with Some d => ver_ge v d | None => false end.

(* ------------------------------------------------------------------ values, objects *)
Inductive aval :=
| VText (s : string)            (* Name value, Object Group, Operation Policy Name, Unique Identifier, ... *)
| VAsi (ns d : string)          (* Application Specific Information *)
| VBool (b : bool)              (* Sensitive, Fresh *)
| VInt (z : Z).                 (* enumerations, integers, masks, dates *)

Definition aval_eqb (a b : aval) : bool :=
  match a, b with
  | VText x, VText y => String.eqb x y
  | VAsi x1 x2, VAsi y1 y2 => String.eqb x1 y1 && String.eqb x2 y2
  | VBool x, VBool y => Bool.eqb x y
  | VInt x, VInt y => Z.eqb x y
  | _, _ => false
  end.

Record obj := mkObj {
  o_uid : Z; o_type : Z; o_state : option Z; o_owner : string; o_policy : string;
  o_mask : option Z; o_alg : option Z; o_len : option Z; o_init : Z; o_certtype : option Z;
  o_names : list aval; o_groups : list aval; o_asi : list aval; o_sensitive : bool }.

Definition store := list obj.

(* the attributes the property says can never be altered through the three operations *)
Definition protected (o : obj) :=
  (o_uid o, o_type o, o_state o, o_owner o, o_policy o, (o_mask o, o_alg o, o_len o, o_init o)).

(* ------------------------------------------------------------------ multi-valued fields the server stores *)
Inductive mfield := FNames | FGroups | FAsi.
Definition mget (f : mfield) (o : obj) : list aval :=
  match f with FNames => o_names o | FGroups => o_groups o | FAsi => o_asi o end.
Definition mset (f : mfield) (l : list aval) (o : obj) : obj :=
  match f with
  | FNames => mkObj (o_uid o) (o_type o) (o_state o) (o_owner o) (o_policy o) (o_mask o) (o_alg o) (o_len o) (o_init o)
                    (o_certtype o) l (o_groups o) (o_asi o) (o_sensitive o)
  | FGroups => mkObj (o_uid o) (o_type o) (o_state o) (o_owner o) (o_policy o) (o_mask o) (o_alg o) (o_len o) (o_init o)
                    (o_certtype o) (o_names o) l (o_asi o) (o_sensitive o)
  | FAsi => mkObj (o_uid o) (o_type o) (o_state o) (o_owner o) (o_policy o) (o_mask o) (o_alg o) (o_len o) (o_init o)
                    (o_certtype o) (o_names o) (o_groups o) l (o_sensitive o)
  end.
Definition mfield_of_name (n : string) : option mfield :=
  if String.eqb n "Name" then Some FNames
  else if String.eqb n "Object Group" then Some FGroups
  else if String.eqb n "Application Specific Information" then Some FAsi
  else None.

(* single-valued columns _set_attribute_on_managed_object can write *)
Inductive sfield := SAlg | SLen | SMask | SPolicy | SSens.
Definition sfield_of_name (n : string) : option sfield :=
  if String.eqb n "Cryptographic Algorithm" then Some SAlg
  else if String.eqb n "Cryptographic Length" then Some SLen
  else if String.eqb n "Cryptographic Usage Mask" then Some SMask
  else if String.eqb n "Operation Policy Name" then Some SPolicy
  else if String.eqb n "Sensitive" then Some SSens
  else None.
Definition sset (f : sfield) (v : aval) (o : obj) : obj :=
  match f, v with
  | SAlg, VInt z => mkObj (o_uid o) (o_type o) (o_state o) (o_owner o) (o_policy o) (o_mask o) (Some z) (o_len o) (o_init o)
                    (o_certtype o) (o_names o) (o_groups o) (o_asi o) (o_sensitive o)
  | SLen, VInt z => mkObj (o_uid o) (o_type o) (o_state o) (o_owner o) (o_policy o) (o_mask o) (o_alg o) (Some z) (o_init o)
                    (o_certtype o) (o_names o) (o_groups o) (o_asi o) (o_sensitive o)
  | SMask, VInt z => mkObj (o_uid o) (o_type o) (o_state o) (o_owner o) (o_policy o) (Some z) (o_alg o) (o_len o) (o_init o)
                    (o_certtype o) (o_names o) (o_groups o) (o_asi o) (o_sensitive o)
  | SPolicy, VText s => mkObj (o_uid o) (o_type o) (o_state o) (o_owner o) s (o_mask o) (o_alg o) (o_len o) (o_init o)
                    (o_certtype o) (o_names o) (o_groups o) (o_asi o) (o_sensitive o)
  | SSens, VBool b => mkObj (o_uid o) (o_type o) (o_state o) (o_owner o) (o_policy o) (o_mask o) (o_alg o) (o_len o) (o_init o)
                    (o_certtype o) (o_names o) (o_groups o) (o_asi o) b
  | _, _ => o
  end.

(* ------------------------------------------------------------------ list primitives (Python list semantics) *)
Fixpoint replace_nth {A} (i : nat) (v : A) (l : list A) : list A :=
  match l, i with
  | [], _ => []
  | _ :: t, O => v :: t
  | h :: t, S j => h :: replace_nth j v t
  end.
Fixpoint remove_nth {A} (i : nat) (l : list A) : list A :=
  match l, i with
  | [], _ => []
  | _ :: t, O => t
  | h :: t, S j => h :: remove_nth j t
  end.
Fixpoint first_index (c : aval) (l : list aval) : option nat :=
  match l with
  | [] => None
  | h :: t => if aval_eqb c h then Some O else option_map S (first_index c t)
  end.

(* ------------------------------------------------------------------ effects *)
Inductive effect :=
| EReplace (f : mfield) (i : nat) (v : aval)    (* collection[i] = v *)
| ERemove (f : mfield) (i : nat)                (* collection.pop(i) / remove(first equal) *)
| EClear (f : mfield)                           (* collection[:] = [] *)
| ESet (f : sfield) (v : aval)                  (* setattr(managed_object, field, value) *)
| ENoChange.                                    (* success, existing value already equals the request *)

Definition apply_effect (e : effect) (o : obj) : obj :=
  match e with
  | EReplace f i v => mset f (replace_nth i v (mget f o)) o
  | ERemove f i => mset f (remove_nth i (mget f o)) o
  | EClear f => mset f [] o
  | ESet f v => sset f v o
  | ENoChange => o
  end.

(* ------------------------------------------------------------------ results *)
Inductive reason :=
| RItemNotFound | RPermissionDenied | RInvalidField | RInvalidMessage | ROpNotSupported
| RMultiValued | RReadOnly | RAttrInstanceNotFound | RAttrNotFound | RCrash.
Inductive res (A : Type) := Ok (a : A) | Err (r : reason).
Arguments Ok {A} a.
Arguments Err {A} r.

(* ------------------------------------------------------------------ reading attributes off the object *)
(* _get_attribute_from_managed_object: None / a list (multi-valued collections) / one value *)
Inductive gval := GNone | GList (n : nat) | GOne.
Definition of_opt {A} (x : option A) : gval := match x with Some _ => GOne | None => GNone end.
Definition get_value (o : obj) (n : string) : gval :=
  if String.eqb n "Unique Identifier" then GOne
  else if String.eqb n "Name" then GList (List.length (o_names o))
  else if String.eqb n "Object Type" then GOne
  else if String.eqb n "Cryptographic Algorithm" then of_opt (o_alg o)
  else if String.eqb n "Cryptographic Length" then of_opt (o_len o)
  else if String.eqb n "Certificate Type" then of_opt (o_certtype o)
  else if String.eqb n "Operation Policy Name" then GOne
  else if String.eqb n "Cryptographic Usage Mask" then of_opt (o_mask o)
  else if String.eqb n "State" then of_opt (o_state o)
  else if String.eqb n "Initial Date" then GOne
  else if String.eqb n "Object Group" then GList (List.length (o_groups o))
  else if String.eqb n "Application Specific Information" then GList (List.length (o_asi o))
  else if String.eqb n "Sensitive" then GOne
  else GNone.

(* len(_get_attributes_from_managed_object(mo, [n])): the number of instances GetAttributes reports *)
Definition existing_count (v : version) (o : obj) (n : string) : nat :=
  match find_rule n with
  | None => O
  | Some r =>
    if negb (ver_ge v (ar_version_added r)) then O
    else if q_deprecated v r then O
    else if negb (existsb (Z.eqb (o_type o)) (ar_object_types r)) then O
    else match get_value o n with
         | GNone => O
         | GList k => if ar_multivalued r then k else 1%nat
         | GOne => 1%nat
         end
  end.

(* GetAttributes with no name list: (name, number of instances) in table order, absent names dropped *)
Definition view (v : version) (o : obj) : list (string * nat) :=
  filter (fun p => negb (Nat.eqb (snd p) 0))
         (map (fun r => (ar_name r, existing_count v o (ar_name r))) attr_rule_table).

(* _get_attribute_index_from_managed_object *)
Definition opt_eq_int (x : option Z) (c : aval) : res (option nat) :=
  match c with VInt z => Ok (match x with Some y => if y =? z then Some O else None | None => None end) | _ => Err RCrash end.
Definition index_of (o : obj) (n : string) (c : aval) : res (option nat) :=
  if String.eqb n "Application Specific Information" then
    match c with VAsi _ _ => Ok (first_index c (o_asi o)) | _ => Err RCrash end
  else if String.eqb n "Certificate Type" then opt_eq_int (o_certtype o) c
  else if String.eqb n "Cryptographic Algorithm" then opt_eq_int (o_alg o) c
  else if String.eqb n "Cryptographic Length" then opt_eq_int (o_len o) c
  else if String.eqb n "Cryptographic Usage Mask" then
    match o_mask o with Some _ => opt_eq_int (o_mask o) c | None => Err RCrash end
  else if String.eqb n "Initial Date" then opt_eq_int (Some (o_init o)) c
  else if String.eqb n "Name" then
    match c with VText _ => Ok (first_index c (o_names o)) | _ => Err RCrash end
  else if String.eqb n "Object Group" then
    match c with VText _ => Ok (first_index c (o_groups o)) | VAsi _ _ => Err RCrash | _ => Ok None end
  else if String.eqb n "Object Type" then opt_eq_int (Some (o_type o)) c
  else if String.eqb n "Operation Policy Name" then
    match c with VText s => Ok (if String.eqb s (o_policy o) then Some O else None) | VAsi _ _ => Err RCrash | _ => Ok None end
  else if String.eqb n "Sensitive" then
    match c with VBool b => Ok (if Bool.eqb b (o_sensitive o) then Some O else None) | VAsi _ _ => Err RCrash | _ => Ok None end
  else if String.eqb n "State" then
    match o_state o with Some _ => opt_eq_int (o_state o) c | None => Err RCrash end
  else if String.eqb n "Unique Identifier" then
    match c with VAsi _ _ => Err RCrash | _ => Ok None end   (* read-only name: the handlers never get here *)
  else Ok None.

(* _set_attribute_on_managed_object, single-valued branch (the multi-valued check is repeated there) *)
Definition set_single (o : obj) (n : string) (v : aval) : res effect :=
  if q_multivalued n then Err RCrash   (* not reached from the three operations: callers only pass single-valued names *)
  else
    match sfield_of_name n with
    | None => match v with VAsi _ _ => Err RCrash | _ => Err RInvalidField end
    | Some SAlg =>
      match v, o_alg o with
      | VInt z, Some a => if a =? z then Ok ENoChange else Err RInvalidField
      | VInt _, None => Err RInvalidField                 (* the object has no such column *)
      | _, _ => Err RCrash end
    | Some SLen =>
      match v, o_len o with
      | VInt z, Some a => if a =? 0 then Ok (ESet SLen v) else if a =? z then Ok ENoChange else Err RInvalidField
      | VInt _, None => Err RInvalidField
      | _, _ => Err RCrash end
    | Some SMask =>
      match v, o_mask o with
      | VInt z, Some a => if a =? 0 then Ok (ESet SMask v) else if a =? z then Ok ENoChange else Err RInvalidField
      | VInt _, None => Err RInvalidField
      | _, _ => Err RCrash end
    | Some SPolicy =>
      match v with
      | VText s => if String.eqb (o_policy o) "" then Ok (ESet SPolicy v)
                   else if String.eqb (o_policy o) s then Ok ENoChange else Err RInvalidField
      | _ => Err RCrash end
    | Some SSens =>
      match v with
      | VBool b => if o_sensitive o then (if b then Ok ENoChange else Err RInvalidField) else Ok (ESet SSens v)
      | _ => Err RCrash end
    end.

(* _set_attribute_on_managed_object_by_index: writes only the three stored collections *)
Definition set_by_index (n : string) (v : aval) (i : nat) : res effect :=
  match mfield_of_name n with
  | Some FAsi => match v with VAsi _ _ => Ok (EReplace FAsi i v) | _ => Err RCrash end
  | Some f => match v with VText _ => Ok (EReplace f i v) | _ => Err RCrash end
  | None => Ok ENoChange
  end.

(* ------------------------------------------------------------------ request payloads (all fields optional, as decoded) *)
(* KMIP 2.0 attribute values carry their own tag; [None] = tag with no attribute name (convert_attribute_tag_to_name raises) *)
Definition tagged := (option string * aval)%type.
Record del_payload := mkDel { d_name : option string; d_index : option Z; d_current : option tagged; d_ref : option string }.
Record mod_payload := mkMod { m_attr : option (string * option Z * aval); m_current : option tagged; m_new : option tagged }.
Definition cur_val (p : mod_payload) : option aval := option_map snd (m_current p).
(* KMIP 2.0 ModifyAttribute: Current Attribute and New Attribute must carry the same tag (= name the same attribute) *)
Definition name_opt_eqb (a b : option string) : bool :=
  match a, b with Some x, Some y => String.eqb x y | None, None => true | _, _ => false end.
Definition kind_mismatch (cur : option tagged) (new_name : option string) : bool :=
  match cur with Some (cn, _) => negb (name_opt_eqb cn new_name) | None => false end.
Inductive areq :=
| RDelete (p : del_payload)
| RModify (p : mod_payload)
| RSet (p : option tagged).

(* _delete_attribute_from_managed_object *)
Definition delete_from (o : obj) (n : string) (idx : option Z) (val : option aval) : res effect :=
  if negb (q_applicable n (o_type o)) then Err RItemNotFound
  else if negb (q_deletable n) then Err RPermissionDenied
  else if q_multivalued n then
    match mfield_of_name n with
    | None => Err RInvalidField
    | Some f =>
      (* the current value is unwrapped (a Name becomes its text, the other two a row object) and tested `is not None` *)
      let by_value (c : aval) :=
        match first_index c (mget f o) with Some i => Ok (ERemove f i) | None => Err RItemNotFound end in
      let by_index :=
        match idx with
        | Some i => if (0 <=? i) && (i <? Z.of_nat (List.length (mget f o))) then Ok (ERemove f (Z.to_nat i)) else Err RItemNotFound
        | None => Ok (EClear f)
        end in
      match val with
      | Some c =>
        match f, c with
        | FNames, VText _ | FAsi, VAsi _ _ | FGroups, VText _ => by_value c
        | _, _ => Err RCrash
        end
      | None => by_index
      end
    end
  else Err RInvalidField.

Definition decide_delete (v : version) (o : obj) (p : del_payload) : res effect :=
  if is_v2 v then
    match d_current p with
    | Some (None, _) => Err RItemNotFound
    | Some (Some n, c) => delete_from o n None (Some c)
    | None =>
      match d_ref p with
      | Some n => delete_from o n None None
      | None => Err RInvalidMessage
      end
    end
  else
    match d_name p with
    | None => Err RInvalidMessage
    | Some n =>
      if String.eqb n "" then Err RInvalidMessage else
      let i := match d_index p with Some i => i | None => 0 end in
      let k := existing_count v o n in
      if negb (Nat.eqb k 0) && negb (i =? 0) && negb ((0 <=? i) && (i <? Z.of_nat k)) then Err RItemNotFound
      else delete_from o n (Some i) None
    end.

Definition decide_modify (v : version) (o : obj) (p : mod_payload) : res effect :=
  if is_v2 v then
    match m_new p with
    | None => Err RCrash
    | Some (nn, nv) =>
    if kind_mismatch (m_current p) nn then Err RInvalidField else
    match nn with
    | None => Err RCrash
    | Some n =>
      if negb (q_modifiable n) then Err RPermissionDenied
      else
        if q_multivalued n then
          match cur_val p with
          | None => Err RAttrInstanceNotFound
          | Some c =>
            match index_of o n c with
            | Err e => Err e
            | Ok None => Err RAttrNotFound
            | Ok (Some i) => set_by_index n nv i
            end
          end
        else
          match cur_val p with
          | None =>
            match get_value o n with GNone => Err RAttrNotFound | _ => set_single o n nv end
          | Some c =>
            match index_of o n c with
            | Err e => Err e
            | Ok None => Err RAttrNotFound
            | Ok (Some _) => set_single o n nv
            end
          end
    end
    end
  else
    match m_attr p with
    | None => Err RCrash
    | Some (n, idx, nv) =>
      if negb (q_modifiable n) then Err RPermissionDenied
      else
        if q_multivalued n then
          let i := match idx with Some i => i | None => 0 end in
          match get_value o n with
          | GNone => Err RItemNotFound          (* a multi-valued attribute the server does not store *)
          | GList k => if (0 <=? i) && (i <? Z.of_nat k) then set_by_index n nv (Z.to_nat i) else Err RItemNotFound
          | GOne => Err RCrash                  (* len() of a scalar: no multi-valued name has one *)
          end
        else
          match idx with
          | Some _ => Err RInvalidField
          | None => if Nat.eqb (existing_count v o n) 0 then Err RInvalidField else set_single o n nv
          end
    end.

Definition decide_set (v : version) (o : obj) (p : option tagged) : res effect :=
  match p with
  | None => Err RCrash
  | Some (None, _) => Err RCrash
  | Some (Some n, nv) =>
    if q_multivalued n then Err RMultiValued
    else if negb (q_modifiable n) then Err RReadOnly
    else if negb (q_applicable n (o_type o)) then Err RInvalidField
    else set_single o n nv
  end.

Definition decide (v : version) (o : obj) (r : areq) : res effect :=
  match r with
  | RDelete p => decide_delete v o p
  | RModify p => decide_modify v o p
  | RSet p => decide_set v o p
  end.

(* ------------------------------------------------------------------ one request item against the store *)
Inductive outcome := Success | Failed (r : reason).

(* default operation policy: Set/Modify/DeleteAttribute are ALLOW_OWNER on every object type (kmip/core/policy.py);
   any other policy name stored on a non-template object grants nothing.  Access control proper is property C03. *)
Definition allowed (user : string) (o : obj) : bool :=
  String.eqb (o_policy o) "default" && String.eqb user (o_owner o).

Definition find_obj (u : Z) (s : store) : option obj := find (fun o => o_uid o =? u) s.
(* the row found by the primary-key query is the one written back *)
Fixpoint replace_obj (u : Z) (o' : obj) (s : store) : store :=
  match s with
  | [] => []
  | x :: t => if o_uid x =? u then o' :: t else x :: replace_obj u o' t
  end.

Definition is_set (r : areq) : bool := match r with RSet _ => true | _ => false end.

Definition step (v : version) (user : string) (s : store) (uid : option Z) (r : areq) : store * outcome :=
  if is_set r && negb (is_v2 v) then (s, Failed ROpNotSupported)
  else match uid with
  | None => (s, Failed RItemNotFound)             (* ID placeholder is reset per request; absent id = nothing to find *)
  | Some u =>
    match find_obj u s with
    | None => (s, Failed RItemNotFound)
    | Some o =>
      if negb (allowed user o) then (s, Failed RPermissionDenied)
      else match decide v o r with
           | Err e => (s, Failed e)
           | Ok e => (replace_obj u (apply_effect e o) s, Success)
           end
    end
  end.

(* histories: attribute requests interleaved with arbitrary other operations (modelled as arbitrary store
   transformers: Create / Register / Activate / Revoke / Destroy ...; the theorems quantify over them) *)
Inductive event :=
| EvAttr (v : version) (user : string) (uid : option Z) (r : areq)
| EvOther (f : store -> store).

Definition run_event (s : store) (e : event) : store :=
  match e with
  | EvAttr v user uid r => fst (step v user s uid r)
  | EvOther f => f s
  end.
Definition run (s : store) (h : list event) : store := fold_left run_event h s.

(* ------------------------------------------------------------------ batches and the ID placeholder *)
(* One request = a list of batch items over (store, placeholder).  The placeholder starts as None in every request
   (process_request resets it); only the four creating operations (Create, CreateKeyPair, Register, DeriveKey) write it:
   to the identifier they issue (the private key's for CreateKeyPair).  Set/Modify/DeleteAttribute read
   `unique_identifier = self._id_placeholder; if payload.unique_identifier: unique_identifier = payload...`. *)
Inductive item :=
| IAttr (uid : option Z) (r : areq)            (* Set / Modify / DeleteAttribute, identifier optional *)
| ICreating (news : list obj) (u : Z)          (* a creating operation that succeeded: objects appended, identifier issued *)
| IOther (f : store -> store)                  (* any other successful item (Get, GetAttributes, Activate, ... with explicit id) *)
| IFailedOther.                                (* any other item that failed: nothing changed *)

Inductive iresult := RAttr (o : outcome) | ROk | RFail.
Definition bstate := (store * option Z)%type.

Definition resolve (uid ph : option Z) : option Z := match uid with Some u => Some u | None => ph end.

Definition step_item (v : version) (user : string) (st : bstate) (it : item) : bstate * iresult :=
  match it with
  | IAttr uid r => let so := step v user (fst st) (resolve uid (snd st)) r in ((fst so, snd st), RAttr (snd so))
  | ICreating news u => ((app (fst st) news, Some u), ROk)
  | IOther f => ((f (fst st), snd st), ROk)
  | IFailedOther => (st, RFail)
  end.

Definition failed_result (x : iresult) : bool :=
  match x with RAttr (Failed _) => true | RFail => true | _ => false end.

(* executed items with the state before and after each; cont = Batch Error Continuation Option is Continue *)
Definition entry := (bstate * item * bstate * iresult)%type.
Fixpoint trace (v : version) (user : string) (cont : bool) (st : bstate) (b : list item) : list entry :=
  match b with
  | [] => []
  | it :: t =>
    let so := step_item v user st it in
    (st, it, fst so, snd so) :: (if negb cont && failed_result (snd so) then [] else trace v user cont (fst so) t)
  end.

Definition final_state (st : bstate) (tr : list entry) : bstate :=
  match rev tr with [] => st | (_, _, st', _) :: _ => st' end.
Definition run_batch (v : version) (user : string) (cont : bool) (s : store) (b : list item) : bstate * list iresult :=
  let tr := trace v user cont (s, None) b in
  (final_state (s, None) tr, map (fun e => snd e) tr).

(* what the placeholder must be: the identifier issued by the last creating item so far *)
Definition ph_update (ph : option Z) (it : item) : option Z :=
  match it with ICreating _ u => Some u | _ => ph end.
Definition last_created (ph0 : option Z) (pre : list item) : option Z := fold_left ph_update pre ph0.
