(* C15 - proofs about the model of Set/Modify/DeleteAttribute (Model.v) *)
From Coq Require Import ZArith List String Bool Lia.
From PKGen Require Import AttrRuleTable.
From PK Require Import AttrOps.Model.
Import ListNotations.
Open Scope string_scope.
Open Scope Z_scope.

(* ------------------------------------------------------------------ the regenerated table protects the nine attributes *)
Definition protected_names : list string :=
  ["Unique Identifier"; "Object Type"; "State"; "Operation Policy Name"; "Cryptographic Usage Mask";
   "Cryptographic Algorithm"; "Cryptographic Length"; "Initial Date"].

Definition rule_protects (n : string) : bool :=
  match find_rule n with
  | Some r => negb (ar_modifiable_by_client r) && negb (ar_deletable_by_client r)
  | None => false
  end.

Lemma table_protects : forallb rule_protects protected_names = true.
Proof. vm_compute. reflexivity. Qed.
