(* C15 - proofs about the model of Set/Modify/DeleteAttribute (Model.v) *)
From Coq Require Import ZArith List String Bool Lia.
From PKGen Require Import AttrRuleTable.
From PK Require Import AttrOps.Model.
Import ListNotations.
Open Scope string_scope.
Open Scope Z_scope.

(* ------------------------------------------------------------------ the regenerated table protects the nine attributes *)
Definition protected_names : list string :=
  ["Unique Identifier"; "Object Type"; "State"; "Operation Policy Name"; "Cryptographic Usage Mask";
   "Cryptographic Algorithm"; "Cryptographic Length"; "Initial Date"].

Definition rule_protects (n : string) : bool :=
  match find_rule n with
  | Some r => negb (ar_modifiable_by_client r) && negb (ar_deletable_by_client r)
  | None => false
  end.

Lemma table_protects : forallb rule_protects protected_names = true.
Proof. vm_compute. reflexivity. Qed.

Lemma protected_rule : forall n, In n protected_names ->
  q_modifiable n = false /\ q_deletable n = false.
Proof.
  intros n H. pose proof table_protects as T. rewrite forallb_forall in T. specialize (T n H).
  unfold rule_protects in T. unfold q_modifiable, q_deletable, q_rule.
  destruct (find_rule n); [|discriminate]. simpl.
  apply andb_true_iff in T. destruct T as [A B]. apply negb_true_iff in A. apply negb_true_iff in B.
  now rewrite A, B.
Qed.

(* ------------------------------------------------------------------ which names reach which storage *)
Lemma mfield_of_name_inv : forall n f, mfield_of_name n = Some f ->
  (n = "Name" /\ f = FNames) \/ (n = "Object Group" /\ f = FGroups) \/
  (n = "Application Specific Information" /\ f = FAsi).
Proof.
  intros n f. unfold mfield_of_name.
  destruct (String.eqb_spec n "Name"); [intro H; inversion H; auto|].
  destruct (String.eqb_spec n "Object Group"); [intro H; inversion H; auto|].
  destruct (String.eqb_spec n "Application Specific Information"); [intro H; inversion H; auto|].
  discriminate.
Qed.

Lemma sfield_of_name_inv : forall n f, sfield_of_name n = Some f ->
  (f = SSens /\ n = "Sensitive") \/ (f <> SSens /\ In n protected_names).
Proof.
  intros n f. unfold sfield_of_name.
  destruct (String.eqb_spec n "Cryptographic Algorithm"); [intro H; inversion H; subst; right; split; [discriminate | simpl; tauto]|].
  destruct (String.eqb_spec n "Cryptographic Length"); [intro H; inversion H; subst; right; split; [discriminate | simpl; tauto]|].
  destruct (String.eqb_spec n "Cryptographic Usage Mask"); [intro H; inversion H; subst; right; split; [discriminate | simpl; tauto]|].
  destruct (String.eqb_spec n "Operation Policy Name"); [intro H; inversion H; subst; right; split; [discriminate | simpl; tauto]|].
  destruct (String.eqb_spec n "Sensitive"); [intro H; inversion H; subst; left; auto|].
  discriminate.
Qed.

(* ------------------------------------------------------------------ effects the handlers can produce *)
Definition safe_effect (e : effect) : Prop := match e with ESet f _ => f = SSens | _ => True end.

Ltac bm :=
  match goal with
  | H : context [match ?x with _ => _ end] |- _ => let E := fresh "E" in destruct x eqn:E
  end.
Ltac inv H := inversion H; subst; clear H.

(* the single-valued setter is only ever entered for a name the table marks modifiable; the table marks none of the
   protected names modifiable, so the only column it can write is [sensitive] *)
Lemma set_single_safe : forall o n v e, negb (q_modifiable n) = false -> set_single o n v = Ok e -> safe_effect e.
Proof.
  intros o n v e M H. apply negb_false_iff in M. unfold set_single in H.
  destruct (q_multivalued n); try discriminate.
  destruct (sfield_of_name n) eqn:S.
  - apply sfield_of_name_inv in S. destruct S as [[-> ->]|[NS P]].
    + destruct v; try discriminate. destruct (o_sensitive o); [destruct b; [|discriminate]|]; inv H; simpl; auto.
    + apply protected_rule in P. destruct P as [P _]. congruence.
  - destruct v; discriminate.
Qed.

Lemma set_by_index_safe : forall n v i e, set_by_index n v i = Ok e -> safe_effect e.
Proof.
  intros n v i e H. unfold set_by_index in H.
  repeat (bm; try discriminate); inv H; simpl; auto.
Qed.

Lemma delete_from_safe : forall o n idx val e, delete_from o n idx val = Ok e -> safe_effect e.
Proof.
  intros o n idx val e H. unfold delete_from in H.
  repeat (bm; try discriminate); inv H; simpl; auto.
Qed.

Lemma decide_delete_safe : forall v o p e, decide_delete v o p = Ok e -> safe_effect e.
Proof.
  intros v o p e H. unfold decide_delete in H. cbv zeta in H.
  repeat (bm; try discriminate); eauto using delete_from_safe.
Qed.

Lemma decide_modify_safe : forall v o p e, decide_modify v o p = Ok e -> safe_effect e.
Proof.
  intros v o p e H. unfold decide_modify in H. cbv zeta in H.
  repeat (bm; try discriminate); subst; eauto using set_single_safe, set_by_index_safe.
Qed.

Lemma decide_set_safe : forall v o p e, decide_set v o p = Ok e -> safe_effect e.
Proof.
  intros v o p e H. unfold decide_set in H.
  repeat (bm; try discriminate); subst; eauto using set_single_safe.
Qed.

Lemma decide_safe : forall v o r e, decide v o r = Ok e -> safe_effect e.
Proof.
  intros v o [p|p|p] e H; simpl in H; eauto using decide_delete_safe, decide_modify_safe, decide_set_safe.
Qed.

Lemma mset_protected : forall f l o, protected (mset f l o) = protected o.
Proof. destruct f; reflexivity. Qed.

Lemma apply_safe_protected : forall e o, safe_effect e -> protected (apply_effect e o) = protected o.
Proof.
  intros [f i v|f i|f|f v|] o S; simpl; try apply mset_protected; auto.
  simpl in S. subst f. destruct v; reflexivity.
Qed.

(* ------------------------------------------------------------------ one step *)
Lemma find_obj_uid : forall u s o, find_obj u s = Some o -> o_uid o = u.
Proof.
  intros u s o H. unfold find_obj in H. apply find_some in H. destruct H as [_ H]. now apply Z.eqb_eq in H.
Qed.

Lemma replace_obj_protected : forall u o o' s, find_obj u s = Some o -> protected o' = protected o ->
  map protected (replace_obj u o' s) = map protected s.
Proof.
  induction s as [|x t IH]; simpl; intros F P; [reflexivity|].
  unfold find_obj in F. simpl in F. destruct (o_uid x =? u) eqn:E.
  - inv F. simpl. now rewrite P.
  - simpl. f_equal. apply IH; auto.
Qed.

Theorem step_protected : forall v user s uid r,
  map protected (fst (step v user s uid r)) = map protected s.
Proof.
  intros. unfold step.
  destruct (is_set r && negb (is_v2 v)); [reflexivity|].
  destruct uid as [u|]; [|reflexivity].
  destruct (find_obj u s) as [o|] eqn:F; [|reflexivity].
  destruct (negb (allowed user o)); [reflexivity|].
  destruct (decide v o r) as [e|] eqn:D; [|reflexivity].
  simpl. apply replace_obj_protected with (o := o); auto.
  apply apply_safe_protected. eapply decide_safe; eauto.
Qed.

Theorem step_failure_frame : forall v user s uid r e,
  snd (step v user s uid r) = Failed e -> fst (step v user s uid r) = s.
Proof.
  intros v user s uid r e. unfold step.
  destruct (is_set r && negb (is_v2 v)); [reflexivity|].
  destruct uid as [u|]; [|reflexivity].
  destruct (find_obj u s) as [o|]; [|reflexivity].
  destruct (negb (allowed user o)); [reflexivity|].
  destruct (decide v o r); [simpl; discriminate | reflexivity].
Qed.

(* a successful step: the object found by identifier, accessible to the caller, receives exactly one effect *)
Lemma step_success_inv : forall v user s uid r,
  snd (step v user s uid r) = Success ->
  exists u o e, uid = Some u /\ find_obj u s = Some o /\ allowed user o = true /\ decide v o r = Ok e /\
                fst (step v user s uid r) = replace_obj u (apply_effect e o) s.
Proof.
  intros v user s uid r. unfold step.
  destruct (is_set r && negb (is_v2 v)); [simpl; discriminate|].
  destruct uid as [u|]; [|simpl; discriminate].
  destruct (find_obj u s) as [o|] eqn:F; [|simpl; discriminate].
  destruct (negb (allowed user o)) eqn:A; [simpl; discriminate|].
  destruct (decide v o r) as [e|] eqn:D; [|simpl; discriminate].
  intros _. exists u, o, e. simpl. apply negb_false_iff in A. auto.
Qed.
