(* C15 - a successful call changes exactly the addressed instance to exactly the requested value *)
From Coq Require Import ZArith List String Bool Lia Arith.
From PKGen Require Import AttrRuleTable.
From PK Require Import AttrOps.Model AttrOps.ListLemmas AttrOps.Proofs AttrOps.Spec.
Import ListNotations.
Open Scope string_scope.
Open Scope Z_scope.

(* ------------------------------------------------------------------ effects and what they do to the object *)
Inductive eff_for (o : obj) : effect -> target * action -> Prop :=
| EF_replace : forall f i v, (i < List.length (mget f o))%nat -> eff_for o (EReplace f i v) (TInstance f i, AReplace v)
| EF_remove : forall f i, (i < List.length (mget f o))%nat -> eff_for o (ERemove f i) (TInstance f i, ARemove)
| EF_clear : forall f, eff_for o (EClear f) (TAll f, ARemove)
| EF_sens : forall b, eff_for o (ESet SSens (VBool b)) (TSensitive, AReplace (VBool b))
| EF_sens_same : forall b, o_sensitive o = b -> eff_for o ENoChange (TSensitive, AReplace (VBool b)).

Lemma mget_mset_same : forall f l o, mget f (mset f l o) = l.
Proof. destruct f; reflexivity. Qed.
Lemma mget_mset_other : forall f g l o, g <> f -> mget g (mset f l o) = mget g o.
Proof. destruct f, g; intros; try congruence; reflexivity. Qed.
Lemma mset_rest : forall f l o, rest_equal (Some f) o (mset f l o).
Proof.
  intros. unfold rest_equal. repeat split.
  - apply mset_protected.
  - destruct f; reflexivity.
  - intros g H. apply mget_mset_other. congruence.
  - intros _. destruct f; reflexivity.
Qed.

Lemma eff_for_meets : forall o e ta, eff_for o e ta -> meets ta o (apply_effect e o).
Proof.
  intros o e ta H. destruct H; simpl.
  - rewrite mget_mset_same. repeat split.
    + assumption.
    + now apply replace_nth_same.
    + apply replace_nth_length.
    + intros j Hj. now apply replace_nth_other.
    + apply mset_protected.
    + destruct f; reflexivity.
    + intros g Hg. apply mget_mset_other. congruence.
    + intros _. destruct f; reflexivity.
  - rewrite mget_mset_same. repeat split.
    + assumption.
    + intro j. apply remove_nth_spec.
    + now apply remove_nth_length.
    + apply mset_protected.
    + destruct f; reflexivity.
    + intros g Hg. apply mget_mset_other. congruence.
    + intros _. destruct f; reflexivity.
  - rewrite mget_mset_same. split; [reflexivity|]. apply mset_rest.
  - split; [reflexivity|]. unfold rest_equal.
    repeat split; try reflexivity; try (intros g _; destruct g; reflexivity); try congruence.
  - split; [assumption|]. unfold rest_equal. repeat split; try reflexivity; try congruence.
Qed.

(* ------------------------------------------------------------------ facts read off the regenerated table *)
Lemma sens_not_multi_field : mfield_of_name "Sensitive" = None.
Proof. reflexivity. Qed.

Lemma mfield_not_sens : forall n f, mfield_of_name n = Some f -> String.eqb n "Sensitive" = false.
Proof.
  intros n f H. apply mfield_of_name_inv in H. destruct H as [[-> _]|[[-> _]|[-> _]]]; reflexivity.
Qed.

Lemma set_single_sens : forall o n v e, negb (q_modifiable n) = false -> set_single o n v = Ok e ->
  n = "Sensitive" /\ exists b, v = VBool b /\
    (e = ESet SSens (VBool b) \/ (e = ENoChange /\ o_sensitive o = b)).
Proof.
  intros o n v e M H. apply negb_false_iff in M. unfold set_single in H.
  destruct (q_multivalued n); try discriminate.
  destruct (sfield_of_name n) eqn:S.
  - apply sfield_of_name_inv in S. destruct S as [[-> ->]|[NS P]].
    + split; [reflexivity|]. destruct v; try discriminate. exists b. split; [reflexivity|].
      destruct (o_sensitive o) eqn:OS; [destruct b; [|discriminate]|]; inv H; auto.
    + apply protected_rule in P. destruct P as [P _]. congruence.
  - destruct v; discriminate.
Qed.

Lemma set_single_eff : forall o n v e, negb (q_modifiable n) = false -> set_single o n v = Ok e ->
  exists ta, sens_target n v = Some ta /\ eff_for o e ta.
Proof.
  intros o n v e M H. destruct (set_single_sens _ _ _ _ M H) as [-> [b [-> [->|[-> OS]]]]]; eexists; split;
    try reflexivity; constructor; auto.
Qed.

Lemma get_value_list : forall o n k, get_value o n = GList k ->
  exists f, mfield_of_name n = Some f /\ k = List.length (mget f o).
Proof.
  intros o n k. unfold get_value, of_opt.
  repeat match goal with
  | |- context [String.eqb n ?s] => destruct (String.eqb_spec n s); [subst n|]
  end; try discriminate;
  try (intro H; inv H; eexists; split; reflexivity);
  try (destruct (o_alg o); discriminate); try (destruct (o_len o); discriminate);
  try (destruct (o_certtype o); discriminate); try (destruct (o_mask o); discriminate);
  try (destruct (o_state o); discriminate).
Qed.

Lemma opt_eq_int_some : forall x c i, opt_eq_int x c = Ok (Some i) -> True.
Proof. trivial. Qed.

(* a current value is only ever searched in one of the three stored collections when the name is multi-valued *)
Lemma index_of_multi : forall o n c i, q_multivalued n = true -> index_of o n c = Ok (Some i) ->
  exists f, mfield_of_name n = Some f /\ first_index c (mget f o) = Some i.
Proof.
  intros o n c i M. unfold index_of.
  repeat match goal with
  | |- context [String.eqb n ?s] => destruct (String.eqb_spec n s); [subst n|]
  end; try (vm_compute in M; discriminate); try discriminate.
  - simpl. destruct c; try discriminate. intro H. injection H as H. exists FAsi. split; [reflexivity|exact H].
  - simpl. destruct c; try discriminate. intro H. injection H as H. exists FNames. split; [reflexivity|exact H].
  - simpl. destruct c; try discriminate. intro H. injection H as H. exists FGroups. split; [reflexivity|exact H].
Qed.

Lemma set_by_index_eff : forall o n v i e f, mfield_of_name n = Some f -> (i < List.length (mget f o))%nat ->
  set_by_index n v i = Ok e -> eff_for o e (TInstance f i, AReplace v).
Proof.
  intros o n v i e f F L H. unfold set_by_index in H. rewrite F in H.
  destruct f; destruct v; try discriminate; inv H; constructor; assumption.
Qed.

(* ------------------------------------------------------------------ the handlers *)
Lemma delete_from_idx : forall o n i e, delete_from o n (Some i) None = Ok e ->
  exists f, mfield_of_name n = Some f /\ 0 <= i /\ e = ERemove f (Z.to_nat i) /\ (Z.to_nat i < List.length (mget f o))%nat.
Proof.
  intros o n i e H. unfold delete_from in H. cbv zeta in H.
  repeat (bm; try discriminate). inv H. eexists. split; [reflexivity|].
  match goal with Hc : (_ && _) = true |- _ => apply andb_true_iff in Hc; destruct Hc as [A B] end.
  apply Z.leb_le in A. apply Z.ltb_lt in B.
  repeat split; auto. lia.
Qed.

(* deletion by current value: the first equal instance *)
Lemma delete_from_val : forall o n c e, delete_from o n None (Some c) = Ok e ->
  exists f i, mfield_of_name n = Some f /\ first_index c (mget f o) = Some i /\ e = ERemove f i.
Proof.
  intros o n c e H. unfold delete_from in H. cbv zeta in H.
  repeat (bm; try discriminate); inv H; eexists; eexists; repeat split; eauto.
Qed.

Lemma delete_from_all : forall o n e, delete_from o n None None = Ok e ->
  exists f, mfield_of_name n = Some f /\ e = EClear f.
Proof.
  intros o n e H. unfold delete_from in H. cbv zeta in H.
  repeat (bm; try discriminate); inv H; eexists; split; eauto.
Qed.

Lemma decide_delete_addr : forall v o p e, decide_delete v o p = Ok e ->
  exists ta, addressed v o (RDelete p) = Some ta /\ eff_for o e ta.
Proof.
  intros v o p e H. unfold decide_delete in H. cbv zeta in H. simpl. destruct (is_v2 v).
  - destruct (d_current p) as [[[n|] c]|].
    + apply delete_from_val in H. destruct H as [f [i [F [I ->]]]]. rewrite F, I. simpl.
      eexists; split; [reflexivity|]. constructor. eapply first_index_lt; eauto.
    + discriminate.
    + destruct (d_ref p) as [n|]; [|discriminate].
      apply delete_from_all in H. destruct H as [f [F ->]]. rewrite F. simpl. eexists; split; [reflexivity|]. constructor.
  - destruct (d_name p) as [n|]; [|discriminate].
    destruct (String.eqb n ""); [discriminate|].
    match type of H with (if ?c then _ else _) = _ => destruct c; [discriminate|] end.
    apply delete_from_idx in H. destruct H as [f [F [P [-> L]]]]. rewrite F.
    unfold idx_nat. destruct (d_index p) as [i|].
    + destruct (i <? 0) eqn:N; [apply Z.ltb_lt in N; lia|]. simpl. eexists; split; [reflexivity|]. now constructor.
    + simpl. eexists; split; [reflexivity|]. now constructor.
Qed.

Lemma decide_modify_addr : forall v o p e, decide_modify v o p = Ok e ->
  exists ta, addressed v o (RModify p) = Some ta /\ eff_for o e ta.
Proof.
  intros v o p e H. unfold decide_modify in H. cbv zeta in H. simpl. destruct (is_v2 v).
  - destruct (m_new p) as [[nn nv]|]; try discriminate.
    destruct (kind_mismatch (m_current p) nn); try discriminate.
    destruct nn as [n|]; try discriminate.
    destruct (negb (q_modifiable n)) eqn:M; try discriminate.
    destruct (q_multivalued n) eqn:MV.
    + destruct (cur_val p) as [c|]; [|discriminate].
      destruct (index_of o n c) as [[i|]|] eqn:IO; try discriminate.
      destruct (index_of_multi _ _ _ _ MV IO) as [f [F I]]. rewrite F, I. simpl.
      eexists; split; [reflexivity|]. eapply set_by_index_eff; eauto. eapply first_index_lt; eauto.
    + assert (S : set_single o n nv = Ok e).
      { destruct (cur_val p) as [c|].
        - destruct (index_of o n c) as [[i|]|]; try discriminate. assumption.
        - destruct (get_value o n); try discriminate; assumption. }
      destruct (set_single_sens _ _ _ _ M S) as [-> _]. rewrite sens_not_multi_field.
      eapply set_single_eff; eauto.
  - destruct (m_attr p) as [[[n idx] nv]|]; [|discriminate].
    destruct (negb (q_modifiable n)) eqn:M; try discriminate.
    destruct (q_multivalued n) eqn:MV.
    + destruct (get_value o n) as [|k|] eqn:G; try discriminate.
      destruct (get_value_list _ _ _ G) as [f [F ->]]. rewrite F.
      match type of H with (if ?c then _ else _) = _ => destruct c eqn:RG; [|discriminate] end.
      apply andb_true_iff in RG. destruct RG as [NEG LT]. apply Z.leb_le in NEG. apply Z.ltb_lt in LT.
      assert (IN : idx_nat idx = Some (Z.to_nat match idx with Some i => i | None => 0 end)).
      { unfold idx_nat. destruct idx as [i|]; [|reflexivity]. destruct (i <? 0) eqn:N; [apply Z.ltb_lt in N; lia|reflexivity]. }
      rewrite IN. simpl. eexists; split; [reflexivity|]. eapply set_by_index_eff; eauto. lia.
    + destruct idx; [discriminate|].
      match type of H with (if ?c then _ else _) = _ => destruct c; [discriminate|] end.
      destruct (set_single_sens _ _ _ _ M H) as [-> _]. rewrite sens_not_multi_field.
      eapply set_single_eff; eauto.
Qed.

Lemma decide_set_addr : forall v o p e, decide_set v o p = Ok e ->
  exists ta, addressed v o (RSet p) = Some ta /\ eff_for o e ta.
Proof.
  intros v o p e H. unfold decide_set in H. simpl.
  destruct p as [[[n|] nv]|]; try discriminate.
  destruct (q_multivalued n); try discriminate.
  destruct (negb (q_modifiable n)) eqn:M; try discriminate.
  destruct (negb (q_applicable n (o_type o))); try discriminate.
  eapply set_single_eff; eauto.
Qed.

Lemma decide_addr : forall v o r e, decide v o r = Ok e ->
  exists ta, addressed v o r = Some ta /\ meets ta o (apply_effect e o).
Proof.
  intros v o r e H.
  assert (X : exists ta, addressed v o r = Some ta /\ eff_for o e ta).
  { destruct r; simpl in H; eauto using decide_delete_addr, decide_modify_addr, decide_set_addr. }
  destruct X as [ta [A E]]. exists ta. split; [assumption|]. now apply eff_for_meets.
Qed.

(* ------------------------------------------------------------------ the store around the addressed object *)
Lemma replace_obj_only : forall u o o' s, find_obj u s = Some o -> only_object_changed u o o' s (replace_obj u o' s).
Proof.
  induction s as [|x t IH]; intro F; [discriminate|].
  unfold find_obj in F. simpl in F. simpl. destruct (o_uid x =? u) eqn:E.
  - inv F. exists O. simpl. repeat split; auto.
    + intros j Hj. destruct j; [congruence|reflexivity].
    + intros j x Hj. lia.
  - destruct (IH F) as [k [A [B [C [D G]]]]]. exists (S k). simpl. repeat split; auto.
    + intros j Hj. destruct j; [reflexivity|]. simpl. apply D. congruence.
    + intros j y Hj Hy. destruct j; simpl in Hy.
      * inv Hy. apply Z.eqb_neq in E. exact E.
      * apply (G j y); [lia|assumption].
Qed.

Theorem step_success_exact : forall v user s uid r,
  snd (step v user s uid r) = Success ->
  exists u o o' ta,
    uid = Some u /\ find_obj u s = Some o /\ allowed user o = true /\
    addressed v o r = Some ta /\ meets ta o o' /\
    only_object_changed u o o' s (fst (step v user s uid r)).
Proof.
  intros v user s uid r H. destruct (step_success_inv _ _ _ _ _ H) as [u [o [e [U [F [A [D S]]]]]]].
  destruct (decide_addr _ _ _ _ D) as [ta [AD M]].
  exists u, o, (apply_effect e o), ta. rewrite S. repeat split; auto. now apply replace_obj_only.
Qed.

(* ------------------------------------------------------------------ regression: the empty name text (finding C15-empty-name-delete, fixed) *)
Definition wit_key : obj :=
  mkObj 1 2 (Some 1) "alice" "default" (Some 12) (Some 3) (Some 128) 1600000000 None
        [VText "a"; VText "b"] [VText "g0"] [] false.
Definition wit_req : areq := RDelete (mkDel None None (Some (Some "Name", VText "")) None).

(* DeleteAttribute (2.0) by the current value Name "" - which the object does not have - is refused and changes nothing;
   when the object has such a name exactly that one goes *)
Lemma empty_name_delete_refused :
  step (2, 0) "alice" [wit_key] (Some 1) wit_req = ([wit_key], Failed RItemNotFound).
Proof. vm_compute; reflexivity. Qed.
Lemma empty_name_delete_exact :
  step (2, 0) "alice" [mset FNames [VText "a"; VText ""; VText "b"] wit_key] (Some 1) wit_req
  = ([mset FNames [VText "a"; VText "b"] wit_key], Success).
Proof. vm_compute; reflexivity. Qed.
