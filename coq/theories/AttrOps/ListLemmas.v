(* C15 - the list primitives of the model behave as Python lists do *)
From Coq Require Import ZArith List String Bool Lia Arith.
From PK Require Import AttrOps.Model.
Import ListNotations.

Lemma aval_eqb_eq : forall a b, aval_eqb a b = true <-> a = b.
Proof.
  intros a b; split.
  - destruct a, b; simpl; intro H; try discriminate.
    + apply String.eqb_eq in H; now subst.
    + apply andb_true_iff in H; destruct H as [Ha Hb]; apply String.eqb_eq in Ha; apply String.eqb_eq in Hb; now subst.
    + apply Bool.eqb_prop in H; now subst.
    + apply Z.eqb_eq in H; now subst.
  - intro; subst b; destruct a; simpl.
    + apply String.eqb_refl.
    + now rewrite !String.eqb_refl.
    + apply Bool.eqb_reflx.
    + apply Z.eqb_refl.
Qed.

Section Lists.
Context {A : Type}.

Lemma replace_nth_length : forall i (v : A) l, List.length (replace_nth i v l) = List.length l.
Proof. induction i; destruct l; simpl; auto. Qed.

Lemma replace_nth_same : forall i (v : A) l, (i < List.length l)%nat -> nth_error (replace_nth i v l) i = Some v.
Proof. induction i; destruct l; simpl; intros; try lia; auto. apply IHi. lia. Qed.

Lemma replace_nth_other : forall i j (v : A) l, j <> i -> nth_error (replace_nth i v l) j = nth_error l j.
Proof.
  induction i; destruct l; simpl; intros; auto.
  - destruct j; [congruence | reflexivity].
  - destruct j; simpl; auto.
Qed.

(* l.pop(i): positions below i keep their index, positions above shift down by one *)
Lemma remove_nth_spec : forall i (l : list A) j,
  nth_error (remove_nth i l) j = if (j <? i)%nat then nth_error l j else nth_error l (S j).
Proof.
  induction i; destruct l; simpl; intros.
  - destruct j; reflexivity.
  - destruct j; reflexivity.
  - destruct (j <? S i)%nat; destruct j; reflexivity.
  - destruct j; simpl.
    + reflexivity.
    + rewrite IHi. change (S j <? S i)%nat with (j <? i)%nat. reflexivity.
Qed.

Lemma remove_nth_length : forall i (l : list A), (i < List.length l)%nat -> S (List.length (remove_nth i l)) = List.length l.
Proof. induction i; destruct l; simpl; intros; try lia. rewrite IHi; lia. Qed.

Lemma remove_nth_0 : forall (l : list A), remove_nth 0 l = tl l.
Proof. destruct l; reflexivity. Qed.

(* deleting the first instance k times leaves the k-th suffix *)
Lemma iter_shift : forall k (f : list A -> list A) l, Nat.iter (S k) f l = Nat.iter k f (f l).
Proof. induction k; intros; [reflexivity|]. change (f (Nat.iter (S k) f l) = f (Nat.iter k f (f l))). now rewrite IHk. Qed.

Lemma iter_remove_front : forall k (l : list A), Nat.iter k (remove_nth 0) l = skipn k l.
Proof.
  induction k; intro l; [reflexivity|].
  rewrite iter_shift, IHk, remove_nth_0.
  destruct l; simpl; [apply skipn_nil | reflexivity].
Qed.
End Lists.

Lemma first_index_some : forall c l i, first_index c l = Some i ->
  nth_error l i = Some c /\ (forall j x, (j < i)%nat -> nth_error l j = Some x -> x <> c).
Proof.
  induction l as [|h t IH]; simpl; intros i H; [discriminate|].
  destruct (aval_eqb c h) eqn:E.
  - inversion H; subst. apply aval_eqb_eq in E. subst. split; [reflexivity | intros; lia].
  - destruct (first_index c t) eqn:F; [|discriminate]. inversion H; subst. destruct (IH n eq_refl) as [H1 H2].
    split; [exact H1|]. intros j x Hj Hx. destruct j; simpl in Hx.
    + inversion Hx; subst. intro. subst. rewrite (proj2 (aval_eqb_eq c c) eq_refl) in E. discriminate.
    + apply (H2 j x); [lia | exact Hx].
Qed.

Lemma first_index_lt : forall c l i, first_index c l = Some i -> (i < List.length l)%nat.
Proof.
  intros c l i H. apply first_index_some in H. destruct H as [H _].
  apply nth_error_Some. congruence.
Qed.

Lemma first_index_none : forall c l, first_index c l = None -> ~ In c l.
Proof.
  induction l as [|h t IH]; simpl; intros H; [tauto|].
  destruct (aval_eqb c h) eqn:E; [discriminate|].
  destruct (first_index c t); [discriminate|]. intros [K|K].
  - subst. rewrite (proj2 (aval_eqb_eq c c) eq_refl) in E. discriminate.
  - now apply IH.
Qed.
