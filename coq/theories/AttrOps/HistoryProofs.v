(* C15 - lifting the one-step theorems to all histories, and positional-index semantics *)
From Coq Require Import ZArith List String Bool Lia Arith.
From PKGen Require Import AttrRuleTable.
From PK Require Import AttrOps.Model AttrOps.ListLemmas AttrOps.Proofs AttrOps.Spec AttrOps.ExactProofs.
Import ListNotations.
Open Scope string_scope.
Open Scope Z_scope.

Lemma run_cons : forall s e h, run s (e :: h) = run (run_event s e) h.
Proof. reflexivity. Qed.

(* attribute operations are invisible at the protected projection: whatever invariant of the protected attributes the
   other operations of a history maintain, the whole history maintains *)
Theorem run_protected_invariant : forall (P : list _ -> Prop) h s,
  (forall f, In (EvOther f) h -> forall s0, P (map protected s0) -> P (map protected (f s0))) ->
  P (map protected s) -> P (map protected (run s h)).
Proof.
  intros P h. induction h as [|e h IH]; intros s HO HP; [exact HP|].
  rewrite run_cons. apply IH.
  - intros f Hf. apply HO. now right.
  - destruct e as [v user uid r|f]; simpl.
    + now rewrite step_protected.
    + apply HO; [now left | exact HP].
Qed.

Definition attr_only (h : list event) : Prop :=
  forall e, In e h -> exists v user uid r, e = EvAttr v user uid r.

Theorem run_protected : forall h s, attr_only h -> map protected (run s h) = map protected s.
Proof.
  intros h s A. apply (run_protected_invariant (fun l => l = map protected s)); [|reflexivity].
  intros f Hf. destruct (A _ Hf) as [v [user [uid [r E]]]]. discriminate.
Qed.

(* a history in which every attribute call fails leaves the store as it was *)
Fixpoint all_failed (s : store) (h : list event) : Prop :=
  match h with
  | [] => True
  | EvAttr v user uid r :: t => (exists e, snd (step v user s uid r) = Failed e) /\ all_failed (fst (step v user s uid r)) t
  | EvOther _ :: _ => False
  end.

Theorem run_failure_frame : forall h s, all_failed s h -> run s h = s.
Proof.
  induction h as [|e h IH]; intros s A; [reflexivity|].
  destruct e as [v user uid r|f]; simpl in A; [|contradiction].
  destruct A as [[e E] A]. rewrite run_cons. simpl.
  rewrite (step_failure_frame _ _ _ _ _ _ E) in *. now apply IH.
Qed.

(* objects no request addresses stay where and what they are *)
Lemma replace_obj_other : forall u o' s k x, nth_error s k = Some x -> o_uid x <> u ->
  nth_error (replace_obj u o' s) k = Some x.
Proof.
  induction s as [|y t IH]; intros k x H N; [destruct k; discriminate|].
  simpl. destruct (o_uid y =? u) eqn:E.
  - destruct k; simpl in *; [|assumption]. inv H. apply Z.eqb_eq in E. contradiction.
  - destruct k; simpl in *; [assumption|]. now apply IH.
Qed.

Lemma step_other_object : forall v user s uid r k x, nth_error s k = Some x -> uid <> Some (o_uid x) ->
  nth_error (fst (step v user s uid r)) k = Some x.
Proof.
  intros v user s uid r k x H N. unfold step.
  destruct (is_set r && negb (is_v2 v)); [assumption|].
  destruct uid as [u|]; [|assumption].
  destruct (find_obj u s) as [o|]; [|assumption].
  destruct (negb (allowed user o)); [assumption|].
  destruct (decide v o r); [|assumption].
  simpl. apply replace_obj_other; [assumption|]. congruence.
Qed.

Theorem run_untouched : forall h s k x, attr_only h ->
  (forall v user uid r, In (EvAttr v user uid r) h -> uid <> Some (o_uid x)) ->
  nth_error s k = Some x -> nth_error (run s h) k = Some x.
Proof.
  induction h as [|e h IH]; intros s k x A N H; [exact H|].
  rewrite run_cons. apply IH.
  - intros e' He'. apply A. now right.
  - intros v user uid r Hin. apply (N v user uid r). now right.
  - destruct (A e (or_introl eq_refl)) as [v [user [uid [r ->]]]]. simpl.
    apply step_other_object; [assumption|]. apply (N v user uid r). now left.
Qed.

(* ------------------------------------------------------------------ positional indices *)
Lemma find_replace_obj : forall u o' s o, find_obj u s = Some o -> o_uid o' = u -> find_obj u (replace_obj u o' s) = Some o'.
Proof.
  induction s as [|x t IH]; intros o F U; [discriminate|].
  unfold find_obj in *. simpl in *. destruct (o_uid x =? u) eqn:E.
  - simpl. rewrite U, Z.eqb_refl. reflexivity.
  - simpl. rewrite E. eapply IH; eauto.
Qed.

Lemma protected_uid : forall o o', protected o' = protected o -> o_uid o' = o_uid o.
Proof. unfold protected. intros o o' H. now inversion H. Qed.

(* a successful 1.x DeleteAttribute with index i: instances below i keep their index, instances above move down by one;
   a later request addressing index j therefore reaches what used to be at j (j < i) or j + 1 (j >= i) *)
Theorem index_semantics : forall v user s u o n idx,
  is_v2 v = false -> find_obj u s = Some o ->
  snd (step v user s (Some u) (RDelete (mkDel (Some n) idx None None))) = Success ->
  exists f i o', mfield_of_name n = Some f /\ idx_nat idx = Some i /\ (i < List.length (mget f o))%nat /\
    find_obj u (fst (step v user s (Some u) (RDelete (mkDel (Some n) idx None None)))) = Some o' /\
    (forall j, nth_error (mget f o') j = if (j <? i)%nat then nth_error (mget f o) j else nth_error (mget f o) (S j)) /\
    S (List.length (mget f o')) = List.length (mget f o).
Proof.
  intros v user s u o n idx V F H.
  destruct (step_success_inv _ _ _ _ _ H) as [u' [o0 [e [U [F' [A [D S]]]]]]].
  inv U. rewrite F in F'. inv F'.
  destruct (decide_addr _ _ _ _ D) as [ta [AD M]].
  simpl in AD. rewrite V in AD. simpl in AD.
  destruct (mfield_of_name n) as [f|] eqn:MF; [|discriminate].
  destruct (idx_nat idx) as [i|] eqn:IX; [|discriminate]. simpl in AD. inv AD.
  simpl in M. destruct M as [L [SH [LEN R]]].
  exists f, i, (apply_effect e o0). repeat split; auto.
  rewrite S. eapply find_replace_obj; eauto.
  destruct R as [P _]. rewrite (protected_uid _ _ P). eapply find_obj_uid; eauto.
Qed.

(* the same for the value-addressed 2.0 forms: the first instance equal to the current value is the one removed *)
Theorem current_value_semantics : forall v user s u o n c,
  is_v2 v = true -> find_obj u s = Some o ->
  snd (step v user s (Some u) (RDelete (mkDel None None (Some (Some n, c)) None))) = Success ->
  exists f i o', mfield_of_name n = Some f /\ first_index c (mget f o) = Some i /\
    nth_error (mget f o) i = Some c /\ (forall j x, (j < i)%nat -> nth_error (mget f o) j = Some x -> x <> c) /\
    find_obj u (fst (step v user s (Some u) (RDelete (mkDel None None (Some (Some n, c)) None)))) = Some o' /\
    (forall j, nth_error (mget f o') j = if (j <? i)%nat then nth_error (mget f o) j else nth_error (mget f o) (S j)).
Proof.
  intros v user s u o n c V F H.
  destruct (step_success_inv _ _ _ _ _ H) as [u' [o0 [e [U [F' [A [D S]]]]]]].
  inv U. rewrite F in F'. inv F'.
  destruct (decide_addr _ _ _ _ D) as [ta [AD M]].
  simpl in AD. rewrite V in AD. simpl in AD.
  destruct (mfield_of_name n) as [f|] eqn:MF; [|discriminate].
  destruct (first_index c (mget f o0)) as [i|] eqn:FI; [|discriminate]. simpl in AD. inv AD.
  simpl in M. destruct M as [L [SH [LEN R]]].
  destruct (first_index_some _ _ _ FI) as [N1 N2].
  exists f, i, (apply_effect e o0). repeat split; auto.
  rewrite S. eapply find_replace_obj; eauto.
  destruct R as [P _]. rewrite (protected_uid _ _ P). eapply find_obj_uid; eauto.
Qed.

(* after the repairs of /repo a name can be deleted by its current value - any text, the empty one included *)
Theorem name_deleted_by_current_value : forall v user s u o t,
  is_v2 v = true -> find_obj u s = Some o ->
  snd (step v user s (Some u) (RDelete (mkDel None None (Some (Some "Name", VText t)) None))) = Success ->
  exists i o', first_index (VText t) (o_names o) = Some i /\ nth_error (o_names o) i = Some (VText t) /\
    (forall j x, (j < i)%nat -> nth_error (o_names o) j = Some x -> x <> VText t) /\
    find_obj u (fst (step v user s (Some u) (RDelete (mkDel None None (Some (Some "Name", VText t)) None)))) = Some o' /\
    (forall j, nth_error (o_names o') j = if (j <? i)%nat then nth_error (o_names o) j else nth_error (o_names o) (S j)) /\
    o_groups o' = o_groups o /\ o_asi o' = o_asi o /\ o_sensitive o' = o_sensitive o /\ protected o' = protected o.
Proof.
  intros v user s u o t V F H.
  destruct (step_success_inv _ _ _ _ _ H) as [u' [o0 [e [U [F' [A [D S]]]]]]].
  inv U. rewrite F in F'. inv F'.
  destruct (decide_addr _ _ _ _ D) as [ta [AD M]].
  simpl in AD. rewrite V in AD. simpl in AD.
  destruct (first_index (VText t) (o_names o0)) as [i|] eqn:FI; [|discriminate]. simpl in AD. inv AD.
  simpl in M. destruct M as [L [SH [LEN [P [_ [G SE]]]]]].
  destruct (first_index_some _ _ _ FI) as [N1 N2].
  exists i, (apply_effect e o0). repeat split; auto.
  - rewrite S. eapply find_replace_obj; eauto. rewrite (protected_uid _ _ P). eapply find_obj_uid; eauto.
  - apply (G FGroups). discriminate.
  - apply (G FAsi). discriminate.
  - apply SE. discriminate.
Qed.
