(* C15 - what the property demands of a successful call, stated independently of the handlers:
   which instance a request addresses (by index in KMIP 1.x, by current value in KMIP 2.0) and what
   "exactly that instance, exactly the requested value, nothing else" means for the object. *)
From Coq Require Import ZArith List String Bool.
From PK Require Import AttrOps.Model.
Import ListNotations.
Open Scope string_scope.
Open Scope Z_scope.

Inductive target :=
| TInstance (f : mfield) (i : nat)     (* one instance of a multi-valued attribute *)
| TAll (f : mfield)                    (* every instance (2.0 attribute reference) *)
| TSensitive.                          (* the single-valued Sensitive attribute *)
Inductive action := AReplace (v : aval) | ARemove.

(* attribute index of a 1.x request: absent means 0; a negative index addresses nothing *)
Definition idx_nat (idx : option Z) : option nat :=
  match idx with
  | None => Some O
  | Some i => if i <? 0 then None else Some (Z.to_nat i)
  end.

Definition sens_target (n : string) (nv : aval) : option (target * action) :=
  if String.eqb n "Sensitive" then Some (TSensitive, AReplace nv) else None.

Definition addressed (v : version) (o : obj) (r : areq) : option (target * action) :=
  match r with
  | RModify p =>
    if is_v2 v then
      match m_new p with
      | Some (Some n, nv) =>
        match mfield_of_name n with
        | Some f =>
          match cur_val p with
          | Some c => option_map (fun i => (TInstance f i, AReplace nv)) (first_index c (mget f o))
          | None => None
          end
        | None => sens_target n nv
        end
      | _ => None
      end
    else
      match m_attr p with
      | Some (n, idx, nv) =>
        match mfield_of_name n with
        | Some f => option_map (fun i => (TInstance f i, AReplace nv)) (idx_nat idx)
        | None => sens_target n nv
        end
      | None => None
      end
  | RDelete p =>
    if is_v2 v then
      match d_current p with
      | Some (Some n, c) =>
        match mfield_of_name n with
        | Some f => option_map (fun i => (TInstance f i, ARemove)) (first_index c (mget f o))
        | None => None
        end
      | Some (None, _) => None
      | None =>
        match d_ref p with
        | Some n => option_map (fun f => (TAll f, ARemove)) (mfield_of_name n)
        | None => None
        end
      end
    else
      match d_name p with
      | Some n =>
        match mfield_of_name n with
        | Some f => option_map (fun i => (TInstance f i, ARemove)) (idx_nat (d_index p))
        | None => None
        end
      | None => None
      end
  | RSet p =>
    match p with
    | Some (Some n, nv) => sens_target n nv
    | _ => None
    end
  end.

(* everything of the object outside the addressed attribute *)
Definition rest_equal (f : option mfield) (o o' : obj) : Prop :=
  protected o' = protected o /\ o_certtype o' = o_certtype o /\
  (forall g, Some g <> f -> mget g o' = mget g o) /\
  (f <> None -> o_sensitive o' = o_sensitive o).

Definition meets (ta : target * action) (o o' : obj) : Prop :=
  match ta with
  | (TInstance f i, AReplace v) =>
    (i < List.length (mget f o))%nat /\ nth_error (mget f o') i = Some v /\
    List.length (mget f o') = List.length (mget f o) /\
    (forall j, j <> i -> nth_error (mget f o') j = nth_error (mget f o) j) /\ rest_equal (Some f) o o'
  | (TInstance f i, ARemove) =>
    (i < List.length (mget f o))%nat /\
    (forall j, nth_error (mget f o') j = if (j <? i)%nat then nth_error (mget f o) j else nth_error (mget f o) (S j)) /\
    S (List.length (mget f o')) = List.length (mget f o) /\ rest_equal (Some f) o o'
  | (TAll f, ARemove) => mget f o' = [] /\ rest_equal (Some f) o o'
  | (TSensitive, AReplace (VBool b)) => o_sensitive o' = b /\ rest_equal None o o'
  | _ => False
  end.

(* the store around the addressed object *)
Definition only_object_changed (u : Z) (o o' : obj) (s s' : store) : Prop :=
  exists k, nth_error s k = Some o /\ nth_error s' k = Some o' /\ List.length s' = List.length s /\
            (forall j, j <> k -> nth_error s' j = nth_error s j) /\
            (forall j x, (j < k)%nat -> nth_error s j = Some x -> o_uid x <> u).
