(* C15 - the one-step theorems lifted to batches whose attribute operations may be addressed through the ID placeholder *)
From Coq Require Import ZArith List String Bool Lia Arith.
From PKGen Require Import AttrRuleTable.
From PK Require Import AttrOps.Model AttrOps.ListLemmas AttrOps.Proofs AttrOps.Spec AttrOps.ExactProofs.
Import ListNotations.
Open Scope string_scope.
Open Scope Z_scope.
Open Scope list_scope.

Definition e_pre (e : entry) : bstate := fst (fst (fst e)).
Definition e_item (e : entry) : item := snd (fst (fst e)).
Definition e_post (e : entry) : bstate := snd (fst e).
Definition e_res (e : entry) : iresult := snd e.

(* every trace entry is a step of its item *)
Lemma trace_entry_step : forall v user cont b st e, In e (trace v user cont st b) ->
  step_item v user (e_pre e) (e_item e) = (e_post e, e_res e).
Proof.
  induction b as [|it t IH]; intros st e H; [contradiction|].
  simpl in H. destruct H as [<-|H].
  - unfold e_pre, e_item, e_post, e_res. simpl. now destruct (step_item v user st it).
  - destruct (negb cont && failed_result (snd (step_item v user st it))); [contradiction|]. eapply IH; eauto.
Qed.

(* the placeholder: written by creating items only; before any executed item it names the object issued by the last
   creating item in front of it (None when there is none: it starts as None in every request) *)
Lemma step_item_placeholder : forall v user st it, snd (fst (step_item v user st it)) = ph_update (snd st) it.
Proof. intros v user [s ph] [uid r|news u|f|]; reflexivity. Qed.

Theorem trace_placeholder : forall v user cont b st e, In e (trace v user cont st b) ->
  exists pre post, b = pre ++ e_item e :: post /\ snd (e_pre e) = last_created (snd st) pre /\
                   snd (e_post e) = ph_update (snd (e_pre e)) (e_item e).
Proof.
  induction b as [|it t IH]; intros st e H; [contradiction|].
  simpl in H. destruct H as [<-|H].
  - exists [], t. unfold e_pre, e_item, e_post. simpl. repeat split. apply step_item_placeholder.
  - destruct (negb cont && failed_result (snd (step_item v user st it))); [contradiction|].
    destruct (IH _ _ H) as [pre [post [B [P Q]]]]. exists (it :: pre), post. repeat split.
    + simpl. now rewrite B.
    + rewrite P. unfold last_created. simpl. now rewrite step_item_placeholder.
    + exact Q.
Qed.

(* an executed attribute item *)
Lemma attr_entry : forall v user cont b st e uid r, In e (trace v user cont st b) -> e_item e = IAttr uid r ->
  e_post e = (fst (step v user (fst (e_pre e)) (resolve uid (snd (e_pre e))) r), snd (e_pre e)) /\
  e_res e = RAttr (snd (step v user (fst (e_pre e)) (resolve uid (snd (e_pre e))) r)).
Proof.
  intros v user cont b st e uid r H I. pose proof (trace_entry_step _ _ _ _ _ _ H) as S. rewrite I in S.
  simpl in S. inversion S. split; reflexivity.
Qed.

Theorem batch_protected_never_change : forall v user cont b st e uid r,
  In e (trace v user cont st b) -> e_item e = IAttr uid r ->
  map protected (fst (e_post e)) = map protected (fst (e_pre e)) /\ snd (e_post e) = snd (e_pre e).
Proof.
  intros v user cont b st e uid r H I. destruct (attr_entry _ _ _ _ _ _ _ _ H I) as [P _]. rewrite P. simpl.
  split; [apply step_protected | reflexivity].
Qed.

Theorem batch_failure_frame : forall v user cont b st e uid r x,
  In e (trace v user cont st b) -> e_item e = IAttr uid r -> e_res e = RAttr (Failed x) -> e_post e = e_pre e.
Proof.
  intros v user cont b st e uid r x H I R. destruct (attr_entry _ _ _ _ _ _ _ _ H I) as [P Q]. rewrite Q in R. inversion R as [R'].
  rewrite P. rewrite (step_failure_frame _ _ _ _ _ _ R'). now destruct (e_pre e).
Qed.

(* the addressed object is the one named by the explicit identifier or else by the placeholder, i.e. the object issued by
   the last creating item in front of this one *)
Theorem batch_success_exact : forall v user cont b st e uid r,
  In e (trace v user cont st b) -> e_item e = IAttr uid r -> e_res e = RAttr Success ->
  exists pre post u o o' ta,
    b = pre ++ IAttr uid r :: post /\
    resolve uid (last_created (snd st) pre) = Some u /\
    find_obj u (fst (e_pre e)) = Some o /\ allowed user o = true /\
    addressed v o r = Some ta /\ meets ta o o' /\
    only_object_changed u o o' (fst (e_pre e)) (fst (e_post e)) /\ snd (e_post e) = snd (e_pre e).
Proof.
  intros v user cont b st e uid r H I R. destruct (attr_entry _ _ _ _ _ _ _ _ H I) as [P Q].
  rewrite Q in R. inversion R as [R'].
  destruct (trace_placeholder _ _ _ _ _ _ H) as [pre [post [B [PH _]]]]. rewrite I in B.
  destruct (step_success_exact _ _ _ _ _ R') as [u [o [o' [ta [U [F [A [AD [M O]]]]]]]]].
  exists pre, post, u, o, o', ta. rewrite <- PH. rewrite P. simpl. repeat split; auto.
Qed.

(* other items never see their placeholder-independence broken: a batch without creating items leaves it None *)
Corollary no_creating_item_no_placeholder : forall v user cont b s e r,
  In e (trace v user cont (s, None) b) -> e_item e = IAttr None r ->
  (forall news u, ~ In (ICreating news u) b) -> e_res e = RAttr (Failed RItemNotFound) \/ e_res e = RAttr (Failed ROpNotSupported).
Proof.
  intros v user cont b s e r H I N. destruct (attr_entry _ _ _ _ _ _ _ _ H I) as [_ Q].
  destruct (trace_placeholder _ _ _ _ _ _ H) as [pre [post [B [PH _]]]].
  assert (L : last_created None pre = None).
  { assert (NP : forall news u, ~ In (ICreating news u) pre) by (intros news u X; apply (N news u); rewrite B; apply in_or_app; now left).
    clear -NP. induction pre as [|it t IH] using rev_ind; [reflexivity|].
    unfold last_created. rewrite fold_left_app. simpl. fold (last_created None t).
    rewrite IH; [|intros news u X; apply (NP news u); apply in_or_app; now left].
    destruct it; try reflexivity. exfalso. apply (NP news u). apply in_or_app. right. now left. }
  simpl in PH. rewrite L in PH. rewrite Q, PH. simpl. unfold step.
  destruct (is_set r && negb (is_v2 v)); auto.
Qed.
