(* C15 - comparator for the differential correspondence (tie K): Coq replays an observed history on the
   model and compares, step by step, outcome and the GetAttributes(all) projection of every object. *)
From Coq Require Import ZArith List String Bool.
From PKGen Require Import AttrRuleTable.
From PK Require Import AttrOps.Model.
Import ListNotations.
Open Scope string_scope.
Open Scope Z_scope.

Definition opt_eqb {A} (eqb : A -> A -> bool) (a b : option A) : bool :=
  match a, b with Some x, Some y => eqb x y | None, None => true | _, _ => false end.
Fixpoint list_eqb {A} (eqb : A -> A -> bool) (a b : list A) : bool :=
  match a, b with
  | [], [] => true
  | x :: a', y :: b' => eqb x y && list_eqb eqb a' b'
  | _, _ => false
  end.

Definition obj_eqb (a b : obj) : bool :=
  (o_uid a =? o_uid b) && (o_type a =? o_type b) && opt_eqb Z.eqb (o_state a) (o_state b)
  && String.eqb (o_owner a) (o_owner b) && String.eqb (o_policy a) (o_policy b)
  && opt_eqb Z.eqb (o_mask a) (o_mask b) && opt_eqb Z.eqb (o_alg a) (o_alg b) && opt_eqb Z.eqb (o_len a) (o_len b)
  && (o_init a =? o_init b) && opt_eqb Z.eqb (o_certtype a) (o_certtype b)
  && list_eqb aval_eqb (o_names a) (o_names b) && list_eqb aval_eqb (o_groups a) (o_groups b)
  && list_eqb aval_eqb (o_asi a) (o_asi b) && Bool.eqb (o_sensitive a) (o_sensitive b).
Definition store_eqb := list_eqb obj_eqb.

Definition reason_name (r : reason) : string :=
  match r with
  | RItemNotFound => "ITEM_NOT_FOUND" | RPermissionDenied => "PERMISSION_DENIED" | RInvalidField => "INVALID_FIELD"
  | RInvalidMessage => "INVALID_MESSAGE" | ROpNotSupported => "OPERATION_NOT_SUPPORTED"
  | RMultiValued => "MULTI_VALUED_ATTRIBUTE" | RReadOnly => "READ_ONLY_ATTRIBUTE"
  | RAttrInstanceNotFound => "ATTRIBUTE_INSTANCE_NOT_FOUND" | RAttrNotFound => "ATTRIBUTE_NOT_FOUND"
  | RCrash => "GENERAL_FAILURE"
  end.

(* observed outcome: "" = SUCCESS, otherwise the ResultReason name.  A modelled crash matches any failure. *)
Definition outcome_matches (m : outcome) (obs : string) : bool :=
  match m with
  | Success => String.eqb obs ""
  | Failed RCrash => negb (String.eqb obs "")
  | Failed r => String.eqb obs (reason_name r)
  end.

Definition view_eqb (a b : list (string * nat)) : bool :=
  list_eqb (fun p q => String.eqb (fst p) (fst q) && Nat.eqb (snd p) (snd q)) a b.

(* observed GetAttributes(all) listings of every object under KMIP 1.4: (name, instances) in response order *)
Fixpoint views_ok (s : store) (vs : list (list (string * nat))) : bool :=
  match s, vs with
  | [], [] => true
  | o :: s', v :: vs' => view_eqb (view (1, 4) o) v && views_ok s' vs'
  | _, _ => false
  end.

Inductive kstep :=
| KAttr (v : version) (user : string) (uid : option Z) (r : areq) (obs : string) (post : store)
        (views : list (list (string * nat)))
| KAttrSame (v : version) (user : string) (uid : option Z) (r : areq) (obs : string)
    (* the observed database is byte-identical before and after: the observation equals the previous one, which the
       replay has already shown equal to the model state *)
| KOther (post : store).

Fixpoint replay (s : store) (h : list kstep) : bool :=
  match h with
  | [] => true
  | KOther post :: t => replay post t
  | KAttr v user uid r obs post views :: t =>
    let (s', out) := step v user s uid r in
    outcome_matches out obs && store_eqb s' post && views_ok s' views && replay s' t
  | KAttrSame v user uid r obs :: t =>
    let (s', out) := step v user s uid r in
    outcome_matches out obs && store_eqb s' s && replay s' t
  end.

Definition kcase := (store * list kstep)%type.
Definition check_case (c : kcase) : bool := replay (fst c) (snd c).

(* index of the first step at which the replay fails (for diagnostics) *)
Fixpoint first_bad (s : store) (h : list kstep) (k : nat) : option nat :=
  match h with
  | [] => None
  | KOther post :: t => first_bad post t (S k)
  | KAttr v user uid r obs post views :: t =>
    let (s', out) := step v user s uid r in
    if outcome_matches out obs && store_eqb s' post && views_ok s' views then first_bad s' t (S k) else Some k
  | KAttrSame v user uid r obs :: t =>
    let (s', out) := step v user s uid r in
    if outcome_matches out obs && store_eqb s' s then first_bad s' t (S k) else Some k
  end.
Definition model_step_out (c : kcase) (k : nat) : option (store * outcome) :=
  (fix go (s : store) (h : list kstep) (k : nat) :=
     match h with
     | [] => None
     | KOther post :: t => match k with O => None | S k' => go post t k' end
     | KAttr v user uid r obs post views :: t =>
       match k with O => Some (step v user s uid r) | S k' => go (fst (step v user s uid r)) t k' end
     | KAttrSame v user uid r obs :: t =>
       match k with O => Some (step v user s uid r) | S k' => go (fst (step v user s uid r)) t k' end
     end) (fst c) (snd c) k.

(* ------------------------------------------------------------------ batches addressed through the ID placeholder *)
(* observed batch: creating items and other items are given by the store observed after them (twin engine runs), the
   attribute item by its request and observed outcome; Coq replays the batch on the model from placeholder None *)
Inductive kitem :=
| KICreate (after : store) (u : Z)
| KIOther (after : store)
| KIAttr (uid : option Z) (r : areq) (obs : string).
Record pcase := mkP { p_ver : version; p_user : string; p_cont : bool; p_store : store; p_items : list kitem; p_final : store }.

Fixpoint preplay (v : version) (user : string) (cont : bool) (st : bstate) (b : list kitem) : option bstate :=
  match b with
  | [] => Some st
  | KICreate after u :: t =>
    let n := List.length (fst st) in
    if store_eqb (firstn n after) (fst st)
    then preplay v user cont (fst (step_item v user st (ICreating (skipn n after) u))) t
    else None
  | KIOther after :: t => preplay v user cont (fst (step_item v user st (IOther (fun _ => after)))) t
  | KIAttr uid r obs :: t =>
    let so := step_item v user st (IAttr uid r) in
    match snd so with
    | RAttr out =>
      if outcome_matches out obs
      then (if negb cont && failed_result (snd so) then Some (fst so) else preplay v user cont (fst so) t)
      else None
    | _ => None
    end
  end.

Definition check_pcase (c : pcase) : bool :=
  match preplay (p_ver c) (p_user c) (p_cont c) (p_store c, None) (p_items c) with
  | Some st => store_eqb (fst st) (p_final c)
  | None => false
  end.
