(* C15 - "which GetAttributes then reflects": the number of instances GetAttributes reports for the client-changeable
   attributes is the length of the stored collection, so the exact change of a successful call is what a client sees *)
From Coq Require Import ZArith List String Bool Lia Arith.
From PKGen Require Import AttrRuleTable.
From PK Require Import AttrOps.Model AttrOps.ListLemmas AttrOps.Proofs AttrOps.Spec AttrOps.ExactProofs.
Import ListNotations.
Open Scope string_scope.
Open Scope Z_scope.

Definition stored_type (t : Z) : bool := existsb (Z.eqb t) [1; 2; 3; 4; 5; 7; 8].

Lemma stored_type_cases : forall t, stored_type t = true -> t = 1 \/ t = 2 \/ t = 3 \/ t = 4 \/ t = 5 \/ t = 7 \/ t = 8.
Proof.
  intros t H. unfold stored_type in H. simpl in H.
  repeat (apply orb_true_iff in H; destruct H as [H|H]; [apply Z.eqb_eq in H; subst; tauto|]). discriminate.
Qed.

Lemma reported_count_multi : forall v o n f,
  ver_ge v (1, 0) = true -> stored_type (o_type o) = true -> mfield_of_name n = Some f ->
  existing_count v o n = List.length (mget f o).
Proof.
  intros v o n f V T F. apply stored_type_cases in T.
  apply mfield_of_name_inv in F. unfold existing_count.
  destruct F as [[-> ->]|[[-> ->]|[-> ->]]];
  (match goal with |- context [find_rule ?s] => destruct (find_rule s) as [r|] eqn:R; vm_compute in R; [injection R as <-|discriminate] end);
  cbn [ar_version_added ar_version_deprecated ar_object_types ar_multivalued q_deprecated]; rewrite V; cbn [negb];
  destruct T as [->|[->|[->|[->|[->|[->| ->]]]]]]; reflexivity.
Qed.

Lemma reported_count_sensitive : forall v o,
  ver_ge v (1, 4) = true -> stored_type (o_type o) = true -> existing_count v o "Sensitive" = 1%nat.
Proof.
  intros v o V T. apply stored_type_cases in T. unfold existing_count.
  destruct (find_rule "Sensitive") as [r|] eqn:R; vm_compute in R; [injection R as <-|discriminate].
  cbn [ar_version_added ar_version_deprecated ar_object_types ar_multivalued q_deprecated]. rewrite V. cbn [negb].
  destruct T as [->|[->|[->|[->|[->|[->| ->]]]]]]; reflexivity.
Qed.

(* after a successful call GetAttributes reports one instance fewer / the same number / none, as the request demands *)
Theorem getattributes_reflects : forall v v' user s uid r,
  ver_ge v' (1, 0) = true ->
  snd (step v user s uid r) = Success ->
  exists u o o' ta, uid = Some u /\ find_obj u s = Some o /\ addressed v o r = Some ta /\ meets ta o o' /\
    (stored_type (o_type o) = true ->
     match ta with
     | (TInstance f i, AReplace x) =>
       forall n, mfield_of_name n = Some f ->
         existing_count v' o' n = existing_count v' o n /\ nth_error (mget f o') i = Some x
     | (TInstance f i, ARemove) =>
       forall n, mfield_of_name n = Some f -> S (existing_count v' o' n) = existing_count v' o n
     | (TAll f, _) => forall n, mfield_of_name n = Some f -> existing_count v' o' n = O
     | (TSensitive, _) => True
     end).
Proof.
  intros v v' user s uid r V H.
  destruct (step_success_exact _ _ _ _ _ H) as [u [o [o' [ta [U [F [A [AD [M _]]]]]]]]].
  exists u, o, o', ta. repeat split; auto. intro T.
  assert (T' : forall f i a, meets (TInstance f i, a) o o' \/ meets (TAll f, a) o o' -> stored_type (o_type o') = true).
  { intros f i a [X|X]; destruct a; simpl in X; try contradiction.
    - destruct X as [_ [_ [_ [_ [P _]]]]]. unfold protected in P. inversion P. congruence.
    - destruct X as [_ [_ [_ [P _]]]]. unfold protected in P. inversion P. congruence.
    - destruct X as [_ [P _]]. unfold protected in P. inversion P. congruence. }
  destruct ta as [[f i|f|] [x|]]; simpl in M; try contradiction; auto.
  - intros n N. pose proof (T' f i (AReplace x) (or_introl M)) as T2. destruct M as [L [NE [LEN _]]].
    rewrite (reported_count_multi v' o' n f V T2 N), (reported_count_multi v' o n f V T N). auto.
  - intros n N. pose proof (T' f i ARemove (or_introl M)) as T2. destruct M as [L [SH [LEN _]]].
    rewrite (reported_count_multi v' o' n f V T2 N), (reported_count_multi v' o n f V T N). exact LEN.
  - intros n N. pose proof (T' f O ARemove (or_intror M)) as T2. destruct M as [E _].
    rewrite (reported_count_multi v' o' n f V T2 N), E. reflexivity.
Qed.
