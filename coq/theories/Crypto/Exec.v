(* Executing a symmetric plan over ABSTRACT primitives (Section variables).
   E / Dp stand for the `cryptography` cipher contexts (OpenSSL); their laws are
   Section hypotheses in PlanProofs.v - they are assumed, not proved. *)
From PK Require Import Base.Bytes Crypto.Padding Crypto.Plan.
From PKGen Require Import CryptoTables.

Inductive run_res (A : Type) := RErr (e : kerr) | RCrash | ROk (a : A).
Arguments RErr {A} e.
Arguments RCrash {A}.
Arguments ROk {A} a.

Record enc_out := mkOut { eo_ct : bytes; eo_iv : option bytes; eo_tag : option bytes }.

Section Exec.
  (* encryptor: algorithm, key, mode (-1 none), iv, aad, data -> (ciphertext, full tag) *)
  Variable E : Z -> bytes -> Z -> option bytes -> option bytes -> bytes -> bytes * bytes.
  (* decryptor: algorithm, key, mode, iv, aad, tag, ciphertext -> Some plaintext | None (the library raises) *)
  Variable Dp : Z -> bytes -> Z -> option bytes -> option bytes -> option bytes -> bytes -> option bytes.
  Variable urandom : Z -> bytes.

  Definition iv_bytes (s : iv_src) : bytes := match s with IVGiven v => v | IVFresh n => urandom n end.
  Definition mode_iv (m : mode_plan) : option bytes :=
    match m with MNone | MPlain _ => None | MIV _ s | MGCM s _ _ => Some (iv_bytes s) end.
  Definition iv_returned (m : mode_plan) : option bytes :=
    match m with
    | MIV _ (IVFresh n) | MGCM (IVFresh n) _ _ => Some (urandom n)
    | _ => None
    end.
  Definition mode_tag (m : mode_plan) : option bytes := match m with MGCM _ t _ => t | _ => None end.

  Definition run_sym_encrypt (sp : sym_plan) (msg : bytes) : run_res enc_out :=
    match lib_sym_stage false sp (zlen msg) with
    | LErr e => RErr e
    | LCrash => RCrash
    | LOk =>
      let data := match p_pad sp with PScheme s => pad s (p_block sp) msg | _ => msg end in
      let r := E (p_alg sp) (p_key sp) (mode_val (p_mode sp)) (mode_iv (p_mode sp)) (p_aad sp) data in
      ROk (mkOut (fst r) (iv_returned (p_mode sp))
                 (match p_mode sp with MGCM _ _ mt => Some (firstn (Z.to_nat mt) (snd r)) | _ => None end))
    end.

  Definition run_sym_decrypt (sp : sym_plan) (ct : bytes) : run_res bytes :=
    match lib_sym_stage true sp (zlen ct) with
    | LErr e => RErr e
    | LCrash => RCrash
    | LOk =>
      match Dp (p_alg sp) (p_key sp) (mode_val (p_mode sp)) (mode_iv (p_mode sp)) (p_aad sp) (mode_tag (p_mode sp)) ct with
      | None => RErr CryptographicFailure     (* InvalidTag: 'The decryption process failed' *)
      | Some d =>
        match p_pad sp with
        | PInvalid => RErr InvalidField
        | PNone => ROk d
        | PScheme s => match unpad s (p_block sp) d with
                       | Some m => ROk m
                       | None => RErr CryptographicFailure   (* 'The padding could not be removed' *)
                       end
        end
      end
    end.

  (* _encrypt_symmetric / _decrypt_symmetric end to end *)
  Definition do_encrypt (a : Z) (key : bytes) (mode pad : option Z) (iv aad : option bytes) (taglen : option Z)
             (msg : bytes) : run_res enc_out :=
    match sym_plan_of false a key mode pad iv aad taglen None with
    | Err e => RErr e
    | Ok sp => run_sym_encrypt sp msg
    end.

  Definition do_decrypt (a : Z) (key : bytes) (mode pad : option Z) (iv aad : option bytes) (tag : option bytes)
             (ct : bytes) : run_res bytes :=
    match sym_plan_of true a key mode pad iv aad None tag with
    | Err e => RErr e
    | Ok sp => run_sym_decrypt sp ct
    end.
  (* ---- RSA (fix 2eb33d4): public_key.encrypt / private_key.decrypt / key.sign run inside try/except Exception;
     None = the backend refuses (message too long for key and padding, cipher text of the wrong length or that does
     not decrypt, key too small for the padding) -> CryptographicFailure *)
  Variable RE : bytes -> asym_pad -> bytes -> option bytes.
  Variable RD : bytes -> asym_pad -> bytes -> option bytes.
  Variable RS : sig_plan -> bytes -> option bytes.

  (* encrypt() / decrypt() / sign() end to end, symmetric and asymmetric *)
  Definition do_encrypt_any (p : enc_params) (msg : bytes) : run_res enc_out :=
    match encrypt_plan p with
    | Err e => RErr e
    | Ok (CSym sp) => run_sym_encrypt sp msg
    | Ok (CAsym key ap) =>
        match RE key ap msg with Some ct => ROk (mkOut ct None None) | None => RErr CryptographicFailure end
    end.

  Definition do_decrypt_any (p : enc_params) (ct : bytes) : run_res bytes :=
    match decrypt_plan p with
    | Err e => RErr e
    | Ok (CSym sp) => run_sym_decrypt sp ct
    | Ok (CAsym key ap) =>
        match RD key ap ct with Some m => ROk m | None => RErr CryptographicFailure end
    end.

  Definition do_sign (p : sig_params) (msg : bytes) : run_res bytes :=
    match sign_plan p with
    | Err e => RErr e
    | Ok sp => match RS sp msg with Some sg => ROk sg | None => RErr CryptographicFailure end
    end.
End Exec.
