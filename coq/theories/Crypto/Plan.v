(* C06 - the parameter plumbing of kmip/services/server/crypto/engine.py (CryptographyEngine).

   Every operation maps its parameters to
     Err e      a KMIP error class raised by the engine's own guards, or
     Ok plan    the primitive call the engine hands to the `cryptography` library:
                which primitive, key, mode with IV `IVGiven x` or `IVFresh n`
                (n bytes of os.urandom), padding step, AAD, tag length, hash, ...
   in the guard order of the Python.  Whether the *library* then accepts the plan
   is the separate predicate `lib_*_ok` / `lib_sym_stage` (trusted library
   behaviour, probed into PKGen.CryptoTables and compared on every run).  Since the
   `fix:` commits f8d262f..fd6e5cc the engine converts the library's refusals into
   KMIP errors (mode construction -> InvalidField, cipher operations incl. InvalidTag
   and padding removal -> CryptographicFailure, KDF refusals -> InvalidField) and
   since 4ef300f RC4 named with CBC/ECB/GCM is InvalidField: no plan that
   `sym_plan_of` accepts reaches `lib_sym_stage = LCrash` any more (proved).  Definitions only; enum members are their KMIP numeric
   values (option Z, None = parameter absent). *)
From PK Require Import Base.Bytes Crypto.Padding.
From PKGen Require Import CryptoTables.

Inductive kerr := InvalidField | CryptographicFailure.
Inductive res (A : Type) := Err (e : kerr) | Ok (a : A).
Arguments Err {A} e.
Arguments Ok {A} a.

Fixpoint assoc {A} (k : Z) (l : list (Z * A)) : option A :=
  match l with
  | [] => None
  | (k', v) :: r => if k =? k' then Some v else assoc k r
  end.
Fixpoint assoc2 {A} (k1 k2 : Z) (l : list ((Z * Z) * A)) : option A :=
  match l with
  | [] => None
  | ((a, b), v) :: r => if (k1 =? a) && (k2 =? b) then Some v else assoc2 k1 k2 r
  end.
Definition memZ (k : Z) (l : list Z) : bool := existsb (Z.eqb k) l.
Definition is_some {A} (o : option A) : bool := match o with Some _ => true | None => false end.
Definition oeqZ (o : option Z) (v : Z) : bool := match o with Some x => x =? v | None => false end.
Definition olen (o : option bytes) : Z := match o with Some b => zlen b | None => 0 end.

(* ------------------------------------------------------------------ symmetric encrypt / decrypt *)

Inductive iv_src := IVGiven (iv : bytes) | IVFresh (n : Z).

Inductive mode_plan :=
| MNone                                   (* Cipher(alg, None)            - RC4 *)
| MPlain (m : Z)                          (* Cipher(alg, mode())          - ECB *)
| MIV (m : Z) (iv : iv_src)               (* Cipher(alg, mode(iv))        - CBC OFB CFB CTR *)
| MGCM (iv : iv_src) (tag : option bytes) (min_tag : Z).   (* GCM(iv, tag, min_tag_length) *)

(* padding step: before the cipher on encrypt, after it on decrypt.
   PInvalid only occurs in decrypt plans: the code decrypts first and raises
   InvalidField for a missing/unsupported padding method afterwards. *)
Inductive pad_step := PNone | PScheme (s : Z) | PInvalid.

Record sym_plan := mkSym {
  p_alg : Z;              (* CryptographicAlgorithm value of the cipher class *)
  p_key : bytes;
  p_mode : mode_plan;
  p_pad : pad_step;
  p_block : Z;            (* block size in bytes handed to the padder (0: the class has none) *)
  p_aad : option bytes;   (* authenticate_additional_data(aad) when Some *)
  p_gcm : bool            (* is_gcm_mode: the result carries encryptor.tag[:tag_length] *)
}.

Definition pad_step_of (mode pad : option Z) : pad_step :=
  if oeqZ mode BCM_CBC || oeqZ mode BCM_ECB then
    match pad with
    | None => PInvalid
    | Some p => match assoc p sym_paddings with Some s => PScheme s | None => PInvalid end
    end
  else PNone.

Definition is_invalid (s : pad_step) : bool := match s with PInvalid => true | _ => false end.

(* _encrypt_symmetric (dec = false) and _decrypt_symmetric (dec = true) *)
Definition sym_plan_of (dec : bool) (a : Z) (key : bytes) (mode pad : option Z)
           (iv aad : option bytes) (taglen : option Z) (tag : option bytes) : res sym_plan :=
  match assoc a sym_algs with
  | None => Err InvalidField
  | Some (block_bits, ksizes) =>
    if negb (memZ (8 * zlen key) ksizes) then Err CryptographicFailure else
    (* fix 4ef300f: RC4 named with a block cipher mode that cannot apply *)
    if (a =? CA_RC4) && (oeqZ mode BCM_CBC || oeqZ mode BCM_ECB || oeqZ mode BCM_GCM) then Err InvalidField else
    let gcm := oeqZ mode BCM_GCM in
    if negb gcm && is_some aad then Err InvalidField else
    if gcm && negb (if dec then is_some tag else is_some taglen) then Err InvalidField else
    let mode_r : res mode_plan :=
      if a =? CA_RC4 then Ok MNone else
      match mode with
      | None => Err InvalidField
      | Some m =>
        match assoc m cipher_modes with
        | None => Err InvalidField
        | Some takes_iv =>
          if takes_iv then
            let src := match iv with
                       | Some v => Ok (IVGiven v)
                       | None => if dec then Err InvalidField else Ok (IVFresh (block_bits / 8))
                       end in
            match src with
            | Err e => Err e
            | Ok s => Ok (if gcm
                          then MGCM s (if dec then tag else None)
                                    (if dec then olen tag else match taglen with Some t => t | None => 0 end)
                          else MIV m s)
            end
          else Ok (MPlain m)
        end
      end in
    match mode_r with
    | Err e => Err e
    | Ok mp =>
      let step := pad_step_of mode pad in
      if negb dec && is_invalid step then Err InvalidField else
      Ok (mkSym a key mp step (block_bits / 8) aad gcm)
    end
  end.

(* asymmetric (RSA) encryption padding: _encrypt_asymmetric / _decrypt_asymmetric *)
Inductive asym_pad := AOAEP (h : Z) | APKCS1.      (* OAEP(MGF1(h), h, label None) *)

Definition asym_pad_of (pad hash : option Z) : res asym_pad :=
  if oeqZ pad PM_OAEP then
    match hash with
    | None => Err InvalidField
    | Some hv => match assoc hv enc_hashes with Some h => Ok (AOAEP h) | None => Err InvalidField end
    end
  else if oeqZ pad PM_PKCS1v15 then Ok APKCS1
  else Err InvalidField.

Record enc_params := mkEnc {
  e_alg : option Z; e_key : bytes;
  e_key_loads : bool;                (* RSA only: the key bytes parse as a DER or PEM key of the needed kind *)
  e_mode : option Z; e_pad : option Z;
  e_iv : option bytes; e_aad : option bytes;
  e_taglen : option Z;               (* encrypt: auth_tag_length *)
  e_tag : option bytes;              (* decrypt: auth_tag *)
  e_hash : option Z }.

Inductive crypt_plan := CSym (p : sym_plan) | CAsym (key : bytes) (pad : asym_pad).

(* encrypt() / decrypt() *)
Definition crypt_plan_of (dec : bool) (p : enc_params) : res crypt_plan :=
  match e_alg p with
  | None => Err InvalidField
  | Some a =>
    if a =? CA_RSA then
      match asym_pad_of (e_pad p) (e_hash p) with
      | Err e => Err e
      | Ok ap => if e_key_loads p then Ok (CAsym (e_key p) ap) else Err CryptographicFailure
      end
    else
      match sym_plan_of dec a (e_key p) (e_mode p) (e_pad p) (e_iv p) (e_aad p) (e_taglen p) (e_tag p) with
      | Err e => Err e
      | Ok sp => Ok (CSym sp)
      end
  end.
Definition encrypt_plan := crypt_plan_of false.
Definition decrypt_plan := crypt_plan_of true.

(* --- what the installed library accepts (trusted; K-tested) --- *)
Definition mode_val (m : mode_plan) : Z :=
  match m with MNone => -1 | MPlain m => m | MIV m _ => m | MGCM _ _ _ => BCM_GCM end.
Definition iv_len (s : iv_src) : Z := match s with IVGiven v => zlen v | IVFresh n => n end.

Definition lib_mode_ok (block : Z) (m : mode_plan) (dec : bool) : bool :=
  match m with
  | MNone | MPlain _ => true
  | MIV _ s => iv_len s =? block
  | MGCM s tag mt =>
      (8 <=? iv_len s) && (iv_len s <=? 128) && (4 <=? mt) &&
      (if dec then olen tag <=? 16 else true)
  end.

(* everything the library checks passes *)
Definition lib_sym_ok (dec : bool) (p : sym_plan) (datalen : Z) : bool :=
  match assoc2 (p_alg p) (mode_val (p_mode p)) lib_cipher_ok with
  | None => false
  | Some ks => memZ (8 * zlen (p_key p)) ks
  end
  && lib_mode_ok (p_block p) (p_mode p) dec
  (* RC4 asked for GCM: the stream context has no .tag (read on encrypt) and no AAD interface *)
  && negb (p_gcm p && (mode_val (p_mode p) =? -1) && (negb dec || is_some (p_aad p)))
  && match p_pad p with PScheme _ => 0 <? p_block p | _ => true end
  && (if dec && (oeqZ (Some (mode_val (p_mode p))) BCM_CBC || oeqZ (Some (mode_val (p_mode p))) BCM_ECB)
      then datalen mod (p_block p) =? 0 else true).

(* ... and where it does not, which stage refuses and what the engine makes of it:
     mode(...) construction        (GCM: IV length 8..128, min_tag_length >= 4)      -> InvalidField
     padder construction on encrypt (the RC4 class has no block_size: AttributeError) -> non-KMIP exception
     Cipher(...) / authenticate_additional_data / update / finalize                    -> CryptographicFailure
     encryptor.tag on the RC4 stream context; padder construction on decrypt (RC4)     -> non-KMIP exception *)
Inductive lstage := LOk | LErr (e : kerr) | LCrash.

Definition lib_ctor_ok (m : mode_plan) : bool :=
  match m with
  | MGCM s _ mt => (8 <=? iv_len s) && (iv_len s <=? 128) && (4 <=? mt)
  | _ => true
  end.
Definition lib_pad_crash (p : sym_plan) : bool :=
  match p_pad p with PScheme _ => p_block p <=? 0 | _ => false end.
Definition lib_cipher_ops_ok (dec : bool) (p : sym_plan) (datalen : Z) : bool :=
  match assoc2 (p_alg p) (mode_val (p_mode p)) lib_cipher_ok with
  | None => false
  | Some ks => memZ (8 * zlen (p_key p)) ks
  end
  && match p_mode p with
     | MIV _ s => iv_len s =? p_block p
     | MGCM _ tag _ => if dec then olen tag <=? 16 else true
     | _ => true
     end
  && negb (p_gcm p && (mode_val (p_mode p) =? -1) && is_some (p_aad p))
  && (if dec && (oeqZ (Some (mode_val (p_mode p))) BCM_CBC || oeqZ (Some (mode_val (p_mode p))) BCM_ECB)
      then datalen mod (p_block p) =? 0 else true).

Definition lib_sym_stage (dec : bool) (p : sym_plan) (datalen : Z) : lstage :=
  if lib_sym_ok dec p datalen then LOk
  else if negb (lib_ctor_ok (p_mode p)) then LErr InvalidField
  else if negb dec && lib_pad_crash p then LCrash
  else if negb (lib_cipher_ops_ok dec p datalen) then LErr CryptographicFailure
  else LCrash.

(* ------------------------------------------------------------------ sign / verify *)

Inductive sig_pad := SPSS | SPKCS1.                (* PSS(MGF1(h), MAX_LENGTH) with hash h  |  PKCS1v15 with hash h *)
Record sig_params := mkSig {
  s_dsa : option Z; s_alg : option Z; s_hash : option Z; s_pad : option Z;
  s_key_loads : bool }.
(* hash = None never occurs in an accepted plan (sign: InvalidField; verify: InvalidField / CryptographicFailure) *)
Record sig_plan := mkSigPlan { sg_hash : option Z; sg_pad : sig_pad }.

Definition sign_plan (p : sig_params) : res sig_plan :=
  let sel : res (option Z * option Z) :=     (* (hash id, crypto alg) *)
    match s_dsa p with
    | Some d => match assoc d dsa_algs with
                | Some (h, a) => Ok (Some h, Some a)
                | None => Ok (None, None)
                end
    | None =>
      if is_some (s_alg p) && is_some (s_hash p)
      then Ok (match s_hash p with Some hv => assoc hv enc_hashes | None => None end, s_alg p)
      else Err InvalidField
    end in
  match sel with
  | Err e => Err e
  | Ok (h, a) =>
    if negb (oeqZ a CA_RSA) then Err InvalidField else
    if negb (s_key_loads p) then Err InvalidField else
    match s_pad p with
    | None => Err InvalidField
    | Some pv =>
      match h with
      | None => Err InvalidField             (* 'The hashing algorithm is not supported for signing.' *)
      | Some _ =>
        if pv =? PM_PSS then Ok (mkSigPlan h SPSS)
        else if pv =? PM_PKCS1v15 then Ok (mkSigPlan h SPKCS1)
        else Err InvalidField
      end
    end
  end.

Definition verify_plan (p : sig_params) : res sig_plan :=
  let hash0 := match s_hash p with Some hv => assoc hv enc_hashes | None => None end in
  let pair := match s_dsa p with Some d => assoc d dsa_algs | None => None end in
  let sel : res (option Z * option Z) :=
    match pair with
    | Some (dh, da) =>
      if (match hash0 with Some h => negb (h =? dh) | None => false end) then Err InvalidField else
      if (match s_alg p with Some a => negb (a =? da) | None => false end) then Err InvalidField else
      Ok (Some dh, Some da)
    | None => Ok (hash0, s_alg p)
    end in
  match sel with
  | Err e => Err e
  | Ok (h, a) =>
    if negb (oeqZ a CA_RSA) then Err InvalidField else
    if oeqZ (s_pad p) PM_PSS then
      match h with
      | None => Err InvalidField
      | Some _ => if s_key_loads p then Ok (mkSigPlan h SPSS) else Err CryptographicFailure
      end
    else if oeqZ (s_pad p) PM_PKCS1v15 then
      if negb (s_key_loads p) then Err CryptographicFailure else
      match h with
      | None => Err CryptographicFailure       (* hash_algorithm() on None inside try/except Exception *)
      | Some _ => Ok (mkSigPlan h SPKCS1)
      end
    else Err InvalidField
  end.

(* every accepted sign plan names a hash (lemma sign_plan_has_hash) *)
Definition lib_sign_ok (p : sig_plan) : bool := is_some (sg_hash p).

(* ------------------------------------------------------------------ mac *)

Inductive mac_plan := MHmac (h : Z) (key : bytes) | MCmac (alg : Z) (key : bytes).

Definition mac_plan_of (alg : Z) (key : bytes) : res mac_plan :=
  match assoc alg hmac_algs with
  | Some h => Ok (MHmac h key)
  | None =>
    match assoc alg sym_algs with
    | Some _ => Ok (MCmac alg key)
    | None => Err InvalidField
    end
  end.

(* every exception of the primitive is caught and turned into CryptographicFailure *)
Definition lib_mac_ok (p : mac_plan) : bool :=
  match p with
  | MHmac _ _ => true
  | MCmac a key => match assoc a lib_cmac_ok with Some ks => memZ (8 * zlen key) ks | None => false end
  end.

(* ------------------------------------------------------------------ derive_key *)

Record der_params := mkDer {
  d_method : option Z; d_len : Z;
  d_data : option bytes; d_key : option bytes;
  d_hash : option Z; d_salt : option bytes; d_iter : option Z;
  d_alg : option Z; d_mode : option Z; d_pad : option Z; d_iv : option bytes;
  d_key_loads : bool }.

Inductive der_plan :=
| DEncrypt (c : crypt_plan)                                           (* result.get('cipher_text') of encrypt() *)
| DHkdf (h len : Z) (salt info ikm : option bytes)                    (* HKDF(h, len, salt, info).derive(ikm) *)
| DHash (h : Z) (data : bytes)                                        (* Hash(h) of data *)
| DPbkdf2 (h len : Z) (salt : bytes) (iters : Z) (pw : option bytes)  (* PBKDF2HMAC(h, len, salt, iters).derive(pw) *)
| DKbkdf (h len : Z) (fixed key : option bytes).                      (* KBKDFHMAC(h, CounterMode, len, rlen 4, llen None, BeforeFixed, fixed).derive(key) *)

Definition derive_plan (p : der_params) : res der_plan :=
  if oeqZ (d_method p) DM_ENCRYPT then
    if negb (is_some (d_data p)) then Err InvalidField else
    match encrypt_plan (mkEnc (d_alg p) (match d_key p with Some k => k | None => [] end) (d_key_loads p)
                              (d_mode p) (d_pad p) (d_iv p) None None None None) with
    | Err e => Err e
    | Ok c => Ok (DEncrypt c)
    end
  else
    match d_hash p with
    | None => Err InvalidField
    | Some hv =>
      match assoc hv enc_hashes with
      | None => Err InvalidField
      | Some h =>
        if oeqZ (d_method p) DM_HMAC then Ok (DHkdf h (d_len p) (d_salt p) (d_data p) (d_key p))
        else if oeqZ (d_method p) DM_HASH then
          match d_data p, d_key p with
          | Some _, Some _ => Err InvalidField
          | Some d, None => Ok (DHash h d)
          | None, Some k => Ok (DHash h k)
          | None, None => Err InvalidField
          end
        else if oeqZ (d_method p) DM_PBKDF2 then
          match d_salt p with
          | None => Err InvalidField
          | Some s =>
            match d_iter p with
            | None => Err InvalidField
            | Some it => Ok (DPbkdf2 h (d_len p) s it (d_key p))
            end
          end
        else if oeqZ (d_method p) DM_NIST800_108_C then Ok (DKbkdf h (d_len p) (d_data p) (d_key p))
        else Err InvalidField
      end
    end.

Definition digest_size (h : Z) : Z := match assoc h hash_digest_size with Some n => n | None => 0 end.

(* KDF plans: a refusal of the library (construction or derive) is InvalidField *)
Definition lib_der_ok (p : der_plan) (datalen : Z) (data_present : bool) : bool :=
  match p with
  | DEncrypt (CSym sp) => data_present && lib_sym_ok false sp datalen
  | DEncrypt (CAsym _ _) => data_present
  | DHkdf h len _ _ ikm => is_some ikm && (0 <=? len) && (len <=? 255 * digest_size h)
  | DHash _ _ => true
  | DPbkdf2 _ len _ it pw => is_some pw && (1 <=? it) && (0 <=? len)
  | DKbkdf _ len fixed key => is_some fixed && is_some key && (0 <=? len)
  end.

(* which stage refuses a derivation plan: the KDF branches wrap construction and derive() in one try (-> InvalidField);
   ENCRYPT is the symmetric path; RSA `public_key.encrypt` is outside any try (observed separately, `asym_ok`) *)
Definition lib_der_stage (p : der_plan) (datalen : Z) : lstage :=
  match p with
  | DEncrypt (CSym sp) => lib_sym_stage false sp datalen
  | DEncrypt (CAsym _ _) => LOk
  | _ => if lib_der_ok p datalen true then LOk else LErr InvalidField
  end.

(* the engine handler _process_derive_key after derive_key returned `out` *)
Definition derive_finish (len : Z) (out : bytes) : res bytes :=
  if zlen out <? len then Err CryptographicFailure
  else Ok (firstn (Z.to_nat len) out).

(* output length of the primitive when the library accepts the plan *)
Definition der_out_len (p : der_plan) (ctlen : Z) : Z :=
  match p with
  | DEncrypt _ => ctlen
  | DHkdf _ len _ _ _ => len
  | DHash h _ => digest_size h
  | DPbkdf2 _ len _ _ _ => len
  | DKbkdf _ len _ _ => len
  end.

(* ------------------------------------------------------------------ wrap_key *)

Inductive wrap_plan := WAesKeyWrap (kek key : bytes).      (* keywrap.aes_key_wrap(kek, key) - RFC 3394 *)

Definition wrap_plan_of (method alg : option Z) (key kek : bytes) : res wrap_plan :=
  if oeqZ method WM_ENCRYPT then
    if oeqZ alg BCM_NIST_KEY_WRAP then Ok (WAesKeyWrap kek key)
    else Err InvalidField
  else Err InvalidField.

(* all exceptions -> CryptographicFailure *)
Definition lib_wrap_ok (p : wrap_plan) : bool :=
  match p with
  | WAesKeyWrap kek key =>
      (memZ (zlen kek) [16; 24; 32]) && (16 <=? zlen key) && (zlen key mod 8 =? 0)
  end.

(* ------------------------------------------------------------------ key creation *)

Inductive create_plan := KFresh (alg : Z) (nbytes : Z) | KRsa (bits : Z).

Definition create_sym_plan (alg len : Z) : res create_plan :=
  match assoc alg sym_algs with
  | None => Err InvalidField
  | Some (_, ks) => if memZ len ks then Ok (KFresh alg (len / 8)) else Err InvalidField
  end.

Definition create_pair_plan (alg len : Z) : res create_plan :=
  if memZ alg asym_algs then Ok (KRsa len) else Err InvalidField.

(* rsa.generate_private_key: exceptions -> CryptographicFailure *)
Definition lib_create_ok (p : create_plan) : bool :=
  match p with KFresh _ _ => true | KRsa bits => 1024 <=? bits end.

(* ------------------------------------------------------------------ comparison helpers *)
Definition kerr_eqb (a b : kerr) : bool :=
  match a, b with InvalidField, InvalidField | CryptographicFailure, CryptographicFailure => true | _, _ => false end.
Definition obytes_eqb (a b : option bytes) : bool :=
  match a, b with Some x, Some y => bytes_eqb x y | None, None => true | _, _ => false end.
Definition oZ_eqb (a b : option Z) : bool :=
  match a, b with Some x, Some y => x =? y | None, None => true | _, _ => false end.
