From Coq Require Import ZArith List Bool Lia ZifyBool.
From PK Require Import Base.Bytes Crypto.Padding.
Import ListNotations.
Open Scope Z_scope.

Lemma zlen_app {A} (a b : list A) : zlen (a ++ b) = zlen a + zlen b.
Proof. unfold zlen. rewrite app_length. lia. Qed.

Lemma zlen_nonneg {A} (a : list A) : 0 <= zlen a.
Proof. unfold zlen. lia. Qed.

Lemma zlen_repeat {A} (x : A) n : zlen (repeat x n) = Z.of_nat n.
Proof. unfold zlen. now rewrite repeat_length. Qed.

Lemma pad_amount_range bs len : 0 < bs -> 1 <= pad_amount bs len <= bs.
Proof. intros H. unfold pad_amount. pose proof (Z.mod_pos_bound len bs H). lia. Qed.

Lemma pad_tail_len s n : 1 <= n -> zlen (pad_tail s n) = n.
Proof.
  intros H. unfold pad_tail. destruct (s =? 0).
  - rewrite zlen_repeat. lia.
  - rewrite zlen_app, zlen_repeat. unfold zlen. simpl. lia.
Qed.

Lemma pad_len s bs m : 0 < bs -> zlen (pad s bs m) = zlen m + pad_amount bs (zlen m).
Proof.
  intros H. unfold pad. rewrite zlen_app, pad_tail_len; auto.
  apply pad_amount_range; auto.
Qed.

Lemma pad_len_mod s bs m : 0 < bs -> zlen (pad s bs m) mod bs = 0.
Proof.
  intros H. rewrite pad_len by auto. unfold pad_amount.
  replace (zlen m + (bs - zlen m mod bs)) with (bs + (zlen m - zlen m mod bs)) by lia.
  rewrite (Z.div_mod (zlen m) bs) at 1 by lia.
  replace (bs + (bs * (zlen m / bs) + zlen m mod bs - zlen m mod bs)) with ((1 + zlen m / bs) * bs) by lia.
  apply Z.mod_mul. lia.
Qed.

Lemma last_app_ne {A} (a b : list A) d : b <> [] -> last (a ++ b) d = last b d.
Proof.
  intros H. induction a as [|x a IH]; simpl; auto.
  destruct (a ++ b) eqn:E.
  - destruct a; simpl in E; try discriminate. subst. contradiction.
  - exact IH.
Qed.

Lemma last_repeat {A} (x d : A) n : (0 < n)%nat -> last (repeat x n) d = x.
Proof.
  induction n as [|n IH]; intros H; [lia|]. simpl.
  destruct n; simpl; auto. apply IH. lia.
Qed.

Lemma pad_tail_last s n : 1 <= n -> last (pad_tail s n) 0 = n.
Proof.
  intros H. unfold pad_tail. destruct (s =? 0).
  - apply last_repeat. lia.
  - rewrite last_app_ne by discriminate. reflexivity.
Qed.

Lemma pad_tail_ne s n : 1 <= n -> pad_tail s n <> [].
Proof.
  intros H E. pose proof (pad_tail_len s n H) as L. rewrite E in L. unfold zlen in L. simpl in L. lia.
Qed.

Lemma forallb_repeat {A} (f : A -> bool) x n : f x = true -> forallb f (repeat x n) = true.
Proof. intros H. induction n; simpl; auto. now rewrite H. Qed.

Lemma firstn_app_exact {A} (a b : list A) : firstn (length a) (a ++ b) = a.
Proof. rewrite firstn_app, Nat.sub_diag, firstn_all. simpl. now rewrite app_nil_r. Qed.

Lemma skipn_app_exact {A} (a b : list A) : skipn (length a) (a ++ b) = b.
Proof. rewrite skipn_app, Nat.sub_diag, skipn_all. reflexivity. Qed.

Lemma tail_ok_pad_tail s n : 1 <= n -> tail_ok s n (pad_tail s n) = true.
Proof.
  intros H. unfold tail_ok, pad_tail. destruct (s =? 0).
  - apply forallb_repeat. lia.
  - replace (Z.to_nat (n - 1)) with (length (repeat 0 (Z.to_nat (n - 1)))) at 1 by apply repeat_length.
    rewrite firstn_app_exact. apply forallb_repeat. reflexivity.
Qed.

(* unpad (pad m) = m : every message, both schemes (any scheme id), every positive block size *)
Theorem unpad_pad s bs m : 0 < bs -> unpad s bs (pad s bs m) = Some m.
Proof.
  intros Hbs.
  pose proof (pad_amount_range bs (zlen m) Hbs) as Hr.
  set (n := pad_amount bs (zlen m)) in *.
  unfold unpad.
  rewrite pad_len_mod by auto. rewrite pad_len by auto. fold n.
  pose proof (zlen_nonneg m) as Hm.
  replace (zlen m + n =? 0) with false by lia.
  simpl.
  unfold pad. fold n.
  rewrite last_app_ne by (apply pad_tail_ne; lia).
  rewrite pad_tail_last by lia.
  replace ((1 <=? n) && (n <=? bs)) with true by lia.
  replace (Z.to_nat (zlen m + n - n)) with (length m) by (unfold zlen; lia).
  rewrite firstn_app_exact, skipn_app_exact.
  rewrite tail_ok_pad_tail by lia. reflexivity.
Qed.

(* what the library guarantees when unpadding succeeds: the result is a prefix, shorter by 1..bs bytes *)
Lemma unpad_some_len s bs d m : unpad s bs d = Some m -> exists v, 1 <= v <= bs /\ zlen d = zlen m + v.
Proof.
  unfold unpad. intros H.
  destruct ((zlen d =? 0) || negb (zlen d mod bs =? 0)) eqn:E0; try discriminate.
  destruct ((1 <=? last d 0) && (last d 0 <=? bs)) eqn:E; try discriminate.
  destruct (tail_ok s (last d 0) _); try discriminate.
  injection H as <-. exists (last d 0). split; [lia|].
  assert (Hd : 0 <= zlen d) by apply zlen_nonneg.
  assert (Hm : zlen d mod bs = 0) by lia.
  apply Z.mod_divide in Hm; [|lia]. destruct Hm as [q Hq].
  assert (zlen d <> 0) by lia.
  assert (0 < q) by (apply (Z.mul_pos_cancel_r q bs); lia).
  assert (last d 0 <= zlen d) by nia.
  unfold zlen in *. rewrite firstn_length. lia.
Qed.
