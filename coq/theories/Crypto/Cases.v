(* C06 tie K: the comparator evaluated by the harness (Coq decides agreement).
   The harness records, from outside, the call the engine makes into the
   `cryptography` library (wrapped constructors) and prints it as a `prim_call`;
   `check_*` compares it and the outcome class with the model's plan. *)
From PK Require Import Base.Bytes Crypto.Padding Crypto.Plan.
From PKGen Require Import CryptoTables.

Inductive outcome := OErr (e : kerr) | OCrash | ODone.
Definition outcome_eqb (a b : outcome) : bool :=
  match a, b with
  | OErr x, OErr y => kerr_eqb x y
  | OCrash, OCrash | ODone, ODone => true
  | _, _ => false
  end.

Record cipher_call := mkCC {
  cc_alg : Z; cc_key : bytes; cc_mode : Z;          (* mode: BlockCipherMode value of the mode class, -1 = None *)
  cc_iv : option bytes; cc_tag : option bytes; cc_mintag : option Z;
  cc_aad : option bytes; cc_data : bytes;           (* everything passed to update() *)
  cc_fin_ok : bool;                                 (* update()+finalize() returned *)
  cc_out : bytes }.

Inductive prim_call :=
| PNoCall
| PCipher (c : cipher_call)
| PRsaCrypt (key : bytes) (padkind : Z) (h mgf : option Z) (label_none : bool)   (* 0 OAEP, 1 PKCS1v15 *)
| PRsaSig (padkind : Z) (h : option Z) (mgf : option Z) (salt_max : bool)        (* 2 PSS, 1 PKCS1v15 *)
| PHmac (h : Z) (key data : bytes)
| PCmac (alg : Z) (key data : bytes)
| PHkdf (h len : Z) (salt info ikm : option bytes)
| PHash (h : Z) (data : bytes)
| PPbkdf2 (h len : Z) (salt : bytes) (iters : Z) (pw : option bytes)
| PKbkdf (h len : Z) (fixed key : option bytes) (counter_mode_r4_before_fixed_nolabel : bool)
| PWrap (kek key : bytes)
| PUrandom (n : Z) (alg : Z) (outlen : Z)           (* os.urandom(n), then alg(key) validated; result length *)
| PRsaGen (bits : Z) (e : Z).

Definition Zmin16 (t : Z) : Z := if t <? 16 then t else 16.

(* --- symmetric cipher call against a plan --- *)
Definition iv_matches (s : iv_src) (obs ret : option bytes) : bool :=
  match s, obs with
  | IVGiven v, Some o => bytes_eqb v o && negb (is_some ret)
  | IVFresh n, Some o => (zlen o =? n) && obytes_eqb ret (Some o)      (* generated IV is the one used and the one returned *)
  | _, None => false
  end.

Definition mode_matches (dec : bool) (m : mode_plan) (c : cipher_call) (iv_ret : option bytes) : bool :=
  (cc_mode c =? mode_val m) &&
  match m with
  | MNone | MPlain _ => negb (is_some (cc_iv c)) && negb (is_some iv_ret) && negb (is_some (cc_tag c)) && negb (is_some (cc_mintag c))
  | MIV _ s => iv_matches s (cc_iv c) iv_ret && negb (is_some (cc_tag c)) && negb (is_some (cc_mintag c))
  | MGCM s tag mt => iv_matches s (cc_iv c) iv_ret && obytes_eqb tag (cc_tag c) && oZ_eqb (cc_mintag c) (Some mt)
  end.

Definition call_matches (dec : bool) (p : sym_plan) (input : bytes) (c : cipher_call) (iv_ret : option bytes) : bool :=
  (cc_alg c =? p_alg p) && bytes_eqb (cc_key c) (p_key p) &&
  mode_matches dec (p_mode p) c iv_ret &&
  obytes_eqb (cc_aad c) (p_aad p) &&
  bytes_eqb (cc_data c)
            (if dec then input else match p_pad p with PScheme s => pad s (p_block p) input | _ => input end).

Definition asym_matches (key : bytes) (ap : asym_pad) (c : prim_call) : bool :=
  match c, ap with
  | PRsaCrypt k 0 (Some h) (Some g) true, AOAEP h' => bytes_eqb k key && (h =? h') && (g =? h')
  | PRsaCrypt k 1 None None _, APKCS1 => bytes_eqb k key
  | _, _ => false
  end.

(* encrypt: parameters, message, observed outcome, observed call, returned iv, returned tag length, ciphertext length.
   asym_ok: for RSA, whether the library's encrypt()/decrypt() accepts (padding, hash, message / cipher text) -
   observed independently on the reference path; a refusal is CryptographicFailure since fix 2eb33d4. *)
Definition check_encrypt (p : enc_params) (msg : bytes) (o : outcome) (c : prim_call)
           (iv_ret : option bytes) (taglen : option Z) (ctlen : Z) (asym_ok : bool) : bool :=
  match encrypt_plan p with
  | Err e => outcome_eqb o (OErr e)
  | Ok (CAsym key ap) =>
      if asym_ok then outcome_eqb o ODone && asym_matches key ap c
      else outcome_eqb o (OErr CryptographicFailure)      (* fix 2eb33d4: the RSA backend's refusal *)
  | Ok (CSym sp) =>
      match lib_sym_stage false sp (zlen msg) with
      | LOk =>
        match c with
        | PCipher cc =>
            outcome_eqb o ODone && call_matches false sp msg cc iv_ret && cc_fin_ok cc &&
            (ctlen =? zlen (cc_data cc)) && (zlen (cc_out cc) =? ctlen) &&
            oZ_eqb taglen (match p_mode sp with MGCM _ _ mt => Some (Zmin16 mt) | _ => None end)
        | _ => false
        end
      | LErr e => outcome_eqb o (OErr e)
      | LCrash => outcome_eqb o OCrash
      end
  end.

(* decrypt: parameters, ciphertext, observed outcome, call, returned plaintext *)
Definition check_decrypt (p : enc_params) (ct : bytes) (o : outcome) (c : prim_call) (out : bytes) (asym_ok : bool) : bool :=
  match decrypt_plan p with
  | Err e => outcome_eqb o (OErr e)
  | Ok (CAsym key ap) =>
      if asym_ok then outcome_eqb o ODone && asym_matches key ap c
      else outcome_eqb o (OErr CryptographicFailure)      (* fix 2eb33d4: the RSA backend's refusal *)
  | Ok (CSym sp) =>
      match lib_sym_stage true sp (zlen ct) with
      | LOk =>
        match c with
        | PCipher cc =>
            call_matches true sp ct cc None &&
            if cc_fin_ok cc then
              match p_pad sp with
              | PInvalid => outcome_eqb o (OErr InvalidField)
              | PNone => outcome_eqb o ODone && bytes_eqb out (cc_out cc)
              | PScheme s =>
                  match unpad s (p_block sp) (cc_out cc) with
                  | Some m => outcome_eqb o ODone && bytes_eqb out m
                  | None => outcome_eqb o (OErr CryptographicFailure)     (* padding could not be removed *)
                  end
              end
            else outcome_eqb o (OErr CryptographicFailure)          (* InvalidTag *)
        | _ => false
        end
      | LErr e => outcome_eqb o (OErr e)
      | LCrash => outcome_eqb o OCrash
      end
  end.

(* sign / verify *)
Definition sig_matches (sp : sig_plan) (c : prim_call) : bool :=
  match c, sg_pad sp with
  | PRsaSig 2 h (Some g) true, SPSS => oZ_eqb h (sg_hash sp) && oZ_eqb (Some g) (sg_hash sp)
  | PRsaSig 1 h None _, SPKCS1 => oZ_eqb h (sg_hash sp)
  | _, _ => false
  end.

Definition check_sign (p : sig_params) (o : outcome) (c : prim_call) : bool :=
  match sign_plan p with
  | Err e => outcome_eqb o (OErr e)
  | Ok sp => if lib_sign_ok sp then outcome_eqb o ODone && sig_matches sp c else outcome_eqb o OCrash
  end.

Definition check_verify (p : sig_params) (o : outcome) (c : prim_call) : bool :=
  match verify_plan p with
  | Err e => outcome_eqb o (OErr e)
  | Ok sp => outcome_eqb o ODone && sig_matches sp c
  end.

(* mac *)
Definition check_mac (alg : Z) (key data : bytes) (o : outcome) (c : prim_call) (outlen : Z) : bool :=
  match mac_plan_of alg key with
  | Err e => outcome_eqb o (OErr e)
  | Ok mp =>
      if lib_mac_ok mp then
        outcome_eqb o ODone &&
        match mp, c with
        | MHmac h k, PHmac h' k' d' => (h =? h') && bytes_eqb k k' && bytes_eqb d' data && (outlen =? digest_size h)
        | MCmac a k, PCmac a' k' d' =>
            (a =? a') && bytes_eqb k k' && bytes_eqb d' data &&
            (outlen =? match assoc a sym_algs with Some (b, _) => b / 8 | None => -1 end)
        | _, _ => false
        end
      else outcome_eqb o (OErr CryptographicFailure)
  end.

(* derive_key (engine method) and the handler's length step *)
Definition der_call_matches (dp : der_plan) (data : option bytes) (c : prim_call) : bool :=
  match dp, c with
  | DEncrypt (CSym sp), PCipher cc =>
      match data with Some d => call_matches false sp d cc (match p_mode sp with MIV _ (IVFresh _) | MGCM (IVFresh _) _ _ => cc_iv cc | _ => None end) | None => false end
  | DEncrypt (CAsym key ap), _ => asym_matches key ap c
  | DHkdf h len salt info ikm, PHkdf h' len' salt' info' ikm' =>
      (h =? h') && (len =? len') && obytes_eqb salt salt' && obytes_eqb info info' && obytes_eqb ikm ikm'
  | DHash h d, PHash h' d' => (h =? h') && bytes_eqb d d'
  | DPbkdf2 h len s it pw, PPbkdf2 h' len' s' it' pw' =>
      (h =? h') && (len =? len') && bytes_eqb s s' && (it =? it') && obytes_eqb pw pw'
  | DKbkdf h len f k, PKbkdf h' len' f' k' shape =>
      (h =? h') && (len =? len') && obytes_eqb f f' && obytes_eqb k k' && shape
  | _, _ => false
  end.

Definition check_derive (p : der_params) (o : outcome) (c : prim_call) (outlen : Z) (asym_ok : bool) : bool :=
  match derive_plan p with
  | Err e => outcome_eqb o (OErr e)
  | Ok dp =>
      match dp with
      | DEncrypt (CAsym _ _) =>
          if asym_ok then outcome_eqb o ODone && der_call_matches dp (d_data p) c
          else outcome_eqb o (OErr CryptographicFailure)
      | _ =>
          match lib_der_stage dp (olen (d_data p)) with
          | LOk => outcome_eqb o ODone && der_call_matches dp (d_data p) c &&
                   match dp, c with
                   | DEncrypt _, PCipher cc => outlen =? zlen (cc_data cc)
                   | DEncrypt _, _ => false
                   | _, _ => outlen =? der_out_len dp 0
                   end
          | LErr e => outcome_eqb o (OErr e)       (* KDF refusal: 'The key derivation parameters are not valid' *)
          | LCrash => outcome_eqb o OCrash
          end
      end
  end.

(* handler: requested byte length, primitive output length, final outcome and stored length *)
Definition check_derive_finish (len : Z) (out : bytes) (o : outcome) (stored : bytes) : bool :=
  match derive_finish len out with
  | Err e => outcome_eqb o (OErr e)
  | Ok d => outcome_eqb o ODone && bytes_eqb d stored && (zlen stored =? len)
  end.

(* wrap *)
Definition check_wrap (method alg : option Z) (key kek : bytes) (o : outcome) (c : prim_call) (outlen : Z) : bool :=
  match wrap_plan_of method alg key kek with
  | Err e => outcome_eqb o (OErr e)
  | Ok (WAesKeyWrap k m) =>
      match c with
      | PWrap k' m' =>
          bytes_eqb k k' && bytes_eqb m m' &&
          if lib_wrap_ok (WAesKeyWrap k m) then outcome_eqb o ODone && (outlen =? zlen m + 8)
          else outcome_eqb o (OErr CryptographicFailure)
      | _ => false
      end
  end.

(* key creation *)
Definition check_create_sym (alg len : Z) (o : outcome) (c : prim_call) : bool :=
  match create_sym_plan alg len with
  | Err e => outcome_eqb o (OErr e)
  | Ok (KFresh a n) =>
      outcome_eqb o ODone &&
      match c with PUrandom n' a' outlen => (n =? n') && (a =? a') && (outlen =? n) && (8 * n =? len) | _ => false end
  | Ok _ => false
  end.

Definition check_create_pair (alg len : Z) (o : outcome) (c : prim_call) : bool :=
  match create_pair_plan alg len with
  | Err e => outcome_eqb o (OErr e)
  | Ok (KRsa bits) =>
      match c with
      | PRsaGen bits' e =>
          (bits =? bits') && (e =? 65537) &&
          if lib_create_ok (KRsa bits) then outcome_eqb o ODone else outcome_eqb o (OErr CryptographicFailure)
      | _ => false
      end
  | Ok _ => false
  end.

(* padding bytes against the library's padder / unpadder *)
Definition check_pad (s bs : Z) (m padded : bytes) : bool := bytes_eqb (pad s bs m) padded.
Definition check_unpad (s bs : Z) (d : bytes) (r : option bytes) : bool := obytes_eqb (unpad s bs d) r.

(* one sum type so that a shard can mix cases *)
Inductive ccase :=
| KEnc (p : enc_params) (msg : bytes) (o : outcome) (c : prim_call) (iv_ret : option bytes) (taglen : option Z) (ctlen : Z) (asym_ok : bool)
| KDec (p : enc_params) (ct : bytes) (o : outcome) (c : prim_call) (out : bytes) (asym_ok : bool)
| KSign (p : sig_params) (o : outcome) (c : prim_call)
| KVerify (p : sig_params) (o : outcome) (c : prim_call)
| KMac (alg : Z) (key data : bytes) (o : outcome) (c : prim_call) (outlen : Z)
| KDerive (p : der_params) (o : outcome) (c : prim_call) (outlen : Z) (asym_ok : bool)
| KFinish (len : Z) (out : bytes) (o : outcome) (stored : bytes)
| KWrap (method alg : option Z) (key kek : bytes) (o : outcome) (c : prim_call) (outlen : Z)
| KCreate (alg len : Z) (o : outcome) (c : prim_call)
| KPair (alg len : Z) (o : outcome) (c : prim_call)
| KPad (s bs : Z) (m padded : bytes)
| KUnpad (s bs : Z) (d : bytes) (r : option bytes).

Definition check_ccase (k : ccase) : bool :=
  match k with
  | KEnc p m o c iv t n a => check_encrypt p m o c iv t n a
  | KDec p ct o c out a => check_decrypt p ct o c out a
  | KSign p o c => check_sign p o c
  | KVerify p o c => check_verify p o c
  | KMac a k d o c n => check_mac a k d o c n
  | KDerive p o c n a => check_derive p o c n a
  | KFinish l out o s => check_derive_finish l out o s
  | KWrap m a k kek o c n => check_wrap m a k kek o c n
  | KCreate a l o c => check_create_sym a l o c
  | KPair a l o c => check_create_pair a l o c
  | KPad s bs m p => check_pad s bs m p
  | KUnpad s bs d r => check_unpad s bs d r
  end.
