(* Symmetric paddings as `cryptography.hazmat.primitives.padding` computes them
   (PKCS7 - KMIP "PKCS5" - and ANSI X.923), used by
   CryptographyEngine._handle_symmetric_padding.  Definitions only.
   bs = block size in BYTES (the code passes algorithm.block_size in bits to the library). *)
From PK Require Import Base.Bytes.

(* scheme ids as in PKGen.CryptoTables.sym_paddings: 0 = PKCS7, 1 = ANSI X.923 *)
Definition pad_amount (bs len : Z) : Z := bs - len mod bs.

Definition pad_tail (scheme : Z) (n : Z) : bytes :=
  if scheme =? 0 then repeat n (Z.to_nat n)
  else repeat 0 (Z.to_nat (n - 1)) ++ [n].

(* padder.update(m) + padder.finalize(): always pads, a full block when aligned *)
Definition pad (scheme bs : Z) (m : bytes) : bytes :=
  m ++ pad_tail scheme (pad_amount bs (zlen m)).

Definition tail_ok (scheme : Z) (v : Z) (tail : bytes) : bool :=
  if scheme =? 0 then forallb (Z.eqb v) tail
  else forallb (Z.eqb 0) (firstn (Z.to_nat (v - 1)) tail).

(* unpadder.update(d) + unpadder.finalize(): None = ValueError("Invalid padding bytes.")
   - the data must be a positive multiple of the block size, the last byte v in 1..bs,
     and the v trailing bytes of the right form. *)
Definition unpad (scheme bs : Z) (d : bytes) : option bytes :=
  let n := zlen d in
  if (n =? 0) || negb (n mod bs =? 0) then None else
  let v := last d 0 in
  if (1 <=? v) && (v <=? bs) then
    let body := firstn (Z.to_nat (n - v)) d in
    let tail := skipn (Z.to_nat (n - v)) d in
    if tail_ok scheme v tail then Some body else None
  else None.
