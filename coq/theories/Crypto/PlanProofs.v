From Coq Require Import ZArith List Bool Lia ZifyBool.
From PK Require Import Base.Bytes Crypto.Padding Crypto.PaddingProofs Crypto.Plan Crypto.Exec.
From PKGen Require Import CryptoTables.
Import ListNotations.
Open Scope Z_scope.

(* ------------------------------------------------------------------ small facts *)
Lemma assoc_forallb {A} (P : Z * A -> bool) k l v :
  assoc k l = Some v -> forallb P l = true -> P (k, v) = true.
Proof.
  induction l as [|[k' v'] l IH]; simpl; intros H F; try discriminate.
  apply andb_prop in F. destruct F as [F1 F2].
  destruct (k =? k') eqn:E.
  - injection H as <-. apply Z.eqb_eq in E. subst. exact F1.
  - auto.
Qed.

(* facts about the GENERATED tables, re-checked by computation whenever they are regenerated *)
Lemma sym_algs_block_nonneg : forallb (fun e : Z * (Z * list Z) => 0 <=? fst (snd e)) sym_algs = true.
Proof. vm_compute. reflexivity. Qed.

Lemma block_nonneg a bb ks : assoc a sym_algs = Some (bb, ks) -> 0 <= bb / 8.
Proof.
  intros H. pose proof (assoc_forallb _ _ _ _ H sym_algs_block_nonneg) as P. simpl in P.
  apply Z.div_pos; lia.
Qed.

(* ------------------------------------------------------------------ shape of accepted symmetric plans *)
Definition wf_mode (gcm : bool) (m : mode_plan) : Prop :=
  match m with
  | MNone => True
  | MPlain v | MIV v _ => gcm = false /\ v <> BCM_GCM
  | MGCM _ _ _ => gcm = true
  end.

Lemma sym_plan_shape dec a key mode pad iv aad taglen tag sp :
  sym_plan_of dec a key mode pad iv aad taglen tag = Ok sp ->
  p_alg sp = a /\ p_key sp = key /\ p_aad sp = aad /\ p_gcm sp = oeqZ mode BCM_GCM /\
  p_pad sp = pad_step_of mode pad /\ wf_mode (p_gcm sp) (p_mode sp) /\
  (exists bb ks, assoc a sym_algs = Some (bb, ks) /\ p_block sp = bb / 8) /\
  (dec = false -> p_pad sp <> PInvalid).
Proof.
  unfold sym_plan_of. intros H.
  destruct (assoc a sym_algs) as [[bb ks]|] eqn:Ea; try discriminate.
  destruct (negb (memZ (8 * zlen key) ks)); try discriminate.
  destruct (negb (oeqZ mode BCM_GCM) && is_some aad); try discriminate.
  destruct (oeqZ mode BCM_GCM && negb (if dec then is_some tag else is_some taglen)); try discriminate.
  match type of H with (match ?mr with _ => _ end) = _ => destruct mr as [e|mp] eqn:Em end; try discriminate.
  destruct (negb dec && is_invalid (pad_step_of mode pad)) eqn:Ei; try discriminate.
  injection H as <-. simpl.
  repeat split; auto.
  - (* wf_mode *)
    destruct (a =? CA_RC4); [injection Em as <-; exact I|].
    destruct mode as [m|]; try discriminate.
    destruct (assoc m cipher_modes) as [tk|] eqn:Em2; try discriminate.
    destruct tk.
    + match type of Em with (match ?src with _ => _ end) = _ => destruct src as [e0|s0] end; try discriminate.
      simpl in *. destruct (m =? BCM_GCM) eqn:Eg; injection Em as <-; simpl; auto.
      split; auto. lia.
    + injection Em as <-. simpl.
      destruct (m =? BCM_GCM) eqn:Eg; simpl; [|split; auto; lia].
      (* the generated table says the GCM class takes an IV *)
      apply Z.eqb_eq in Eg. subst m. vm_compute in Em2. discriminate.
  - exists bb, ks. auto.
  - intros ->. simpl in Ei. destruct (pad_step_of mode pad); simpl in *; congruence.
Qed.

Lemma Ok_inj {A} (a b : A) : @Ok A a = Ok b -> a = b.
Proof. intros H. injection H. auto. Qed.

(* ------------------------------------------------------------------ Decrypt inverts Encrypt *)
Section Laws.
  Variable E : Z -> bytes -> Z -> option bytes -> option bytes -> bytes -> bytes * bytes.
  Variable Dp : Z -> bytes -> Z -> option bytes -> option bytes -> option bytes -> bytes -> option bytes.
  Variable urandom : Z -> bytes.

  (* ASSUMED (not proved): behaviour of the library / OpenSSL and of os.urandom *)
  Hypothesis urandom_len : forall n, 0 <= n -> zlen (urandom n) = n.
  Hypothesis E_len : forall a k m iv aad d, zlen (fst (E a k m iv aad d)) = zlen d.
  Hypothesis E_tag_len : forall a k iv aad d, zlen (snd (E a k BCM_GCM iv aad d)) = 16.
  Hypothesis law_plain : forall a k m iv aad d, m <> BCM_GCM ->
      Dp a k m iv aad None (fst (E a k m iv aad d)) = Some d.
  Hypothesis law_gcm : forall a k iv aad d t, 4 <= t ->
      Dp a k BCM_GCM iv aad (Some (firstn (Z.to_nat t) (snd (E a k BCM_GCM iv aad d)))) (fst (E a k BCM_GCM iv aad d)) = Some d.

  Definition inv_mode (m : mode_plan) (tagv : option bytes) : mode_plan :=
    match m with
    | MNone => MNone
    | MPlain v => MPlain v
    | MIV v s => MIV v (IVGiven (iv_bytes urandom s))
    | MGCM s _ _ => MGCM (IVGiven (iv_bytes urandom s)) tagv (olen tagv)
    end.
  Definition inv_plan (sp : sym_plan) (tagv : option bytes) : sym_plan :=
    mkSym (p_alg sp) (p_key sp) (inv_mode (p_mode sp) tagv) (p_pad sp) (p_block sp) (p_aad sp) (p_gcm sp).

  (* plan level: with the same parameters, the IV that encryption used and the tag it returned,
     the decrypt plan is the inverse plan of the encrypt plan *)
  Local Opaque assoc.
  Lemma decrypt_plan_is_inverse_plan a key mode pad iv aad taglen sp tagv :
    sym_plan_of false a key mode pad iv aad taglen None = Ok sp ->
    (p_gcm sp = true -> is_some tagv = true) ->
    sym_plan_of true a key mode pad
                (match iv_returned urandom (p_mode sp) with Some v => Some v | None => iv end) aad None tagv
    = Ok (inv_plan sp tagv).
  Proof.
    unfold sym_plan_of. intros H Ht.
    destruct (assoc a sym_algs) as [[bb ks]|] eqn:Ea; try discriminate.
    destruct (negb (memZ (8 * zlen key) ks)) eqn:Ek; try discriminate.
    destruct (negb (oeqZ mode BCM_GCM) && is_some aad) eqn:Eaad; try discriminate.
    destruct (oeqZ mode BCM_GCM && negb (is_some taglen)) eqn:Etl; try discriminate.
    simpl in H.
    destruct (a =? CA_RC4) eqn:Erc.
    - (* RC4 *)
      destruct (is_invalid (pad_step_of mode pad)) eqn:Ei; try discriminate.
      apply Ok_inj in H; subst sp; simpl in *. 
      destruct (oeqZ mode BCM_GCM) eqn:Eg; simpl.
      + rewrite Ht by reflexivity. reflexivity.
      + reflexivity.
    - destruct mode as [m|]; try discriminate.
      destruct (assoc m cipher_modes) as [tk|] eqn:Em2; try discriminate.
      destruct tk.
      + (* mode with IV *)
        destruct iv as [v|].
        * destruct (is_invalid (pad_step_of (Some m) pad)) eqn:Ei; try discriminate.
          apply Ok_inj in H; subst sp; simpl in *.
          destruct (m =? BCM_GCM) eqn:Eg; simpl in *.
          -- rewrite Ht by reflexivity. simpl. reflexivity.
          -- reflexivity.
        * destruct (is_invalid (pad_step_of (Some m) pad)) eqn:Ei; try discriminate.
          apply Ok_inj in H; subst sp; simpl in *.
          destruct (m =? BCM_GCM) eqn:Eg; simpl in *.
          -- rewrite Ht by reflexivity. simpl. reflexivity.
          -- reflexivity.
      + destruct (is_invalid (pad_step_of (Some m) pad)) eqn:Ei; try discriminate.
        apply Ok_inj in H; subst sp; simpl in *.
        destruct (m =? BCM_GCM) eqn:Eg; simpl in *.
        * rewrite Ht by reflexivity. simpl. reflexivity.
        * reflexivity.
  Qed.

  Lemma mode_val_mode dec a key mode pad iv aad taglen tag sp :
    sym_plan_of dec a key mode pad iv aad taglen tag = Ok sp ->
    mode_val (p_mode sp) <> -1 -> mode = Some (mode_val (p_mode sp)).
  Proof.
    unfold sym_plan_of. intros H.
    destruct (assoc a sym_algs) as [[bb ks]|] eqn:Ea; try discriminate.
    destruct (negb (memZ (8 * zlen key) ks)); try discriminate.
    destruct (negb (oeqZ mode BCM_GCM) && is_some aad); try discriminate.
    destruct (oeqZ mode BCM_GCM && negb (if dec then is_some tag else is_some taglen)); try discriminate.
    destruct (a =? CA_RC4).
    - destruct (negb dec && is_invalid (pad_step_of mode pad)); try discriminate.
      apply Ok_inj in H; subst sp; simpl. intros X. exfalso. apply X. reflexivity.
    - destruct mode as [m|]; try discriminate.
      destruct (assoc m cipher_modes) as [tk|]; try discriminate.
      destruct tk.
      + destruct iv as [v|]; destruct dec; cbn [negb andb] in H; try discriminate;
          destruct (is_invalid (pad_step_of (Some m) pad)); cbn [negb andb] in H; try discriminate;
          apply Ok_inj in H; subst sp; cbn [p_mode];
          (destruct (oeqZ (Some m) BCM_GCM) eqn:Eg; cbn [mode_val]; auto;
           unfold oeqZ in Eg; apply Z.eqb_eq in Eg; intros _; rewrite Eg; reflexivity).
      + destruct (negb dec && is_invalid (pad_step_of (Some m) pad)); try discriminate.
        apply Ok_inj in H; subst sp; simpl. auto.
  Qed.

  Lemma pad_step_scheme mode pad :
    (oeqZ mode BCM_CBC || oeqZ mode BCM_ECB) = true -> pad_step_of mode pad <> PInvalid ->
    exists s, pad_step_of mode pad = PScheme s.
  Proof.
    unfold pad_step_of. intros ->. destruct pad as [p|]; [|congruence].
    destruct (assoc p sym_paddings); [eauto|congruence].
  Qed.

  Lemma firstn_zlen {A} (l : list A) n : 0 <= n -> zlen (firstn (Z.to_nat n) l) = Z.min n (zlen l).
  Proof. intros H. unfold zlen. rewrite firstn_length. lia. Qed.

  (* Decrypt (Encrypt m) = m: same parameters, the IV encryption used (supplied, or generated and returned),
     the tag it returned *)
  Theorem decrypt_inverts_encrypt_sym a key mode pad iv aad taglen msg out :
    do_encrypt E urandom a key mode pad iv aad taglen msg = ROk out ->
    do_decrypt Dp urandom a key mode pad
               (match eo_iv out with Some v => Some v | None => iv end) aad (eo_tag out) (eo_ct out) = ROk msg.
  Proof.
    unfold do_encrypt, do_decrypt. intros H.
    destruct (sym_plan_of false a key mode pad iv aad taglen None) as [e|sp] eqn:Hp; try discriminate.
    pose proof (sym_plan_shape _ _ _ _ _ _ _ _ _ _ Hp) as (Sa & Sk & Saad & Sg & Spad & Swf & (bb & ks & Eab & Sblk) & Sinv).
    specialize (Sinv eq_refl).
    pose proof (mode_val_mode _ _ _ _ _ _ _ _ _ _ Hp) as Smode.
    unfold run_sym_encrypt in H.
    destruct (lib_sym_ok false sp (zlen msg)) eqn:Hl; try discriminate.
    injection H as <-. cbn [eo_iv eo_tag eo_ct].
    set (data := match p_pad sp with PScheme s => pad s (p_block sp) msg | _ => msg end) in *.
    set (r := E (p_alg sp) (p_key sp) (mode_val (p_mode sp)) (mode_iv urandom (p_mode sp)) (p_aad sp) data) in *.
    set (tagv := match p_mode sp with MGCM _ _ mt => Some (firstn (Z.to_nat mt) (snd r)) | _ => None end).
    assert (Htag : p_gcm sp = true -> is_some tagv = true).
    { intros G. unfold tagv. destruct (p_mode sp) eqn:Em; simpl in Swf; auto.
      - (* MNone with gcm: the library rejects on encrypt *)
        exfalso. unfold lib_sym_ok in Hl. rewrite Em, G in Hl. simpl in Hl. lia.
      - destruct Swf; congruence.
      - destruct Swf; congruence. }
    rewrite (decrypt_plan_is_inverse_plan _ _ _ _ _ _ _ _ tagv Hp Htag).
    unfold run_sym_decrypt.
    (* the library accepts the inverse plan *)
    assert (Hdata : zlen (fst r) = zlen data) by apply E_len.
    assert (Hivlen : forall s, (p_mode sp = MIV (mode_val (p_mode sp)) s \/ exists t mt, p_mode sp = MGCM s t mt) ->
                     lib_mode_ok (p_block sp) (p_mode sp) false = true ->
                     iv_len (IVGiven (iv_bytes urandom s)) = iv_len s).
    { intros s _ _. destruct s as [v|n]; simpl; auto.
      (* fresh: n = block size of the table entry *) 
      admit. }
    admit.
  Admitted.
End Laws.
