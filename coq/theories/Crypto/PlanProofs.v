From Coq Require Import ZArith List Bool Lia ZifyBool.
From PK Require Import Base.Bytes Crypto.Padding Crypto.PaddingProofs Crypto.Plan Crypto.Exec.
From PKGen Require Import CryptoTables.
Import ListNotations.
Open Scope Z_scope.

(* ------------------------------------------------------------------ small facts *)
Lemma assoc_forallb {A} (P : Z * A -> bool) k l v :
  assoc k l = Some v -> forallb P l = true -> P (k, v) = true.
Proof.
  induction l as [|[k' v'] l IH]; simpl; intros H F; try discriminate.
  apply andb_prop in F. destruct F as [F1 F2].
  destruct (k =? k') eqn:E.
  - injection H as <-. apply Z.eqb_eq in E. subst. exact F1.
  - auto.
Qed.

(* facts about the GENERATED tables, re-checked by computation whenever they are regenerated *)
Lemma sym_algs_block_nonneg : forallb (fun e : Z * (Z * list Z) => 0 <=? fst (snd e)) sym_algs = true.
Proof. vm_compute. reflexivity. Qed.

Lemma block_nonneg a bb ks : assoc a sym_algs = Some (bb, ks) -> 0 <= bb / 8.
Proof.
  intros H. pose proof (assoc_forallb _ _ _ _ H sym_algs_block_nonneg) as P. simpl in P.
  apply Z.div_pos; lia.
Qed.

(* ------------------------------------------------------------------ shape of accepted symmetric plans *)
Definition wf_mode (gcm : bool) (m : mode_plan) : Prop :=
  match m with
  | MNone => True
  | MPlain v | MIV v _ => gcm = false /\ v <> BCM_GCM
  | MGCM _ _ _ => gcm = true
  end.

Lemma sym_plan_shape dec a key mode pad iv aad taglen tag sp :
  sym_plan_of dec a key mode pad iv aad taglen tag = Ok sp ->
  p_alg sp = a /\ p_key sp = key /\ p_aad sp = aad /\ p_gcm sp = oeqZ mode BCM_GCM /\
  p_pad sp = pad_step_of mode pad /\ wf_mode (p_gcm sp) (p_mode sp) /\
  (exists bb ks, assoc a sym_algs = Some (bb, ks) /\ p_block sp = bb / 8) /\
  (dec = false -> p_pad sp <> PInvalid).
Proof.
  unfold sym_plan_of. intros H.
  destruct (assoc a sym_algs) as [[bb ks]|] eqn:Ea; try discriminate.
  destruct (negb (memZ (8 * zlen key) ks)); try discriminate.
  destruct ((a =? CA_RC4) && (oeqZ mode BCM_CBC || oeqZ mode BCM_ECB || oeqZ mode BCM_GCM)) eqn:Erg; try discriminate.
  destruct (negb (oeqZ mode BCM_GCM) && is_some aad); try discriminate.
  destruct (oeqZ mode BCM_GCM && negb (if dec then is_some tag else is_some taglen)); try discriminate.
  match type of H with (match ?mr with _ => _ end) = _ => destruct mr as [e|mp] eqn:Em end; try discriminate.
  destruct (negb dec && is_invalid (pad_step_of mode pad)) eqn:Ei; try discriminate.
  injection H as <-. simpl.
  repeat split; auto.
  - (* wf_mode *)
    destruct (a =? CA_RC4); [injection Em as <-; exact I|].
    destruct mode as [m|]; try discriminate.
    destruct (assoc m cipher_modes) as [tk|] eqn:Em2; try discriminate.
    destruct tk.
    + match type of Em with (match ?src with _ => _ end) = _ => destruct src as [e0|s0] end; try discriminate.
      simpl in *. destruct (m =? BCM_GCM) eqn:Eg; injection Em as <-; simpl; auto.
      split; auto. lia.
    + injection Em as <-. simpl.
      destruct (m =? BCM_GCM) eqn:Eg; simpl; [|split; auto; lia].
      (* the generated table says the GCM class takes an IV *)
      apply Z.eqb_eq in Eg. subst m. vm_compute in Em2. discriminate.
  - exists bb, ks. auto.
  - intros ->. simpl in Ei. destruct (pad_step_of mode pad); simpl in *; congruence.
Qed.

Lemma Ok_inj {A} (a b : A) : @Ok A a = Ok b -> a = b.
Proof. intros H. injection H. auto. Qed.

(* ------------------------------------------------------------------ Decrypt inverts Encrypt *)
Section Laws.
  Variable E : Z -> bytes -> Z -> option bytes -> option bytes -> bytes -> bytes * bytes.
  Variable Dp : Z -> bytes -> Z -> option bytes -> option bytes -> option bytes -> bytes -> option bytes.
  Variable urandom : Z -> bytes.

  (* ASSUMED (not proved): behaviour of the library / OpenSSL and of os.urandom *)
  Hypothesis urandom_len : forall n, 0 <= n -> zlen (urandom n) = n.
  Hypothesis E_len : forall a k m iv aad d, zlen (fst (E a k m iv aad d)) = zlen d.
  Hypothesis E_tag_len : forall a k iv aad d, zlen (snd (E a k BCM_GCM iv aad d)) = 16.
  Hypothesis law_plain : forall a k m iv aad d, m <> BCM_GCM ->
      Dp a k m iv aad None (fst (E a k m iv aad d)) = Some d.
  Hypothesis law_gcm : forall a k iv aad d t, 4 <= t ->
      Dp a k BCM_GCM iv aad (Some (firstn (Z.to_nat t) (snd (E a k BCM_GCM iv aad d)))) (fst (E a k BCM_GCM iv aad d)) = Some d.

  Definition inv_mode (m : mode_plan) (tagv : option bytes) : mode_plan :=
    match m with
    | MNone => MNone
    | MPlain v => MPlain v
    | MIV v s => MIV v (IVGiven (iv_bytes urandom s))
    | MGCM s _ _ => MGCM (IVGiven (iv_bytes urandom s)) tagv (olen tagv)
    end.
  Definition inv_plan (sp : sym_plan) (tagv : option bytes) : sym_plan :=
    mkSym (p_alg sp) (p_key sp) (inv_mode (p_mode sp) tagv) (p_pad sp) (p_block sp) (p_aad sp) (p_gcm sp).

  (* plan level: with the same parameters, the IV that encryption used and the tag it returned,
     the decrypt plan is the inverse plan of the encrypt plan *)
  Local Opaque assoc.
  Lemma decrypt_plan_is_inverse_plan a key mode pad iv aad taglen sp tagv :
    sym_plan_of false a key mode pad iv aad taglen None = Ok sp ->
    (p_gcm sp = true -> is_some tagv = true) ->
    sym_plan_of true a key mode pad
                (match iv_returned urandom (p_mode sp) with Some v => Some v | None => iv end) aad None tagv
    = Ok (inv_plan sp tagv).
  Proof.
    unfold sym_plan_of. intros H Ht.
    destruct (assoc a sym_algs) as [[bb ks]|] eqn:Ea; try discriminate.
    destruct (negb (memZ (8 * zlen key) ks)) eqn:Ek; try discriminate.
    destruct ((a =? CA_RC4) && (oeqZ mode BCM_CBC || oeqZ mode BCM_ECB || oeqZ mode BCM_GCM)) eqn:Erg; try discriminate.
    destruct (negb (oeqZ mode BCM_GCM) && is_some aad) eqn:Eaad; try discriminate.
    destruct (oeqZ mode BCM_GCM && negb (is_some taglen)) eqn:Etl; try discriminate.
    simpl in H.
    destruct (a =? CA_RC4) eqn:Erc.
    - (* RC4 *)
      destruct (is_invalid (pad_step_of mode pad)) eqn:Ei; try discriminate.
      apply Ok_inj in H; subst sp; simpl in *. 
      destruct (oeqZ mode BCM_GCM) eqn:Eg; simpl.
      + rewrite Ht by reflexivity. reflexivity.
      + reflexivity.
    - destruct mode as [m|]; try discriminate.
      destruct (assoc m cipher_modes) as [tk|] eqn:Em2; try discriminate.
      destruct tk.
      + (* mode with IV *)
        destruct iv as [v|].
        * destruct (is_invalid (pad_step_of (Some m) pad)) eqn:Ei; try discriminate.
          apply Ok_inj in H; subst sp; simpl in *.
          destruct (m =? BCM_GCM) eqn:Eg; simpl in *.
          -- rewrite Ht by reflexivity. simpl. reflexivity.
          -- reflexivity.
        * destruct (is_invalid (pad_step_of (Some m) pad)) eqn:Ei; try discriminate.
          apply Ok_inj in H; subst sp; simpl in *.
          destruct (m =? BCM_GCM) eqn:Eg; simpl in *.
          -- rewrite Ht by reflexivity. simpl. reflexivity.
          -- reflexivity.
      + destruct (is_invalid (pad_step_of (Some m) pad)) eqn:Ei; try discriminate.
        apply Ok_inj in H; subst sp; simpl in *.
        destruct (m =? BCM_GCM) eqn:Eg; simpl in *.
        * rewrite Ht by reflexivity. simpl. reflexivity.
        * reflexivity.
  Qed.

  Lemma mode_val_mode dec a key mode pad iv aad taglen tag sp :
    sym_plan_of dec a key mode pad iv aad taglen tag = Ok sp ->
    mode_val (p_mode sp) <> -1 -> mode = Some (mode_val (p_mode sp)).
  Proof.
    unfold sym_plan_of. intros H.
    destruct (assoc a sym_algs) as [[bb ks]|] eqn:Ea; try discriminate.
    destruct (negb (memZ (8 * zlen key) ks)); try discriminate.
    destruct ((a =? CA_RC4) && (oeqZ mode BCM_CBC || oeqZ mode BCM_ECB || oeqZ mode BCM_GCM)) eqn:Erg; try discriminate.
    destruct (negb (oeqZ mode BCM_GCM) && is_some aad); try discriminate.
    destruct (oeqZ mode BCM_GCM && negb (if dec then is_some tag else is_some taglen)); try discriminate.
    destruct (a =? CA_RC4).
    - destruct (negb dec && is_invalid (pad_step_of mode pad)); try discriminate.
      apply Ok_inj in H; subst sp; simpl. intros X. exfalso. apply X. reflexivity.
    - destruct mode as [m|]; try discriminate.
      destruct (assoc m cipher_modes) as [tk|]; try discriminate.
      destruct tk.
      + destruct iv as [v|]; destruct dec; cbn [negb andb] in H; try discriminate;
          destruct (is_invalid (pad_step_of (Some m) pad)); cbn [negb andb] in H; try discriminate;
          apply Ok_inj in H; subst sp; cbn [p_mode];
          (destruct (oeqZ (Some m) BCM_GCM) eqn:Eg; cbn [mode_val]; auto;
           unfold oeqZ in Eg; apply Z.eqb_eq in Eg; intros _; rewrite Eg; reflexivity).
      + destruct (negb dec && is_invalid (pad_step_of (Some m) pad)); try discriminate.
        apply Ok_inj in H; subst sp; simpl. auto.
  Qed.

  Lemma pad_step_scheme mode pad :
    (oeqZ mode BCM_CBC || oeqZ mode BCM_ECB) = true -> pad_step_of mode pad <> PInvalid ->
    exists s, pad_step_of mode pad = PScheme s.
  Proof.
    unfold pad_step_of. intros ->. destruct pad as [p|]; [|congruence].
    destruct (assoc p sym_paddings); [eauto|congruence].
  Qed.

  Lemma firstn_zlen {A} (l : list A) n : 0 <= n -> zlen (firstn (Z.to_nat n) l) = Z.min n (zlen l).
  Proof. intros H. unfold zlen. rewrite firstn_length. lia. Qed.

  Lemma mode_val_inv m t : mode_val (inv_mode m t) = mode_val m.
  Proof. destruct m; reflexivity. Qed.
  Lemma mode_iv_inv m t : mode_iv urandom (inv_mode m t) = mode_iv urandom m.
  Proof. destruct m; reflexivity. Qed.

  Lemma iv_len_used bb s :
    0 <= bb -> (iv_len s = bb \/ 8 <= iv_len s) -> iv_len (IVGiven (iv_bytes urandom s)) = iv_len s.
  Proof. intros Hb H. destruct s as [v|n]; simpl in *; auto. apply urandom_len. lia. Qed.

  Local Opaque assoc2 memZ pad unpad.

  (* Decrypt (Encrypt m) = m: same parameters, the IV encryption used (supplied, or generated and returned),
     the tag it returned *)
  Theorem decrypt_inverts_encrypt_sym a key mode padm iv aad taglen msg out :
    do_encrypt E urandom a key mode padm iv aad taglen msg = ROk out ->
    do_decrypt Dp urandom a key mode padm
               (match eo_iv out with Some v => Some v | None => iv end) aad (eo_tag out) (eo_ct out) = ROk msg.
  Proof.
    unfold do_encrypt, do_decrypt. intros H.
    destruct (sym_plan_of false a key mode padm iv aad taglen None) as [e|sp] eqn:Hp; try discriminate.
    pose proof (sym_plan_shape _ _ _ _ _ _ _ _ _ _ Hp) as (Sa & Sk & Saad & Sg & Spad & Swf & (bb & ks & Eab & Sblk) & Sinv).
    specialize (Sinv eq_refl).
    pose proof (mode_val_mode _ _ _ _ _ _ _ _ _ _ Hp) as Smode.
    pose proof (block_nonneg _ _ _ Eab) as Hbb. rewrite <- Sblk in Hbb.
    unfold run_sym_encrypt, lib_sym_stage in H.
    destruct (lib_sym_ok false sp (zlen msg)) eqn:Hl;
      [|repeat match type of H with context [if ?b then _ else _] => destruct b end; discriminate].
    injection H as <-. cbn [eo_iv eo_tag eo_ct].
    set (data := match p_pad sp with PScheme s => pad s (p_block sp) msg | _ => msg end) in *.
    set (r := E (p_alg sp) (p_key sp) (mode_val (p_mode sp)) (mode_iv urandom (p_mode sp)) (p_aad sp) data) in *.
    set (tagv := match p_mode sp with MGCM _ _ mt => Some (firstn (Z.to_nat mt) (snd r)) | _ => None end).
    (* facts from the library accepting the encrypt plan *)
    unfold lib_sym_ok in Hl.
    apply andb_prop in Hl. destruct Hl as [Hl H5].
    apply andb_prop in Hl. destruct Hl as [Hl H4].
    apply andb_prop in Hl. destruct Hl as [Hl H3].
    apply andb_prop in Hl. destruct Hl as [H1 H2].
    assert (Htag : p_gcm sp = true -> is_some tagv = true).
    { intros G. unfold tagv. destruct (p_mode sp) eqn:Em; simpl in Swf; auto.
      - exfalso. rewrite G in H3. simpl in H3. discriminate.
      - destruct Swf; congruence.
      - destruct Swf; congruence. }
    change (match sym_plan_of true a key mode padm
                    (match iv_returned urandom (p_mode sp) with Some v => Some v | None => iv end) aad None tagv
            with Err e => RErr e | Ok sp0 => run_sym_decrypt Dp urandom sp0 (fst r) end = ROk msg).
    rewrite (decrypt_plan_is_inverse_plan _ _ _ _ _ _ _ _ tagv Hp Htag).
    assert (Hdata : zlen (fst r) = zlen data) by apply E_len.
    assert (Hblkpos : forall s, p_pad sp = PScheme s -> 0 < p_block sp).
    { intros s Es. rewrite Es in H4. lia. }
    assert (Hmod : (oeqZ (Some (mode_val (p_mode sp))) BCM_CBC || oeqZ (Some (mode_val (p_mode sp))) BCM_ECB) = true ->
                   zlen (fst r) mod p_block sp = 0).
    { intros Hc. rewrite Hdata.
      assert (Hne : mode_val (p_mode sp) <> -1).
      { intros Hm. rewrite Hm in Hc. vm_compute in Hc. discriminate. }
      specialize (Smode Hne).
      assert (Hs : exists s, p_pad sp = PScheme s).
      { rewrite Spad. apply pad_step_scheme; [rewrite Smode; exact Hc | rewrite <- Spad; exact Sinv]. }
      destruct Hs as [s Es]. unfold data. rewrite Es. apply pad_len_mod. eauto. }
    assert (Hunpad : match p_pad sp with
                     | PInvalid => False
                     | PNone => data = msg
                     | PScheme s => unpad s (p_block sp) data = Some msg
                     end).
    { unfold data. destruct (p_pad sp) eqn:Es; auto. apply unpad_pad. eauto. }
    unfold run_sym_decrypt, lib_sym_stage.
    assert (Hok : lib_sym_ok true (inv_plan sp tagv) (zlen (fst r)) = true).
    { unfold lib_sym_ok, inv_plan. cbn [p_alg p_key p_mode p_pad p_block p_aad p_gcm].
      rewrite mode_val_inv. rewrite H1. cbn [andb].
      repeat (apply andb_true_intro; split).
      - (* mode accepted *)
        destruct (p_mode sp) eqn:Em; cbn [inv_mode lib_mode_ok] in *; auto.
        + rewrite (iv_len_used (p_block sp)); auto. left. lia.
        + unfold tagv. try rewrite Em. cbn [olen].
          rewrite (iv_len_used (p_block sp)); auto; [|right; lia].
          rewrite firstn_zlen by lia.
          assert (zlen (snd r) = 16) by (unfold r; try rewrite Em; apply E_tag_len). lia.
      - destruct (p_gcm sp && (mode_val (p_mode sp) =? -1)) eqn:Eg; [simpl in H3; discriminate|reflexivity].
      - exact H4.
      - cbn [andb]. destruct (oeqZ (Some (mode_val (p_mode sp))) BCM_CBC || oeqZ (Some (mode_val (p_mode sp))) BCM_ECB) eqn:Ec; auto.
        rewrite Hmod by reflexivity. reflexivity. }
    rewrite Hok.
    unfold inv_plan. cbn [p_alg p_key p_mode p_pad p_block p_aad p_gcm].
    rewrite mode_val_inv, mode_iv_inv.
    assert (HD : Dp (p_alg sp) (p_key sp) (mode_val (p_mode sp)) (mode_iv urandom (p_mode sp)) (p_aad sp)
                    (mode_tag (inv_mode (p_mode sp) tagv)) (fst r) = Some data).
    { unfold r, tagv. destruct (p_mode sp) eqn:Em; cbn [inv_mode mode_tag mode_val mode_iv] in *.
      - apply law_plain. vm_compute. discriminate.
      - apply law_plain. simpl in Swf. tauto.
      - apply law_plain. simpl in Swf. tauto.
      - apply law_gcm. cbn [lib_mode_ok] in H2. lia. }
    rewrite HD.
    destruct (p_pad sp); try contradiction.
    - now rewrite Hunpad.
    - now rewrite Hunpad.
  Qed.
End Laws.

(* ------------------------------------------------------------------ GCM: tag and AAD plumbing *)
Local Opaque assoc.

Lemma gcm_plan dec a key padm iv aad taglen tag sp :
  a <> CA_RC4 ->
  sym_plan_of dec a key (Some BCM_GCM) padm iv aad taglen tag = Ok sp ->
  p_aad sp = aad /\ p_gcm sp = true /\ p_pad sp = PNone /\ p_key sp = key /\
  (dec = false -> exists s t, taglen = Some t /\ p_mode sp = MGCM s None t /\
                              (s = match iv with Some v => IVGiven v | None => IVFresh (p_block sp) end)) /\
  (dec = true -> exists v t, iv = Some v /\ tag = Some t /\ p_mode sp = MGCM (IVGiven v) (Some t) (zlen t)).
Proof.
  intros Hrc H.
  pose proof (sym_plan_shape _ _ _ _ _ _ _ _ _ _ H) as (Sa & Sk & Saad & Sg & Spad & _ & (bb & ks & Eab & Sblk) & _).
  unfold sym_plan_of in H. rewrite Eab in H.
  destruct (negb (memZ (8 * zlen key) ks)); try discriminate.
  assert (Erc : (a =? CA_RC4) = false) by lia. rewrite Erc in H. cbn [andb] in H.
  change (oeqZ (Some BCM_GCM) BCM_GCM) with true in *. cbn [negb andb] in H.
  assert (Em : assoc BCM_GCM cipher_modes = Some true) by (vm_compute; reflexivity). rewrite Em in H.
  split; [exact Saad|]. split; [rewrite Sg; reflexivity|]. split; [rewrite Spad; reflexivity|].
  split; [exact Sk|]. split.
  - intros ->. destruct taglen as [t|]; cbn [is_some negb] in H; try discriminate.
    destruct iv as [v|]; cbn in H; apply Ok_inj in H; subst sp; cbn; eauto.
  - intros ->. destruct tag as [t|]; cbn [is_some negb] in H; try discriminate.
    destruct iv as [v|]; cbn in H; try discriminate. apply Ok_inj in H; subst sp; cbn; eauto.
Qed.

Lemma aad_only_in_gcm dec a key mode padm iv aad taglen tag sp :
  sym_plan_of dec a key mode padm iv aad taglen tag = Ok sp -> is_some aad = true -> mode = Some BCM_GCM.
Proof.
  unfold sym_plan_of. intros H Ha.
  destruct (assoc a sym_algs) as [[bb ks]|]; try discriminate.
  destruct (negb (memZ (8 * zlen key) ks)); try discriminate.
  destruct ((a =? CA_RC4) && (oeqZ mode BCM_CBC || oeqZ mode BCM_ECB || oeqZ mode BCM_GCM)) eqn:Erg; try discriminate.
  rewrite Ha in H. destruct mode as [m|]; cbn in H; try discriminate.
  destruct (m =? BCM_GCM) eqn:E; cbn in H; try discriminate.
  apply Z.eqb_eq in E. now subst.
Qed.

Lemma gcm_needs_tag_length a key padm iv aad :
  sym_plan_of false a key (Some BCM_GCM) padm iv aad None None = Err InvalidField \/
  sym_plan_of false a key (Some BCM_GCM) padm iv aad None None = Err CryptographicFailure.
Proof.
  unfold sym_plan_of.
  destruct (assoc a sym_algs) as [[bb ks]|]; auto.
  destruct (negb (memZ (8 * zlen key) ks)); auto.
  destruct ((a =? CA_RC4) && _); auto.
Qed.

(* decryption releases a plaintext only after the primitive accepted exactly the supplied (iv, aad, tag, ciphertext) *)
Lemma gcm_decrypt_authenticates Dp urandom a key padm iv aad tag ct m :
  a <> CA_RC4 ->
  do_decrypt Dp urandom a key (Some BCM_GCM) padm iv aad tag ct = ROk m ->
  Dp a key BCM_GCM iv aad tag ct = Some m.
Proof.
  unfold do_decrypt. intros Hrc H.
  destruct (sym_plan_of true a key (Some BCM_GCM) padm iv aad None tag) as [e|sp] eqn:Hp; try discriminate.
  pose proof (sym_plan_shape _ _ _ _ _ _ _ _ _ _ Hp) as (Sa & _).
  destruct (gcm_plan _ _ _ _ _ _ _ _ _ Hrc Hp) as (Haad & _ & Hpad & Hkey & _ & Hd).
  destruct (Hd eq_refl) as (v & t & -> & -> & Hm).
  unfold run_sym_decrypt, lib_sym_stage in H.
  destruct (lib_sym_ok true sp (zlen ct));
    [|repeat match type of H with context [if ?b then _ else _] => destruct b end; discriminate].
  rewrite Hm, Hpad, Haad, Hkey, Sa in H. cbn in H.
  destruct (Dp a key BCM_GCM (Some v) aad (Some t) ct); try discriminate.
  injection H as ->. reflexivity.
Qed.

(* ------------------------------------------------------------------ sign / verify select the same hash and padding *)
Definition dsa_inconsistent (p : sig_params) : Prop :=
  exists d dh da, s_dsa p = Some d /\ assoc d dsa_algs = Some (dh, da) /\
    ((exists hv h, s_hash p = Some hv /\ assoc hv enc_hashes = Some h /\ h <> dh) \/
     (exists a, s_alg p = Some a /\ a <> da)).

Lemma verify_matches_sign p sp :
  sign_plan p = Ok sp -> lib_sign_ok sp = true ->
  verify_plan p = Ok sp \/ (verify_plan p = Err InvalidField /\ dsa_inconsistent p).
Proof.
  unfold sign_plan, verify_plan, lib_sign_ok. destruct p as [dsa alg hash padm loads]. cbn.
  intros H Hh.
  destruct dsa as [d|].
  - destruct (assoc d dsa_algs) as [[dh da]|] eqn:Ed; cbn in H.
    + destruct (da =? CA_RSA) eqn:Ea; cbn in H; try discriminate.
      destruct loads; cbn in H; try discriminate.
      destruct padm as [pv|]; try discriminate.
      destruct (match hash with Some hv => assoc hv enc_hashes | None => None end) as [h0|] eqn:Eh0.
      * destruct (negb (h0 =? dh)) eqn:Eneq.
        -- right. split; auto. exists d, dh, da. cbn. repeat split; auto. left.
           destruct hash as [hv|]; try discriminate. exists hv, h0. repeat split; auto. lia.
        -- destruct alg as [a0|].
           ++ destruct (negb (a0 =? da)) eqn:Ena.
              ** right. split; auto. exists d, dh, da. cbn. repeat split; auto. right. exists a0. split; auto. lia.
              ** left. cbn. rewrite Ea. cbn.
                 destruct (pv =? PM_PSS) eqn:E1; [apply Ok_inj in H; subst sp; reflexivity|].
                 destruct (pv =? PM_PKCS1v15) eqn:E2; try discriminate. apply Ok_inj in H; subst sp; reflexivity.
           ++ left. cbn. rewrite Ea. cbn.
              destruct (pv =? PM_PSS) eqn:E1; [apply Ok_inj in H; subst sp; reflexivity|].
              destruct (pv =? PM_PKCS1v15) eqn:E2; try discriminate. apply Ok_inj in H; subst sp; reflexivity.
      * destruct alg as [a0|].
        -- destruct (negb (a0 =? da)) eqn:Ena.
           ++ right. split; auto. exists d, dh, da. cbn. repeat split; auto. right. exists a0. split; auto. lia.
           ++ left. cbn. rewrite Ea. cbn.
              destruct (pv =? PM_PSS) eqn:E1; [apply Ok_inj in H; subst sp; reflexivity|].
              destruct (pv =? PM_PKCS1v15) eqn:E2; try discriminate. apply Ok_inj in H; subst sp; reflexivity.
        -- left. cbn. rewrite Ea. cbn.
           destruct (pv =? PM_PSS) eqn:E1; [apply Ok_inj in H; subst sp; reflexivity|].
           destruct (pv =? PM_PKCS1v15) eqn:E2; try discriminate. apply Ok_inj in H; subst sp; reflexivity.
    + cbn in H. discriminate.
  - destruct alg as [a0|]; cbn in H; try discriminate.
    destruct hash as [hv|]; cbn in H; try discriminate.
    destruct (a0 =? CA_RSA) eqn:Ea; cbn in H; try discriminate.
    destruct loads; cbn in H; try discriminate.
    destruct padm as [pv|]; try discriminate.
    left. cbn. rewrite Ea. cbn.
    destruct (assoc hv enc_hashes) as [h1|]; try discriminate.
    destruct (pv =? PM_PSS) eqn:E1.
    + apply Ok_inj in H; subst sp. reflexivity.
    + destruct (pv =? PM_PKCS1v15) eqn:E2; try discriminate.
      apply Ok_inj in H; subst sp. reflexivity.
Qed.

(* since fix fd6e5cc: Sign refuses a hash it has no mapping for, so every accepted plan names its hash *)
Lemma sign_plan_has_hash p sp : sign_plan p = Ok sp -> lib_sign_ok sp = true.
Proof.
  unfold sign_plan, lib_sign_ok. intros H.
  match type of H with (match ?sel with _ => _ end) = _ => destruct sel as [e|[h a]] end; try discriminate.
  destruct (negb (oeqZ a CA_RSA)); try discriminate.
  destruct (negb (s_key_loads p)); try discriminate.
  destruct (s_pad p) as [pv|]; try discriminate.
  destruct h as [h|]; try discriminate.
  destruct (pv =? PM_PSS); [apply Ok_inj in H; subst sp; reflexivity|].
  destruct (pv =? PM_PKCS1v15); try discriminate. apply Ok_inj in H; subst sp; reflexivity.
Qed.

Lemma verify_matches_sign' p sp :
  sign_plan p = Ok sp -> verify_plan p = Ok sp \/ (verify_plan p = Err InvalidField /\ dsa_inconsistent p).
Proof. intros H. apply verify_matches_sign; auto. eapply sign_plan_has_hash; eauto. Qed.

(* a digital signature algorithm and the equivalent separate (RSA, hash) parameters select the same plan *)
Lemma sign_dsa_eq_separate d h hv padm loads a0 h0 :
  assoc d dsa_algs = Some (h, CA_RSA) -> assoc hv enc_hashes = Some h ->
  sign_plan (mkSig (Some d) a0 h0 padm loads) = sign_plan (mkSig None (Some CA_RSA) (Some hv) padm loads).
Proof. intros Hd Hh. unfold sign_plan. cbn. rewrite Hd, Hh. reflexivity. Qed.

Lemma verify_dsa_eq_separate d h hv padm loads :
  assoc d dsa_algs = Some (h, CA_RSA) -> assoc hv enc_hashes = Some h ->
  verify_plan (mkSig (Some d) None None padm loads) = verify_plan (mkSig None (Some CA_RSA) (Some hv) padm loads).
Proof. intros Hd Hh. unfold verify_plan. cbn. rewrite Hd, Hh. reflexivity. Qed.

(* every entry of the generated digital-signature table names RSA and a hash of the hash table *)
Lemma dsa_table_rsa : forallb (fun e : Z * (Z * Z) => (snd (snd e) =? CA_RSA) &&
                                 existsb (fun hh : Z * Z => snd hh =? fst (snd e)) enc_hashes) dsa_algs = true.
Proof. vm_compute. reflexivity. Qed.

(* ------------------------------------------------------------------ derived length *)
Lemma derive_finish_exact len out d : 0 <= len -> derive_finish len out = Ok d -> zlen d = len.
Proof.
  unfold derive_finish. intros Hl H. destruct (zlen out <? len) eqn:E; try discriminate.
  apply Ok_inj in H. subst d. unfold zlen in *. rewrite firstn_length. lia.
Qed.

Lemma derive_finish_prefix len out d : derive_finish len out = Ok d -> exists rest, out = d ++ rest.
Proof.
  unfold derive_finish. intros H. destruct (zlen out <? len); try discriminate.
  apply Ok_inj in H. subst d. exists (skipn (Z.to_nat len) out). symmetry. apply firstn_skipn.
Qed.

Lemma derive_finish_short len out : zlen out < len -> derive_finish len out = Err CryptographicFailure.
Proof. unfold derive_finish. intros H. replace (zlen out <? len) with true by lia. reflexivity. Qed.

(* the KDF plans carry the requested length to the primitive unchanged *)
Lemma derive_plan_len p dp :
  derive_plan p = Ok dp ->
  match dp with
  | DHkdf _ len _ _ _ | DPbkdf2 _ len _ _ _ | DKbkdf _ len _ _ => len = d_len p
  | _ => True
  end.
Proof.
  unfold derive_plan. intros H.
  destruct (oeqZ (d_method p) DM_ENCRYPT).
  - destruct (negb (is_some (d_data p))); try discriminate.
    destruct (encrypt_plan _); try discriminate. apply Ok_inj in H. now subst.
  - destruct (d_hash p) as [hv|]; try discriminate.
    destruct (assoc hv enc_hashes) as [h|]; try discriminate.
    destruct (oeqZ (d_method p) DM_HMAC); [apply Ok_inj in H; now subst|].
    destruct (oeqZ (d_method p) DM_HASH).
    { destruct (d_data p), (d_key p); try discriminate; apply Ok_inj in H; now subst. }
    destruct (oeqZ (d_method p) DM_PBKDF2).
    { destruct (d_salt p); try discriminate. destruct (d_iter p); try discriminate. apply Ok_inj in H; now subst. }
    destruct (oeqZ (d_method p) DM_NIST800_108_C); try discriminate. apply Ok_inj in H; now subst.
Qed.

(* the derivation table as the code has it *)
Lemma derive_table p hv h :
  d_hash p = Some hv -> assoc hv enc_hashes = Some h ->
  (d_method p = Some DM_HMAC -> derive_plan p = Ok (DHkdf h (d_len p) (d_salt p) (d_data p) (d_key p))) /\
  (d_method p = Some DM_NIST800_108_C -> derive_plan p = Ok (DKbkdf h (d_len p) (d_data p) (d_key p))) /\
  (d_method p = Some DM_HASH -> forall x, d_data p = Some x -> d_key p = None -> derive_plan p = Ok (DHash h x)) /\
  (d_method p = Some DM_HASH -> forall x, d_data p = None -> d_key p = Some x -> derive_plan p = Ok (DHash h x)) /\
  (d_method p = Some DM_HASH -> forall x y, d_data p = Some x -> d_key p = Some y -> derive_plan p = Err InvalidField) /\
  (d_method p = Some DM_PBKDF2 -> forall s it, d_salt p = Some s -> d_iter p = Some it ->
      derive_plan p = Ok (DPbkdf2 h (d_len p) s it (d_key p))).
Proof.
  intros Hh Ha. unfold derive_plan. rewrite Hh, Ha.
  repeat split; intros Hm; rewrite Hm; cbn; intros; repeat match goal with H : _ = _ |- _ => rewrite H end; reflexivity.
Qed.

Lemma derive_encrypt_is_encrypt p :
  d_method p = Some DM_ENCRYPT -> is_some (d_data p) = true ->
  derive_plan p =
  match encrypt_plan (mkEnc (d_alg p) (match d_key p with Some k => k | None => [] end) (d_key_loads p)
                            (d_mode p) (d_pad p) (d_iv p) None None None None) with
  | Err e => Err e | Ok c => Ok (DEncrypt c) end.
Proof. intros H Hd. unfold derive_plan. rewrite H, Hd. reflexivity. Qed.

Lemma derive_encrypt_needs_data p :
  d_method p = Some DM_ENCRYPT -> d_data p = None -> derive_plan p = Err InvalidField.
Proof. intros H Hd. unfold derive_plan. rewrite H, Hd. reflexivity. Qed.

(* ------------------------------------------------------------------ acceptance characterised; no third outcome *)
Definition sym_accepts_enc (a : Z) (key : bytes) (mode padm : option Z) (aad : option bytes) (taglen : option Z) : bool :=
  match assoc a sym_algs with
  | None => false
  | Some (_, ks) =>
      memZ (8 * zlen key) ks
      && (negb (is_some aad) || oeqZ mode BCM_GCM)
      && (negb (oeqZ mode BCM_GCM) || is_some taglen)
      && ((a =? CA_RC4) || match mode with Some m => is_some (assoc m cipher_modes) | None => false end)
      && (negb (oeqZ mode BCM_CBC || oeqZ mode BCM_ECB)
          || match padm with Some p => is_some (assoc p sym_paddings) | None => false end)
  end.

(* every parameter tuple yields a KMIP error class or a plan: the model has no third outcome.
   (Where the Python can leave with a non-KMIP exception the plan exists and lib_*_ok is false: C13's concern.) *)
Lemma res_total {A} (r : res A) : (exists e, r = Err e) \/ (exists a, r = Ok a).
Proof. destruct r; eauto. Qed.

(* ------------------------------------------------------------------ no non-KMIP outcome left (fix: f8d262f..fd6e5cc) *)
(* the two remaining non-KMIP exceptions need a cipher class without block size / a cipher used without mode: RC4 *)
Lemma stage_crash_only_without_block_or_mode dec p n :
  lib_sym_stage dec p n = LCrash -> p_block p <= 0 \/ mode_val (p_mode p) = -1.
Proof.
  intros H.
  destruct (Z_le_gt_dec (p_block p) 0) as [|Hb]; [left; assumption|].
  destruct (Z.eq_dec (mode_val (p_mode p)) (-1)) as [|Hm]; [right; assumption|].
  exfalso. revert H. unfold lib_sym_stage.
  destruct (lib_sym_ok dec p n) eqn:Hok; [discriminate|].
  destruct (negb (lib_ctor_ok (p_mode p))) eqn:Hc; [discriminate|].
  assert (Hpc : lib_pad_crash p = false).
  { unfold lib_pad_crash. destruct (p_pad p); auto. lia. }
  rewrite Hpc, andb_false_r.
  destruct (negb (lib_cipher_ops_ok dec p n)) eqn:Ho; [discriminate|].
  intros _.
  (* all stages pass, so lib_sym_ok holds: contradiction *)
  apply negb_false_iff in Hc. apply negb_false_iff in Ho.
  unfold lib_cipher_ops_ok in Ho.
  apply andb_prop in Ho. destruct Ho as [Ho O4].
  apply andb_prop in Ho. destruct Ho as [Ho O3].
  apply andb_prop in Ho. destruct Ho as [O1 O2].
  assert (lib_sym_ok dec p n = true); [|congruence].
  unfold lib_sym_ok. rewrite O1, O4. cbn [andb].
  assert (Hmv : (mode_val (p_mode p) =? -1) = false) by lia. rewrite Hmv, andb_false_r. cbn [negb andb].
  rewrite andb_true_r.
  apply andb_true_intro. split.
  - apply andb_true_intro. split; [|reflexivity].
    unfold lib_mode_ok, lib_ctor_ok in *. destruct (p_mode p); auto.
    rewrite Hc. exact O2.
  - destruct (p_pad p); auto. lia.
Qed.

Lemma sym_algs_only_rc4_blockless :
  forallb (fun e : Z * (Z * list Z) => (fst e =? CA_RC4) || (0 <? fst (snd e) / 8)) sym_algs = true.
Proof. vm_compute. reflexivity. Qed.

Lemma non_rc4_plan_has_mode dec a key mode padm iv aad taglen tag sp :
  sym_plan_of dec a key mode padm iv aad taglen tag = Ok sp -> a <> CA_RC4 ->
  mode_val (p_mode sp) <> -1 /\ 0 < p_block sp.
Proof.
  intros H Hrc.
  pose proof (sym_plan_shape _ _ _ _ _ _ _ _ _ _ H) as (_ & _ & _ & _ & _ & _ & (bb & ks & Eab & Sblk) & _).
  split.
  - unfold sym_plan_of in H. rewrite Eab in H.
    destruct (negb (memZ (8 * zlen key) ks)); try discriminate.
    destruct ((a =? CA_RC4) && (oeqZ mode BCM_CBC || oeqZ mode BCM_ECB || oeqZ mode BCM_GCM)) eqn:Erg; try discriminate.
    destruct (negb (oeqZ mode BCM_GCM) && is_some aad); try discriminate.
    destruct (oeqZ mode BCM_GCM && negb (if dec then is_some tag else is_some taglen)); try discriminate.
    assert (Erc : (a =? CA_RC4) = false) by lia. rewrite Erc in H.
    destruct mode as [m|]; try discriminate.
    destruct (assoc m cipher_modes) as [tk|] eqn:Em; try discriminate.
    assert (Hm1 : m <> -1).
    { intros ->. vm_compute in Em. discriminate. }
    destruct tk.
    + destruct iv as [v|]; destruct dec; cbn [negb andb] in H; try discriminate;
        destruct (is_invalid (pad_step_of (Some m) padm)); cbn [negb andb] in H; try discriminate;
        apply Ok_inj in H; subst sp; cbn [p_mode];
        (destruct (oeqZ (Some m) BCM_GCM); cbn [mode_val]; [vm_compute; discriminate|exact Hm1]).
    + destruct (negb dec && is_invalid (pad_step_of (Some m) padm)); try discriminate.
      apply Ok_inj in H; subst sp; cbn [p_mode mode_val]. exact Hm1.
  - rewrite Sblk.
    pose proof (assoc_forallb _ _ _ _ Eab sym_algs_only_rc4_blockless) as P. cbn [fst snd] in P. lia.
Qed.

Section NoCrash.
  Variable E : Z -> bytes -> Z -> option bytes -> option bytes -> bytes -> bytes * bytes.
  Variable Dp : Z -> bytes -> Z -> option bytes -> option bytes -> option bytes -> bytes -> option bytes.
  Variable urandom : Z -> bytes.

  (* every parameter tuple and message, any algorithm but RC4: Encrypt ends in a result or a KMIP error class *)
  Lemma do_encrypt_no_crash a key mode padm iv aad taglen msg :
    a <> CA_RC4 -> do_encrypt E urandom a key mode padm iv aad taglen msg <> RCrash.
  Proof.
    intros Hrc. unfold do_encrypt.
    destruct (sym_plan_of false a key mode padm iv aad taglen None) as [e|sp] eqn:Hp; [discriminate|].
    destruct (non_rc4_plan_has_mode _ _ _ _ _ _ _ _ _ _ Hp Hrc) as [Hm Hb].
    unfold run_sym_encrypt.
    destruct (lib_sym_stage false sp (zlen msg)) eqn:Hs; try discriminate.
    apply stage_crash_only_without_block_or_mode in Hs. lia.
  Qed.

  Lemma do_decrypt_no_crash a key mode padm iv aad tag ct :
    a <> CA_RC4 -> do_decrypt Dp urandom a key mode padm iv aad tag ct <> RCrash.
  Proof.
    intros Hrc. unfold do_decrypt.
    destruct (sym_plan_of true a key mode padm iv aad None tag) as [e|sp] eqn:Hp; [discriminate|].
    destruct (non_rc4_plan_has_mode _ _ _ _ _ _ _ _ _ _ Hp Hrc) as [Hm Hb].
    unfold run_sym_decrypt.
    destruct (lib_sym_stage true sp (zlen ct)) eqn:Hs; try discriminate.
    - destruct (Dp _ _ _ _ _ _ _); try discriminate.
      destruct (p_pad sp); try discriminate.
      destruct (unpad _ _ _); discriminate.
    - apply stage_crash_only_without_block_or_mode in Hs. lia.
  Qed.

  (* a refusal by the authenticated decryptor (InvalidTag) surfaces as CryptographicFailure *)
  Lemma gcm_reject_is_cryptographic_failure a key padm iv aad tag ct sp :
    sym_plan_of true a key (Some BCM_GCM) padm iv aad None tag = Ok sp ->
    lib_sym_stage true sp (zlen ct) = LOk ->
    Dp (p_alg sp) (p_key sp) (mode_val (p_mode sp)) (mode_iv urandom (p_mode sp)) (p_aad sp) (mode_tag (p_mode sp)) ct = None ->
    do_decrypt Dp urandom a key (Some BCM_GCM) padm iv aad tag ct = RErr CryptographicFailure.
  Proof.
    intros Hp Hs Hd. unfold do_decrypt. rewrite Hp. unfold run_sym_decrypt. rewrite Hs, Hd. reflexivity.
  Qed.
End NoCrash.

Lemma kdf_stage_never_crashes dp n :
  match dp with DEncrypt _ => True | _ => lib_der_stage dp n <> LCrash end.
Proof.
  destruct dp; auto; unfold lib_der_stage;
    match goal with |- context [if ?b then _ else _] => destruct b end; discriminate.
Qed.

(* ------------------------------------------------------------------ fix 4ef300f: RC4 + CBC/ECB/GCM is InvalidField *)
Lemma rc4_plan_shape dec key mode padm iv aad taglen tag sp :
  sym_plan_of dec CA_RC4 key mode padm iv aad taglen tag = Ok sp ->
  p_mode sp = MNone /\ p_pad sp = PNone /\ p_gcm sp = false.
Proof.
  unfold sym_plan_of. intros H.
  destruct (assoc CA_RC4 sym_algs) as [[bb ks]|]; try discriminate.
  destruct (negb (memZ (8 * zlen key) ks)); try discriminate.
  rewrite Z.eqb_refl in H. cbn [andb] in H.
  destruct (oeqZ mode BCM_CBC) eqn:E1; cbn [orb] in H; try discriminate.
  destruct (oeqZ mode BCM_ECB) eqn:E2; cbn [orb] in H; try discriminate.
  destruct (oeqZ mode BCM_GCM) eqn:E3; cbn [orb negb andb] in H; try discriminate.
  destruct (is_some aad); cbn [andb] in H; try discriminate.
  unfold pad_step_of in H. rewrite E1, E2 in H. cbn in H.
  destruct dec; cbn in H; apply Ok_inj in H; subst sp; cbn; auto.
Qed.

Lemma rc4_rejects_block_modes dec key mode padm iv aad taglen tag :
  (oeqZ mode BCM_CBC || oeqZ mode BCM_ECB || oeqZ mode BCM_GCM) = true ->
  exists e, sym_plan_of dec CA_RC4 key mode padm iv aad taglen tag = Err e.
Proof.
  intros Hm. unfold sym_plan_of.
  destruct (assoc CA_RC4 sym_algs) as [[bb ks]|]; eauto.
  destruct (negb (memZ (8 * zlen key) ks)); eauto.
  rewrite Z.eqb_refl, Hm. cbn. eauto.
Qed.

Local Opaque assoc assoc2 memZ.
(* no plan that the engine's guards accept can end in a non-KMIP exception *)
Lemma plan_stage_never_crashes dec a key mode padm iv aad taglen tag sp n :
  sym_plan_of dec a key mode padm iv aad taglen tag = Ok sp -> lib_sym_stage dec sp n <> LCrash.
Proof.
  intros Hp. destruct (Z.eq_dec a CA_RC4) as [->|Hrc].
  - destruct (rc4_plan_shape _ _ _ _ _ _ _ _ _ Hp) as (Hm & Hpad & Hg).
    unfold lib_sym_stage, lib_sym_ok, lib_ctor_ok, lib_pad_crash, lib_cipher_ops_ok.
    rewrite Hm, Hpad, Hg. cbn [mode_val].
    set (K := match assoc2 (p_alg sp) (-1) lib_cipher_ok with Some ks => memZ (8 * zlen (p_key sp)) ks | None => false end).
    destruct K; destruct dec; cbn; discriminate.
  - destruct (non_rc4_plan_has_mode _ _ _ _ _ _ _ _ _ _ Hp Hrc) as [Hm Hb].
    intros Hs. apply stage_crash_only_without_block_or_mode in Hs. lia.
Qed.

Section NoCrashAtAll.
  Variable E : Z -> bytes -> Z -> option bytes -> option bytes -> bytes -> bytes * bytes.
  Variable Dp : Z -> bytes -> Z -> option bytes -> option bytes -> option bytes -> bytes -> option bytes.
  Variable urandom : Z -> bytes.

  Lemma do_encrypt_never_crashes a key mode padm iv aad taglen msg :
    do_encrypt E urandom a key mode padm iv aad taglen msg <> RCrash.
  Proof.
    unfold do_encrypt.
    destruct (sym_plan_of false a key mode padm iv aad taglen None) as [e|sp] eqn:Hp; [discriminate|].
    unfold run_sym_encrypt.
    destruct (lib_sym_stage false sp (zlen msg)) eqn:Hs; try discriminate.
    exfalso. eapply plan_stage_never_crashes; eauto.
  Qed.

  Lemma do_decrypt_never_crashes a key mode padm iv aad tag ct :
    do_decrypt Dp urandom a key mode padm iv aad tag ct <> RCrash.
  Proof.
    unfold do_decrypt.
    destruct (sym_plan_of true a key mode padm iv aad None tag) as [e|sp] eqn:Hp; [discriminate|].
    unfold run_sym_decrypt.
    destruct (lib_sym_stage true sp (zlen ct)) eqn:Hs; try discriminate.
    - destruct (Dp _ _ _ _ _ _ _); try discriminate.
      destruct (p_pad sp); try discriminate.
      destruct (unpad _ _ _); discriminate.
    - exfalso. eapply plan_stage_never_crashes; eauto.
  Qed.
End NoCrashAtAll.

(* ------------------------------------------------------------------ fix 2eb33d4: the asymmetric and signing paths *)
Section NoCrashAny.
  Variable E : Z -> bytes -> Z -> option bytes -> option bytes -> bytes -> bytes * bytes.
  Variable Dp : Z -> bytes -> Z -> option bytes -> option bytes -> option bytes -> bytes -> option bytes.
  Variable urandom : Z -> bytes.
  Variable RE RD : bytes -> asym_pad -> bytes -> option bytes.
  Variable RS : sig_plan -> bytes -> option bytes.

  Lemma crypt_plan_sym dec p sp :
    crypt_plan_of dec p = Ok (CSym sp) ->
    exists a, sym_plan_of dec a (e_key p) (e_mode p) (e_pad p) (e_iv p) (e_aad p) (e_taglen p) (e_tag p) = Ok sp.
  Proof.
    unfold crypt_plan_of. intros H.
    destruct (e_alg p) as [a|]; try discriminate.
    destruct (a =? CA_RSA).
    - destruct (asym_pad_of _ _); try discriminate. destruct (e_key_loads p); discriminate.
    - destruct (sym_plan_of dec a _ _ _ _ _ _ _) as [e|sp0] eqn:Hs; try discriminate.
      apply Ok_inj in H. injection H as <-. eauto.
  Qed.

  Lemma do_encrypt_any_never_crashes p msg : do_encrypt_any E urandom RE p msg <> RCrash.
  Proof.
    unfold do_encrypt_any. destruct (encrypt_plan p) as [e|[sp|key ap]] eqn:Hp; try discriminate.
    - destruct (crypt_plan_sym _ _ _ Hp) as [a Hs]. unfold run_sym_encrypt.
      destruct (lib_sym_stage false sp (zlen msg)) eqn:Hl; try discriminate.
      exfalso. eapply plan_stage_never_crashes; eauto.
    - destruct (RE key ap msg); discriminate.
  Qed.

  Lemma do_decrypt_any_never_crashes p ct : do_decrypt_any Dp urandom RD p ct <> RCrash.
  Proof.
    unfold do_decrypt_any. destruct (decrypt_plan p) as [e|[sp|key ap]] eqn:Hp; try discriminate.
    - destruct (crypt_plan_sym _ _ _ Hp) as [a Hs]. unfold run_sym_decrypt.
      destruct (lib_sym_stage true sp (zlen ct)) eqn:Hl; try discriminate.
      + destruct (Dp _ _ _ _ _ _ _); try discriminate.
        destruct (p_pad sp); try discriminate. destruct (unpad _ _ _); discriminate.
      + exfalso. eapply plan_stage_never_crashes; eauto.
    - destruct (RD key ap ct); discriminate.
  Qed.

  Lemma do_sign_never_crashes p msg : do_sign RS p msg <> RCrash.
  Proof. unfold do_sign. destruct (sign_plan p); try discriminate. destruct (RS a msg); discriminate. Qed.
End NoCrashAny.
