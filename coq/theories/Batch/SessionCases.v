(* C08 - comparator for the session-layer correspondence: the same requests sent as bytes
   through the real KmipSession, with a Maximum Response Size in the header. *)
From Coq Require Import ZArith List Bool.
From PK Require Export Batch.Cases Batch.Session.
Import ListNotations.
Open Scope Z_scope.

Inductive observed_answer :=
| OError (e : rerr)
| OTooLarge
| OResults (rs : list (Z * option (list Z) * bool)).

Record scase := {
  s_store : store; s_hdr : header; s_items : list (item body);
  s_max : option Z;                 (* Maximum Response Size of the request header *)
  s_size : Z;                       (* bytes the real encoder produced for the engine's response (oracle input) *)
  s_answer : observed_answer;       (* decoded from the bytes the session sent *)
  s_final : store }.

Definition check_scase (c : scase) : bool :=
  match session_answer (s_store c) (s_hdr c) (s_max c) (s_size c) (s_items c), s_answer c with
  | (AError e, st'), OError e' => rerr_eqb e e' && store_eqb st' (s_final c)
  | (ATooLarge, st'), OTooLarge => store_eqb st' (s_final c)
  | (AResults rs, st'), OResults rs' =>
      list_eqb res_eqb (map (fun r => (r_op r, r_bid r, r_ok r)) rs) rs' && store_eqb st' (s_final c)
  | _, _ => false
  end.

Definition smodel_says (c : scase) := session_answer (s_store c) (s_hdr c) (s_max c) (s_size c) (s_items c).
