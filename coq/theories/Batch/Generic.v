(* C08 - generic model of KmipEngine.process_request / _process_batch
   (kmip/services/server/engine.py l.189-445), definitions only.

   The per-item handler is a parameter: everything proved in GenericProofs.v holds for
   any handler that satisfies the frame hypothesis "a failing item leaves the in-batch
   state and the ID placeholder as they were"; Store.v gives the concrete handlers and
   StoreProofs.v discharges that hypothesis for them. *)
From Coq Require Import ZArith List Bool.
Import ListNotations.
Open Scope Z_scope.

(* ---- request header, as far as process_request looks at it ---- *)
Record header := {
  h_ver   : Z * Z;            (* protocol version (major, minor) *)
  h_now   : Z;                (* int(time.time()) when the request is processed *)
  h_ts    : option Z;         (* header time stamp *)
  h_async : option bool;      (* asynchronous indicator *)
  h_opt   : option Z;         (* batch error continuation option: 1 Continue, 2 Stop, 3 Undo *)
  h_order : option bool;      (* batch order option (read, never used) *)
  h_user  : Z                 (* identity established by the session *)
}.

Definition supported_versions : list (Z * Z) := [(2,0); (1,4); (1,3); (1,2); (1,1); (1,0)].
Definition ver_eqb (a b : Z * Z) : bool := (fst a =? fst b) && (snd a =? snd b).
Definition ver_supported (v : Z * Z) : bool := existsb (ver_eqb v) supported_versions.
(* contents.ProtocolVersion ordering *)
Definition ver_ge (a b : Z * Z) : bool := (fst b <? fst a) || ((fst a =? fst b) && (snd b <=? snd a)).

(* request-level errors: raised by process_request, no response batch at all *)
Inductive rerr := EVersion | EFuture | EStale | EAsync | EUndo | ENoBid.

Definition rerr_eqb (a b : rerr) : bool :=
  match a, b with
  | EVersion, EVersion | EFuture, EFuture | EStale, EStale
  | EAsync, EAsync | EUndo, EUndo | ENoBid, ENoBid => true
  | _, _ => false
  end.

(* _build_response l.319-329: the response header announces exactly the results the response carries *)
Definition response_batch_count {A} (rs : list A) : Z := Z.of_nat (length rs).

(* the checks of process_request, in source order (l.216, 229-262, 272-279, 293-300) *)
Definition check_header (h : header) : option rerr :=
  if negb (ver_supported (h_ver h)) then Some EVersion else
  match (match h_ts h with
         | None => None
         | Some t => if (t <=? h_now h) && (h_now h - t <? 60) then None
                     else if h_now h <? t then Some EFuture else Some EStale
         end) with
  | Some e => Some e
  | None =>
    if (match h_async h with Some true => true | _ => false end) then Some EAsync else
    if (match h_opt h with Some 3 => true | _ => false end) then Some EUndo else None
  end.

(* Stop is the default; only an explicit Continue continues *)
Definition continues (h : header) : bool := match h_opt h with Some 1 => true | _ => false end.

Section Batch.
  Variable St : Type.      (* in-batch server state: the database session *)
  Variable Store : Type.   (* what survives the request: the committed store *)
  Variable I : Type.       (* item payload *)
  Variable open_session : Store -> St.
  Variable close_session : St -> Store.

  Record item := { it_op : Z; it_bid : option (list Z); it_body : I }.

  Inductive outcome := OK | Fail (reason : Z).
  Definition is_ok (o : outcome) : bool := match o with OK => true | Fail _ => false end.

  (* handle header state placeholder item = (outcome, state', placeholder') *)
  Variable handle : header -> St -> option Z -> item -> outcome * St * option Z.

  Record result := { r_op : Z; r_bid : option (list Z); r_ok : bool; r_reason : Z }.
  Definition mk_result (it : item) (o : outcome) : result :=
    {| r_op := it_op it; r_bid := it_bid it; r_ok := is_ok o;
       r_reason := match o with OK => 0 | Fail r => r end |}.

  (* the batch item ID check, l.362-367: before any item is processed *)
  Definition check_ids (its : list item) : option rerr :=
    if (1 <? Z.of_nat (length its)) && existsb (fun it => match it_bid it with None => true | Some _ => false end) its
    then Some ENoBid else None.

  (* the loop l.372-443 *)
  Fixpoint run (h : header) (cont : bool) (s : St) (p : option Z) (its : list item)
    : list result * St * option Z :=
    match its with
    | [] => ([], s, p)
    | it :: rest =>
        let '(o, s1, p1) := handle h s p it in
        let r := mk_result it o in
        if negb (is_ok o) && negb cont then ([r], s1, p1)
        else let '(rs, s2, p2) := run h cont s1 p1 rest in (r :: rs, s2, p2)
    end.

  (* executing a list of items one after the other, whatever they answer *)
  Fixpoint exec (h : header) (s : St) (p : option Z) (its : list item) : St * option Z :=
    match its with
    | [] => (s, p)
    | it :: rest => let '(_, s1, p1) := handle h s p it in exec h s1 p1 rest
    end.

  Definition process_request (st : Store) (h : header) (its : list item)
    : (rerr + list result) * Store :=
    match check_header h with
    | Some e => (inl e, st)
    | None =>
      match check_ids its with
      | Some e => (inl e, st)
      | None =>
        (* l.212: the placeholder is reset; l.369: a new session for the batch *)
        let '(rs, s', _) := run h (continues h) (open_session st) None its in
        (inr rs, close_session s')
      end
    end.

  (* the items whose result says success *)
  Fixpoint succeeded (its : list item) (rs : list result) : list item :=
    match its, rs with
    | it :: its', r :: rs' => if r_ok r then it :: succeeded its' rs' else succeeded its' rs'
    | _, _ => []
    end.
  (* the items (resp. results) selected by a predicate on (item, its result) *)
  Fixpoint kept (keep : item -> result -> bool) (its : list item) (rs : list result) : list item :=
    match its, rs with
    | it :: its', r :: rs' => if keep it r then it :: kept keep its' rs' else kept keep its' rs'
    | _, _ => []
    end.
  Fixpoint kept_results (keep : item -> result -> bool) (its : list item) (rs : list result) : list result :=
    match its, rs with
    | it :: its', r :: rs' => if keep it r then r :: kept_results keep its' rs' else kept_results keep its' rs'
    | _, _ => []
    end.
End Batch.

Arguments it_op {I}. Arguments it_bid {I}. Arguments it_body {I}.
Arguments Build_item {I}.
