(* C08 - concrete small model of the store, the per-batch database session and the
   handlers of kmip/services/server/engine.py that matter for "failed items leave no
   trace": every handler is written in the order of the Python: guards (each `raise`)
   then mutation of the loaded object then commit.  Definitions only.

   What is abstracted: key material, attribute values other than the ones below,
   operation policies other than `default` (only the owner may touch an object; the
   harness keeps to object types for which `default` has no ALLOW_ALL entry), result
   payloads, result messages.  Names / groups are numbers. *)
From Coq Require Import ZArith List Bool.
From PK Require Import Batch.Generic.
Import ListNotations.
Open Scope Z_scope.

(* ---- stored objects ---- *)
Record obj := {
  o_uid : Z; o_owner : Z; o_kind : Z (* enums.ObjectType *); o_state : Z (* enums.State, 0 = no state column *);
  o_names : list Z; o_groups : list Z; o_sens : bool }.

Record store := { objs : list obj (* uid order *); next : Z (* next unique identifier, sqlite_sequence + 1 *) }.

(* The SQLAlchemy session shared by all items of a batch (engine.py l.369-370):
   `working` is what queries of this session see (identity map + autoflush),
   `committed` is what the database file holds.  commit() publishes the WHOLE working
   state - including anything an earlier item left dirty. *)
Record session := { committed : store; working : store }.
Definition open_session (st : store) : session := {| committed := st; working := st |}.
Definition close_session (s : session) : store := committed s.

Definition K_SYM := 2. Definition K_TEMPLATE := 6. Definition K_SECRET := 7. Definition K_OPAQUE := 8.
Definition S_PRE := 1. Definition S_ACTIVE := 2. Definition S_DEACT := 3.
Definition S_COMP := 4. Definition S_DESTROYED := 5. Definition S_DESTROYED_COMP := 6.

(* hasattr(managed_object, 'state'): everything but OpaqueObject *)
Definition stateful (o : obj) : bool := negb (o_kind o =? K_OPAQUE).
(* _object_map.get(object_type) is not None *)
Definition kind_registrable (k : Z) : bool := existsb (Z.eqb k) [1; 2; 3; 4; 5; 7; 8].

Definition lookup (u : Z) (st : store) : option obj := find (fun o => o_uid o =? u) (objs st).
Definition replace (o' : obj) (st : store) : store :=
  {| objs := map (fun o => if o_uid o =? o_uid o' then o' else o) (objs st); next := next st |}.
Definition remove (u : Z) (st : store) : store :=
  {| objs := filter (fun o => negb (o_uid o =? u)) (objs st); next := next st |}.
Definition insert (o : obj) (st : store) : store := {| objs := objs st ++ [o]; next := next st + 1 |}.

Definition set_state (o : obj) (s : Z) : obj :=
  {| o_uid := o_uid o; o_owner := o_owner o; o_kind := o_kind o; o_state := s;
     o_names := o_names o; o_groups := o_groups o; o_sens := o_sens o |}.
Definition set_names (o : obj) (l : list Z) : obj :=
  {| o_uid := o_uid o; o_owner := o_owner o; o_kind := o_kind o; o_state := o_state o;
     o_names := l; o_groups := o_groups o; o_sens := o_sens o |}.
Definition set_groups (o : obj) (l : list Z) : obj :=
  {| o_uid := o_uid o; o_owner := o_owner o; o_kind := o_kind o; o_state := o_state o;
     o_names := o_names o; o_groups := l; o_sens := o_sens o |}.
Definition set_sens (o : obj) (b : bool) : obj :=
  {| o_uid := o_uid o; o_owner := o_owner o; o_kind := o_kind o; o_state := o_state o;
     o_names := o_names o; o_groups := o_groups o; o_sens := b |}.

Fixpoint set_nth (n : nat) (v : Z) (l : list Z) : list Z :=
  match l, n with
  | [], _ => []
  | _ :: r, O => v :: r
  | x :: r, S k => x :: set_nth k v r
  end.
Fixpoint del_nth (n : nat) (l : list Z) : list Z :=
  match l, n with
  | [], _ => []
  | _ :: r, O => r
  | x :: r, S k => x :: del_nth k r
  end.
Definition zlen {A} (l : list A) : Z := Z.of_nat (length l).
Definition in_range (i : Z) (l : list Z) : bool := (0 <=? i) && (i <? zlen l).
Fixpoint has_dup (l : list Z) : bool :=
  match l with [] => false | x :: r => existsb (Z.eqb x) r || has_dup r end.

(* ---- result reasons (enums.ResultReason) ---- *)
Definition R_NOT_FOUND := 1. Definition R_PERM := 12. Definition R_ILLEGAL := 11. Definition R_INVALID_FIELD := 7.
Definition R_NOT_SUPPORTED := 5. Definition R_GENERAL := 256. Definition R_ATTR := 29 (* stands for the attribute-specific refusals *).

(* ---- request items ---- *)
Inductive attr := AName | AGroup | ASens | AAlg | AUnknown.

Inductive body :=
| BCreate (sym unsup has_alg has_len has_mask len_ok : bool) (names groups : list Z) (sens : option bool)
| BRegister (kind : Z) (unsup inapplicable : bool) (names groups : list Z)
| BGet (tgt : option Z)                   (* Get / GetAttributes / GetAttributeList *)
| BActivate (tgt : option Z)
| BRevoke (tgt : option Z) (compromise : bool)
| BDestroy (tgt : option Z)
| BModify (tgt : option Z) (a : attr) (idx : option Z) (v : Z)
| BSet (tgt : option Z) (a : attr) (v : Z)
| BDelete (tgt : option Z) (a : attr) (idx : option Z)
| BReadOnly (minver : Z * Z)              (* Query, Locate (1.0), DiscoverVersions (1.1): the version decorator *)
| BUnsupported                            (* an operation _process_operation does not know *)
(* Handlers whose guards are not modelled: whether all guards passed is an oracle input
   (`ok`, taken from the implementation's answer); the model states the EFFECT in either case. *)
| BKeyPair (ok : bool) (pub_names priv_names : list Z)   (* CreateKeyPair: public key, then private key, one commit *)
| BDerive (ok : bool) (kind : Z) (names : list Z)        (* DeriveKey: one new symmetric key / secret data *)
| BOpaqueRO (ok : bool).                  (* operations that only read: Encrypt, Decrypt, Sign, SignatureVerify, MAC, Locate filters, Get variants *)

(* What a handler does to the working state of the session. *)
Inductive hres :=
| HOk (w : store) (commit : bool) (pl : option Z)   (* pl = Some u: the ID placeholder is set to u *)
| HFail (reason : Z) (w : store).                   (* an exception; w = the working state it leaves behind *)

(* _get_object_with_access_controls for the `default` policy: not found, then denied *)
Definition fetch (user : Z) (tgt pl : option Z) (w : store) : Z + obj :=
  match (match tgt with Some u => Some u | None => pl end) with
  | None => inl R_NOT_FOUND
  | Some u =>
      match lookup u w with
      | None => inl R_NOT_FOUND
      | Some o => if o_owner o =? user then inr o else inl R_PERM
      end
  end.

(* _set_attribute_on_managed_object, single-valued branch, for Sensitive *)
Definition put_sens (o : obj) (v : bool) : option obj :=
  if o_sens o then (if Bool.eqb v true then Some o else None) else Some (set_sens o v).

Definition multi (a : attr) : bool := match a with AName | AGroup => true | _ => false end.
Definition get_multi (a : attr) (o : obj) : list Z := match a with AName => o_names o | _ => o_groups o end.
Definition put_multi (a : attr) (o : obj) (l : list Z) : obj := match a with AName => set_names o l | _ => set_groups o l end.

(* KMIP 2.0 carries attributes without an Attribute Index (payloads convert the template into an
   Attributes structure); _process_template_attribute l.582 then refuses the second instance of a
   multi-valued attribute: "Attribute index missing from multivalued attribute." *)
Definition no_index_form (h : header) (names groups : list Z) : bool :=
  ver_ge (h_ver h) (2,0) && ((1 <? zlen names) || (1 <? zlen groups)).

Definition h_create (h : header) (w : store) (sym unsup has_alg has_len has_mask len_ok : bool)
           (names groups : list Z) (sens : option bool) : hres :=
  if negb sym then HFail R_INVALID_FIELD w else
  if unsup || (match sens with Some _ => negb (ver_ge (h_ver h) (1,4)) | None => false end) then HFail R_INVALID_FIELD w else
  if no_index_form h names groups then HFail R_INVALID_FIELD w else
  if negb has_alg then HFail R_INVALID_FIELD w else
  if negb has_len then HFail R_INVALID_FIELD w else
  if negb has_mask then HFail R_INVALID_FIELD w else
  if negb len_ok then HFail R_INVALID_FIELD w else
  (* attributes are set on a transient object; it is added to the session only afterwards *)
  if has_dup names then HFail R_INVALID_FIELD w else
  let o := {| o_uid := next w; o_owner := h_user h; o_kind := K_SYM; o_state := S_PRE; o_names := names;
              o_groups := groups; o_sens := match sens with Some b => b | None => false end |} in
  HOk (insert o w) true (Some (next w)).

Definition h_register (h : header) (w : store) (kind : Z) (unsup inapplicable : bool) (names groups : list Z) : hres :=
  if negb (kind_registrable kind) then HFail R_INVALID_FIELD w else
  if unsup then HFail R_INVALID_FIELD w else
  if no_index_form h names groups then HFail R_INVALID_FIELD w else
  if inapplicable then HFail R_INVALID_FIELD w else
  if has_dup names then HFail R_INVALID_FIELD w else
  let o := {| o_uid := next w; o_owner := h_user h; o_kind := kind;
              o_state := if kind =? K_OPAQUE then 0 else S_PRE; o_names := names; o_groups := groups; o_sens := false |} in
  HOk (insert o w) true (Some (next w)).

Definition h_get (h : header) (w : store) (pl tgt : option Z) : hres :=
  match fetch (h_user h) tgt pl w with
  | inl r => HFail r w
  | inr _ => HOk w false None
  end.

Definition h_activate (h : header) (w : store) (pl tgt : option Z) : hres :=
  match fetch (h_user h) tgt pl w with
  | inl r => HFail r w
  | inr o =>
      if negb (stateful o) then HFail R_ILLEGAL w else
      if negb (o_state o =? S_PRE) then HFail R_PERM w else
      HOk (replace (set_state o S_ACTIVE) w) true None
  end.

Definition h_revoke (h : header) (w : store) (pl tgt : option Z) (compromise : bool) : hres :=
  match fetch (h_user h) tgt pl w with
  | inl r => HFail r w
  | inr o =>
      if negb (stateful o) then HFail R_ILLEGAL w else
      if compromise then
        HOk (replace (set_state o (if o_state o =? S_DESTROYED then S_DESTROYED_COMP else S_COMP)) w) true None
      else if negb (o_state o =? S_ACTIVE) then HFail R_ILLEGAL w
      else HOk (replace (set_state o S_DEACT) w) true None
  end.

Definition h_destroy (h : header) (w : store) (pl tgt : option Z) : hres :=
  match fetch (h_user h) tgt pl w with
  | inl r => HFail r w
  | inr o =>
      if stateful o && (o_state o =? S_ACTIVE) then HFail R_PERM w else
      HOk (remove (o_uid o) w) true None
  end.

(* _process_modify_attribute.  KMIP 1.x form: attribute name, optional index, value.
   Under KMIP 2.0 the harness sends NewAttribute without CurrentAttribute. *)
Definition h_modify (h : header) (w : store) (pl tgt : option Z) (a : attr) (idx : option Z) (v : Z) : hres :=
  match fetch (h_user h) tgt pl w with
  | inl r => HFail r w
  | inr o =>
      match a with
      | AUnknown => HFail R_GENERAL w                    (* the rule table has no entry: AttributeError *)
      | AAlg => HFail R_PERM w                           (* not modifiable by the client *)
      | AName | AGroup =>
          if ver_ge (h_ver h) (2,0) then HFail R_ATTR w   (* multivalued and no current attribute given *)
          else
            let i := match idx with Some i => i | None => 0 end in
            if in_range i (get_multi a o)
            then HOk (replace (put_multi a o (set_nth (Z.to_nat i) v (get_multi a o))) w) true None
            else HFail R_NOT_FOUND w
      | ASens =>
          if negb (ver_ge (h_ver h) (2,0)) &&
             ((match idx with Some _ => true | None => false end) || negb (ver_ge (h_ver h) (1,4)))
          then HFail R_INVALID_FIELD w
          else match put_sens o (negb (v =? 0)) with
               | None => HFail R_INVALID_FIELD w
               | Some o' => HOk (replace o' w) true None
               end
      end
  end.

(* _process_set_attribute (KMIP 2.0 only; the version decorator runs before anything else) *)
Definition h_set (h : header) (w : store) (pl tgt : option Z) (a : attr) (v : Z) : hres :=
  if negb (ver_ge (h_ver h) (2,0)) then HFail R_NOT_SUPPORTED w else
  match fetch (h_user h) tgt pl w with
  | inl r => HFail r w
  | inr o =>
      match a with
      | AUnknown => HFail R_GENERAL w
      | AName | AGroup => HFail R_ATTR w
      | AAlg => HFail R_ATTR w
      | ASens => match put_sens o (negb (v =? 0)) with
                 | None => HFail R_INVALID_FIELD w
                 | Some o' => HOk (replace o' w) true None
                 end
      end
  end.

(* _process_delete_attribute + _delete_attribute_from_managed_object.
   1.x: name + optional index; 2.0: attribute reference = delete every instance. *)
Definition h_delete (h : header) (w : store) (pl tgt : option Z) (a : attr) (idx : option Z) : hres :=
  match fetch (h_user h) tgt pl w with
  | inl r => HFail r w
  | inr o =>
      match a with
      | AUnknown => HFail R_GENERAL w
      | AAlg | ASens => HFail R_PERM w                  (* index out of range, not applicable or not deletable *)
      | AName | AGroup =>
          if ver_ge (h_ver h) (2,0) then HOk (replace (put_multi a o []) w) true None
          else
            let i := match idx with Some i => i | None => 0 end in
            if in_range i (get_multi a o)
            then HOk (replace (put_multi a o (del_nth (Z.to_nat i) (get_multi a o))) w) true None
            else HFail R_NOT_FOUND w
      end
  end.

Definition K_PUBLIC := 3. Definition K_PRIVATE := 4.

Definition new_obj (h : header) (u kind : Z) (names : list Z) : obj :=
  {| o_uid := u; o_owner := h_user h; o_kind := kind; o_state := S_PRE; o_names := names; o_groups := []; o_sens := false |}.

(* _process_create_key_pair l.1580-1603: both objects are added, one commit, the placeholder is the PRIVATE key *)
Definition h_keypair (h : header) (w : store) (ok : bool) (pub_names priv_names : list Z) : hres :=
  if negb ok then HFail R_INVALID_FIELD w else
  HOk (insert (new_obj h (next w + 1) K_PRIVATE priv_names) (insert (new_obj h (next w) K_PUBLIC pub_names) w)) true (Some (next w + 1)).

(* _process_derive_key l.2187-2199 *)
Definition h_derive (h : header) (w : store) (ok : bool) (kind : Z) (names : list Z) : hres :=
  if negb ok then HFail R_INVALID_FIELD w else
  HOk (insert (new_obj h (next w) kind names) w) true (Some (next w)).

Definition dispatch (h : header) (w : store) (pl : option Z) (b : body) : hres :=
  match b with
  | BCreate sym unsup a l m lok names groups sens => h_create h w sym unsup a l m lok names groups sens
  | BRegister k unsup inap names groups => h_register h w k unsup inap names groups
  | BGet tgt => h_get h w pl tgt
  | BActivate tgt => h_activate h w pl tgt
  | BRevoke tgt c => h_revoke h w pl tgt c
  | BDestroy tgt => h_destroy h w pl tgt
  | BModify tgt a idx v => h_modify h w pl tgt a idx v
  | BSet tgt a v => h_set h w pl tgt a v
  | BDelete tgt a idx => h_delete h w pl tgt a idx
  | BReadOnly mv => if ver_ge (h_ver h) mv then HOk w false None else HFail R_NOT_SUPPORTED w
  | BUnsupported => HFail R_NOT_SUPPORTED w
  | BKeyPair ok pn vn => h_keypair h w ok pn vn
  | BDerive ok k names => h_derive h w ok k names
  | BOpaqueRO ok => if ok then HOk w false None else HFail R_GENERAL w
  end.

(* What SQLAlchemy makes of it: the handler works on the session; commit() publishes the
   whole working state.  Since 52cb625 _process_batch calls session.rollback() after an item
   that failed (engine.py l.423-426): whatever the handler left in the working state is
   discarded, the session shows the committed store again. *)
Definition lift (r : hres) (s : session) (pl : option Z) : outcome * session * option Z :=
  match r with
  | HOk w c p' =>
      (OK, {| committed := if c then w else committed s; working := w |},
       match p' with Some u => Some u | None => pl end)
  | HFail reason w => (Fail reason, {| committed := committed s; working := committed s |}, pl)
  end.

(* the same before 52cb625: an exception left the working state as the handler left it *)
Definition lift_without_rollback (r : hres) (s : session) (pl : option Z) : outcome * session * option Z :=
  match r with
  | HFail reason w => (Fail reason, {| committed := committed s; working := w |}, pl)
  | _ => lift r s pl
  end.

Definition handle (h : header) (s : session) (pl : option Z) (it : item body) : outcome * session * option Z :=
  lift (dispatch h (working s) pl (it_body it)) s pl.

Definition process := process_request session store body open_session close_session handle.
Definition run_batch := run session body handle.

(* ---- what the code would look like if a guard came after the mutation: the model can
        express the defect the property is about (used for a non-vacuity example) ---- *)
Definition h_activate_late_guard (h : header) (w : store) (pl tgt : option Z) : hres :=
  match fetch (h_user h) tgt pl w with
  | inl r => HFail r w
  | inr o =>
      let w' := replace (set_state o S_ACTIVE) w in
      if negb (o_state o =? S_PRE) then HFail R_PERM w' else HOk w' true None
  end.
Definition handle_late_with (lf : hres -> session -> option Z -> outcome * session * option Z)
           (h : header) (s : session) (pl : option Z) (it : item body) : outcome * session * option Z :=
  match it_body it with
  | BActivate tgt => lf (h_activate_late_guard h (working s) pl tgt) s pl
  | b => lf (dispatch h (working s) pl b) s pl
  end.
Definition handle_late := handle_late_with lift.                                  (* late guard, batch loop of today *)
Definition handle_late_without_rollback := handle_late_with lift_without_rollback. (* late guard, batch loop before 52cb625 *)
