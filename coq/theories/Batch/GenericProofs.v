(* C08 - theorems about the batch loop, for ANY handler that satisfies the frame
   hypothesis (a failing item leaves the in-batch state and the placeholder unchanged).
   StoreProofs.v discharges the hypothesis for the concrete handlers. *)
From Coq Require Import ZArith List Bool Lia.
From PK Require Import Batch.Generic.
Import ListNotations.
Open Scope Z_scope.

Section Proofs.
  Variables St Store I : Type.
  Variable open_session : Store -> St.
  Variable close_session : St -> Store.
  Variable handle : header -> St -> option Z -> item I -> outcome * St * option Z.

  Notation run := (run St I handle).
  Notation exec := (exec St I handle).
  Notation process_request := (process_request St Store I open_session close_session handle).
  Notation mk_result := (mk_result I).
  Notation succeeded := (succeeded I).
  Notation check_ids := (check_ids I).

  Definition echo_r (r : result) := (r_op r, r_bid r).
  Definition echo_i (it : item I) := (it_op it, it_bid it).

  Lemma echo_mk : forall it o, echo_r (mk_result it o) = echo_i it.
  Proof. reflexivity. Qed.

  Lemma ok_mk : forall it o, r_ok (mk_result it o) = is_ok o.
  Proof. reflexivity. Qed.

  (* ---------- results_prefix ---------- *)
  Lemma run_prefix : forall h c its s p rs s' p',
      run h c s p its = (rs, s', p') ->
      (length rs <= length its)%nat /\
      map echo_r rs = map echo_i (firstn (length rs) its).
  Proof.
    induction its as [|it rest IH]; intros s p rs s' p' H; simpl in H.
    - inversion H; subst. simpl. split; [lia|reflexivity].
    - destruct (handle h s p it) as [[o s1] p1] eqn:Hh.
      destruct (negb (is_ok o) && negb c) eqn:Hstop.
      + inversion H; subst. simpl. split; [lia|]. now rewrite echo_mk.
      + destruct (run h c s1 p1 rest) as [[rs2 s2] p2] eqn:Hr.
        inversion H; subst. destruct (IH _ _ _ _ _ Hr) as [Hl He].
        simpl. split; [lia|]. now rewrite echo_mk, He.
  Qed.

  Lemma run_nth : forall h c its s p rs s' p' i r,
      run h c s p its = (rs, s', p') -> nth_error rs i = Some r ->
      exists it, nth_error its i = Some it /\ r_op r = it_op it /\ r_bid r = it_bid it.
  Proof.
    intros h c its s p rs s' p' i r H Hn.
    destruct (run_prefix _ _ _ _ _ _ _ _ H) as [Hl He].
    assert (Hi : (i < length rs)%nat) by (apply nth_error_Some; congruence).
    assert (Hm : nth_error (map echo_r rs) i = Some (echo_r r)) by (now apply map_nth_error).
    rewrite He in Hm.
    destruct (nth_error (firstn (length rs) its) i) as [it|] eqn:Hf.
    - rewrite (map_nth_error _ _ _ Hf) in Hm. inversion Hm as [Hq].
      exists it. split.
      + rewrite <- (firstn_skipn (length rs) its).
        rewrite nth_error_app1; [assumption|]. apply nth_error_Some. congruence.
      + unfold echo_i, echo_r in Hq. inversion Hq. auto.
    - apply nth_error_None in Hf. rewrite firstn_length in Hf. lia.
  Qed.

  (* ---------- stop_on_first_failure ---------- *)
  Lemma run_continue_all : forall h its s p rs s' p',
      run h true s p its = (rs, s', p') -> length rs = length its.
  Proof.
    induction its as [|it rest IH]; intros s p rs s' p' H; simpl in H.
    - now inversion H.
    - destruct (handle h s p it) as [[o s1] p1].
      rewrite andb_false_r in H.
      destruct (run h true s1 p1 rest) as [[rs2 s2] p2] eqn:Hr.
      inversion H; subst. simpl. f_equal. eauto.
  Qed.

  Lemma run_stop_shape : forall h its s p rs s' p',
      run h false s p its = (rs, s', p') ->
      (forallb r_ok rs = true /\ length rs = length its) \/
      (exists pre r, rs = pre ++ [r] /\ forallb r_ok pre = true /\ r_ok r = false /\ (length rs <= length its)%nat).
  Proof.
    induction its as [|it rest IH]; intros s p rs s' p' H; simpl in H.
    - inversion H; subst. left. auto.
    - destruct (handle h s p it) as [[o s1] p1] eqn:Hh.
      rewrite andb_true_r in H.
      destruct (is_ok o) eqn:Hok; simpl in H.
      + destruct (run h false s1 p1 rest) as [[rs2 s2] p2] eqn:Hr.
        inversion H; subst.
        destruct (IH _ _ _ _ _ Hr) as [[Ha Hl]|[pre [r [He [Hp [Hf Hl]]]]]].
        * left. simpl. rewrite Hok, Ha. split; [reflexivity|lia].
        * right. exists (mk_result it o :: pre), r. subst rs2. simpl.
          rewrite Hok, Hp. repeat split; auto. rewrite app_length in *. simpl in *. lia.
      + inversion H; subst. right. exists [], (mk_result it o). simpl.
        rewrite Hok. repeat split; auto. lia.
  Qed.

  (* ---------- every executed item is reported: the final state is the effect of exactly
                the items that have a result ---------- *)
  Lemma run_exec : forall h c its s p rs s' p',
      run h c s p its = (rs, s', p') -> exec h s p (firstn (length rs) its) = (s', p').
  Proof.
    induction its as [|it rest IH]; intros s p rs s' p' H; simpl in H.
    - inversion H; subst. reflexivity.
    - destruct (handle h s p it) as [[o s1] p1] eqn:Hh.
      destruct (negb (is_ok o) && negb c).
      + inversion H; subst. simpl. now rewrite Hh.
      + destruct (run h c s1 p1 rest) as [[rs2 s2] p2] eqn:Hr.
        inversion H; subst. simpl. rewrite Hh. eauto.
  Qed.

  (* ---------- with the frame hypothesis ----------
     Inv is an invariant of the in-batch state (concretely: the session carries no unpublished
     change); a failing item met in such a state leaves state and placeholder as they were. *)
  Variable Inv : St -> Prop.
  Hypothesis inv_step : forall h s p it o s' p', Inv s -> handle h s p it = (o, s', p') -> Inv s'.
  Hypothesis handle_fail_frame : forall h s p it r s' p',
      Inv s -> handle h s p it = (Fail r, s', p') -> s' = s /\ p' = p.

  Lemma succeeded_nil_r : forall its, succeeded its [] = [].
  Proof. destruct its; reflexivity. Qed.

  (* failed items do not disturb the others: the batch without them gives the same
     answers for the remaining items, the same final state and the same placeholder *)
  Lemma run_without_failed : forall h c its s p rs s' p',
      Inv s -> run h c s p its = (rs, s', p') ->
      run h c s p (succeeded its rs) = (filter r_ok rs, s', p').
  Proof.
    induction its as [|it rest IH]; intros s p rs s' p' Hinv H; simpl in H.
    - inversion H; subst. reflexivity.
    - destruct (handle h s p it) as [[o s1] p1] eqn:Hh.
      assert (Hinv1 := inv_step _ _ _ _ _ _ _ Hinv Hh).
      destruct o as [|reason]; simpl in H.
      + destruct (run h c s1 p1 rest) as [[rs2 s2] p2] eqn:Hr.
        inversion H; subst. simpl. rewrite Hh. simpl.
        now rewrite (IH _ _ _ _ _ Hinv1 Hr).
      + destruct (handle_fail_frame _ _ _ _ _ _ _ Hinv Hh) as [-> ->].
        destruct c; simpl in H.
        * destruct (run h true s p rest) as [[rs2 s2] p2] eqn:Hr.
          inversion H; subst. simpl. eauto.
        * inversion H; subst. simpl. rewrite succeeded_nil_r. reflexivity.
  Qed.

  Lemma run_all_failed_no_trace : forall h c its s p rs s' p',
      Inv s -> run h c s p its = (rs, s', p') -> forallb (fun r => negb (r_ok r)) rs = true -> s' = s /\ p' = p.
  Proof.
    intros h c its s p rs s' p' Hinv H Hall.
    apply run_without_failed in H; [|assumption].
    assert (Hs : succeeded its rs = []).
    { clear H. revert its. induction rs as [|r rs IH]; intros its.
      - apply succeeded_nil_r.
      - simpl in Hall. apply andb_true_iff in Hall. destruct Hall as [Hr Hrest].
        destruct its as [|it its]; [reflexivity|]. simpl.
        destruct (r_ok r); [discriminate|]. now apply IH. }
    rewrite Hs in H. simpl in H. inversion H. auto.
  Qed.

  (* ---------- request level ---------- *)
  Lemma request_error_no_effect : forall st h its e st',
      process_request st h its = (inl e, st') -> st' = st.
  Proof.
    unfold Generic.process_request. intros st h its e st' H.
    destruct (check_header h); [now inversion H|].
    destruct (check_ids its); [now inversion H|].
    destruct (run h (continues h) (open_session st) None its) as [[rs s'] p']. discriminate.
  Qed.

  Lemma request_error_iff : forall st h its,
      (exists e, process_request st h its = (inl e, st)) <->
      (check_header h <> None \/ check_ids its <> None).
  Proof.
    unfold Generic.process_request. intros st h its. split.
    - intros [e H]. destruct (check_header h); [left; discriminate|].
      destruct (check_ids its); [right; discriminate|].
      destruct (run h (continues h) (open_session st) None its) as [[rs s'] p']. discriminate.
    - intros [H|H].
      + destruct (check_header h) as [e|]; [eauto|congruence].
      + destruct (check_header h) as [e|]; [eauto|].
        destruct (check_ids its) as [e|]; [eauto|congruence].
  Qed.

  (* every request-level error path, with the condition that selects it; each returns the store untouched *)
  Definition ts_ok (h : header) : bool :=
    match h_ts h with None => true | Some t => (t <=? h_now h) && (h_now h - t <? 60) end.
  Definition async_on (h : header) : bool := match h_async h with Some true => true | _ => false end.
  Definition undo_on (h : header) : bool := match h_opt h with Some 3 => true | _ => false end.

  Lemma check_header_cases : forall h,
      check_header h =
      if negb (ver_supported (h_ver h)) then Some EVersion
      else if negb (ts_ok h) then (match h_ts h with Some t => if h_now h <? t then Some EFuture else Some EStale | None => None end)
      else if async_on h then Some EAsync
      else if undo_on h then Some EUndo else None.
  Proof.
    intros h. unfold check_header, ts_ok, async_on, undo_on.
    destruct (ver_supported (h_ver h)); simpl; [|reflexivity].
    destruct (h_ts h) as [t|]; simpl; [|reflexivity].
    destruct ((t <=? h_now h) && (h_now h - t <? 60)); simpl; [reflexivity|].
    destruct (h_now h <? t); reflexivity.
  Qed.

  Theorem request_error_paths : forall st h its,
      (ver_supported (h_ver h) = false -> process_request st h its = (inl EVersion, st)) /\
      (forall t, ver_supported (h_ver h) = true -> h_ts h = Some t -> h_now h < t ->
                 process_request st h its = (inl EFuture, st)) /\
      (forall t, ver_supported (h_ver h) = true -> h_ts h = Some t -> t <= h_now h -> 60 <= h_now h - t ->
                 process_request st h its = (inl EStale, st)) /\
      (ver_supported (h_ver h) = true -> ts_ok h = true -> async_on h = true ->
                 process_request st h its = (inl EAsync, st)) /\
      (ver_supported (h_ver h) = true -> ts_ok h = true -> async_on h = false -> undo_on h = true ->
                 process_request st h its = (inl EUndo, st)) /\
      (check_header h = None -> (1 < length its)%nat -> (exists it, In it its /\ it_bid it = None) ->
                 process_request st h its = (inl ENoBid, st)).
  Proof.
    intros st h its. unfold Generic.process_request. rewrite check_header_cases.
    repeat split.
    - intros ->. reflexivity.
    - intros t Hv Ht Hlt. rewrite Hv. simpl. unfold ts_ok. rewrite Ht.
      assert ((t <=? h_now h) = false) as -> by (apply Z.leb_gt; lia). simpl.
      assert ((h_now h <? t) = true) as -> by (apply Z.ltb_lt; lia). reflexivity.
    - intros t Hv Ht Hle Hold. rewrite Hv. simpl. unfold ts_ok. rewrite Ht.
      assert ((h_now h - t <? 60) = false) as -> by (apply Z.ltb_ge; lia). rewrite andb_false_r. simpl.
      assert ((h_now h <? t) = false) as -> by (apply Z.ltb_ge; lia). reflexivity.
    - intros Hv Ht Ha. rewrite Hv, Ht, Ha. reflexivity.
    - intros Hv Ht Ha Hu. rewrite Hv, Ht, Ha, Hu. reflexivity.
    - intros Hh Hn [it [Hin Hb]]. rewrite Hh.
      unfold Generic.check_ids.
      assert ((1 <? Z.of_nat (length its)) = true) as -> by (apply Z.ltb_lt; lia).
      assert (existsb (fun it0 : item I => match it_bid it0 with None => true | Some _ => false end) its = true) as ->.
      { apply existsb_exists. exists it. split; [assumption|]. now rewrite Hb. }
      reflexivity.
  Qed.

  Lemma process_results : forall st h its rs st',
      process_request st h its = (inr rs, st') ->
      check_header h = None /\ check_ids its = None /\
      exists s' p', run h (continues h) (open_session st) None its = (rs, s', p') /\ st' = close_session s'.
  Proof.
    unfold Generic.process_request. intros st h its rs st' H.
    destruct (check_header h); [discriminate|].
    destruct (check_ids its); [discriminate|].
    destruct (run h (continues h) (open_session st) None its) as [[rs0 s'] p'] eqn:Hr.
    inversion H; subst. repeat split; eauto.
  Qed.

  Lemma existsb_succeeded : forall (f : item I -> bool) its rs,
      existsb f its = false -> existsb f (succeeded its rs) = false.
  Proof.
    induction its as [|it its IH]; intros rs H; [reflexivity|].
    simpl in H. apply orb_false_iff in H. destruct H as [H1 H2].
    destruct rs as [|r rs]; [reflexivity|]. simpl.
    destruct (r_ok r); simpl.
    - rewrite H1. simpl. now apply IH.
    - now apply IH.
  Qed.

  Lemma succeeded_length : forall its rs, (length (succeeded its rs) <= length its)%nat.
  Proof.
    induction its as [|it its IH]; intros rs; [simpl; lia|].
    destruct rs as [|r rs]; [simpl; lia|]. simpl.
    destruct (r_ok r); simpl; specialize (IH rs); lia.
  Qed.

  Lemma check_ids_succeeded : forall its rs, check_ids its = None -> check_ids (succeeded its rs) = None.
  Proof.
    unfold Generic.check_ids. intros its rs H.
    destruct (1 <? Z.of_nat (length its)) eqn:Hn; simpl in H.
    - destruct (existsb _ its) eqn:He; [discriminate|].
      rewrite (existsb_succeeded _ _ rs He). now rewrite andb_false_r.
    - assert (Hl := succeeded_length its rs).
      assert (1 <? Z.of_nat (length (succeeded its rs)) = false) as -> by (apply Z.ltb_ge; apply Z.ltb_ge in Hn; lia).
      reflexivity.
  Qed.

  Hypothesis inv_open : forall st, Inv (open_session st).

  Theorem process_without_failed : forall st h its rs st',
      process_request st h its = (inr rs, st') ->
      process_request st h (succeeded its rs) = (inr (filter r_ok rs), st').
  Proof.
    intros st h its rs st' H.
    destruct (process_results _ _ _ _ _ H) as [Hh [Hi [s' [p' [Hr ->]]]]].
    unfold Generic.process_request. rewrite Hh, (check_ids_succeeded _ rs Hi).
    now rewrite (run_without_failed _ _ _ _ _ _ _ _ (inv_open st) Hr).
  Qed.

  (* ---------- generalisation: any class of items that leave state and placeholder alone
                (failed items, items that only read) can be removed from the batch ---------- *)
  Section Kept.
    Variable keep : item I -> result -> bool.
    Notation kept := (kept I keep).
    Notation kept_results := (kept_results I keep).
    (* a dropped item left everything as it was ... *)
    Hypothesis dropped_frame : forall h s p it o s' p',
        Inv s -> handle h s p it = (o, s', p') -> keep it (mk_result it o) = false -> s' = s /\ p' = p.
    (* ... and only successful items are kept (so that Stop does not cut the reduced batch short) *)
    Hypothesis kept_ok : forall it o, keep it (mk_result it o) = true -> is_ok o = true.

    Lemma kept_nil_r : forall its, kept its [] = [].
    Proof. destruct its; reflexivity. Qed.

    Lemma run_kept : forall h c its s p rs s' p',
        Inv s -> run h c s p its = (rs, s', p') ->
        run h c s p (kept its rs) = (kept_results its rs, s', p').
    Proof.
      induction its as [|it rest IH]; intros s p rs s' p' Hinv H; simpl in H.
      - inversion H; subst. reflexivity.
      - destruct (handle h s p it) as [[o s1] p1] eqn:Hh.
        assert (Hinv1 := inv_step _ _ _ _ _ _ _ Hinv Hh).
        destruct (keep it (mk_result it o)) eqn:Hk.
        + assert (Hok := kept_ok _ _ Hk). rewrite Hok in H. simpl in H.
          destruct (run h c s1 p1 rest) as [[rs2 s2] p2] eqn:Hr.
          inversion H; subst. simpl. rewrite Hk. simpl. rewrite Hh, Hok. simpl.
          now rewrite (IH _ _ _ _ _ Hinv1 Hr).
        + destruct (dropped_frame _ _ _ _ _ _ _ Hinv Hh Hk) as [-> ->].
          destruct (negb (is_ok o) && negb c).
          * inversion H; subst. simpl. rewrite Hk, kept_nil_r. destruct rest; reflexivity.
          * destruct (run h c s p rest) as [[rs2 s2] p2] eqn:Hr.
            inversion H; subst. simpl. rewrite Hk. eauto.
    Qed.

    Lemma existsb_kept : forall (f : item I -> bool) its rs,
        existsb f its = false -> existsb f (kept its rs) = false.
    Proof.
      induction its as [|it its IH]; intros rs H; [reflexivity|].
      simpl in H. apply orb_false_iff in H. destruct H as [H1 H2].
      destruct rs as [|r rs]; [reflexivity|]. simpl.
      destruct (keep it r); simpl.
      - rewrite H1. simpl. now apply IH.
      - now apply IH.
    Qed.

    Lemma kept_length : forall its rs, (length (kept its rs) <= length its)%nat.
    Proof.
      induction its as [|it its IH]; intros rs; [simpl; lia|].
      destruct rs as [|r rs]; [simpl; lia|]. simpl.
      destruct (keep it r); simpl; specialize (IH rs); lia.
    Qed.

    Lemma check_ids_kept : forall its rs, check_ids its = None -> check_ids (kept its rs) = None.
    Proof.
      unfold Generic.check_ids. intros its rs H.
      destruct (1 <? Z.of_nat (length its)) eqn:Hn; simpl in H.
      - destruct (existsb _ its) eqn:He; [discriminate|].
        rewrite (existsb_kept _ _ rs He). now rewrite andb_false_r.
      - assert (Hl := kept_length its rs).
        assert (1 <? Z.of_nat (length (kept its rs)) = false) as -> by (apply Z.ltb_ge; apply Z.ltb_ge in Hn; lia).
        reflexivity.
    Qed.

    Theorem process_kept : forall st h its rs st',
        process_request st h its = (inr rs, st') ->
        process_request st h (kept its rs) = (inr (kept_results its rs), st').
    Proof.
      intros st h its rs st' H.
      destruct (process_results _ _ _ _ _ H) as [Hh [Hi [s' [p' [Hr ->]]]]].
      unfold Generic.process_request. rewrite Hh, (check_ids_kept _ rs Hi).
      now rewrite (run_kept _ _ _ _ _ _ _ _ (inv_open st) Hr).
    Qed.
  End Kept.

  Hypothesis close_open : forall st, close_session (open_session st) = st.

  Theorem process_all_failed_no_trace : forall st h its rs st',
      process_request st h its = (inr rs, st') -> forallb (fun r => negb (r_ok r)) rs = true -> st' = st.
  Proof.
    intros st h its rs st' H Hall.
    destruct (process_results _ _ _ _ _ H) as [_ [_ [s' [p' [Hr ->]]]]].
    destruct (run_all_failed_no_trace _ _ _ _ _ _ _ _ (inv_open st) Hr Hall) as [-> _]. apply close_open.
  Qed.
End Proofs.
