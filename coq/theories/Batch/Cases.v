(* C08 - comparator of the correspondence K: a case carries the store before the request,
   the request, and what the real engine did; check_case says whether the model agrees. *)
From Coq Require Import ZArith List Bool.
From PK Require Export Batch.Generic Batch.Store.
Import ListNotations.
Open Scope Z_scope.

Fixpoint list_eqb {A} (e : A -> A -> bool) (a b : list A) : bool :=
  match a, b with
  | [], [] => true
  | x :: a', y :: b' => e x y && list_eqb e a' b'
  | _, _ => false
  end.
Definition opt_eqb {A} (e : A -> A -> bool) (a b : option A) : bool :=
  match a, b with Some x, Some y => e x y | None, None => true | _, _ => false end.

Definition obj_eqb (a b : obj) : bool :=
  (o_uid a =? o_uid b) && (o_owner a =? o_owner b) && (o_kind a =? o_kind b) && (o_state a =? o_state b) &&
  list_eqb Z.eqb (o_names a) (o_names b) && list_eqb Z.eqb (o_groups a) (o_groups b) && Bool.eqb (o_sens a) (o_sens b).
Definition store_eqb (a b : store) : bool := list_eqb obj_eqb (objs a) (objs b) && (next a =? next b).

(* per executed item: did the committed store change, is the session left with unpublished
   changes, what is the ID placeholder afterwards *)
Fixpoint item_trace (h : header) (cont : bool) (s : session) (p : option Z) (its : list (item body))
  : list (bool * bool * option Z) :=
  match its with
  | [] => []
  | it :: rest =>
      let '(o, s1, p1) := handle h s p it in
      let t := (negb (store_eqb (committed s) (committed s1)), negb (store_eqb (committed s1) (working s1)), p1) in
      if negb (is_ok o) && negb cont then [t] else t :: item_trace h cont s1 p1 rest
  end.

Record kcase := {
  k_store : store; k_hdr : header; k_items : list (item body);
  k_err : option rerr;                               (* request-level error raised by process_request *)
  k_results : list (Z * option (list Z) * bool);     (* (operation, batch item id, success) per response item *)
  k_count : Z;                                       (* Batch Count of the response header (0 when there is no response) *)
  k_trace : list (bool * bool * option Z);           (* observed around each executed item *)
  k_final : store }.

Definition res_eqb (a b : Z * option (list Z) * bool) : bool :=
  let '(o1, b1, f1) := a in let '(o2, b2, f2) := b in
  (o1 =? o2) && opt_eqb (list_eqb Z.eqb) b1 b2 && Bool.eqb f1 f2.
Definition trace_eqb (a b : bool * bool * option Z) : bool :=
  let '(c1, d1, p1) := a in let '(c2, d2, p2) := b in
  Bool.eqb c1 c2 && Bool.eqb d1 d2 && opt_eqb Z.eqb p1 p2.

Definition check_case (c : kcase) : bool :=
  match process (k_store c) (k_hdr c) (k_items c) with
  | (inl e, st') =>
      opt_eqb rerr_eqb (Some e) (k_err c) && list_eqb res_eqb [] (k_results c) &&
      list_eqb trace_eqb [] (k_trace c) && store_eqb st' (k_final c)
  | (inr rs, st') =>
      opt_eqb rerr_eqb None (k_err c) &&
      list_eqb res_eqb (map (fun r => (r_op r, r_bid r, r_ok r)) rs) (k_results c) &&
      (response_batch_count rs =? k_count c) &&
      list_eqb trace_eqb (item_trace (k_hdr c) (continues (k_hdr c)) (open_session (k_store c)) None (k_items c)) (k_trace c) &&
      store_eqb st' (k_final c)
  end.

(* what the model says, for replay files *)
Definition model_says (c : kcase) :=
  (process (k_store c) (k_hdr c) (k_items c),
   item_trace (k_hdr c) (continues (k_hdr c)) (open_session (k_store c)) None (k_items c)).
