(* C08 - the concrete handlers satisfy the frame hypothesis of GenericProofs.v:
   in every handler each `raise` precedes each mutation, so a failing item leaves the
   session (committed AND working state) and the ID placeholder exactly as they were. *)
From Coq Require Import ZArith List Bool Lia.
From PK Require Import Batch.Generic Batch.GenericProofs Batch.Store.
Import ListNotations.
Open Scope Z_scope.

(* ---------- fail_no_trace, one lemma per handler ---------- *)
Ltac frame_tac :=
  repeat match goal with
         | H : HFail _ _ = HFail _ _ |- _ => inversion H; clear H; subst
         | H : HOk _ _ _ = HFail _ _ |- _ => discriminate H
         | H : context [match ?x with _ => _ end] |- _ => destruct x
         | H : context [if ?x then _ else _] |- _ => destruct x
         end; try reflexivity; try discriminate.

Lemma create_fail_no_trace : forall h w sym unsup a l m lok names groups sens r w',
    h_create h w sym unsup a l m lok names groups sens = HFail r w' -> w' = w.
Proof. unfold h_create. intros. frame_tac. Qed.

Lemma register_fail_no_trace : forall h w k unsup inap names groups r w',
    h_register h w k unsup inap names groups = HFail r w' -> w' = w.
Proof. unfold h_register. intros. frame_tac. Qed.

Lemma get_fail_no_trace : forall h w pl tgt r w', h_get h w pl tgt = HFail r w' -> w' = w.
Proof. unfold h_get. intros. frame_tac. Qed.

Lemma activate_fail_no_trace : forall h w pl tgt r w', h_activate h w pl tgt = HFail r w' -> w' = w.
Proof. unfold h_activate. intros. frame_tac. Qed.

Lemma revoke_fail_no_trace : forall h w pl tgt c r w', h_revoke h w pl tgt c = HFail r w' -> w' = w.
Proof. unfold h_revoke. intros. frame_tac. Qed.

Lemma destroy_fail_no_trace : forall h w pl tgt r w', h_destroy h w pl tgt = HFail r w' -> w' = w.
Proof. unfold h_destroy. intros. frame_tac. Qed.

Lemma modify_fail_no_trace : forall h w pl tgt a idx v r w', h_modify h w pl tgt a idx v = HFail r w' -> w' = w.
Proof. unfold h_modify. intros. frame_tac. Qed.

Lemma set_fail_no_trace : forall h w pl tgt a v r w', h_set h w pl tgt a v = HFail r w' -> w' = w.
Proof. unfold h_set. intros. frame_tac. Qed.

Lemma delete_fail_no_trace : forall h w pl tgt a idx r w', h_delete h w pl tgt a idx = HFail r w' -> w' = w.
Proof. unfold h_delete. intros. frame_tac. Qed.

Lemma dispatch_fail_no_trace : forall h w pl b r w', dispatch h w pl b = HFail r w' -> w' = w.
Proof.
  intros h w pl b r w' H. destruct b; simpl in H.
  - eapply create_fail_no_trace; eauto.
  - eapply register_fail_no_trace; eauto.
  - eapply get_fail_no_trace; eauto.
  - eapply activate_fail_no_trace; eauto.
  - eapply revoke_fail_no_trace; eauto.
  - eapply destroy_fail_no_trace; eauto.
  - eapply modify_fail_no_trace; eauto.
  - eapply set_fail_no_trace; eauto.
  - eapply delete_fail_no_trace; eauto.
  - destruct (ver_ge (h_ver h) minver); [discriminate|]. now inversion H.
  - now inversion H.
  - unfold h_keypair in H. destruct (negb ok); [now inversion H|discriminate].
  - unfold h_derive in H. destruct (negb ok); [now inversion H|discriminate].
  - destruct ok; [discriminate|now inversion H].
Qed.

Lemma session_eta : forall s, {| committed := committed s; working := working s |} = s.
Proof. now destruct s. Qed.

Definition clean (s : session) : Prop := working s = committed s.

(* The rollback makes the frame structural: WHATEVER a handler did to the working state before it
   raised, a failed item met in a clean session leaves session and placeholder as they were. *)
Lemma lift_fail_frame : forall (r : hres) s pl reason s' p',
    clean s -> lift r s pl = (Fail reason, s', p') -> s' = s /\ p' = pl.
Proof.
  unfold lift, clean. intros r s pl reason s' p' Hc H. destruct r as [w c p0|r0 w]; [discriminate|].
  inversion H; subst. split; [|reflexivity]. destruct s as [cm wk]. simpl in *. now subst.
Qed.

(* the frame hypothesis of GenericProofs.v, for the concrete handler *)
Theorem handle_fail_frame : forall h s p it r s' p',
    clean s -> handle h s p it = (Fail r, s', p') -> s' = s /\ p' = p.
Proof. unfold handle. intros. eapply lift_fail_frame; eauto. Qed.

(* ... and the handlers of today never needed it: a failing handler hands back the working state it was given *)
Theorem handlers_raise_before_they_mutate : forall h s p it r s' p',
    lift_without_rollback (dispatch h (working s) p (it_body it)) s p = (Fail r, s', p') -> s' = s /\ p' = p.
Proof.
  unfold lift_without_rollback, lift. intros h s p it r s' p' H.
  destruct (dispatch h (working s) p (it_body it)) as [w c pl|reason w] eqn:Hd.
  - discriminate.
  - inversion H; subst. apply dispatch_fail_no_trace in Hd. subst w.
    split; [apply session_eta|reflexivity].
Qed.

(* ---------- the session never carries unpublished changes between items ---------- *)
Lemma dispatch_no_commit_no_change : forall h w pl b w' p', dispatch h w pl b = HOk w' false p' -> w' = w.
Proof.
  intros h w pl b w' p' H. destruct b; simpl in H;
    unfold h_create, h_register, h_get, h_activate, h_revoke, h_destroy, h_modify, h_set, h_delete, h_keypair, h_derive in H;
    repeat match goal with
           | H : HOk _ _ _ = HOk _ _ _ |- _ => inversion H; clear H; subst
           | H : HFail _ _ = HOk _ _ _ |- _ => discriminate H
           | H : context [match ?x with _ => _ end] |- _ => destruct x
           | H : context [if ?x then _ else _] |- _ => destruct x
           end; try reflexivity; try discriminate.
Qed.

Lemma handle_clean : forall h s p it o s' p', clean s -> handle h s p it = (o, s', p') -> clean s'.
Proof.
  unfold handle, lift, clean. intros h s p it o s' p' Hc H.
  destruct (dispatch h (working s) p (it_body it)) as [w c pl|reason w] eqn:Hd; inversion H; subst; simpl.
  - destruct c; [reflexivity|]. apply dispatch_no_commit_no_change in Hd. now subst.
  - reflexivity.
Qed.

Lemma run_clean : forall h c its s p rs s' p', clean s -> run_batch h c s p its = (rs, s', p') -> clean s'.
Proof.
  unfold run_batch. induction its as [|it rest IH]; intros s p rs s' p' Hc H; simpl in H.
  - inversion H; now subst.
  - destruct (handle h s p it) as [[o s1] p1] eqn:Hh.
    assert (Hc1 := handle_clean _ _ _ _ _ _ _ Hc Hh).
    destruct (negb (is_ok o) && negb c).
    + inversion H; now subst.
    + destruct (run session body handle h c s1 p1 rest) as [[rs2 s2] p2] eqn:Hr.
      inversion H; subst. eauto.
Qed.

Lemma open_clean : forall st, clean (open_session st).
Proof. reflexivity. Qed.

Lemma close_open : forall st, close_session (open_session st) = st.
Proof. reflexivity. Qed.

(* ---------- placeholder ---------- *)
Definition creating (b : body) : bool :=
  match b with BCreate _ _ _ _ _ _ _ _ _ | BRegister _ _ _ _ _ | BKeyPair _ _ _ | BDerive _ _ _ => true | _ => false end.

(* the same item with its identifier filled in *)
Definition with_target (u : Z) (b : body) : body :=
  match b with
  | BGet None => BGet (Some u)
  | BActivate None => BActivate (Some u)
  | BRevoke None c => BRevoke (Some u) c
  | BDestroy None => BDestroy (Some u)
  | BModify None a i v => BModify (Some u) a i v
  | BSet None a v => BSet (Some u) a v
  | BDelete None a i => BDelete (Some u) a i
  | b => b
  end.

Lemma fetch_placeholder : forall user u w pl, fetch user None (Some u) w = fetch user (Some u) pl w.
Proof. reflexivity. Qed.

(* an identifier-less item is processed exactly as if it named the object the placeholder holds *)
Lemma placeholder_resolves : forall h w u b pl,
    creating b = false ->
    dispatch h w (Some u) b = dispatch h w pl (with_target u b).
Proof.
  intros h w u b pl Hc. destruct b; try discriminate; try reflexivity;
    destruct tgt; reflexivity.
Qed.

(* a successful creating item publishes its new object(s) and leaves the identifier of one of them,
   owned by the requester, in the placeholder (CreateKeyPair: the private key) *)
Lemma creating_sets_placeholder : forall h s p it s' p',
    creating (it_body it) = true -> handle h s p it = (OK, s', p') ->
    exists u o, p' = Some u /\ next (working s) <= u < next (working s') /\
                In o (objs (working s')) /\ o_uid o = u /\ o_owner o = h_user h /\
                committed s' = working s'.
Proof.
  unfold handle, lift. intros h s p it s' p' Hc H.
  destruct (it_body it); try discriminate; simpl in H.
  - unfold h_create in H.
    repeat match type of H with context [if ?x then _ else _] => destruct x end; try discriminate.
    inversion H; subst. simpl. eexists. eexists. split; [reflexivity|]; split; [simpl; lia|]; split; [apply in_or_app; right; left; reflexivity|]; repeat split; reflexivity.
  - unfold h_register in H.
    repeat match type of H with context [if ?x then _ else _] => destruct x end; try discriminate.
    all: inversion H; subst; simpl; eexists; eexists; split; [reflexivity|]; split; [simpl; lia|]; split; [apply in_or_app; right; left; reflexivity|]; repeat split; reflexivity.
  - unfold h_keypair in H. destruct (negb ok); [discriminate|].
    inversion H; subst. simpl. eexists. exists (new_obj h (next (working s) + 1) K_PRIVATE priv_names).
    split; [reflexivity|]; split; [simpl; lia|]; split; [apply in_or_app; right; left; reflexivity|]; repeat split; reflexivity.
  - unfold h_derive in H. destruct (negb ok); [discriminate|].
    inversion H; subst. simpl. eexists. eexists. split; [reflexivity|]; split; [simpl; lia|]; split; [apply in_or_app; right; left; reflexivity|]; repeat split; reflexivity.
Qed.

Lemma non_creating_keeps_placeholder : forall h s p it o s' p',
    creating (it_body it) = false -> handle h s p it = (o, s', p') -> p' = p.
Proof.
  unfold handle, lift. intros h s p it o s' p' Hc H.
  destruct (dispatch h (working s) p (it_body it)) as [w c pl|reason w] eqn:Hd.
  - inversion H; subst. destruct pl as [u|]; [|reflexivity]. exfalso.
    destruct (it_body it); try discriminate; simpl in Hd;
      unfold h_get, h_activate, h_revoke, h_destroy, h_modify, h_set, h_delete in Hd;
      repeat match goal with
             | H : HOk _ _ _ = HOk _ _ _ |- _ => inversion H; clear H; subst
             | H : HFail _ _ = HOk _ _ _ |- _ => discriminate H
             | H : context [match ?x with _ => _ end] |- _ => destruct x
             | H : context [if ?x then _ else _] |- _ => destruct x
             end; discriminate.
  - now inversion H.
Qed.

Lemma failing_keeps_placeholder : forall h s p it r s' p', handle h s p it = (Fail r, s', p') -> p' = p.
Proof.
  unfold handle, lift. intros h s p it r s' p' H.
  destruct (dispatch h (working s) p (it_body it)); [discriminate|]. now inversion H.
Qed.

(* items between the creation and the use: anything that is not itself a creating item *)
Lemma exec_non_creating_keeps_placeholder : forall h mid s p,
    forallb (fun it => negb (creating (it_body it))) mid = true ->
    snd (exec session body handle h s p mid) = p.
Proof.
  induction mid as [|it rest IH]; intros s p Hall; [reflexivity|].
  simpl in Hall. apply andb_true_iff in Hall. destruct Hall as [Hit Hrest]. simpl.
  destruct (handle h s p it) as [[o s1] p1] eqn:Hh.
  apply negb_true_iff in Hit.
  rewrite (non_creating_keeps_placeholder _ _ _ _ _ _ _ Hit Hh). now apply IH.
Qed.

Theorem placeholder_within_batch_thm : forall h s p c s1 p1,
    creating (it_body c) = true -> handle h s p c = (OK, s1, p1) ->
    exists u, p1 = Some u /\ next (working s) <= u < next (working s1) /\
      (exists o, In o (objs (working s1)) /\ o_uid o = u /\ o_owner o = h_user h) /\
      forall mid it s2 p2,
        forallb (fun m => negb (creating (it_body m))) mid = true ->
        exec session body handle h s1 p1 mid = (s2, p2) ->
        creating (it_body it) = false ->
        p2 = Some u /\
        handle h s2 p2 it =
        handle h s2 p2 {| it_op := it_op it; it_bid := it_bid it; it_body := with_target u (it_body it) |}.
Proof.
  intros h s p c s1 p1 Hc Hh.
  destruct (creating_sets_placeholder _ _ _ _ _ _ Hc Hh) as [u [o [Hp1 [Hu [Hin [Huid [Hown _]]]]]]].
  exists u. split; [assumption|]. split; [assumption|]. split; [eauto|].
  intros mid it s2 p2 Hmid He Hit.
  assert (Hk := exec_non_creating_keeps_placeholder h mid s1 p1 Hmid).
  rewrite He in Hk. simpl in Hk. subst p2 p1.
  split; [reflexivity|]. unfold handle. cbn [it_body].
  now rewrite <- (placeholder_resolves h (working s2) u (it_body it) (Some u) Hit).
Qed.

(* ---------- instantiation of the generic theorems ---------- *)
Definition results_prefix_c := run_nth session body handle.
Definition run_prefix_c := run_prefix session body handle.
Definition run_continue_all_c := run_continue_all session body handle.
Definition run_stop_shape_c := run_stop_shape session body handle.
Definition run_exec_c := run_exec session body handle.
Definition run_without_failed_c := run_without_failed session body handle clean handle_clean handle_fail_frame.
Definition request_error_no_effect_c := request_error_no_effect session store body open_session close_session handle.
Definition request_error_iff_c := request_error_iff session store body open_session close_session handle.
Definition process_results_c := process_results session store body open_session close_session handle.
Definition process_without_failed_c :=
  process_without_failed session store body open_session close_session handle clean handle_clean handle_fail_frame open_clean.
Definition process_all_failed_no_trace_c :=
  process_all_failed_no_trace session store body open_session close_session handle clean handle_clean handle_fail_frame open_clean close_open.

(* ---------- items that only read are as removable as failed ones ---------- *)
Definition read_only (b : body) : bool :=
  match b with BGet _ | BReadOnly _ | BOpaqueRO _ => true | _ => false end.
Definition keep_writing (it : item body) (r : result) : bool := r_ok r && negb (read_only (it_body it)).

Lemma read_only_frame : forall h s p it o s' p',
    clean s -> read_only (it_body it) = true -> handle h s p it = (o, s', p') -> s' = s /\ p' = p.
Proof.
  intros h s p it o s' p' Hc Hro H. destruct o as [|reason].
  - unfold handle, lift in H.
    destruct (it_body it); try discriminate; simpl in H.
    + unfold h_get in H. destruct (fetch (h_user h) tgt p (working s)); inversion H; subst;
        (split; [apply session_eta|reflexivity]).
    + destruct (ver_ge (h_ver h) minver); inversion H; subst; (split; [apply session_eta|reflexivity]).
    + destruct ok; inversion H; subst; (split; [apply session_eta|reflexivity]).
  - eapply handle_fail_frame; eauto.
Qed.

Lemma dropped_frame_c : forall h s p it o s' p',
    clean s -> handle h s p it = (o, s', p') -> keep_writing it (mk_result body it o) = false -> s' = s /\ p' = p.
Proof.
  unfold keep_writing. intros h s p it o s' p' Hc Hh Hk. simpl in Hk.
  apply andb_false_iff in Hk. destruct Hk as [Hk|Hk].
  - destruct o; [discriminate|]. eapply handle_fail_frame; eauto.
  - apply negb_false_iff in Hk. eapply read_only_frame; eauto.
Qed.

Lemma kept_ok_c : forall (it : item body) o, keep_writing it (mk_result body it o) = true -> is_ok o = true.
Proof. unfold keep_writing. intros it o H. simpl in H. apply andb_true_iff in H. tauto. Qed.

Definition process_writing_only_c :=
  process_kept session store body open_session close_session handle clean handle_clean open_clean keep_writing dropped_frame_c kept_ok_c.

(* the store after a request is the published state of a clean session *)
Lemma process_clean : forall st h its rs st',
    process st h its = (inr rs, st') ->
    exists s' p', run_batch h (continues h) (open_session st) None its = (rs, s', p') /\ working s' = st' /\ committed s' = st'.
Proof.
  intros st h its rs st' H.
  destruct (process_results_c _ _ _ _ _ H) as [_ [_ [s' [p' [Hr ->]]]]].
  exists s', p'. split; [exact Hr|]. split; [|reflexivity].
  exact (run_clean _ _ _ _ _ _ _ _ (open_clean st) Hr).
Qed.

(* ---------- non-vacuity: the model can express the defect ---------- *)
Definition demo_store : store :=
  {| objs := [ {| o_uid := 1; o_owner := 1; o_kind := 2; o_state := S_DEACT; o_names := [1]; o_groups := []; o_sens := false |} ];
     next := 2 |}.
Definition demo_header : header :=
  {| h_ver := (1,2); h_now := 100; h_ts := None; h_async := None; h_opt := Some 1; h_order := None; h_user := 1 |}.
Definition demo_items : list (item body) :=
  [ Build_item 18 (Some [1]) (BActivate (Some 1));
    Build_item 1 (Some [2]) (BCreate true false true true true true [] [] None) ].

Definition process_late := process_request session store body open_session close_session handle_late.
Definition process_late_without_rollback :=
  process_request session store body open_session close_session handle_late_without_rollback.

(* with a guard placed after the mutation and NO rollback (the batch loop before 52cb625), the failed
   Activate of a deactivated key is published by the commit of the Create that follows it *)
Lemma late_guard_leaves_trace :
  exists rs st', process_late_without_rollback demo_store demo_header demo_items = (inr rs, st') /\
                 map r_ok rs = [false; true] /\
                 option_map o_state (lookup 1 st') = Some S_ACTIVE /\
                 option_map o_state (lookup 1 demo_store) = Some S_DEACT.
Proof. eexists. eexists. vm_compute. repeat split. Qed.

(* the same late guard under today's batch loop: the rollback discards the change *)
Lemma late_guard_rolled_back :
  exists rs st', process_late demo_store demo_header demo_items = (inr rs, st') /\
                 map r_ok rs = [false; true] /\
                 option_map o_state (lookup 1 st') = Some S_DEACT.
Proof. eexists. eexists. vm_compute. repeat split. Qed.

(* the faithful handlers on the same input: the failed item leaves the key alone *)
Lemma faithful_on_demo :
  exists rs st', process demo_store demo_header demo_items = (inr rs, st') /\
                 map r_ok rs = [false; true] /\
                 option_map o_state (lookup 1 st') = Some S_DEACT.
Proof. eexists. eexists. vm_compute. repeat split. Qed.
