(* C08, tie T: the obligation on the code extracted from engine.py (gen/BatchOrder.v,
   regenerated on every run): in every operation handler, no explicit `raise` is reachable
   while a loaded object or the session holds an uncommitted change - up to the residual
   entries below, which the path-insensitive analysis cannot exclude and which are
   discharged by the correspondence K (per-item observation "session not dirty") instead. *)
From Coq Require Import String List Bool.
From PK Require Import Batch.Order.
From PKGen Require Import BatchOrder.
Import ListNotations.
Open Scope string_scope.

(* Residual: the duplicate-name raise of _set_attribute_on_managed_object sits in its multi-valued
   branch (after `names.extend`).  ModifyAttribute calls the helper only for single-valued
   attributes (l.1778 / l.1883 test is_attribute_multivalued first) and SetAttribute refuses
   multi-valued attributes before the call (l.1707); the analysis does not follow that the
   attribute name tested by the caller is the one the helper tests again.  Create / Register /
   CreateKeyPair / DeriveKey reach the same raise with a TRANSIENT object (not yet added to the
   session), which the analysis knows.  SetAttribute passes a one-entry dictionary, so the loop
   of _set_attributes_on_managed_object runs once (CallOnce). *)
Definition allowed_late_raises : list (string * string) :=
  [("_process_modify_attribute", "_set_attribute_on_managed_object: Cannot set duplicate name values.");
   ("_process_set_attribute", "_set_attribute_on_managed_object: Cannot set duplicate name values.")].

Definition pair_eqb (a b : string * string) : bool := String.eqb (fst a) (fst b) && String.eqb (snd a) (snd b).
Definition all_allowed (found : list (string * list string)) : bool :=
  forallb (fun p => forallb (fun l => existsb (pair_eqb (fst p, l)) allowed_late_raises) (snd p)) found.

Lemma handlers_order_ok : all_allowed (late_raises engine_methods operation_handlers) = true.
Proof. vm_compute. reflexivity. Qed.

(* no handler returns with an uncommitted change, and the placeholder is only set in a clean state
   (a "placeholder set before commit" entry would show up in late_raises) *)
Lemma handlers_end_clean :
  forallb (fun h => negb (ends_dirty_of engine_methods h)) operation_handlers = true.
Proof. vm_compute. reflexivity. Qed.

Lemma handlers_counted : List.length operation_handlers = 21.
Proof. reflexivity. Qed.

(* Since 52cb625 _process_batch rolls the session back after an item that failed: whatever the item left
   pending (also the INSERTs of a commit the database refused) is discarded before the next item runs. *)
Definition failed_items_are_rolled_back : Prop := rolls_back_after engine_methods "_process_batch" "_process_operation" = true.
Lemma batch_rolls_back : failed_items_are_rolled_back.
Proof. vm_compute. reflexivity. Qed.

(* The whole of process_request - placeholder reset, identity, version, batch - runs under the engine lock
   (@_synchronize on process_request itself, not on a part of it): the per-request fields of the shared engine
   object (the ID placeholder among them) cannot be reset by another connection in the middle of a batch.
   Interleavings themselves are property C10's. *)
Definition process_request_locked : Prop := existsb (String.eqb "process_request") synchronized_methods = true.
Lemma process_request_is_locked : process_request_locked.
Proof. vm_compute. reflexivity. Qed.

(* the placeholder is reset before anything else happens in a request *)
Definition placeholder_reset_comes_first : Prop :=
  match lookup_code "process_request" engine_methods with
  | Some (Seq (SetPh :: _)) => true
  | _ => false
  end = true.
Lemma placeholder_reset_first : placeholder_reset_comes_first.
Proof. vm_compute. reflexivity. Qed.

(* the analysis does report the shapes the property is about *)
Example order_flags_late_guard :
  late_raises [("h", Seq [Call "load" Knone; Mut; If (Seq [Raise "h: too late"]) (Seq []); Commit]); ("load", Seq [If (Seq [Raise "load: not found"]) (Seq []); Ret])] ["h"]
  = [("h", ["h: too late"])].
Proof. vm_compute. reflexivity. Qed.

Example order_flags_helper_on_loaded_object :
  late_raises [("h", Seq [Call "helper" Kloaded; Commit]); ("helper", Seq [MutParam; If (Seq [Raise "helper: dup"]) (Seq [])])] ["h"]
  = [("h", ["helper: dup"])].
Proof. vm_compute. reflexivity. Qed.

Example order_accepts_helper_on_transient_object :
  late_raises [("h", Seq [Call "helper" Ktransient; Mut; Commit; SetPh]); ("helper", Seq [MutParam; If (Seq [Raise "helper: dup"]) (Seq [])])] ["h"]
  = [].
Proof. vm_compute. reflexivity. Qed.

Example order_loop_once_vs_many :
  late_raises [("h", Seq [CallOnce "each" Kloaded; Commit]); ("g", Seq [Call "each" Kloaded; Commit]);
               ("each", Seq [Loop (Seq [If (Seq [Raise "each: refused"]) (Seq []); MutParam])])] ["h"; "g"]
  = [("g", ["each: refused"])].
Proof. vm_compute. reflexivity. Qed.

Example order_flags_raise_after_commit :
  late_raises [("h", Seq [Mut; Commit; If (Seq [Raise "h: bad answer"]) (Seq []); Ret])] ["h"]
  = [("h", ["after a commit that took effect - h: bad answer"])].
Proof. vm_compute. reflexivity. Qed.
