(* C08, tie T: the order of raise / mutation / commit inside the operation handlers.
   `code` is what translate/gen_batchorder.py extracts from engine.py (gen/BatchOrder.v);
   `late_raises` lists every explicit `raise` that some path reaches while a loaded object
   or the session carries a change that has not been committed - the situation in which a
   failed batch item could leave a trace (the batch has one session and no rollback).
   The analysis is path-insensitive (both branches of every `if`, loops any number of
   times) and inlines calls of other engine methods.  Definitions only. *)
From Coq Require Import String List Bool.
Import ListNotations.
Open Scope string_scope.

Inductive akind := Kloaded | Ktransient | Kparam | Knone.

Inductive code :=
| Raise (label : string)
| Mut | MutParam | Commit | Rollback | SetPh | Ret
| Call (f : string) (k : akind)
| CallOnce (f : string) (k : akind)   (* every top-level loop of f runs exactly once in this call *)
| Seq (l : list code)
| If (a b : code)
| Loop (b : code).

(* abstract state of a path: may a loaded object / the session hold an uncommitted change (dirty);
   may a commit already have published a change in this handler invocation (effected) *)
Record st := { dirty : bool; effected : bool }.
Definition clean_st : st := {| dirty := false; effected := false |}.
Definition join (a b : option st) : option st :=
  match a, b with
  | None, x | x, None => x
  | Some x, Some y => Some {| dirty := dirty x || dirty y; effected := effected x || effected y |}
  end.

Record res := { fall : option st;      (* state when control falls out of the code; None = does not *)
                exits : option st;     (* join of the states at its `return`s *)
                viols : list string }. (* labels of raises reached in a dirty state, "SetPh" when the placeholder is set in one *)

Fixpoint lookup_code (f : string) (env : list (string * code)) : option code :=
  match env with
  | [] => None
  | (g, c) :: r => if String.eqb f g then Some c else lookup_code f r
  end.

Fixpoint analyse (fuel : nat) (env : list (string * code)) (pk : akind) (once : bool) (c : code) (s : option st) {struct fuel} : res :=
  match fuel with
  | O => {| fall := s; exits := None; viols := ["analysis out of fuel"] |}
  | S fuel' =>
    match s with
    | None => {| fall := None; exits := None; viols := [] |}
    | Some d =>
      match c with
      | Raise l => {| fall := None; exits := None;
                      viols := (if dirty d then [l] else []) ++ (if effected d then ["after a commit that took effect - " ++ l] else []) |}
      | Mut => {| fall := Some {| dirty := true; effected := effected d |}; exits := None; viols := [] |}
      | MutParam =>
          {| fall := Some {| dirty := match pk with Ktransient => dirty d | _ => true end; effected := effected d |}; exits := None; viols := [] |}
      | Commit => {| fall := Some {| dirty := false; effected := effected d || dirty d |}; exits := None; viols := [] |}
      | Rollback => {| fall := Some {| dirty := false; effected := effected d |}; exits := None; viols := [] |}
      | SetPh => {| fall := s; exits := None; viols := if dirty d then ["placeholder set before commit"] else [] |}
      | Ret => {| fall := None; exits := s; viols := [] |}
      | Call f k =>
          match lookup_code f env with
          | None => {| fall := s; exits := None; viols := ["call of an unknown method: " ++ f] |}
          | Some body =>
              let r := analyse fuel' env (match k with Kparam => pk | _ => k end) false body s in
              {| fall := join (fall r) (exits r); exits := None; viols := viols r |}
          end
      | CallOnce f k =>
          match lookup_code f env with
          | None => {| fall := s; exits := None; viols := ["call of an unknown method: " ++ f] |}
          | Some body =>
              let r := analyse fuel' env (match k with Kparam => pk | _ => k end) true body s in
              {| fall := join (fall r) (exits r); exits := None; viols := viols r |}
          end
      | Seq l =>
          (fix go (l : list code) (s : option st) (ex : option st) (vs : list string) : res :=
             match l with
             | [] => {| fall := s; exits := ex; viols := vs |}
             | x :: r => let rx := analyse fuel' env pk once x s in
                         go r (fall rx) (join ex (exits rx)) (vs ++ viols rx)%list
             end) l s None []
      | If a b =>
          let ra := analyse fuel' env pk false a s in
          let rb := analyse fuel' env pk false b s in
          {| fall := join (fall ra) (fall rb); exits := join (exits ra) (exits rb); viols := (viols ra ++ viols rb)%list |}
      | Loop b =>
          if once then analyse fuel' env pk false b s      (* a top-level loop of a CallOnce callee: exactly one iteration *)
          else
          let s1 := join s (fall (analyse fuel' env pk false b s)) in
          let s2 := join s1 (fall (analyse fuel' env pk false b s1)) in
          let r := analyse fuel' env pk false b s2 in
          {| fall := join s2 (fall r); exits := exits r; viols := viols r |}
      end
    end
  end.

Fixpoint dedup (l : list string) : list string :=
  match l with
  | [] => []
  | x :: r => if existsb (String.eqb x) r then dedup r else x :: dedup r
  end.

Definition late_raises_of (env : list (string * code)) (h : string) : list string :=
  match lookup_code h env with
  | None => ["handler not found: " ++ h]
  | Some c => dedup (viols (analyse 400 env Knone false c (Some clean_st)))
  end.

Definition late_raises (env : list (string * code)) (handlers : list string) : list (string * list string) :=
  filter (fun p => negb (match snd p with [] => true | _ => false end))
         (map (fun h => (h, late_raises_of env h)) handlers).

(* does a handler end (fall through or return) with an uncommitted change on some path *)
Definition ends_dirty_of (env : list (string * code)) (h : string) : bool :=
  match lookup_code h env with
  | None => true
  | Some c => let r := analyse 400 env Knone false c (Some clean_st) in
              match join (fall r) (exits r) with Some x => dirty x | None => false end
  end.

(* the events of a piece of code in textual order *)
Fixpoint flatten (fuel : nat) (c : code) : list code :=
  match fuel with
  | O => []
  | S f =>
    match c with
    | Seq l => flat_map (flatten f) l
    | If a b => (flatten f a ++ flatten f b)%list
    | Loop b => flatten f b
    | x => [x]
    end
  end.

Definition is_call_of (name : string) (c : code) : bool :=
  match c with Call g _ | CallOnce g _ => String.eqb g name | _ => false end.
Definition is_rollback (c : code) : bool := match c with Rollback => true | _ => false end.

(* in method m, a session rollback textually follows the call of `callee` (the except branches lie in between) *)
Fixpoint rollback_follows (callee : string) (l : list code) : bool :=
  match l with
  | [] => false
  | x :: r => if is_call_of callee x then existsb is_rollback r else rollback_follows callee r
  end.
Definition rolls_back_after (env : list (string * code)) (m callee : string) : bool :=
  match lookup_code m env with
  | None => false
  | Some c => rollback_follows callee (flatten 50 c)
  end.
