(* C08 - what KmipSession._handle_message_loop (kmip/services/server/session.py l.208-259)
   makes of the engine's answer: a request-level KmipError becomes an error response; a
   response whose encoding is longer than the maximum response size is REPLACED by a
   single RESPONSE_TOO_LARGE error item - after the batch has been executed and committed.

   The encoded length of the engine's response is an oracle input (the model does not
   encode TTLV here): `size` is the number of bytes the real encoder produced. *)
From Coq Require Import ZArith List Bool.
From PK Require Import Batch.Generic Batch.Store.
Import ListNotations.
Open Scope Z_scope.

Definition default_max_response_size := 1048576.

(* engine.py l.224-226 passes the header value on; session.py l.218 `if max_response_size is not None:`
   (after the repair 0ad0134 a requested size of 0 is honoured like any other) *)
Definition effective_max (m : option Z) : Z :=
  match m with
  | Some v => v
  | None => default_max_response_size
  end.

Inductive answer :=
| AError (e : rerr)                 (* error response for a request-level KmipError *)
| ATooLarge                         (* the results were discarded: RESPONSE_TOO_LARGE *)
| AResults (rs : list result).

Definition session_answer (st : store) (h : header) (max : option Z) (size : Z) (its : list (item body))
  : answer * store :=
  match process st h its with
  | (inl e, st') => (AError e, st')
  | (inr rs, st') => if effective_max max <? size then (ATooLarge, st') else (AResults rs, st')
  end.

Definition answer_is_error (a : answer) : bool := match a with AResults _ => false | _ => true end.
