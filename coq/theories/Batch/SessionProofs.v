(* C08 at the session layer: every error answer leaves the store untouched EXCEPT the
   RESPONSE_TOO_LARGE substitution, which discards the results of a batch that has
   already been executed (known finding C08-response-too-large-after-effect). *)
From Coq Require Import ZArith List Bool Lia.
From PK Require Import Batch.Generic Batch.GenericProofs Batch.Store Batch.StoreProofs Batch.Session.
Import ListNotations.
Open Scope Z_scope.

(* the statement at full strength: an error answer means nothing happened *)
Definition session_no_unreported_effect_statement : Prop :=
  forall st h max size its a st',
    session_answer st h max size its = (a, st') -> answer_is_error a = true -> st' = st.

(* what is provable: every error answer other than the too-large substitution *)
Lemma session_error_no_effect_partial : forall st h max size its a st',
    session_answer st h max size its = (a, st') -> answer_is_error a = true -> a <> ATooLarge -> st' = st.
Proof.
  unfold session_answer. intros st h max size its a st' H He Hn.
  destruct (process st h its) as [[e|rs] st1] eqn:Hp.
  - inversion H; subst. exact (request_error_no_effect_c _ _ _ _ _ Hp).
  - destruct (effective_max max <? size); inversion H; subst; [congruence|discriminate].
Qed.

(* a response that fits is passed on unchanged *)
Lemma session_fits : forall st h max size its rs st',
    size <= effective_max max -> process st h its = (inr rs, st') ->
    session_answer st h max size its = (AResults rs, st').
Proof.
  unfold session_answer. intros st h max size its rs st' Hs Hp. rewrite Hp.
  assert ((effective_max max <? size) = false) as -> by (apply Z.ltb_ge; lia). reflexivity.
Qed.

(* the substitution happens exactly when the batch ran and its encoding is too long *)
Lemma session_too_large_iff : forall st h max size its st',
    session_answer st h max size its = (ATooLarge, st') <->
    (exists rs, process st h its = (inr rs, st')) /\ effective_max max < size.
Proof.
  unfold session_answer. intros st h max size its st'. split.
  - intros H. destruct (process st h its) as [[e|rs] st1] eqn:Hp; [discriminate|].
    destruct (effective_max max <? size) eqn:Hc; [|discriminate].
    inversion H; subst. split; [eauto|]. now apply Z.ltb_lt.
  - intros [[rs Hp] Hlt]. rewrite Hp.
    assert ((effective_max max <? size) = true) as -> by (apply Z.ltb_lt; lia). reflexivity.
Qed.

(* the witness: a Create with a maximum response size of 1 byte is executed, committed,
   and answered with an error *)
Definition tl_items : list (item body) := [ Build_item 1 None (BCreate true false true true true true [] [] None) ].
Definition tl_header : header :=
  {| h_ver := (1,2); h_now := 100; h_ts := None; h_async := None; h_opt := None; h_order := None; h_user := 1 |}.

Lemma session_too_large_witness :
  exists st', session_answer demo_store tl_header (Some 1) 200 tl_items = (ATooLarge, st') /\
              lookup 2 st' <> None /\ lookup 2 demo_store = None.
Proof. eexists. vm_compute. repeat split; discriminate. Qed.

Lemma session_no_unreported_effect_refuted_lemma : ~ session_no_unreported_effect_statement.
Proof.
  intros Hall.
  destruct session_too_large_witness as [st' [Ha [Hin Hout]]].
  specialize (Hall _ _ _ _ _ _ _ Ha eq_refl). subst st'. contradiction.
Qed.
