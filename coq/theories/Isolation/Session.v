(* C11, connection level: code model of KmipSession._handle_message_loop as far as it carries state.
   The session object has four attributes (set in __init__): _max_response_size, _max_request_size,
   _max_buffer_size, _session_time.  All four are configuration: read by every message, written by none.
   A message states its own Maximum Response Size in its header; that limit applies to THIS answer only
   (local variable max_size), and only when the engine answered (a request-level KmipError is answered
   under the session's own limit).

   Definitions and proofs.  Tie K: harness/c11.py (SessRunner), comparator scheck_history below. *)
From PK Require Export Isolation.Model Isolation.Cases.
From PK Require Import Isolation.Proofs.
From Coq Require Import ZArith List Bool String.
Import ListNotations.
Open Scope Z_scope.

Record sess := { s_max_resp : Z; s_max_req : Z; s_buf : Z; s_time : Z }.
Definition new_sess (now : Z) : sess := {| s_max_resp := 1048576; s_max_req := 1048576; s_buf := 4096; s_time := now |}.

Inductive frame :=
| FBad                                            (* bytes that RequestMessage.read refuses *)
| FNoAuth                                         (* a well-formed request of a client the authentication service does not know *)
| FReq (q : xrequest) (qmax : option Z) (len : Z). (* a request, its Maximum Response Size, and the encoded length of
                                                      the engine's answer (oracle input: the model has no encoder) *)

Inductive sout := SInvalid | SAuthFail | STooLarge | SAnswer (o : xout).

Definition handle_message (ss : sess) (s : xstore * transient) (who : Z) (f : frame) : sout * sess * (xstore * transient) :=
  match f with
  | FBad => (SInvalid, ss, s)
  | FNoAuth => (SAuthFail, ss, s)                  (* the engine is not called *)
  | FReq q qmax len =>
      let '(o, s') := process_request (fst s) (snd s) who q in
      match o with
      | XOk _ => let max_size := match qmax with Some m => m | None => s_max_resp ss end in
                 ((if max_size <? len then STooLarge else SAnswer o), ss, s')
      | XErr _ => (SAnswer o, ss, s')              (* build_error_response: a few dozen bytes, under the session's limit *)
      end
  end.

(* one connection: messages of one authenticated identity over one session object *)
Fixpoint run_connection (ss : sess) (s : xstore * transient) (who : Z) (fs : list frame) : list sout * sess * (xstore * transient) :=
  match fs with
  | [] => ([], ss, s)
  | f :: rest => let '(o, ss1, s1) := handle_message ss s who f in
                 let '(os, ss2, s2) := run_connection ss1 s1 who rest in (o :: os, ss2, s2)
  end.

(* ---------- theorems ---------- *)

Lemma session_unchanged : forall ss s who f, snd (fst (handle_message ss s who f)) = ss.
Proof.
  intros ss s who f. destruct f as [| |q qmax len]; simpl; auto.
  destruct (process_request (fst s) (snd s) who q) as [o s']. destruct o; simpl; auto.
Qed.

Lemma connection_session_unchanged : forall fs ss s who, snd (fst (run_connection ss s who fs)) = ss.
Proof.
  induction fs as [|f rest IH]; intros ss s who; simpl; auto.
  pose proof (session_unchanged ss s who f) as H.
  destruct (handle_message ss s who f) as [[o ss1] s1]. simpl in H. subst ss1.
  specialize (IH ss s1 who). destruct (run_connection ss s1 who rest) as [[os ss2] s2]. simpl in *. auto.
Qed.

(* the answer to a message does not depend on the engine object's leftovers either *)
Lemma message_transient_irrelevant : forall ss xs t1 t2 who f,
  fst (fst (handle_message ss (xs, t1) who f)) = fst (fst (handle_message ss (xs, t2) who f)) /\
  fst (snd (handle_message ss (xs, t1) who f)) = fst (snd (handle_message ss (xs, t2) who f)).
Proof.
  intros ss xs t1 t2 who f. destruct f as [| |q qmax len]; simpl; auto.
  pose proof (transient_irrelevant xs t1 t2 who q) as [H1 H2].
  destruct (process_request xs t1 who q) as [o1 [xs1 t1']]. destruct (process_request xs t2 who q) as [o2 [xs2 t2']].
  simpl in H1, H2. subst o2 xs2. destruct o1; simpl; auto.
Qed.

(* The property at connection level: after ANY messages on this connection (small response limits, other
   versions, failing and undecodable messages) the probe is answered exactly as over a NEW connection
   (new session object, same configuration) to a FRESH engine object on the same store. *)
Theorem probe_equals_fresh_connection : forall prefix now s0 who probe,
  let r := run_connection (new_sess now) s0 who prefix in
  let ss := snd (fst r) in let s := snd r in
  fst (fst (handle_message ss s who probe)) = fst (fst (handle_message (new_sess now) (fst s, fresh_transient) who probe)) /\
  fst (snd (handle_message ss s who probe)) = fst (snd (handle_message (new_sess now) (fst s, fresh_transient) who probe)).
Proof.
  intros prefix now s0 who probe. cbv zeta.
  rewrite connection_session_unchanged.
  destruct (snd (run_connection (new_sess now) s0 who prefix)) as [xs t]. simpl fst.
  apply message_transient_irrelevant.
Qed.

(* what it excludes: a session that keeps the limit of an earlier message (seeded defect C11C) *)
Definition handle_message_sticky (ss : sess) (s : xstore * transient) (who : Z) (f : frame) : sout * sess * (xstore * transient) :=
  match f with
  | FBad => (SInvalid, ss, s)
  | FNoAuth => (SAuthFail, ss, s)
  | FReq q qmax len =>
      let '(o, s') := process_request (fst s) (snd s) who q in
      match o with
      | XOk _ => let ss' := match qmax with
                            | Some m => {| s_max_resp := m; s_max_req := s_max_req ss; s_buf := s_buf ss; s_time := s_time ss |}
                            | None => ss end in
                 ((if s_max_resp ss' <? len then STooLarge else SAnswer o), ss', s')
      | XErr _ => (SAnswer o, ss, s')
      end
  end.

Definition locate_q : xrequest :=
  {| q_ver := 12; q_stamp := StampAbsent; q_async := None; q_undo := false; q_cont := false; q_ids_ok := false;
     q_items := [{| x_item := {| i_op := OLocate; i_gate := true |}; x_present := [] |}] |}.

Theorem sticky_session_not_isolated :
  exists ss1 ss2 s who f,
    ss2 = snd (fst (handle_message_sticky ss1 s who (FReq locate_q (Some 100) 80))) /\
    fst (fst (handle_message_sticky ss1 s who f)) <> fst (fst (handle_message_sticky ss2 s who f)).
Proof.
  exists (new_sess 0), (snd (fst (handle_message_sticky (new_sess 0) (init_xstore, fresh_transient) 0 (FReq locate_q (Some 100) 80)))),
         (init_xstore, fresh_transient), 0, (FReq locate_q None 500).
  split; [reflexivity|]. vm_compute. discriminate.
Qed.

(* ---------- comparator ---------- *)

Inductive sevent :=
| SMsg (conn : Z) (who : Z) (f : frame)      (* a message on connection `conn` (each has its own session object) *)
| SRestartAll.                               (* server restart: new engine object, all connections gone *)

Definition sout_eqb (a b : sout) : bool :=
  match a, b with
  | SInvalid, SInvalid | STooLarge, STooLarge | SAuthFail, SAuthFail => true
  | SAnswer x, SAnswer y => xout_eqb x y
  | _, _ => false
  end.

Record sobs := { so_out : option sout; so_next : Z; so_uids : list Z }.

(* every connection's session record is new_sess (connection_session_unchanged), so the comparator needs no per-connection state *)
Fixpoint scheck_from (s : xstore * transient) (h : list (sevent * sobs)) : bool :=
  match h with
  | [] => true
  | (ev, ob) :: rest =>
      let '(o, s1) := match ev with
                      | SMsg _ who f => let '(o, _, s1) := handle_message (new_sess 0) s who f in (Some o, s1)
                      | SRestartAll => (None, (fst s, fresh_transient))
                      end in
      match o, so_out ob with
      | Some a, Some b => sout_eqb a b
      | None, None => true
      | _, _ => false
      end && (next_uid (xs_base (fst s1)) =? so_next ob) && zlist_eqb (uids (xs_base (fst s1))) (so_uids ob)
      && scheck_from s1 rest
  end.
Definition scheck_history (h : list (sevent * sobs)) : bool := scheck_from (init_xstore, fresh_transient) h.

Fixpoint sfirst_bad_from (s : xstore * transient) (h : list (sevent * sobs)) (k : Z) : Z :=
  match h with
  | [] => -1
  | (ev, ob) :: rest =>
      if scheck_from s [(ev, ob)] then
        let s1 := match ev with
                  | SMsg _ who f => snd (handle_message (new_sess 0) s who f)
                  | SRestartAll => (fst s, fresh_transient)
                  end in sfirst_bad_from s1 rest (k + 1)
      else k
  end.
Definition sfirst_bad (h : list (sevent * sobs)) : Z := sfirst_bad_from (init_xstore, fresh_transient) h 0.

(* shorthand: a frame from the request term the engine-level cases use *)
Definition SF (conn : Z) (ev : xevent) (qmax : option Z) (len : Z) : sevent :=
  match ev with
  | XReq who q => SMsg conn who (FReq q qmax len)
  | XRestart => SRestartAll
  end.
Definition SBadF (conn who : Z) : sevent := SMsg conn who FBad.
Definition SNoAuthF (conn who : Z) : sevent := SMsg conn who FNoAuth.
Definition SO (o : option sout) (n : Z) (us : list Z) : sobs := {| so_out := o; so_next := n; so_uids := us |}.
