(* Comparator for the C11 correspondence (tie K): a case is a prefix history plus a probe request,
   each event with what the LIVE engine answered; the model runs from the empty store and a fresh
   transient and must agree at every event (the probe is the last one). *)
From PK Require Export Isolation.Model Uid.Cases.
From Coq Require Import ZArith List Bool String.
Import ListNotations.
Open Scope Z_scope.

Fixpoint slist_eqb (a b : list string) : bool :=
  match a, b with
  | [], [] => true
  | x :: a', y :: b' => String.eqb x y && slist_eqb a' b'
  | _, _ => false
  end.

Definition xresp_eqb (a b : xresp) : bool :=
  match a, b with
  | XR x, XR y => resp_eqb x y
  | XNames x, XNames y => slist_eqb x y
  | _, _ => false
  end.

Fixpoint xresps_eqb (a b : list xresp) : bool :=
  match a, b with
  | [], [] => true
  | x :: a', y :: b' => xresp_eqb x y && xresps_eqb a' b'
  | _, _ => false
  end.

Definition err_code (e : rq_error) : Z :=
  match e with EVersion => 0 | EFuture => 1 | EStale => 2 | EAsync => 3 | EUndo => 4 | EBatchId => 5 end.

Definition xout_eqb (a b : xout) : bool :=
  match a, b with
  | XErr x, XErr y => err_code x =? err_code y
  | XOk x, XOk y => xresps_eqb x y
  | _, _ => false
  end.

Record xobs := { xo_out : option xout; xo_next : Z; xo_uids : list Z }.

Definition xobs_agrees (o : option xout) (s : xstore * transient) (ob : xobs) : bool :=
  match o, xo_out ob with
  | Some a, Some b => xout_eqb a b
  | None, None => true
  | _, _ => false
  end && (next_uid (xs_base (fst s)) =? xo_next ob) && zlist_eqb (uids (xs_base (fst s))) (xo_uids ob).

Fixpoint xcheck_from (s : xstore * transient) (h : list (xevent * xobs)) : bool :=
  match h with
  | [] => true
  | (ev, ob) :: rest => let '(o, s1) := step_event_t true s ev in xobs_agrees o s1 ob && xcheck_from s1 rest
  end.

Definition xcheck_history (h : list (xevent * xobs)) : bool := xcheck_from (init_xstore, fresh_transient) h.

Fixpoint xfirst_bad_from (s : xstore * transient) (h : list (xevent * xobs)) (k : Z) : Z :=
  match h with
  | [] => -1
  | (ev, ob) :: rest => let '(o, s1) := step_event_t true s ev in
                        if xobs_agrees o s1 ob then xfirst_bad_from s1 rest (k + 1) else k
  end.
Definition xfirst_bad (h : list (xevent * xobs)) : Z := xfirst_bad_from (init_xstore, fresh_transient) h 0.

Definition xmodel_trace (h : list (xevent * xobs)) : list (option xout) :=
  fst (run_history_t true (init_xstore, fresh_transient) (map fst h)).

(* shorthands *)
Definition XI (o : op) (g : bool) (p : list (list string)) : xitem := {| x_item := It o g; x_present := p |}.
Definition XQ (who ver : Z) (st : stamp) (a : option bool) (undo cont ids : bool) (its : list xitem) : xevent :=
  XReq who {| q_ver := ver; q_stamp := st; q_async := a; q_undo := undo; q_cont := cont; q_ids_ok := ids; q_items := its |}.
Definition XB (o : option xout) (n : Z) (us : list Z) : xobs := {| xo_out := o; xo_next := n; xo_uids := us |}.
