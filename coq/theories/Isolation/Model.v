(* C11 - request isolation: code model of KmipEngine.process_request / _process_batch with the
   fields the engine OBJECT keeps between requests made explicit:

     t_ph     self._id_placeholder        t_ver    self._protocol_version
     t_apv    self._attribute_policy (the version it was built for)
     t_ident  self._client_identity[0]    t_async  self.is_asynchronous

   (self._data_session is replaced by a new session at the top of _process_batch before any
   handler runs and carries no data of its own in this model: the store is what it reads.)

   Handlers (Uid.Model.step_item, refined here for GetAttributeList) read these fields from the
   transient record; process_request writes each of them from the request before the first read.
   That order is exactly what the theorem transient_irrelevant is about.

   Definitions only.  Tie K: harness/c11.py. *)
From PK Require Export Uid.Model.
From PKGen Require Import AttrRuleTable.
From Coq Require Import ZArith List Bool String.
Import ListNotations.
Open Scope Z_scope.

Record transient := { t_ph : option Z; t_ver : Z; t_apv : Z; t_ident : Z; t_async : bool }.

Definition nobody : Z := -1.                                  (* _client_identity = [None, None] *)

(* KmipEngine.__init__ *)
Definition fresh_transient : transient :=
  {| t_ph := None; t_ver := 12; t_apv := 12; t_ident := nobody; t_async := false |}.

Definition set_ph (t : transient) (x : option Z) := {| t_ph := x; t_ver := t_ver t; t_apv := t_apv t; t_ident := t_ident t; t_async := t_async t |}.
Definition set_version (t : transient) (v : Z) := {| t_ph := t_ph t; t_ver := v; t_apv := v; t_ident := t_ident t; t_async := t_async t |}.
Definition set_ident (t : transient) (w : Z) := {| t_ph := t_ph t; t_ver := t_ver t; t_apv := t_apv t; t_ident := w; t_async := t_async t |}.
Definition set_async (t : transient) (b : bool) := {| t_ph := t_ph t; t_ver := t_ver t; t_apv := t_apv t; t_ident := t_ident t; t_async := b |}.

(* ---------- the store, with the attribute names each object has a value for ---------- *)

Record xstore := { xs_base : store; xs_present : list (Z * list string) }.
Definition init_xstore : xstore := {| xs_base := init_store; xs_present := [] |}.

(* creating items say which attribute names their template leaves present on each created object
   (a function of the request; harness/c11.py PRESENT) *)
Record xitem := { x_item : item; x_present : list (list string) }.

Inductive xresp := XR (r : resp) | XNames (ns : list string).

Definition ver_of (p : Z * Z) : Z := 10 * fst p + snd p.

(* AttributePolicy.is_attribute_supported / is_attribute_deprecated for the version the policy was built for *)
Definition attr_visible (apv : Z) (n : string) : bool :=
  match find_rule n with
  | None => false
  | Some r => (ver_of (ar_version_added r) <=? apv) &&
              negb (match ar_version_deprecated r with Some d => ver_of d <=? apv | None => false end)
  end.

Definition present_of (u : option Z) (xs : xstore) : list string :=
  match u with
  | None => []
  | Some v => match find (fun p => fst p =? v) (xs_present xs) with Some p => snd p | None => [] end
  end.

(* DeleteAttribute removing the last value of an attribute makes the name disappear from the object *)
Definition remove_names (u : option Z) (ns : list string) (pr : list (Z * list string)) : list (Z * list string) :=
  match u with
  | None => pr
  | Some v => map (fun p => if fst p =? v
                            then (fst p, filter (fun n => negb (existsb (String.eqb n) ns)) (snd p)) else p) pr
  end.

(* one batch item: the handler reads placeholder, version, identity and attribute policy from the engine object *)
Definition step_item_t (xs : xstore) (t : transient) (xi : xitem) : xresp * xstore * transient :=
  let it := x_item xi in
  let '(r, st', ph') := step_item (t_ver t) (t_ident t) (xs_base xs) (t_ph t) it in
  let present' := match i_op it, r with
                  | _, RIssued ids => xs_present xs ++ combine ids (x_present xi)
                  | OAddr ADeleteAttribute tgt, RFound =>
                      if i_gate it then remove_names (resolve tgt (t_ph t)) (List.concat (x_present xi)) (xs_present xs)
                      else xs_present xs
                  | _, _ => xs_present xs
                  end in
  let r' := match i_op it, r with
            | OAddr AGetAttributeList tgt, RFound =>
                if i_gate it then XNames (filter (attr_visible (t_apv t)) (present_of (resolve tgt (t_ph t)) xs)) else XR r
            | _, _ => XR r
            end in
  (r', {| xs_base := st'; xs_present := present' |}, set_ph t ph').

Definition xfailed (it : item) (r : xresp) : bool :=
  match r with XR r0 => failed it r0 | XNames _ => false end.

Fixpoint run_items_t (cont : bool) (xs : xstore) (t : transient) (its : list xitem) : list xresp * xstore * transient :=
  match its with
  | [] => ([], xs, t)
  | xi :: rest =>
      let '(r, xs1, t1) := step_item_t xs t xi in
      if xfailed (x_item xi) r && negb cont then ([r], xs1, t1)
      else let '(rs, xs2, t2) := run_items_t cont xs1 t1 rest in (r :: rs, xs2, t2)
  end.

(* ---------- requests ---------- *)

Inductive stamp := StampAbsent | StampRecent | StampFuture | StampStale.     (* header time stamp vs the server clock *)

Record xrequest := { q_ver : Z; q_stamp : stamp; q_async : option bool; q_undo : bool; q_cont : bool;
                     q_ids_ok : bool;            (* every batch item carries a unique batch item id *)
                     q_items : list xitem }.

Inductive rq_error := EVersion | EFuture | EStale | EAsync | EUndo | EBatchId.
Inductive xout := XErr (e : rq_error) | XOk (rs : list xresp).

(* process_request, statement by statement.  reset_ph = true is the code as it is (fix 668324a);
   false is the code before that fix, kept to show what the theorem excludes. *)
Definition process_request_gen (reset_ph : bool) (xs : xstore) (t : transient) (who : Z) (q : xrequest)
  : xout * (xstore * transient) :=
  let t := set_ident t nobody in                                   (* self._client_identity = [None, None] *)
  let t := if reset_ph then set_ph t None else t in                (* self._id_placeholder = None *)
  if negb (supported_version (q_ver q)) then (XErr EVersion, (xs, t))
  else
  let t := set_version t (q_ver q) in                              (* _set_protocol_version: version + AttributePolicy *)
  match q_stamp q with
  | StampFuture => (XErr EFuture, (xs, t))
  | StampStale => (XErr EStale, (xs, t))
  | _ =>
    let t := set_async t false in                                  (* self.is_asynchronous = False *)
    let t := match q_async q with Some b => set_async t b | None => t end in
    if t_async t then (XErr EAsync, (xs, t))
    else
    let t := set_ident t who in                                    (* _verify_credential *)
    if q_undo q then (XErr EUndo, (xs, t))
    else if (1 <? Z.of_nat (List.length (q_items q))) && negb (q_ids_ok q) then (XErr EBatchId, (xs, t))
    else let '(rs, xs', t') := run_items_t (q_cont q) xs t (q_items q) in (XOk rs, (xs', t'))
  end.

Definition process_request := process_request_gen true.

(* ---------- histories: requests by any identities, and restarts (a new engine object) ---------- *)

Inductive xevent := XReq (who : Z) (q : xrequest) | XRestart.

Definition step_event_t (reset_ph : bool) (s : xstore * transient) (ev : xevent) : option xout * (xstore * transient) :=
  match ev with
  | XReq who q => let '(o, s') := process_request_gen reset_ph (fst s) (snd s) who q in (Some o, s')
  | XRestart => (None, (fst s, fresh_transient))
  end.

Fixpoint run_history_t (reset_ph : bool) (s : xstore * transient) (evs : list xevent) : list (option xout) * (xstore * transient) :=
  match evs with
  | [] => ([], s)
  | ev :: rest => let '(o, s1) := step_event_t reset_ph s ev in
                  let '(os, s2) := run_history_t reset_ph s1 rest in (o :: os, s2)
  end.
