(* C11 proofs: nothing the engine object keeps between requests influences a request. *)
From PK Require Import Isolation.Model.
From Coq Require Import ZArith List Bool String.
Import ListNotations.
Open Scope Z_scope.

(* the header processing of process_request overwrites every transient field before the batch runs *)
Lemma header_overwrites : forall t1 t2 who v b,
  set_ident (set_async (set_version (set_ph (set_ident t1 nobody) None) v) b) who =
  set_ident (set_async (set_version (set_ph (set_ident t2 nobody) None) v) b) who.
Proof. intros. reflexivity. Qed.

Theorem transient_irrelevant : forall xs t1 t2 who q,
  fst (process_request xs t1 who q) = fst (process_request xs t2 who q) /\
  fst (snd (process_request xs t1 who q)) = fst (snd (process_request xs t2 who q)).
Proof.
  intros xs t1 t2 who q. unfold process_request, process_request_gen.
  destruct (negb (supported_version (q_ver q))); [simpl; auto|].
  (* after the header is processed both engine objects hold the same five fields (header_overwrites):
     every remaining case is an equation between syntactically equal terms *)
  destruct (q_stamp q); simpl; auto.
Qed.

(* whole histories: two engine objects that differ in every transient field but share the store
   answer every request of every history identically and end with the same store *)
Theorem history_transient_irrelevant : forall evs xs t1 t2,
  fst (run_history_t true (xs, t1) evs) = fst (run_history_t true (xs, t2) evs) /\
  fst (snd (run_history_t true (xs, t1) evs)) = fst (snd (run_history_t true (xs, t2) evs)).
Proof.
  induction evs as [|ev rest IH]; intros xs t1 t2; [simpl; auto|].
  cbn [run_history_t].
  destruct ev as [who q|].
  - cbn [step_event_t fst snd].
    pose proof (transient_irrelevant xs t1 t2 who q) as [H1 H2]. fold process_request.
    destruct (process_request xs t1 who q) as [o1 [xs1 t1']].
    destruct (process_request xs t2 who q) as [o2 [xs2 t2']].
    simpl in H1, H2. subst o2 xs2.
    specialize (IH xs1 t1' t2'). destruct IH as [I1 I2].
    destruct (run_history_t true (xs1, t1') rest) as [os1 s1].
    destruct (run_history_t true (xs1, t2') rest) as [os2 s2].
    simpl in *. subst os2. rewrite I2. auto.
  - cbn [step_event_t fst snd].
    destruct (run_history_t true (xs, fresh_transient) rest) as [os s]. simpl. auto.
Qed.

(* the property's own formulation: after ANY prefix history the probe is answered exactly as by a fresh
   engine object opened on the same store, and leaves the same store *)
Theorem probe_equals_fresh : forall evs xs0 t0 who probe,
  let s := snd (run_history_t true (xs0, t0) evs) in
  fst (process_request (fst s) (snd s) who probe) = fst (process_request (fst s) fresh_transient who probe) /\
  fst (snd (process_request (fst s) (snd s) who probe)) = fst (snd (process_request (fst s) fresh_transient who probe)).
Proof. intros. apply transient_irrelevant. Qed.

(* ---------- what the theorem excludes: the engine before fix 668324a ---------- *)

Definition leak_store : xstore :=
  {| xs_base := {| objs := [mk 1 0 (TSym, 0)]; next_uid := 2 |}; xs_present := [] |}.
Definition leak_probe : xrequest :=
  {| q_ver := 12; q_stamp := StampAbsent; q_async := None; q_undo := false; q_cont := false; q_ids_ok := false;
     q_items := [{| x_item := {| i_op := OAddr AGet None; i_gate := true |}; x_present := [] |}] |}.

Theorem old_engine_not_isolated :
  exists xs t1 t2 who q,
    fst (process_request_gen false xs t1 who q) <> fst (process_request_gen false xs t2 who q).
Proof.
  exists leak_store, (set_ph fresh_transient (Some 1)), fresh_transient, 0, leak_probe.
  vm_compute. discriminate.
Qed.

(* the transient state a history leaves behind is not trivial: placeholder, version and identity all stick *)
Example leftovers :
  snd (snd (process_request init_xstore fresh_transient 2
     {| q_ver := 20; q_stamp := StampAbsent; q_async := None; q_undo := false; q_cont := false; q_ids_ok := false;
        q_items := [{| x_item := {| i_op := OCreate 0; i_gate := true |}; x_present := [[]] |}] |}))
  = {| t_ph := Some 1; t_ver := 20; t_apv := 20; t_ident := 2; t_async := false |}.
Proof. vm_compute. reflexivity. Qed.

(* ---------- which fields the handlers read ---------- *)

(* two engine objects look the same to a handler when they agree on placeholder, version, attribute
   policy and identity; the asynchronous flag is never read below process_request *)
Definition same_view (t t' : transient) : Prop :=
  t_ph t = t_ph t' /\ t_ver t = t_ver t' /\ t_apv t = t_apv t' /\ t_ident t = t_ident t'.

Lemma step_item_t_view : forall xs t t' xi, same_view t t' ->
  fst (fst (step_item_t xs t xi)) = fst (fst (step_item_t xs t' xi)) /\
  snd (fst (step_item_t xs t xi)) = snd (fst (step_item_t xs t' xi)) /\
  same_view (snd (step_item_t xs t xi)) (snd (step_item_t xs t' xi)).
Proof.
  intros xs t t' xi (H1 & H2 & H3 & H4). unfold step_item_t. rewrite H1, H2, H3, H4.
  destruct (step_item (t_ver t') (t_ident t') (xs_base xs) (t_ph t') (x_item xi)) as [[r st'] ph']. simpl.
  split; [|split]; auto. unfold same_view, set_ph; simpl. auto.
Qed.

Lemma run_items_t_view : forall cont its xs t t', same_view t t' ->
  fst (fst (run_items_t cont xs t its)) = fst (fst (run_items_t cont xs t' its)) /\
  snd (fst (run_items_t cont xs t its)) = snd (fst (run_items_t cont xs t' its)) /\
  same_view (snd (run_items_t cont xs t its)) (snd (run_items_t cont xs t' its)).
Proof.
  induction its as [|xi rest IH]; intros xs t t' V; [simpl; auto|].
  cbn [run_items_t].
  pose proof (step_item_t_view xs t t' xi V) as (A & B & C).
  destruct (step_item_t xs t xi) as [[r xs1] t1]. destruct (step_item_t xs t' xi) as [[r' xs1'] t1'].
  simpl in A, B, C. subst r' xs1'.
  destruct (xfailed (x_item xi) r && negb cont); [simpl; auto|].
  specialize (IH xs1 t1 t1' C). destruct IH as (A2 & B2 & C2).
  destruct (run_items_t cont xs1 t1 rest) as [[rs xs2] t2]. destruct (run_items_t cont xs1 t1' rest) as [[rs' xs2'] t2'].
  simpl in *. subst. auto.
Qed.

(* every field a handler reads has been written from the request itself when the batch starts *)
Lemma batch_view_from_request : forall t who v b,
  let t' := set_ident (set_async (set_version (set_ph (set_ident t nobody) None) v) b) who in
  t_ph t' = None /\ t_ver t' = v /\ t_apv t' = v /\ t_ident t' = who.
Proof. intros. simpl. auto. Qed.
