From PK Require Import Codec.Envelope.
From PKGen Require Import KmipErrors.
From Coq Require Import ZArith List Bool String Lia ZifyBool.
Import ListNotations.
Open Scope Z_scope.

Lemma compose_ok op bid o : outcome_ok o = true -> item_envelope_ok (compose op bid o) = true.
Proof.
  destruct o as [|st r m|]; cbn; intros H; try reflexivity.
  apply andb_prop in H as [Hs Hm]. unfold item_envelope_ok. cbn.
  apply negb_true_iff in Hs. rewrite Hs. apply negb_true_iff in Hm. rewrite Hm. reflexivity.
Qed.

Lemma batch_ok continue items :
  forallb (fun x => outcome_ok (snd x)) items = true -> forallb item_envelope_ok (batch continue items) = true.
Proof.
  induction items as [|[[op bid] o] items IH]; cbn; intros H; [reflexivity|].
  apply andb_prop in H as [Ho H]. rewrite compose_ok by exact Ho. cbn.
  destruct (failed o && negb continue); [reflexivity|apply IH; exact H].
Qed.

(* every response built by the batch path follows the envelope, for every batch, option and version *)
Theorem envelope version now continue items :
  forallb (fun x => outcome_ok (snd x)) items = true ->
  envelope_ok version (process version now continue items) = true.
Proof.
  intros H. unfold envelope_ok, process, build_response. cbn.
  rewrite !Z.eqb_refl. cbn. apply batch_ok. exact H.
Qed.

(* results are a prefix of the items: one per processed item, echoing operation and batch id *)
Theorem batch_prefix continue items :
  (List.length (batch continue items) <= List.length items)%nat /\
  forall n it, nth_error (batch continue items) n = Some it ->
    exists op bid o, nth_error items n = Some (op, bid, o) /\ it = compose op bid o.
Proof.
  induction items as [|[[op bid] o] items [IHl IHn]]; cbn; [split; [lia|intros [|n] it H; discriminate]|].
  split.
  - destruct (failed o && negb continue); cbn; lia.
  - intros [|n] it H; cbn in H.
    + injection H as <-. exists op, bid, o. split; reflexivity.
    + destruct (failed o && negb continue); [destruct n; discriminate|]. apply IHn. exact H.
Qed.

(* the error path of the session / request level *)
Theorem envelope_err version now reason msg :
  envelope_ok version (build_error_response version now reason msg) = true.
Proof. unfold envelope_ok, build_error_response, build_response. cbn. rewrite !Z.eqb_refl. reflexivity. Qed.

(* tie T: every KmipError class carries a failure status, and every raise site in the server code
   passes a message that cannot be empty - except text taken from a third-party exception (MExcText),
   which is trusted to be non-empty and is policed by the direct oracle of the harness *)
Definition class_ok (c : string * Z * Z) : bool := negb (snd (fst c) =? SUCCESS).
Definition site_ok (s : string * Z * string * bool * msg_shape) : bool :=
  match s with (_, _, _, nonempty, shape) =>
    match shape with MLit => nonempty | MExcText => true | MUnknown => false end end.

Lemma error_classes_fail : forallb class_ok kmip_error_classes = true.
Proof. vm_compute. reflexivity. Qed.

Lemma raise_sites_nonempty : forallb site_ok kmip_raise_sites = true.
Proof. vm_compute. reflexivity. Qed.
