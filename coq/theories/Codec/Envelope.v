(* Model of how the server composes a response message (engine.py: _process_batch item
   composition, _build_response, build_error_response).  Definitions only. *)
From Coq Require Import ZArith List Bool String.
Import ListNotations.
Open Scope Z_scope.

Definition SUCCESS : Z := 0.            (* enums.ResultStatus.SUCCESS *)
Definition OPERATION_FAILED : Z := 1.
Definition GENERAL_FAILURE : Z := 256.  (* enums.ResultReason.GENERAL_FAILURE = 0x100 *)
Definition CRASH_MESSAGE : string := "Operation failed. See the server logs for more information.".

(* what happened inside _process_operation *)
Inductive outcome :=
| OSuccess
| OKmipError (status reason : Z) (msg : string)      (* except exceptions.KmipError as e *)
| OOther.                                            (* except Exception *)

Record ritem := { ri_op : option Z; ri_bid : option (list Z); ri_status : Z;
                  ri_reason : option Z; ri_message : option string; ri_has_payload : bool }.

(* `if result_reason:` is always true for an enumeration member; `if result_message:` drops '' *)
Definition compose (op : option Z) (bid : option (list Z)) (o : outcome) : ritem :=
  match o with
  | OSuccess => {| ri_op := op; ri_bid := bid; ri_status := SUCCESS; ri_reason := None; ri_message := None; ri_has_payload := true |}
  | OKmipError st r m =>
      {| ri_op := op; ri_bid := bid; ri_status := st; ri_reason := Some r;
         ri_message := if String.eqb m "" then None else Some m; ri_has_payload := false |}
  | OOther =>
      {| ri_op := op; ri_bid := bid; ri_status := OPERATION_FAILED; ri_reason := Some GENERAL_FAILURE;
         ri_message := Some CRASH_MESSAGE; ri_has_payload := false |}
  end.

Definition failed (o : outcome) : bool := match o with OSuccess => false | _ => true end.

(* the batch loop: Stop (default) ends after the first failed item, Continue goes on *)
Fixpoint batch (continue : bool) (items : list (option Z * option (list Z) * outcome)) : list ritem :=
  match items with
  | [] => []
  | (op, bid, o) :: rest =>
      compose op bid o :: (if failed o && negb continue then [] else batch continue rest)
  end.

Record response := { rs_version : Z * Z; rs_time : Z; rs_batch_count : Z; rs_items : list ritem }.

Definition build_response (version : Z * Z) (now : Z) (items : list ritem) : response :=
  {| rs_version := version; rs_time := now; rs_batch_count := Z.of_nat (List.length items); rs_items := items |}.

Definition build_error_response (version : Z * Z) (now : Z) (reason : Z) (msg : string) : response :=
  build_response version now
    [{| ri_op := None; ri_bid := None; ri_status := OPERATION_FAILED; ri_reason := Some reason;
        ri_message := Some msg; ri_has_payload := false |}].

Definition process (version : Z * Z) (now : Z) (continue : bool) (items : list (option Z * option (list Z) * outcome)) : response :=
  build_response version now (batch continue items).

(* the envelope predicate of property C02, on one item and on a response *)
Definition item_envelope_ok (it : ritem) : bool :=
  if ri_status it =? SUCCESS
  then match ri_reason it, ri_message it with None, None => true | _, _ => false end
  else match ri_reason it, ri_message it with Some _, Some _ => true | _, _ => false end.

Definition envelope_ok (req_version : Z * Z) (r : response) : bool :=
  (fst (rs_version r) =? fst req_version) && (snd (rs_version r) =? snd req_version)
  && (rs_batch_count r =? Z.of_nat (List.length (rs_items r)))
  && forallb item_envelope_ok (rs_items r).

(* outcomes the code can produce: a KmipError carries a failure status and a non-empty text *)
Definition outcome_ok (o : outcome) : bool :=
  match o with
  | OKmipError st _ m => negb (st =? SUCCESS) && negb (String.eqb m "")
  | _ => true
  end.

(* comparator for the correspondence: what was raised -> how the item looks *)
Inductive ecase := ECase (o : outcome) (impl_status : Z) (impl_reason : option Z) (impl_message : option string).
Definition opt_z_eqb (a b : option Z) := match a, b with Some x, Some y => x =? y | None, None => true | _, _ => false end.
Definition opt_s_eqb (a b : option string) := match a, b with Some x, Some y => String.eqb x y | None, None => true | _, _ => false end.
Definition check_ecase (c : ecase) : bool :=
  match c with ECase o st r m =>
    let it := compose None None o in
    (ri_status it =? st) && opt_z_eqb (ri_reason it) r && opt_s_eqb (ri_message it) m
  end.
