(* Comparator for the structure correspondence (tie K on top of tie T): each
   case carries a byte string that harness/c01.py fed to the REAL class
   (`obj = Cls(); obj.read(BytearrayStream(bs), kmip_version=v)` then
   `obj.write(...)`) together with what the implementation did; the checker
   runs the schema interpreter of Codec/Schema.v on the same bytes under the
   regenerated environment and says whether the model agrees.  Definitions only. *)
From PK Require Export Codec.Schema.
Open Scope Z_scope.

Inductive scase :=
| SRd (v tag : Z) (c : string) (bs : bytes)
      (impl_accept : bool)            (* read() returned without raising *)
      (impl_rest : bytes)             (* what was left in the input stream (when accepted) *)
      (impl_rewrite : option bytes)   (* write() of the decoded object; None when it raised *)
(* acceptance and remaining stream only.  Used for accepted NON-canonical inputs in which some Boolean carries a
   length field other than 8: Boolean.read ignores the field but keeps it, Boolean.write emits it again, so the
   bytes re-written by the implementation are not a function of the decoded VALUE (primitive-level hidden state,
   modelled and tied by CReenc in Base/PrimCases.v); the decode-encode-decode oracle still runs on these. *)
| SRdA (v tag : Z) (c : string) (bs : bytes) (impl_accept : bool) (impl_rest : bytes).

Definition obytes_eqb (a b : option bytes) : bool :=
  match a, b with
  | Some x, Some y => bytes_eqb x y
  | None, None => true
  | _, _ => false
  end.

(* model accepts iff the implementation accepted; when both accept the
   remaining stream is the same and the model's re-encoding of ITS decoded
   value equals the bytes the implementation wrote for ITS decoded object *)
Definition check_scase (E : env) (fuel : nat) (s : scase) : bool :=
  match s with
  | SRd v tag c bs acc rest rew =>
      match rd E v fuel tag (KStruct c) bs with
      | None => negb acc
      | Some (x, r) => acc && bytes_eqb r rest && obytes_eqb (wr E v fuel tag (KStruct c) x) rew
      end
  | SRdA v tag c bs acc rest =>
      match rd E v fuel tag (KStruct c) bs with
      | None => negb acc
      | Some (x, r) => acc && bytes_eqb r rest
      end
  end.

(* what the model does on a case, for disagreement reports *)
Definition model_scase (E : env) (fuel : nat) (s : scase) : option (bytes * option bytes) :=
  match s with
  | SRd v tag c bs _ _ _ =>
      match rd E v fuel tag (KStruct c) bs with
      | None => None
      | Some (x, r) => Some (r, wr E v fuel tag (KStruct c) x)
      end
  | SRdA v tag c bs _ _ =>
      match rd E v fuel tag (KStruct c) bs with
      | None => None
      | Some (x, r) => Some (r, None)
      end
  end.
