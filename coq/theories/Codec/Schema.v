(* Schema language for TTLV structures and its interpreter (definitions only).

   A class is described twice, as extracted from its `read` and from its
   `write` method (translate/gen_schemas.py), so that an edit to only one of
   the two methods is visible.  `rd` is stream based exactly like the Python:
   read the header, cut the sub-stream with BytearrayStream.read(length)
   (silently shorter at the end of the buffer), walk the items peeking at the
   next tag, finally `is_oversized` when the class performs that check. *)
From PK Require Export Base.Bytes Base.Prim.
From Coq Require Export String.
Open Scope Z_scope.

Inductive mult := Req | Opt | Many.

Inductive kind :=
| KPrim (t : ptype)          (* any primitive but Enumeration *)
| KEnum (e : string)         (* Enumeration over the named enum of kmip.core.enums *)
| KStruct (c : string).      (* nested structure class *)

(* an item is active under protocol version v (10*major+minor) when i_lo <= v < i_hi *)
Record item := { i_tag : Z; i_kind : kind; i_lo : Z; i_hi : Z; i_mult : mult }.

Record cls := { c_name : string; c_rd : list item; c_wr : list item; c_oversize_check : bool }.

Record env := { e_classes : list cls; e_enums : list (string * list Z) }.

Definition find_cls (E : env) (c : string) : option cls :=
  find (fun k => String.eqb (c_name k) c) (e_classes E).

Definition enum_mem (E : env) (e : string) (v : Z) : bool :=
  match find (fun p => String.eqb (fst p) e) (e_enums E) with
  | Some (_, vs) => existsb (Z.eqb v) vs
  | None => false
  end.

Definition active (v : Z) (it : item) : bool := (i_lo it <=? v) && (v <? i_hi it).

(* A decoded / encodable value: a primitive, or a structure holding for each
   active item of its class (in order) the list of its occurrences. *)
Inductive value :=
| VP (p : pval)
| VS (fields : list (list value)).

(* ------------------------------------------------------------------ writer *)

Fixpoint opt_concat (l : list (option bytes)) : option bytes :=
  match l with
  | [] => Some []
  | None :: _ => None
  | Some b :: r => match opt_concat r with Some bs => Some (b ++ bs) | None => None end
  end.

Definition mult_ok (m : mult) (n : nat) : bool :=
  match m with
  | Req => Nat.eqb n 1
  | Opt => Nat.leb n 1
  | Many => true
  end.

Definition enc_field (wrf : Z -> kind -> value -> option bytes) (p : item * list value) : option bytes :=
  if mult_ok (i_mult (fst p)) (List.length (snd p))
  then opt_concat (map (wrf (i_tag (fst p)) (i_kind (fst p))) (snd p))
  else None.

Section Writer.
Variable E : env.
Variable v : Z.

Fixpoint wr (fuel : nat) (tag : Z) (k : kind) (x : value) {struct fuel} : option bytes :=
  match fuel with
  | O => None
  | S f =>
      match k, x with
      | KPrim t, VP p => if ptype_eqb (ptype_of p) t && negb (ptype_eqb t PEnum) then enc_prim tag p else None
      | KEnum e, VP (VEnum n) => enc_prim tag (VEnum n)
      | KStruct c, VS fields =>
          match find_cls E c with
          | None => None
          | Some k =>
              let items := filter (active v) (c_wr k) in
              if negb (Nat.eqb (List.length items) (List.length fields)) then None else
              match opt_concat (map (enc_field (wr f)) (combine items fields)) with
              | None => None
              | Some body => with_hdr tag STRUCT_CODE (zlen body) body
              end
          end
      | _, _ => None
      end
  end.
End Writer.

(* values the round-trip theorem speaks about: byte strings hold bytes, enumeration values are
   members of their enumeration, structures have one field list per active item (recursively) *)
Section WfValue.
Variable E : env.
Variable v : Z.
Fixpoint wfv (fuel : nat) (k : kind) (x : value) {struct fuel} : bool :=
  match fuel with
  | O => false
  | S f =>
      match k, x with
      | KPrim t, VP p => match p with VBytes b => bytes_ok b | _ => true end
      | KEnum e, VP (VEnum n) => enum_mem E e n
      | KStruct c, VS fields =>
          match find_cls E c with
          | None => false
          | Some k => forallb (fun p => forallb (wfv f (i_kind (fst p))) (snd p))
                              (combine (filter (active v) (c_wr k)) fields)
          end
      | _, _ => false
      end
  end.
End WfValue.

(* ------------------------------------------------------------------ reader *)

Section Reader.
Variable E : env.
Variable v : Z.

(* `while is_tag_next(tag, stream): read one` - lfuel bounds the number of turns *)
Fixpoint rd_many (rd1 : bytes -> option (value * bytes)) (tag : Z) (lfuel : nat) (bs : bytes)
  : option (list value * bytes) :=
  match lfuel with
  | O => None
  | S lf =>
      if is_tag_next tag bs then
        match rd1 bs with
        | None => None
        | Some (x, r) =>
            match rd_many rd1 tag lf r with
            | None => None
            | Some (xs, r') => Some (x :: xs, r')
            end
        end
      else Some ([], bs)
  end.

Definition rd_field (rd1 : bytes -> option (value * bytes)) (it : item) (bs : bytes)
  : option (list value * bytes) :=
  match i_mult it with
  | Req =>
      if is_tag_next (i_tag it) bs then
        match rd1 bs with Some (x, r) => Some ([x], r) | None => None end
      else None
  | Opt =>
      if is_tag_next (i_tag it) bs then
        match rd1 bs with Some (x, r) => Some ([x], r) | None => None end
      else Some ([], bs)
  | Many => rd_many rd1 (i_tag it) (S (List.length bs)) bs
  end.

Fixpoint rd_items (rdk : Z -> kind -> bytes -> option (value * bytes)) (items : list item) (bs : bytes)
  : option (list (list value) * bytes) :=
  match items with
  | [] => Some ([], bs)
  | it :: rest =>
      match rd_field (rdk (i_tag it) (i_kind it)) it bs with
      | None => None
      | Some (f, r) =>
          match rd_items rdk rest r with
          | None => None
          | Some (fs, r') => Some (f :: fs, r')
          end
      end
  end.

Fixpoint rd (fuel : nat) (tag : Z) (k : kind) (bs : bytes) {struct fuel} : option (value * bytes) :=
  match fuel with
  | O => None
  | S f =>
      match k with
      | KPrim t =>
          if ptype_eqb t PEnum then None else
          match dec_prim (fun _ => false) t tag bs with
          | Some (p, r) => Some (VP p, r)
          | None => None
          end
      | KEnum e =>
          match dec_prim (enum_mem E e) PEnum tag bs with
          | Some (p, r) => Some (VP p, r)
          | None => None
          end
      | KStruct c =>
          match find_cls E c with
          | None => None
          | Some k =>
              match dec_hdr tag STRUCT_CODE bs with
              | None => None
              | Some (len, r) =>
                  let n := Z.to_nat (Z.min len (zlen r)) in       (* BytearrayStream.read(length): at most what is there *)
                  let sub := firstn n r in
                  let rest := skipn n r in
                  match rd_items (rd f) (filter (active v) (c_rd k)) sub with
                  | None => None
                  | Some (fields, leftover) =>
                      if c_oversize_check k && negb (Nat.eqb (List.length leftover) 0) then None
                      else Some (VS fields, rest)
                  end
              end
          end
      end
  end.
End Reader.

(* ------------------------------------------------------------------ static check on an extracted environment *)

Definition mult_eqb (a b : mult) : bool :=
  match a, b with Req, Req | Opt, Opt | Many, Many => true | _, _ => false end.

Definition kind_eqb (a b : kind) : bool :=
  match a, b with
  | KPrim s, KPrim t => ptype_eqb s t
  | KEnum s, KEnum t => String.eqb s t
  | KStruct s, KStruct t => String.eqb s t
  | _, _ => false
  end.

Definition item_eqb (a b : item) : bool :=
  (i_tag a =? i_tag b) && kind_eqb (i_kind a) (i_kind b) && (i_lo a =? i_lo b) && (i_hi a =? i_hi b)
  && mult_eqb (i_mult a) (i_mult b).

Fixpoint items_eqb (a b : list item) : bool :=
  match a, b with
  | [], [] => true
  | x :: a', y :: b' => item_eqb x y && items_eqb a' b'
  | _, _ => false
  end.

Fixpoint nodupb (l : list Z) : bool :=
  match l with
  | [] => true
  | x :: r => negb (existsb (Z.eqb x) r) && nodupb r
  end.

Definition VERSIONS : list Z := [10; 11; 12; 13; 14; 20].

Definition kind_ok (E : env) (k : kind) : bool :=
  match k with
  | KPrim t => negb (ptype_eqb t PEnum)
  | KEnum e => match find (fun p => String.eqb (fst p) e) (e_enums E) with Some _ => true | None => false end
  | KStruct c => match find_cls E c with Some _ => true | None => false end
  end.

(* reader and writer schemas agree item by item; tags are legal; under every
   version the active tags of a class are pairwise distinct (peeking is
   unambiguous); every referenced class / enum exists *)
Definition cls_ok (E : env) (k : cls) : bool :=
  items_eqb (c_rd k) (c_wr k)
  && forallb (fun it => tag_ok (i_tag it) && kind_ok E (i_kind it)) (c_rd k)
  && forallb (fun v => nodupb (map i_tag (filter (active v) (c_rd k)))) VERSIONS.

Definition env_ok (E : env) : bool :=
  forallb (cls_ok E) (e_classes E).
