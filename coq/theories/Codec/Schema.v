(* Schema language for TTLV structures and its interpreter (definitions only).

   A class is described twice, as extracted from its `read` and from its
   `write` method (translate/gen_schemas.py), so that an edit to only one of
   the two methods is visible.  `rd` is stream based exactly like the Python:
   read the header, cut the sub-stream with BytearrayStream.read(length)
   (silently shorter at the end of the buffer), walk the items peeking at the
   next tag, finally `is_oversized` when the class performs that check.

   An item may be *dispatched* (`i_by`): its tag and kind are looked up, in a
   table, under the value of an earlier item of the same structure (attribute
   value by attribute name, payload by operation, secret by object type,
   credential value by credential type). *)
From PK Require Export Base.Bytes Base.Prim.
From Coq Require Export String.
Open Scope Z_scope.

Inductive mult :=
| Req | Opt | Many
| Many1                                        (* loop followed by `if len(xs) == 0: raise` *)
| Counted (ix : nat) (c : string) (tag : Z).   (* `for _ in range(n)`: exactly n occurrences, read unconditionally;
                                                  n = the Integer item `tag` of the structure (class c) held by field ix *)

Inductive kind :=
| KPrim (t : ptype)          (* any primitive but Enumeration *)
| KEnum (e : string)         (* Enumeration over the named enum of kmip.core.enums *)
| KStruct (c : string)       (* nested structure class *)
| KTagged (t : string).      (* KMIP 2.0 "any attribute": tag and kind of the element are looked up, by the tag found
                                on the stream / carried by the value, in the version-ranged table t of the environment *)

Definition is_tagged (k : kind) : bool := match k with KTagged _ => true | _ => false end.

(* dispatch key: the single primitive value of an earlier item of the same structure (ByField), or the
   TTLV type byte of the item that comes next on the stream (ByNextType: `is_type_next`) *)
Inductive bsrc := ByField (ix : nat) | ByNextType.
Record by_spec := { by_src : bsrc; by_skip_if_absent : bool; by_table : list (pval * (Z * kind)) }.

(* an item is active under protocol version v (10*major+minor) when i_lo <= v < i_hi *)
Record item := { i_tag : Z; i_kind : kind; i_lo : Z; i_hi : Z; i_mult : mult; i_by : option by_spec }.

(* c_substream = false: the items are read from the enclosing stream right after the 8 header bytes; the
   length field is not used and nothing is checked after the last item (RequestMessage / ResponseMessage) *)
(* c_minver: `if kmip_version < V: raise VersionNotSupported` at the top of read and write (0 = none) *)
(* post-conditions evaluated on the fields of a structure after the walk (read) / before writing (write);
   indices address the ACTIVE items of the class, so every check carries the version range it applies to *)
Inductive pcheck :=
| AtLeastOneOf (ixs : list nat)              (* some field among ixs is non-empty *)
| RequiredIf (ix key : nat) (p : pval).      (* field ix is non-empty whenever field key holds exactly the primitive p *)
Record post := { p_lo : Z; p_hi : Z; p_check : pcheck }.

Record cls := { c_name : string; c_rd : list item; c_wr : list item; c_oversize_check : bool; c_substream : bool;
                c_minver : Z; c_post_rd : list post; c_post_wr : list post }.

(* a row of a tag table: tag, kind of the element, version range lo <= v < hi (enums.is_attribute) *)
Definition trow := (Z * kind * Z * Z)%type.
Record env := { e_classes : list cls; e_enums : list (string * list Z); e_tables : list (string * list trow) }.

Definition find_table (E : env) (t : string) : list trow :=
  match find (fun p => String.eqb (fst p) t) (e_tables E) with
  | Some (_, rows) => rows
  | None => []
  end.
Definition row_tag (r : trow) : Z := fst (fst (fst r)).
Definition row_kind (r : trow) : kind := snd (fst (fst r)).
Definition row_active (v : Z) (r : trow) : bool := (snd (fst r) <=? v) && (v <? snd r).
Definition find_row (E : env) (v : Z) (t : string) (tag : Z) : option kind :=
  match find (fun r => row_tag r =? tag) (filter (row_active v) (find_table E t)) with
  | Some r => Some (row_kind r)
  | None => None
  end.

Definition find_cls (E : env) (c : string) : option cls :=
  find (fun k => String.eqb (c_name k) c) (e_classes E).

Definition enum_mem (E : env) (e : string) (v : Z) : bool :=
  match find (fun p => String.eqb (fst p) e) (e_enums E) with
  | Some (_, vs) => existsb (Z.eqb v) vs
  | None => false
  end.

Definition active (v : Z) (it : item) : bool := (i_lo it <=? v) && (v <? i_hi it).

(* A decoded / encodable value: a primitive, or a structure holding for each
   active item of its class (in order) the list of its occurrences. *)
Inductive value :=
| VP (p : pval)
| VS (fields : list (list value))
| VT (tag : Z) (x : value).          (* element of an any-attribute item: the value remembers its tag *)

Definition nonempty_at (fields : list (list value)) (i : nat) : bool :=
  match nth_error fields i with Some (_ :: _) => true | _ => false end.

Definition post_ok (v : Z) (fields : list (list value)) (q : post) : bool :=
  if (p_lo q <=? v) && (v <? p_hi q) then
    match p_check q with
    | AtLeastOneOf ixs => existsb (nonempty_at fields) ixs
    | RequiredIf ix key p =>
        match nth_error fields key with
        | Some [VP p'] => if pval_eqb p' p then nonempty_at fields ix else true
        | _ => true
        end
    end
  else true.

(* ------------------------------------------------------------------ dispatch *)

Definition key_of (pre : list (list value)) (ix : nat) : option pval :=
  match nth_error pre ix with
  | Some [VP p] => Some p
  | _ => None
  end.

Inductive resolved := RItem (it : item) | RSkip | RFail.

(* TTLV type code of a value *)
Fixpoint tyc (x : value) : Z :=
  match x with VP p => type_code (ptype_of p) | VS _ => STRUCT_CODE | VT _ y => tyc y end.

(* `pre` = the fields of the items before this one (already written / already read) *)
Definition key_w (pre : list (list value)) (src : bsrc) (f : list value) : option pval :=
  match src with
  | ByField ix => key_of pre ix
  | ByNextType => match f with x :: _ => Some (VInt (tyc x)) | [] => None end
  end.

Definition key_r (pre : list (list value)) (src : bsrc) (bs : bytes) : option pval :=
  match src with
  | ByField ix => key_of pre ix
  | ByNextType => match take_exact 4 bs with Some (t, _) => Some (VInt (nth 3 t 0)) | None => None end
  end.

Definition resolve_k (key : option pval) (b : by_spec) (it : item) : resolved :=
  match key with
  | None => if by_skip_if_absent b then RSkip else RFail
  | Some p =>
      match find (fun e => pval_eqb (fst e) p) (by_table b) with
      | Some (_, (tag, k)) =>
          RItem {| i_tag := tag; i_kind := k; i_lo := i_lo it; i_hi := i_hi it; i_mult := i_mult it; i_by := None |}
      | None => RFail
      end
  end.

Definition resolve_w (pre : list (list value)) (it : item) (f : list value) : resolved :=
  match i_by it with
  | None => RItem it
  | Some b => resolve_k (key_w pre (by_src b) f) b it
  end.

Definition resolve_r (pre : list (list value)) (it : item) (bs : bytes) : resolved :=
  match i_by it with
  | None => RItem it
  | Some b => resolve_k (key_r pre (by_src b) bs) b it
  end.

(* ------------------------------------------------------------------ counted loops *)

Fixpoint index_of_tag (tag : Z) (items : list item) (i : nat) : option nat :=
  match items with
  | [] => None
  | it :: r => if i_tag it =? tag then Some i else index_of_tag tag r (S i)
  end.

Definition count_of (E : env) (v : Z) (pre : list (list value)) (ix : nat) (c : string) (tag : Z) : option Z :=
  match nth_error pre ix with
  | Some [VS fs] =>
      match find_cls E c with
      | Some k =>
          match index_of_tag tag (filter (active v) (c_rd k)) 0 with
          | Some j => match nth_error fs j with Some [VP (VInt n)] => Some n | _ => None end
          | None => None
          end
      | None => None
      end
  | _ => None
  end.

Definition item_count (E : env) (v : Z) (pre : list (list value)) (it : item) : option Z :=
  match i_mult it with
  | Counted ix c tag => count_of E v pre ix c tag
  | _ => Some 0
  end.

(* ------------------------------------------------------------------ writer *)

Fixpoint opt_concat (l : list (option bytes)) : option bytes :=
  match l with
  | [] => Some []
  | None :: _ => None
  | Some b :: r => match opt_concat r with Some bs => Some (b ++ bs) | None => None end
  end.

Definition mult_ok (m : mult) (n : nat) : bool :=
  match m with
  | Req => Nat.eqb n 1
  | Opt => Nat.leb n 1
  | Many => true
  | Many1 => Nat.leb 1 n
  | Counted _ _ _ => true
  end.

Definition enc_field (wrf : Z -> kind -> value -> option bytes) (p : item * list value) : option bytes :=
  if mult_ok (i_mult (fst p)) (List.length (snd p))
  then opt_concat (map (wrf (i_tag (fst p)) (i_kind (fst p))) (snd p))
  else None.

Fixpoint wr_items (wrf : Z -> kind -> value -> option bytes) (pre : list (list value))
         (items : list item) (fields : list (list value)) : option bytes :=
  match items, fields with
  | [], [] => Some []
  | it :: its, f :: fs =>
      match resolve_w pre it f with
      | RFail => None
      | RSkip => match f with [] => wr_items wrf (pre ++ [f]) its fs | _ => None end
      | RItem it' =>
          match enc_field wrf (it', f) with
          | None => None
          | Some b =>
              match wr_items wrf (pre ++ [f]) its fs with
              | Some r => Some (b ++ r)
              | None => None
              end
          end
      end
  | _, _ => None
  end.

Section Writer.
Variable E : env.
Variable v : Z.

Fixpoint wr (fuel : nat) (tag : Z) (k : kind) (x : value) {struct fuel} : option bytes :=
  match fuel with
  | O => None
  | S f =>
      match k, x with
      | KPrim t, VP p => if ptype_eqb (ptype_of p) t && negb (ptype_eqb t PEnum) then enc_prim tag p else None
      | KEnum e, VP (VEnum n) => enc_prim tag (VEnum n)
      | KStruct c, VS fields =>
          match find_cls E c with
          | None => None
          | Some k =>
              if v <? c_minver k then None else
              if negb (forallb (post_ok v fields) (c_post_wr k)) then None else
              match wr_items (wr f) [] (filter (active v) (c_wr k)) fields with
              | None => None
              | Some body => with_hdr tag STRUCT_CODE (zlen body) body
              end
          end
      | KTagged t, VT tg y =>
          match find_row E v t tg with
          | Some k' => if is_tagged k' then None else wr f tg k' y
          | None => None
          end
      | _, _ => None
      end
  end.
End Writer.

(* values the round-trip theorem speaks about: byte strings hold bytes, enumeration values are
   members of their enumeration, structures have one field list per active item (recursively) *)
Definition count_ok (it : item) (cnt : option Z) (n : nat) : bool :=
  match i_mult it with
  | Counted _ _ _ => match cnt with Some c => Z.of_nat n =? Z.max c 0 | None => false end
  | _ => true
  end.

Fixpoint wf_items (E : env) (v : Z) (wff : kind -> value -> bool) (pre : list (list value))
         (items : list item) (fields : list (list value)) : bool :=
  match items, fields with
  | [], [] => true
  | it :: its, f :: fs =>
      match resolve_w pre it f with
      | RFail => false
      | RSkip => match f with [] => wf_items E v wff (pre ++ [f]) its fs | _ => false end
      | RItem it' => forallb (wff (i_kind it')) f && count_ok it (item_count E v pre it) (List.length f)
                     && wf_items E v wff (pre ++ [f]) its fs
      end
  | _, _ => false
  end.

Section WfValue.
Variable E : env.
Variable v : Z.
Fixpoint wfv (fuel : nat) (k : kind) (x : value) {struct fuel} : bool :=
  match fuel with
  | O => false
  | S f =>
      match k, x with
      | KPrim t, VP p => match p with VBytes b => bytes_ok b | _ => true end
      | KEnum e, VP (VEnum n) => enum_mem E e n
      | KStruct c, VS fields =>
          match find_cls E c with
          | None => false
          | Some k => negb (v <? c_minver k) && forallb (post_ok v fields) (c_post_wr k)
                      && wf_items E v (wfv f) [] (filter (active v) (c_wr k)) fields
          end
      | KTagged t, VT tg y =>
          match find_row E v t tg with
          | Some k' => negb (is_tagged k') && wfv f k' y
          | None => false
          end
      | _, _ => false
      end
  end.
End WfValue.

(* ------------------------------------------------------------------ reader *)

(* `while is_tag_next(tag, stream): read one` - lfuel bounds the number of turns *)
Fixpoint rd_many (rd1 : bytes -> option (value * bytes)) (nxt : bytes -> bool) (lfuel : nat) (bs : bytes)
  : option (list value * bytes) :=
  match lfuel with
  | O => None
  | S lf =>
      if nxt bs then
        match rd1 bs with
        | None => None
        | Some (x, r) =>
            match rd_many rd1 nxt lf r with
            | None => None
            | Some (xs, r') => Some (x :: xs, r')
            end
        end
      else Some ([], bs)
  end.

(* `for _ in range(n)`: n reads, no peeking; fuel bounds the turns (each read consumes bytes) *)
Fixpoint rd_counted (rd1 : bytes -> option (value * bytes)) (fuel : nat) (n : Z) (bs : bytes)
  : option (list value * bytes) :=
  if n <=? 0 then Some ([], bs) else
  match fuel with
  | O => None
  | S f =>
      match rd1 bs with
      | None => None
      | Some (x, r) =>
          match rd_counted rd1 f (n - 1) r with
          | None => None
          | Some (xs, r') => Some (x :: xs, r')
          end
      end
  end.

(* "is the item next on the stream?": its tag for an ordinary item; any known tag for an any-attribute item *)
Definition next_ok (E : env) (it : item) (bs : bytes) : bool :=
  match i_kind it with
  | KTagged _ =>
      match take_exact 3 bs with
      | Some (tb, _) => enum_mem E "Tags" (be_dec tb)
      | None => false
      end
  | _ => is_tag_next (i_tag it) bs
  end.

Definition rd_field (rd1 : bytes -> option (value * bytes)) (nxt : bytes -> bool) (it : item) (cnt : option Z) (bs : bytes)
  : option (list value * bytes) :=
  match i_mult it with
  | Req =>
      if nxt bs then
        match rd1 bs with Some (x, r) => Some ([x], r) | None => None end
      else None
  | Opt =>
      if nxt bs then
        match rd1 bs with Some (x, r) => Some ([x], r) | None => None end
      else Some ([], bs)
  | Many => rd_many rd1 nxt (S (List.length bs)) bs
  | Many1 =>
      match rd_many rd1 nxt (S (List.length bs)) bs with
      | Some ([], _) => None
      | r => r
      end
  | Counted _ _ _ =>
      match cnt with
      | Some n => rd_counted rd1 (S (List.length bs)) n bs
      | None => None
      end
  end.

Fixpoint rd_items (E : env) (v : Z) (rdk : Z -> kind -> bytes -> option (value * bytes)) (pre : list (list value))
         (items : list item) (bs : bytes) : option (list (list value) * bytes) :=
  match items with
  | [] => Some ([], bs)
  | it :: rest =>
      match resolve_r pre it bs with
      | RFail => None
      | RSkip =>
          match rd_items E v rdk (pre ++ [[]]) rest bs with
          | None => None
          | Some (fs, r') => Some ([] :: fs, r')
          end
      | RItem it' =>
          match rd_field (rdk (i_tag it') (i_kind it')) (next_ok E it') it' (item_count E v pre it) bs with
          | None => None
          | Some (f, r) =>
              match rd_items E v rdk (pre ++ [f]) rest r with
              | None => None
              | Some (fs, r') => Some (f :: fs, r')
              end
          end
      end
  end.

Section Reader.
Variable E : env.
Variable v : Z.

Fixpoint rd (fuel : nat) (tag : Z) (k : kind) (bs : bytes) {struct fuel} : option (value * bytes) :=
  match fuel with
  | O => None
  | S f =>
      match k with
      | KPrim t =>
          if ptype_eqb t PEnum then None else
          match dec_prim (fun _ => false) t tag bs with
          | Some (p, r) => Some (VP p, r)
          | None => None
          end
      | KEnum e =>
          match dec_prim (enum_mem E e) PEnum tag bs with
          | Some (p, r) => Some (VP p, r)
          | None => None
          end
      | KTagged t =>
          match take_exact 3 bs with
          | None => None
          | Some (tb, _) =>
              let tg := be_dec tb in
              match find_row E v t tg with
              | None => None
              | Some k' =>
                  if is_tagged k' then None else
                  match rd f tg k' bs with
                  | Some (y, r) => Some (VT tg y, r)
                  | None => None
                  end
              end
          end
      | KStruct c =>
          match find_cls E c with
          | None => None
          | Some k =>
              if v <? c_minver k then None else
              match dec_hdr tag STRUCT_CODE bs with
              | None => None
              | Some (len, r) =>
                  if c_substream k then
                    let n := Z.to_nat (Z.min len (zlen r)) in       (* BytearrayStream.read(length): at most what is there *)
                    let sub := firstn n r in
                    let rest := skipn n r in
                    match rd_items E v (rd f) [] (filter (active v) (c_rd k)) sub with
                    | None => None
                    | Some (fields, leftover) =>
                        if negb (forallb (post_ok v fields) (c_post_rd k)) then None else
                        if c_oversize_check k && negb (Nat.eqb (List.length leftover) 0) then None
                        else Some (VS fields, rest)
                    end
                  else
                    match rd_items E v (rd f) [] (filter (active v) (c_rd k)) r with
                    | None => None
                    | Some (fields, rest) =>
                        if negb (forallb (post_ok v fields) (c_post_rd k)) then None else Some (VS fields, rest)
                    end
              end
          end
      end
  end.
End Reader.

(* ------------------------------------------------------------------ static check on an extracted environment *)

Definition mult_eqb (a b : mult) : bool :=
  match a, b with
  | Req, Req | Opt, Opt | Many, Many | Many1, Many1 => true
  | Counted i c t, Counted j d u => Nat.eqb i j && String.eqb c d && (t =? u)
  | _, _ => false
  end.

Definition kind_eqb (a b : kind) : bool :=
  match a, b with
  | KPrim s, KPrim t => ptype_eqb s t
  | KEnum s, KEnum t => String.eqb s t
  | KStruct s, KStruct t => String.eqb s t
  | KTagged s, KTagged t => String.eqb s t
  | _, _ => false
  end.

Fixpoint table_eqb (a b : list (pval * (Z * kind))) : bool :=
  match a, b with
  | [], [] => true
  | (p, (t, k)) :: a', (q, (u, l)) :: b' => pval_eqb p q && (t =? u) && kind_eqb k l && table_eqb a' b'
  | _, _ => false
  end.

Definition by_eqb (a b : option by_spec) : bool :=
  match a, b with
  | None, None => true
  | Some x, Some y => (match by_src x, by_src y with
                       | ByField i, ByField j => Nat.eqb i j
                       | ByNextType, ByNextType => true
                       | _, _ => false
                       end) && Bool.eqb (by_skip_if_absent x) (by_skip_if_absent y)
                      && table_eqb (by_table x) (by_table y)
  | _, _ => false
  end.

Definition item_eqb (a b : item) : bool :=
  (i_tag a =? i_tag b) && kind_eqb (i_kind a) (i_kind b) && (i_lo a =? i_lo b) && (i_hi a =? i_hi b)
  && mult_eqb (i_mult a) (i_mult b) && by_eqb (i_by a) (i_by b).

Fixpoint items_eqb (a b : list item) : bool :=
  match a, b with
  | [], [] => true
  | x :: a', y :: b' => item_eqb x y && items_eqb a' b'
  | _, _ => false
  end.

Fixpoint nats_eqb (a b : list nat) : bool :=
  match a, b with
  | [], [] => true
  | x :: a', y :: b' => Nat.eqb x y && nats_eqb a' b'
  | _, _ => false
  end.
Definition pcheck_eqb (a b : pcheck) : bool :=
  match a, b with
  | AtLeastOneOf x, AtLeastOneOf y => nats_eqb x y
  | RequiredIf i k p, RequiredIf j l q => Nat.eqb i j && Nat.eqb k l && pval_eqb p q
  | _, _ => false
  end.
Definition post_eqb (a b : post) : bool :=
  (p_lo a =? p_lo b) && (p_hi a =? p_hi b) && pcheck_eqb (p_check a) (p_check b).
Fixpoint posts_eqb (a b : list post) : bool :=
  match a, b with
  | [], [] => true
  | x :: a', y :: b' => post_eqb x y && posts_eqb a' b'
  | _, _ => false
  end.

Definition VERSIONS : list Z := [10; 11; 12; 13; 14; 20].

Definition kind_ok (E : env) (k : kind) : bool :=
  match k with
  | KPrim t => negb (ptype_eqb t PEnum)
  | KEnum e => match find (fun p => String.eqb (fst p) e) (e_enums E) with Some _ => true | None => false end
  | KStruct c => match find_cls E c with Some _ => true | None => false end
  | KTagged t => true
  end.


(* the tags an item can appear with *)
Definition tags_of_item (E : env) (it : item) : list Z :=
  match i_by it with
  | None => match i_kind it with
            | KTagged t => map row_tag (find_table E t)
            | _ => [i_tag it]
            end
  | Some b => map (fun e => fst (snd e)) (by_table b)
  end.

Definition memb (t : Z) (l : list Z) : bool := existsb (Z.eqb t) l.

(* no tag of an item may be a tag of a later item: peeking is then unambiguous whatever the dispatch *)
Fixpoint tags_disjointb (E : env) (items : list item) : bool :=
  match items with
  | [] => true
  | it :: r => forallb (fun t => negb (memb t (List.concat (map (tags_of_item E) r)))) (tags_of_item E it)
               && tags_disjointb E r
  end.

(* multiplicities that look at the stream after their last occurrence *)
Definition peeks (m : mult) : bool := match m with Req | Counted _ _ _ => false | _ => true end.

(* an any-attribute item that peeks (optional / repeated) must be the last item of its class *)
Fixpoint tagged_lastb (items : list item) : bool :=
  match items with
  | [] => true
  | it :: r => (negb (is_tagged (i_kind it) && peeks (i_mult it)) || match r with [] => true | _ => false end)
               && tagged_lastb r
  end.

(* rows of a tag table: legal tags that are members of the Tags enumeration, and plain kinds *)
Definition row_ok (E : env) (r : trow) : bool :=
  tag_ok (row_tag r) && enum_mem E "Tags" (row_tag r) && negb (is_tagged (row_kind r)) && kind_ok E (row_kind r).

Definition is_req (m : mult) : bool := match m with Req => true | _ => false end.


Definition item_ok (E : env) (it : item) : bool :=
  match i_by it with
  | None =>
      match i_kind it with
      | KTagged t => forallb (row_ok E) (find_table E t)
      | k => tag_ok (i_tag it) && kind_ok E k
      end
  | Some b => forallb (fun e => tag_ok (fst (snd e)) && kind_ok E (snd (snd e)) && negb (is_tagged (snd (snd e)))) (by_table b)
              && negb (is_tagged (i_kind it))
              && match by_src b with ByNextType => is_req (i_mult it) && negb (by_skip_if_absent b) | ByField _ => true end
  end.

(* reader and writer schemas agree item by item; tags are legal; under every version the tags an
   active item of a class can take are disjoint from those of the items after it; every referenced
   class / enum exists; a class read from the enclosing stream has no peeking item; a peeking
   any-attribute item is the last item of a class that has its own sub-stream *)
Definition cls_ok (E : env) (k : cls) : bool :=
  items_eqb (c_rd k) (c_wr k)
  && forallb (item_ok E) (c_rd k)
  && forallb (fun v => tags_disjointb E (filter (active v) (c_rd k))) VERSIONS
  && (c_substream k || forallb (fun it => negb (peeks (i_mult it))) (c_rd k))
  && tagged_lastb (c_rd k)
  && posts_eqb (c_post_rd k) (c_post_wr k).

Definition env_ok (E : env) : bool :=
  forallb (cls_ok E) (e_classes E)
  && forallb (fun p => forallb (row_ok E) (snd p)) (e_tables E).

(* the writer half alone: what `wr_wf` (C02: emitted bytes are well-formed TTLV) needs.  A change on the
   reader side of a class leaves this true. *)
Definition env_wr_ok (E : env) : bool :=
  forallb (fun k => forallb (item_ok E) (c_wr k)) (e_classes E)
  && forallb (fun p => forallb (row_ok E) (snd p)) (e_tables E).

(* the tags an element of kind k (written under item tag `tag`) can start with *)
Definition ktags (E : env) (tag : Z) (k : kind) : list Z :=
  match k with KTagged t => map row_tag (find_table E t) | _ => [tag] end.
(* the tag an encoded element starts with *)
Definition etag (tag : Z) (k : kind) (x : value) : Z :=
  match k, x with KTagged _, VT t _ => t | _, _ => tag end.
(* the tag parameter matters only for kinds that use it *)
Definition tag_ok' (tag : Z) (k : kind) : bool := is_tagged k || tag_ok tag.
