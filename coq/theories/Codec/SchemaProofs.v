(* Generic theorems about the schema interpreter (Schema.v), for every environment accepted by
   env_ok, every version, depth and value:
     roundtrip            rd (wr x ++ rest) = (x, rest)
     reencode             re-encoding the decoded value reproduces the bytes
     rd_sound / dec_enc_dec_struct   decode-encode-decode is stable for ANY accepted byte string
     wr_wf                everything wr emits is well-formed TTLV (WfSpec.v)                     *)
From PK Require Import Base.Bytes Base.BytesProofs Base.Prim Base.PrimProofs Codec.Schema.
From PK Require Import Base.WfSpec Base.SpecProofs.
From Coq Require Import ZifyBool.
Open Scope Z_scope.

(* ---------------------------------------------------------------- decidable equalities *)

Lemma ptype_eqb_eq a b : ptype_eqb a b = true <-> a = b.
Proof. unfold ptype_eqb. destruct a, b; cbn; split; intros H; try reflexivity; try discriminate. Qed.

Lemma mult_eqb_eq a b : mult_eqb a b = true -> a = b.
Proof.
  destruct a, b; cbn; intros H; try reflexivity; try discriminate.
  apply andb_prop in H as [H Ht]. apply andb_prop in H as [Hi Hc].
  apply Nat.eqb_eq in Hi. apply String.eqb_eq in Hc. apply Z.eqb_eq in Ht. congruence.
Qed.

Lemma kind_eqb_eq a b : kind_eqb a b = true -> a = b.
Proof.
  destruct a, b; cbn; intros H; try discriminate.
  - apply ptype_eqb_eq in H. congruence.
  - apply String.eqb_eq in H. congruence.
  - apply String.eqb_eq in H. congruence.
  - apply String.eqb_eq in H. congruence.
Qed.

Lemma pval_eqb_eq a b : pval_eqb a b = true -> a = b.
Proof.
  destruct a, b; cbn; intros H; try discriminate;
    try (apply Z.eqb_eq in H; congruence);
    try (apply bytes_eqb_eq in H; congruence).
  apply Bool.eqb_prop in H. congruence.
Qed.

Lemma table_eqb_eq a : forall b, table_eqb a b = true -> a = b.
Proof.
  induction a as [|[p [t k]] a IH]; intros [|[q [u l]] b] H; cbn in H; try discriminate; [reflexivity|].
  apply andb_prop in H as [H Ht]. apply andb_prop in H as [H Hk]. apply andb_prop in H as [Hp Hz].
  apply pval_eqb_eq in Hp. apply kind_eqb_eq in Hk. apply IH in Ht. apply Z.eqb_eq in Hz. congruence.
Qed.

Lemma by_eqb_eq a b : by_eqb a b = true -> a = b.
Proof.
  destruct a as [[sa s t]|], b as [[sb r u]|]; cbn; intros H; try discriminate; [|reflexivity].
  apply andb_prop in H as [H Ht]. apply andb_prop in H as [Hi Hs].
  apply Bool.eqb_prop in Hs. apply table_eqb_eq in Ht.
  destruct sa as [i|], sb as [j|]; try discriminate; [apply Nat.eqb_eq in Hi|]; congruence.
Qed.

Lemma item_eqb_eq a b : item_eqb a b = true -> a = b.
Proof.
  unfold item_eqb. intros H.
  apply andb_prop in H as [H Hb]. apply andb_prop in H as [H Hm]. apply andb_prop in H as [H Hhi].
  apply andb_prop in H as [H Hlo]. apply andb_prop in H as [Ht Hk].
  destruct a, b; cbn in *. apply kind_eqb_eq in Hk. apply mult_eqb_eq in Hm. apply by_eqb_eq in Hb.
  f_equal; try lia; assumption.
Qed.

Lemma items_eqb_eq a : forall b, items_eqb a b = true -> a = b.
Proof.
  induction a as [|x a IH]; intros [|y b] H; cbn in H; try discriminate; [reflexivity|].
  apply andb_prop in H as [H1 H2]. apply item_eqb_eq in H1. apply IH in H2. congruence.
Qed.

Lemma nats_eqb_eq a : forall b, nats_eqb a b = true -> a = b.
Proof.
  induction a as [|x a IH]; intros [|y b] H; cbn in H; try discriminate; [reflexivity|].
  apply andb_prop in H as [H1 H2]. apply Nat.eqb_eq in H1. apply IH in H2. congruence.
Qed.

Lemma post_eqb_eq a b : post_eqb a b = true -> a = b.
Proof.
  unfold post_eqb. intros H. apply andb_prop in H as [H Hc]. apply andb_prop in H as [Hl Hh].
  destruct a as [al ah ac], b as [bl bh bc]; cbn in *.
  assert (ac = bc).
  { destruct ac, bc; cbn in Hc; try discriminate.
    - apply nats_eqb_eq in Hc. congruence.
    - apply andb_prop in Hc as [Hc Hp]. apply andb_prop in Hc as [Hi Hk].
      apply Nat.eqb_eq in Hi. apply Nat.eqb_eq in Hk. apply pval_eqb_eq in Hp. congruence. }
  f_equal; try lia; assumption.
Qed.

Lemma posts_eqb_eq a : forall b, posts_eqb a b = true -> a = b.
Proof.
  induction a as [|x a IH]; intros [|y b] H; cbn in H; try discriminate; [reflexivity|].
  apply andb_prop in H as [H1 H2]. apply post_eqb_eq in H1. apply IH in H2. congruence.
Qed.

Lemma opt_concat_cons_some o l bs :
  opt_concat (o :: l) = Some bs -> exists b r, o = Some b /\ opt_concat l = Some r /\ bs = b ++ r.
Proof.
  cbn. destruct o as [b|]; [|discriminate]. destruct (opt_concat l) as [r|]; [|discriminate].
  intros H; injection H as <-. eauto.
Qed.

Lemma memb_false_notin t l : memb t l = false -> ~ In t l.
Proof.
  unfold memb. intros H Hin.
  assert (existsb (Z.eqb t) l = true) by (apply existsb_exists; exists t; split; [exact Hin|apply Z.eqb_refl]).
  congruence.
Qed.

(* ---------------------------------------------------------------- every encoding starts with its tag *)

Lemma is_tag_next_nil t : is_tag_next t [] = false.
Proof. reflexivity. Qed.

Lemma is_tag_next_tag t t' r : tag_ok t' = true -> is_tag_next t (be_enc 3 t' ++ r) = (t' =? t).
Proof.
  intros Ht. unfold is_tag_next.
  rewrite (take_exact_app' 3 (be_enc 3 t')) by (rewrite zlen_be_enc; reflexivity).
  rewrite be_dec_enc; [reflexivity|]. unfold tag_ok in Ht. rewrite p3. lia.
Qed.

(* every encoding starts with its three tag bytes followed by its type byte *)
Lemma with_hdr_starts tag ty len body bs :
  with_hdr tag ty len body = Some bs -> exists r, bs = be_enc 3 tag ++ ty :: r.
Proof.
  intros H. apply with_hdr_some in H as (h & Hh & ->). unfold hdr in Hh.
  destruct ((0 <=? len) && (len <? TWO32)); [|discriminate].
  assert (h = be_enc 3 tag ++ ([ty] ++ be_enc 4 len)) by congruence; subst h.
  rewrite <- app_assoc. cbn [app]. eauto.
Qed.

Lemma enc_prim_starts tag p bs : enc_prim tag p = Some bs ->
  exists r, bs = be_enc 3 tag ++ type_code (ptype_of p) :: r.
Proof.
  destruct p; cbn [enc_prim ptype_of type_code]; intros H;
    repeat match type of H with (if ?c then _ else _) = _ => destruct c; [|discriminate] end;
    eapply with_hdr_starts; exact H.
Qed.

(* ---------------------------------------------------------------- dispatch *)

Lemma resolve_k_item key b it it' : resolve_k key b it = RItem it' ->
  In (i_tag it') (map (fun e => fst (snd e)) (by_table b)) /\ i_mult it' = i_mult it /\
  exists q tag k, In (q, (tag, k)) (by_table b) /\ i_tag it' = tag /\ i_kind it' = k.
Proof.
  unfold resolve_k. destruct key as [p|]; [|destruct (by_skip_if_absent b); discriminate].
  destruct (find _ (by_table b)) as [[q [tag k]]|] eqn:Ef; [|discriminate].
  intros H; injection H as <-. cbn [i_tag i_mult i_kind]. apply find_some in Ef as [Hin _].
  split; [|split; [reflexivity|exists q, tag, k; auto]].
  apply (in_map (fun e => fst (snd e))) in Hin. exact Hin.
Qed.

Lemma resolve_w_tag E pre it f it' : item_ok E it = true -> resolve_w pre it f = RItem it' ->
  forall t, In t (ktags E (i_tag it') (i_kind it')) -> In t (tags_of_item E it).
Proof.
  unfold resolve_w, tags_of_item, item_ok. destruct (i_by it) as [b|].
  - intros Hok H t Ht. apply andb_prop in Hok as [Hok _]. apply andb_prop in Hok as [Hok _].
    apply resolve_k_item in H as (_ & _ & q & tag & k & Hin & Htag & Hk).
    rewrite forallb_forall in Hok. specialize (Hok _ Hin). cbn in Hok.
    apply andb_prop in Hok as [_ Hnt]. apply negb_true_iff in Hnt.
    rewrite Hk in Ht. unfold ktags in Ht. destruct k; try discriminate;
      (destruct Ht as [<-|[]]; rewrite Htag; apply (in_map (fun e => fst (snd e))) in Hin; exact Hin).
  - intros _ H t Ht. injection H as <-. unfold ktags in Ht. destruct (i_kind it); exact Ht.
Qed.

Lemma resolve_k_ok E key b it it' :
  forallb (fun e => tag_ok (fst (snd e)) && kind_ok E (snd (snd e)) && negb (is_tagged (snd (snd e)))) (by_table b) = true ->
  resolve_k key b it = RItem it' ->
  tag_ok' (i_tag it') (i_kind it') = true /\ i_mult it' = i_mult it /\ is_tagged (i_kind it') = false /\ i_by it' = None.
Proof.
  intros Hok H. pose proof H as H'. apply resolve_k_item in H as (_ & Hm & q & tag & k & Hin & -> & ->).
  rewrite forallb_forall in Hok. specialize (Hok _ Hin). cbn in Hok.
  apply andb_prop in Hok as [Hok Hnt]. apply andb_prop in Hok as [Hok _]. apply negb_true_iff in Hnt.
  unfold tag_ok'. rewrite Hok, orb_true_r. repeat split; try assumption.
  unfold resolve_k in H'. destruct key; [|destruct (by_skip_if_absent b); discriminate].
  destruct (find _ _) as [[? [? ?]]|]; [|discriminate]. injection H' as <-. reflexivity.
Qed.

Lemma item_ok_plain E it : item_ok E it = true -> i_by it = None ->
  tag_ok' (i_tag it) (i_kind it) = true.
Proof.
  intros Hok Hby. unfold item_ok in Hok. rewrite Hby in Hok. unfold tag_ok'.
  destruct (i_kind it); cbn; try reflexivity; apply andb_prop in Hok as [Hok _]; exact Hok.
Qed.

Lemma resolve_w_ok E pre it f it' : item_ok E it = true -> resolve_w pre it f = RItem it' ->
  tag_ok' (i_tag it') (i_kind it') = true /\ i_mult it' = i_mult it /\
  (is_tagged (i_kind it') = true -> it' = it) /\ i_by it' = None.
Proof.
  intros Hok. pose proof Hok as Hok0. unfold resolve_w. unfold item_ok in Hok. destruct (i_by it) as [b|] eqn:Eb.
  - apply andb_prop in Hok as [Hok _]. apply andb_prop in Hok as [Hok _].
    intros H. destruct (resolve_k_ok E _ b it it' Hok H) as (H1 & H2 & H3 & H4).
    repeat split; try assumption. intros Ht. congruence.
  - intros H; injection H as <-. repeat split; auto. apply (item_ok_plain E); assumption.
Qed.

Lemma resolve_r_ok E pre it bs it' : item_ok E it = true -> resolve_r pre it bs = RItem it' ->
  tag_ok' (i_tag it') (i_kind it') = true /\ i_mult it' = i_mult it /\
  (is_tagged (i_kind it') = true -> it' = it) /\ i_by it' = None.
Proof.
  intros Hok. pose proof Hok as Hok0. unfold resolve_r. unfold item_ok in Hok. destruct (i_by it) as [b|] eqn:Eb.
  - apply andb_prop in Hok as [Hok _]. apply andb_prop in Hok as [Hok _].
    intros H. destruct (resolve_k_ok E _ b it it' Hok H) as (H1 & H2 & H3 & H4).
    repeat split; try assumption. intros Ht. congruence.
  - intros H; injection H as <-. repeat split; auto. apply (item_ok_plain E); assumption.
Qed.

Lemma resolve_k_item_ok E key b it it' :
  forallb (fun e => tag_ok (fst (snd e)) && kind_ok E (snd (snd e)) && negb (is_tagged (snd (snd e)))) (by_table b) = true ->
  resolve_k key b it = RItem it' -> item_ok E it' = true.
Proof.
  intros Hok H. destruct (resolve_k_ok E key b it it' Hok H) as (_ & _ & Hnt & Hby).
  apply resolve_k_item in H as (_ & _ & q & tag & k & Hin & Htag & Hk).
  rewrite forallb_forall in Hok. specialize (Hok _ Hin). cbn in Hok.
  apply andb_prop in Hok as [Hok _]. apply andb_prop in Hok as [Ht Hkk].
  unfold item_ok. rewrite Hby, Htag, Hk. rewrite Hk in Hnt.
  destruct k; try discriminate; rewrite Ht, Hkk; reflexivity.
Qed.

Lemma resolve_w_item_ok E pre it f it' : item_ok E it = true -> resolve_w pre it f = RItem it' -> item_ok E it' = true.
Proof.
  intros Hok. pose proof Hok as Hok0. unfold resolve_w. unfold item_ok in Hok. destruct (i_by it) as [b|].
  - apply andb_prop in Hok as [Hok _]. apply andb_prop in Hok as [Hok _]. apply resolve_k_item_ok. exact Hok.
  - intros H; injection H as <-. exact Hok0.
Qed.

Lemma resolve_r_item_ok E pre it bs it' : item_ok E it = true -> resolve_r pre it bs = RItem it' -> item_ok E it' = true.
Proof.
  intros Hok. pose proof Hok as Hok0. unfold resolve_r. unfold item_ok in Hok. destruct (i_by it) as [b|].
  - apply andb_prop in Hok as [Hok _]. apply andb_prop in Hok as [Hok _]. apply resolve_k_item_ok. exact Hok.
  - intros H; injection H as <-. exact Hok0.
Qed.

(* a dispatched-on-the-next-type item is required and never silently skipped *)
Lemma next_type_req E it b : item_ok E it = true -> i_by it = Some b -> by_src b = ByNextType ->
  i_mult it = Req /\ by_skip_if_absent b = false.
Proof.
  unfold item_ok. intros Hok Hb Hs. rewrite Hb in Hok. apply andb_prop in Hok as [_ Hok]. rewrite Hs in Hok.
  apply andb_prop in Hok as [Hr Hk]. split; [destruct (i_mult it); try discriminate; reflexivity|].
  apply negb_true_iff in Hk. exact Hk.
Qed.

Lemma take4_tag_type tag ty r :
  take_exact 4 (be_enc 3 tag ++ ty :: r) = Some (be_enc 3 tag ++ [ty], r).
Proof.
  replace (be_enc 3 tag ++ ty :: r) with ((be_enc 3 tag ++ [ty]) ++ r) by (rewrite <- app_assoc; reflexivity).
  apply take_exact_app'. rewrite zlen_app, zlen_be_enc. reflexivity.
Qed.

Lemma nth3_tag_type tag ty : nth 3 (be_enc 3 tag ++ [ty]) 0 = ty.
Proof. rewrite app_nth2; rewrite be_enc_length; [reflexivity|lia]. Qed.

Section Generic.
Variable E : env.
Variable v : Z.

Lemma find_row_in t tag k' : find_row E v t tag = Some k' ->
  exists r, In r (find_table E t) /\ row_tag r = tag /\ row_kind r = k'.
Proof.
  unfold find_row. destruct (find _ _) as [r|] eqn:Ef; [|discriminate]. intros H; injection H as <-.
  apply find_some in Ef as [Hin Ht]. apply filter_In in Hin as [Hin _]. apply Z.eqb_eq in Ht. eauto.
Qed.

Lemma wr_starts : forall fuel tag k x bs, wr E v fuel tag k x = Some bs ->
  exists r, bs = be_enc 3 (etag tag k x) ++ tyc x :: r.
Proof.
  induction fuel as [|f IH]; intros tag k x bs; [discriminate|]. cbn [wr].
  destruct k as [t|e|c|t]; destruct x as [p|fields|tg y]; try discriminate; cbn [etag tyc].
  - destruct (ptype_eqb (ptype_of p) t && negb (ptype_eqb t PEnum)); [|discriminate]. apply enc_prim_starts.
  - destruct p; try discriminate. apply enc_prim_starts.
  - destruct (find_cls E c) as [k|]; [|discriminate]. destruct (v <? c_minver k); [discriminate|].
    destruct (negb (forallb _ _)); [discriminate|].
    destruct (wr_items _ _ _ _) as [body|]; [|discriminate]. apply with_hdr_starts.
  - destruct (find_row E v t tg) as [k'|]; [|discriminate].
    destruct (is_tagged k') eqn:Ek; [discriminate|]. intros H. apply IH in H as [r ->].
    exists r. destruct k'; try discriminate; reflexivity.
Qed.

Lemma wr_etag fuel tag k x bs : wr E v fuel tag k x = Some bs -> In (etag tag k x) (ktags E tag k).
Proof.
  destruct fuel as [|f]; [discriminate|]. cbn [wr].
  destruct k as [t|e|c|t]; destruct x as [p|fields|tg y]; try discriminate; cbn [etag ktags]; try (intros _; left; reflexivity).
  destruct (find_row E v t tg) as [k'|] eqn:Ef; [|discriminate]. intros _.
  destruct (find_row_in _ _ _ Ef) as (r & Hin & <- & _). apply in_map. exact Hin.
Qed.

(* the concatenated encodings of one field's occurrences *)
Lemma field_starts (wrf : Z -> kind -> value -> option bytes) tag k xs bs :
  (forall x b, wrf tag k x = Some b -> exists t r, In t (ktags E tag k) /\ b = be_enc 3 t ++ r) ->
  opt_concat (map (wrf tag k) xs) = Some bs ->
  bs = [] \/ exists t r, In t (ktags E tag k) /\ bs = be_enc 3 t ++ r.
Proof.
  intros Hs. destruct xs as [|x xs]; cbn [map]; intros H.
  - cbn in H. injection H as <-. left; reflexivity.
  - apply opt_concat_cons_some in H as (b & r & Hb & _ & ->).
    apply Hs in Hb as (t & r' & Ht & ->). right. exists t, (r' ++ r). rewrite <- app_assoc. auto.
Qed.

(* the encodings of a list of items start with one of the tags those items can take, or are empty *)
Lemma wr_items_start (wrf : Z -> kind -> value -> option bytes) items : forall pre fields body,
  (forall tag k x b, wrf tag k x = Some b -> exists t r, In t (ktags E tag k) /\ b = be_enc 3 t ++ r) ->
  (forall it, In it items -> item_ok E it = true) ->
  wr_items wrf pre items fields = Some body ->
  body = [] \/ exists t r, In t (List.concat (map (tags_of_item E) items)) /\ body = be_enc 3 t ++ r.
Proof.
  induction items as [|it items IH]; intros pre fields body Hs Hok H.
  - destruct fields; cbn in H; [injection H as <-; left; reflexivity|discriminate].
  - destruct fields as [|fs fields]; [cbn in H; discriminate|]. cbn [wr_items] in H.
    cbn [map List.concat].
    destruct (resolve_w pre it fs) as [it'| |] eqn:Er; [| |discriminate].
    + destruct (enc_field wrf (it', fs)) as [b|] eqn:Eb; [|discriminate].
      destruct (wr_items wrf (pre ++ [fs]) items fields) as [r|] eqn:Ew; [|discriminate]. injection H as <-.
      unfold enc_field in Eb. cbn [fst snd] in Eb.
      destruct (mult_ok (i_mult it') (List.length fs)); [|discriminate].
      apply (field_starts wrf) in Eb; [|intros; eapply Hs; eassumption].
      assert (Hok' : forall it0, In it0 items -> item_ok E it0 = true) by (intros; apply Hok; right; assumption).
      destruct Eb as [->|(t0 & r' & Ht0 & ->)].
      * cbn [app]. destruct (IH _ _ _ Hs Hok' Ew) as [->|(t & r' & Hin & ->)]; [left; reflexivity|].
        right. exists t, r'. split; [apply in_or_app; right; exact Hin|reflexivity].
      * right. exists t0, (r' ++ r). split; [|rewrite app_assoc; reflexivity].
        apply in_or_app; left. eapply resolve_w_tag; [apply Hok; left; reflexivity|exact Er|exact Ht0].
    + destruct fs; [|discriminate].
      assert (Hok' : forall it0, In it0 items -> item_ok E it0 = true) by (intros; apply Hok; right; assumption).
      destruct (IH _ _ _ Hs Hok' H) as [->|(t & r' & Hin & ->)]; [left; reflexivity|].
      right. exists t, r'. split; [apply in_or_app; right; exact Hin|reflexivity].
Qed.

(* every tag an item of a checked list can take is a legal tag *)
Lemma tags_of_item_ok it t : item_ok E it = true -> In t (tags_of_item E it) -> tag_ok t = true.
Proof.
  intros Hok Hj. unfold item_ok, tags_of_item in *.
  destruct (i_by it) as [bj|].
  - apply andb_prop in Hok as [Hok _]. apply andb_prop in Hok as [Hok _].
    apply in_map_iff in Hj as (e & <- & He). rewrite forallb_forall in Hok.
    specialize (Hok e He). apply andb_prop in Hok as [Hok _]. apply andb_prop in Hok as [Hk _]. exact Hk.
  - destruct (i_kind it) as [ | | |tb].
    1-3: (destruct Hj as [<-|[]]; apply andb_prop in Hok as [Hk _]; exact Hk).
    apply in_map_iff in Hj as (r & <- & Hr). rewrite forallb_forall in Hok. specialize (Hok r Hr).
    unfold row_ok in Hok. apply andb_prop in Hok as [Hok _]. apply andb_prop in Hok as [Hok _].
    apply andb_prop in Hok as [Hok _]. exact Hok.
Qed.

Lemma tags_of_items_ok items t :
  (forall it, In it items -> item_ok E it = true) ->
  In t (List.concat (map (tags_of_item E) items)) -> tag_ok t = true.
Proof.
  induction items as [|j items IHi]; intros Hok Hin; [destruct Hin|].
  cbn [map List.concat] in Hin. apply in_app_or in Hin as [Hj|Hr].
  - eapply tags_of_item_ok; [apply Hok; left; reflexivity|exact Hj].
  - apply IHi; [intros; apply Hok; right; assumption|exact Hr].
Qed.

(* what was written for an item is recognised as "next" by the reader *)
Lemma next_ok_enc it t r : item_ok E it = true -> i_by it = None ->
  In t (ktags E (i_tag it) (i_kind it)) -> next_ok E it (be_enc 3 t ++ r) = true.
Proof.
  intros Hok Hby Ht. unfold next_ok. unfold item_ok in Hok. rewrite Hby in Hok. unfold ktags in Ht.
  destruct (i_kind it) as [ | | |tb].
  1-3: (destruct Ht as [<-|[]]; apply andb_prop in Hok as [Hk _]; rewrite is_tag_next_tag by exact Hk; apply Z.eqb_refl).
  apply in_map_iff in Ht as (rw & <- & Hr). rewrite forallb_forall in Hok. specialize (Hok rw Hr).
  unfold row_ok in Hok. apply andb_prop in Hok as [Hok _]. apply andb_prop in Hok as [Hok _].
  apply andb_prop in Hok as [Htag Hmem].
  rewrite (take_exact_app' 3 (be_enc 3 (row_tag rw))) by (rewrite zlen_be_enc; reflexivity).
  rewrite be_dec_enc; [exact Hmem|]. unfold tag_ok in Htag. rewrite p3. lia.
Qed.

Lemma next_ok_nil it : next_ok E it [] = false.
Proof. unfold next_ok. destruct (i_kind it); reflexivity. Qed.

Lemma tagged_lastb_filter (f : item -> bool) items : tagged_lastb items = true -> tagged_lastb (filter f items) = true.
Proof.
  induction items as [|it items IH]; intros H; [reflexivity|]. cbn [tagged_lastb] in H.
  apply andb_prop in H as [H1 H2]. cbn [filter]. destruct (f it); [|apply IH; exact H2].
  cbn [tagged_lastb]. rewrite (IH H2), andb_true_r.
  destruct (negb (is_tagged (i_kind it) && peeks (i_mult it))) eqn:En; [reflexivity|]. cbn in H1.
  destruct items; [reflexivity|discriminate].
Qed.

(* ---------------------------------------------------------------- reading back one field *)

Section Field.
Variable wrf : Z -> kind -> value -> option bytes.
Variable rdf : Z -> kind -> bytes -> option (value * bytes).
Variable wff : kind -> value -> bool.
Hypothesis wrf_starts : forall tag k x b, wrf tag k x = Some b -> exists r, b = be_enc 3 (etag tag k x) ++ tyc x :: r.
Hypothesis wrf_etag : forall tag k x b, wrf tag k x = Some b -> In (etag tag k x) (ktags E tag k).
(* element-level round trip (the induction hypothesis of the main theorem) *)
Hypothesis elt_rt : forall tag k x b, tag_ok' tag k = true -> wff k x = true ->
                                     wrf tag k x = Some b -> forall r, rdf tag k (b ++ r) = Some (x, r).

Lemma wrf_starts_w tag k x b : wrf tag k x = Some b -> exists t r, In t (ktags E tag k) /\ b = be_enc 3 t ++ r.
Proof. intros H. destruct (wrf_starts _ _ _ _ H) as [r ->]. exists (etag tag k x). eauto using wrf_etag. Qed.

Lemma rd_many_wr (nxt : bytes -> bool) tag k xs : forall bs after lfuel,
  tag_ok' tag k = true -> forallb (wff k) xs = true ->
  (forall t r, In t (ktags E tag k) -> nxt (be_enc 3 t ++ r) = true) ->
  opt_concat (map (wrf tag k) xs) = Some bs ->
  nxt after = false ->
  (List.length xs < lfuel)%nat ->
  rd_many (rdf tag k) nxt lfuel (bs ++ after) = Some (xs, after).
Proof.
  induction xs as [|x xs IH]; intros bs after lfuel Ht Hwf Hnx Henc Hafter Hfuel.
  - cbn in Henc. injection Henc as <-. destruct lfuel as [|lf]; [cbn in Hfuel; lia|].
    cbn [rd_many app]. rewrite Hafter. reflexivity.
  - cbn [map] in Henc. apply opt_concat_cons_some in Henc as (b & r & Hb & Hr & ->).
    cbn [forallb] in Hwf. apply andb_prop in Hwf as [Hwx Hwf].
    destruct lfuel as [|lf]; [cbn in Hfuel; lia|]. cbn [rd_many].
    destruct (wrf_starts_w _ _ _ _ Hb) as (t0 & r0 & Ht0 & Hb0).
    rewrite <- app_assoc.
    assert (Hnext : nxt (b ++ r ++ after) = true).
    { rewrite Hb0, <- app_assoc. apply Hnx. exact Ht0. }
    rewrite Hnext. rewrite (elt_rt tag k x b Ht Hwx Hb (r ++ after)).
    rewrite (IH r after lf Ht Hwf Hnx Hr Hafter); [reflexivity|cbn in Hfuel; lia].
Qed.

Lemma rd_counted_wr tag k xs : forall n bs after fuel,
  tag_ok' tag k = true -> forallb (wff k) xs = true ->
  opt_concat (map (wrf tag k) xs) = Some bs ->
  Z.of_nat (List.length xs) = Z.max n 0 ->
  (List.length xs < fuel)%nat ->
  rd_counted (rdf tag k) fuel n (bs ++ after) = Some (xs, after).
Proof.
  induction xs as [|x xs IH]; intros n bs after fuel Ht Hwf Henc Hn Hfuel.
  - cbn in Henc. injection Henc as <-. cbn [List.length] in Hn.
    destruct fuel as [|f]; [cbn in Hfuel; lia|]. cbn [rd_counted app].
    replace (n <=? 0) with true by lia. reflexivity.
  - cbn [map] in Henc. apply opt_concat_cons_some in Henc as (b & r & Hb & Hr & ->).
    cbn [forallb] in Hwf. apply andb_prop in Hwf as [Hwx Hwf]. cbn [List.length] in Hn, Hfuel.
    destruct fuel as [|f]; [lia|]. cbn [rd_counted].
    replace (n <=? 0) with false by lia.
    rewrite <- app_assoc. rewrite (elt_rt tag k x b Ht Hwx Hb (r ++ after)).
    rewrite (IH (n - 1) r after f Ht Hwf Hr); [reflexivity|lia|lia].
Qed.

Lemma enc_len_le tag k : forall xs bs0, opt_concat (map (wrf tag k) xs) = Some bs0 ->
  (List.length xs <= List.length bs0)%nat.
Proof.
  induction xs as [|x xs IHx]; intros bs0 H0; [cbn; lia|].
  cbn [map] in H0. apply opt_concat_cons_some in H0 as (b & r & Hb & Hr & ->).
  destruct (wrf_starts_w _ _ _ _ Hb) as (t0 & r0 & _ & ->). specialize (IHx r Hr).
  rewrite !app_length, be_enc_length. cbn [List.length]. lia.
Qed.

Lemma rd_field_wr (nxt : bytes -> bool) it cnt fs bs after :
  tag_ok' (i_tag it) (i_kind it) = true -> forallb (wff (i_kind it)) fs = true ->
  count_ok it cnt (List.length fs) = true ->
  (forall t r, In t (ktags E (i_tag it) (i_kind it)) -> nxt (be_enc 3 t ++ r) = true) ->
  enc_field wrf (it, fs) = Some bs ->
  (peeks (i_mult it) = true -> nxt after = false) ->
  rd_field (rdf (i_tag it) (i_kind it)) nxt it cnt (bs ++ after) = Some (fs, after).
Proof.
  intros Ht Hwf Hcnt Hnx Henc Hafter. unfold enc_field in Henc. cbn [fst snd] in Henc.
  destruct (mult_ok (i_mult it) (List.length fs)) eqn:Hm; [|discriminate].
  unfold rd_field. unfold count_ok in Hcnt. destruct (i_mult it) eqn:Em; cbn [peeks] in Hafter.
  - (* Req *)
    destruct fs as [|x [|y fs]]; cbn in Hm; try discriminate.
    cbn [map] in Henc. apply opt_concat_cons_some in Henc as (b & r & Hb & Hr & ->).
    cbn in Hr. injection Hr as <-. rewrite app_nil_r.
    cbn in Hwf. apply andb_prop in Hwf as [Hwx _].
    destruct (wrf_starts_w _ _ _ _ Hb) as (t0 & r0 & Ht0 & Hb0).
    assert (Hnext : nxt (b ++ after) = true) by (rewrite Hb0, <- app_assoc; apply Hnx; exact Ht0).
    rewrite Hnext, (elt_rt _ _ x b Ht Hwx Hb after). reflexivity.
  - (* Opt *)
    specialize (Hafter eq_refl).
    destruct fs as [|x [|y fs]]; cbn in Hm; try discriminate.
    + cbn in Henc. injection Henc as <-. cbn [app]. rewrite Hafter. reflexivity.
    + cbn [map] in Henc. apply opt_concat_cons_some in Henc as (b & r & Hb & Hr & ->).
      cbn in Hr. injection Hr as <-. rewrite app_nil_r.
      cbn in Hwf. apply andb_prop in Hwf as [Hwx _].
      destruct (wrf_starts_w _ _ _ _ Hb) as (t0 & r0 & Ht0 & Hb0).
      assert (Hnext : nxt (b ++ after) = true) by (rewrite Hb0, <- app_assoc; apply Hnx; exact Ht0).
      rewrite Hnext, (elt_rt _ _ x b Ht Hwx Hb after). reflexivity.
  - (* Many *)
    specialize (Hafter eq_refl).
    apply rd_many_wr; try assumption.
    pose proof (enc_len_le _ _ fs bs Henc). rewrite app_length. lia.
  - (* Many1 *)
    specialize (Hafter eq_refl).
    rewrite (rd_many_wr nxt (i_tag it) (i_kind it) fs bs after (S (List.length (bs ++ after))) Ht Hwf Hnx Henc Hafter).
    + destruct fs; [cbn in Hm; discriminate|reflexivity].
    + pose proof (enc_len_le _ _ fs bs Henc). rewrite app_length. lia.
  - (* Counted *)
    destruct cnt as [n|]; [|discriminate].
    apply rd_counted_wr; try assumption; [lia|].
    pose proof (enc_len_le _ _ fs bs Henc). rewrite app_length. lia.
Qed.

(* writer-side and reader-side dispatch agree on what was written *)
Lemma resolve_agree_wr pre it fs it' b after :
  item_ok E it = true -> resolve_w pre it fs = RItem it' -> enc_field wrf (it', fs) = Some b ->
  resolve_r pre it (b ++ after) = RItem it'.
Proof.
  intros Hok Hw Henc. unfold resolve_w in Hw. unfold resolve_r.
  destruct (i_by it) as [bsp|] eqn:Eby; [|exact Hw].
  destruct (by_src bsp) eqn:Es; [cbn [key_w] in Hw; cbn [key_r]; exact Hw|].
  destruct (next_type_req E it bsp Hok Eby Es) as [Hreq Hskip].
  cbn [key_w] in Hw. cbn [key_r].
  destruct fs as [|x fs'].
  { unfold resolve_k in Hw. rewrite Hskip in Hw. discriminate. }
  pose proof (resolve_k_item _ _ _ _ Hw) as (_ & Hm & _).
  unfold enc_field in Henc. cbn [fst snd] in Henc. rewrite Hm, Hreq in Henc.
  destruct fs' as [|y fs'']; [|cbn in Henc; discriminate].
  cbn [mult_ok List.length Nat.eqb map] in Henc.
  apply opt_concat_cons_some in Henc as (b1 & r1 & Hb1 & Hr1 & ->). cbn in Hr1. injection Hr1 as <-.
  destruct (wrf_starts _ _ _ _ Hb1) as [r0 ->].
  rewrite app_nil_r, <- app_assoc. cbn [app].
  rewrite take4_tag_type, nth3_tag_type. exact Hw.
Qed.

Lemma resolve_skip_agree pre it bs : item_ok E it = true -> resolve_w pre it [] = RSkip -> resolve_r pre it bs = RSkip.
Proof.
  intros Hok Hw. unfold resolve_w in Hw. unfold resolve_r.
  destruct (i_by it) as [bsp|] eqn:Eby; [|discriminate].
  destruct (by_src bsp) eqn:Es; [cbn [key_w] in Hw; cbn [key_r]; exact Hw|].
  destruct (next_type_req E it bsp Hok Eby Es) as [_ Hskip].
  cbn [key_w] in Hw. unfold resolve_k in Hw. rewrite Hskip in Hw. discriminate.
Qed.

(* ---------------------------------------------------------------- reading back an item list *)

Lemma rd_items_wr items : forall pre fields body tail,
  tags_disjointb E items = true -> tagged_lastb items = true ->
  (forall it, In it items -> item_ok E it = true) ->
  wf_items E v wff pre items fields = true ->
  wr_items wrf pre items fields = Some body ->
  (forallb (fun it => negb (peeks (i_mult it))) items = true \/ tail = []) ->
  rd_items E v rdf pre items (body ++ tail) = Some (fields, tail).
Proof.
  induction items as [|it items IH]; intros pre fields body tail Hdj Htl Hok Hwf Henc Htail.
  - destruct fields; cbn in Henc; [|discriminate]. injection Henc as <-. reflexivity.
  - destruct fields as [|fs fields]; [cbn in Henc; discriminate|].
    cbn [wr_items] in Henc. cbn [wf_items] in Hwf. cbn [rd_items].
    cbn [tags_disjointb] in Hdj. apply andb_prop in Hdj as [Hdj1 Hdj].
    cbn [tagged_lastb] in Htl. apply andb_prop in Htl as [Htl1 Htl].
    assert (Hok' : forall it', In it' items -> item_ok E it' = true) by (intros; apply Hok; right; assumption).
    assert (Htail' : forallb (fun it => negb (peeks (i_mult it))) items = true \/ tail = []).
    { destruct Htail as [Hnp|Ht]; [left; cbn in Hnp; apply andb_prop in Hnp; tauto|right; exact Ht]. }
    pose proof (Hok it (or_introl eq_refl)) as Hokit.
    destruct (resolve_w pre it fs) as [it'| |] eqn:Er; [| |discriminate].
    + destruct (enc_field wrf (it', fs)) as [b|] eqn:Eb; [|discriminate].
      destruct (wr_items wrf (pre ++ [fs]) items fields) as [r|] eqn:Ew; [|discriminate]. injection Henc as <-.
      apply andb_prop in Hwf as [Hwf1 Hwf]. apply andb_prop in Hwf1 as [Hwf1 Hcnt].
      destruct (resolve_w_ok E pre it fs it' Hokit Er) as (Htag & Hmult & Hsame & Hby').
      pose proof (resolve_w_tag E pre it fs it' Hokit Er) as Hin.
      rewrite <- app_assoc.
      rewrite (resolve_agree_wr pre it fs it' b (r ++ tail) Hokit Er Eb).
      pose proof (resolve_w_item_ok E pre it fs it' Hokit Er) as Hokit'.
      assert (Hnx : forall t r0, In t (ktags E (i_tag it') (i_kind it')) -> next_ok E it' (be_enc 3 t ++ r0) = true)
        by (intros; apply next_ok_enc; assumption).
      assert (Hafter : peeks (i_mult it') = true -> next_ok E it' (r ++ tail) = false).
      { intros Hpk. rewrite Hmult in Hpk.
        destruct Htail as [Hnp|Ht].
        { cbn in Hnp. apply andb_prop in Hnp as [Hnp _]. rewrite Hpk in Hnp. discriminate. }
        subst tail. rewrite app_nil_r.
        destruct (is_tagged (i_kind it')) eqn:Etg.
        - (* a peeking any-attribute item is the last one *)
          rewrite (Hsame eq_refl) in Etg. rewrite Etg, Hpk in Htl1. cbn in Htl1.
          destruct items; [|discriminate]. destruct fields; cbn in Ew; [|discriminate]. injection Ew as <-.
          apply next_ok_nil.
        - destruct (wr_items_start wrf items _ _ _ wrf_starts_w Hok' Ew) as [->|(t & r' & Hint & ->)];
            [apply next_ok_nil|].
          pose proof (tags_of_items_ok items t Hok' Hint) as Htt.
          assert (Hin' : In (i_tag it') (tags_of_item E it)).
          { apply Hin. unfold ktags. destruct (i_kind it'); try discriminate; left; reflexivity. }
          assert (Hnk : next_ok E it' (be_enc 3 t ++ r') = is_tag_next (i_tag it') (be_enc 3 t ++ r')).
          { unfold next_ok. destruct (i_kind it'); try discriminate; reflexivity. }
          rewrite Hnk, is_tag_next_tag by exact Htt. apply Z.eqb_neq. intros Heq. subst t.
          rewrite forallb_forall in Hdj1. specialize (Hdj1 _ Hin'). apply negb_true_iff in Hdj1.
          exact (memb_false_notin _ _ Hdj1 Hint). }
      assert (Hcnt' : count_ok it' (item_count E v pre it) (List.length fs) = true).
      { unfold count_ok in *. rewrite Hmult. exact Hcnt. }
      rewrite (rd_field_wr (next_ok E it') it' (item_count E v pre it) fs b (r ++ tail) Htag Hwf1 Hcnt' Hnx Eb Hafter).
      rewrite (IH (pre ++ [fs]) fields r tail Hdj Htl Hok' Hwf Ew Htail'). reflexivity.
    + destruct fs; [|discriminate].
      rewrite (resolve_skip_agree pre it (body ++ tail) Hokit Er).
      rewrite (IH (pre ++ [[]]) fields body tail Hdj Htl Hok' Hwf Henc Htail'). reflexivity.
Qed.

End Field.

(* ---------------------------------------------------------------- the theorem *)

Hypothesis HE : env_ok E = true.

Lemma cls_ok_of c k : find_cls E c = Some k -> cls_ok E k = true.
Proof.
  unfold find_cls. intros H. apply find_some in H as [Hin _].
  pose proof HE as HE'. unfold env_ok in HE'. apply andb_prop in HE' as [HE1 _].
  rewrite forallb_forall in HE1. apply HE1. exact Hin.
Qed.

Lemma row_facts t tg k' : find_row E v t tg = Some k' ->
  tag_ok tg = true /\ enum_mem E "Tags" tg = true /\ is_tagged k' = false.
Proof.
  intros Hf. destruct (find_row_in _ _ _ Hf) as (r & Hin & <- & <-).
  pose proof HE as HE'. unfold env_ok in HE'. apply andb_prop in HE' as [_ HE2].
  unfold find_table in Hin. destruct (find _ (e_tables E)) as [[n rows]|] eqn:Ef; [|destruct Hin].
  apply find_some in Ef as [Hint _]. rewrite forallb_forall in HE2. specialize (HE2 _ Hint). cbn in HE2.
  rewrite forallb_forall in HE2. specialize (HE2 _ Hin). unfold row_ok in HE2.
  apply andb_prop in HE2 as [HE2 _]. apply andb_prop in HE2 as [HE2 Hnt]. apply andb_prop in HE2 as [Ht Hm].
  apply negb_true_iff in Hnt. auto.
Qed.

Lemma cls_facts c k : In v VERSIONS -> find_cls E c = Some k ->
  c_rd k = c_wr k /\ tags_disjointb E (filter (active v) (c_rd k)) = true /\
  (forall it, In it (filter (active v) (c_rd k)) -> item_ok E it = true) /\
  (c_substream k = false -> forallb (fun it => negb (peeks (i_mult it))) (filter (active v) (c_rd k)) = true) /\
  tagged_lastb (filter (active v) (c_rd k)) = true /\ c_post_rd k = c_post_wr k.
Proof.
  intros Hv Ec. pose proof (cls_ok_of c k Ec) as Hk. unfold cls_ok in Hk.
  apply andb_prop in Hk as [Hk Hpo]. apply posts_eqb_eq in Hpo.
  apply andb_prop in Hk as [Hk Htl]. apply andb_prop in Hk as [Hk Hsub].
  apply andb_prop in Hk as [Hk Hd]. apply andb_prop in Hk as [Hrw Hio].
  split; [apply items_eqb_eq; exact Hrw|]. split; [|split; [|split; [|split; [apply tagged_lastb_filter; exact Htl|exact Hpo]]]].
  - rewrite forallb_forall in Hd. apply Hd. exact Hv.
  - intros it Hin. apply filter_In in Hin as [Hin _]. rewrite forallb_forall in Hio. apply Hio. exact Hin.
  - intros Hs. rewrite Hs in Hsub. cbn in Hsub. rewrite forallb_forall in *.
    intros it Hin. apply filter_In in Hin as [Hin _]. apply Hsub. exact Hin.
Qed.

Theorem roundtrip' : In v VERSIONS ->
  forall fuel tag k x bs, tag_ok' tag k = true -> wfv E v fuel k x = true ->
  wr E v fuel tag k x = Some bs -> forall rest, rd E v fuel tag k (bs ++ rest) = Some (x, rest).
Proof.
  intros Hv. induction fuel as [|f IH]; intros tag k x bs Ht Hwf Hw rest; [discriminate|].
  cbn [wr] in Hw. cbn [wfv] in Hwf. cbn [rd].
  destruct k as [t|e|c|t]; destruct x as [p|fields|tg y]; try discriminate;
    try (unfold tag_ok' in Ht; cbn [is_tagged orb] in Ht).
  - (* primitive *)
    destruct (ptype_eqb (ptype_of p) t && negb (ptype_eqb t PEnum)) eqn:Ep; [|discriminate].
    apply andb_prop in Ep as [Ept Hne]. apply ptype_eqb_eq in Ept. subst t.
    apply negb_true_iff in Hne. rewrite Hne.
    assert (Hwfp : wf_prim (fun _ => false) p = true).
    { apply (enc_some_iff_wf (fun _ => false) tag p).
      - destruct p; try exact I. exact Hwf.
      - destruct p; try exact I. cbn in Hne. discriminate.
      - eauto. }
    destruct (prim_roundtrip (fun _ => false) tag p Ht Hwfp) as (bs' & Hb' & Hd).
    rewrite Hw in Hb'. injection Hb' as <-. rewrite Hd. reflexivity.
  - (* enumeration *)
    destruct p as [| | |n| | | | |]; try discriminate.
    assert (Hwfp : wf_prim (enum_mem E e) (VEnum n) = true).
    { apply (enc_some_iff_wf (enum_mem E e) tag (VEnum n)); [exact I|exact Hwf|eauto]. }
    destruct (prim_roundtrip (enum_mem E e) tag (VEnum n) Ht Hwfp) as (bs' & Hb' & Hd).
    rewrite Hw in Hb'. injection Hb' as <-. cbn [ptype_of] in Hd. rewrite Hd. reflexivity.
  - (* structure *)
    destruct (find_cls E c) as [k|] eqn:Ec; [|discriminate].
    destruct (cls_facts c k Hv Ec) as (Hrw & Hdj & Hio & Hnp & Htl & Hpo).
    destruct (v <? c_minver k) eqn:Emv; [discriminate|]. cbn [negb andb] in Hwf.
    destruct (forallb (post_ok v fields) (c_post_wr k)) eqn:Epo; [|discriminate]. cbn [negb andb] in Hwf, Hw.
    destruct (wr_items (wr E v f) [] (filter (active v) (c_wr k)) fields) as [body|] eqn:Eb; [|discriminate].
    apply with_hdr_some in Hw as (h & Hh & ->).
    rewrite <- app_assoc.
    rewrite (dec_hdr_hdr tag STRUCT_CODE (zlen body) h (body ++ rest) Ht ltac:(unfold STRUCT_CODE; lia) Hh).
    rewrite Hrw in *.
    destruct (c_substream k) eqn:Esub.
    + assert (Hn : Z.to_nat (Z.min (zlen body) (zlen (body ++ rest))) = List.length body).
      { rewrite zlen_app. pose proof (zlen_nonneg rest). unfold zlen in *. lia. }
      rewrite Hn. rewrite firstn_app, Nat.sub_diag, firstn_all. cbn [firstn]. rewrite app_nil_r.
      rewrite skipn_app, Nat.sub_diag, skipn_all. cbn [skipn app].
      pose proof (rd_items_wr (wr E v f) (rd E v f) (wfv E v f) (wr_starts f) (wr_etag f) IH
                    (filter (active v) (c_wr k)) [] fields body [] Hdj Htl Hio Hwf Eb
                    (or_intror eq_refl)) as Hitems.
      rewrite app_nil_r in Hitems. rewrite Hitems. rewrite Hpo, Epo. cbn [negb]. rewrite andb_false_r. reflexivity.
    + rewrite (rd_items_wr (wr E v f) (rd E v f) (wfv E v f) (wr_starts f) (wr_etag f) IH
                    (filter (active v) (c_wr k)) [] fields body rest Hdj Htl Hio Hwf Eb
                    (or_introl (Hnp eq_refl))). rewrite Hpo, Epo. reflexivity.
  - (* any-attribute element *)
    destruct (find_row E v t tg) as [k'|] eqn:Ef; [|discriminate].
    destruct (row_facts t tg k' Ef) as (Htg & Hmem & Hnt). rewrite Hnt in *. cbn [negb andb] in Hwf.
    destruct (wr_starts f tg k' y bs Hw) as [r0 Hb0].
    assert (Het : etag tg k' y = tg) by (destruct k'; try discriminate; reflexivity).
    rewrite Het in Hb0.
    assert (Htk : take_exact 3 (bs ++ rest) = Some (be_enc 3 tg, tyc y :: r0 ++ rest)).
    { rewrite Hb0, <- app_assoc. apply take_exact_app'. rewrite zlen_be_enc. reflexivity. }
    rewrite Htk. rewrite be_dec_enc by (unfold tag_ok in Htg; rewrite p3; lia).
    rewrite Ef, Hnt.
    rewrite (IH tg k' y bs ltac:(unfold tag_ok'; rewrite Htg, orb_true_r; reflexivity) Hwf Hw rest). reflexivity.
Qed.

Theorem roundtrip : In v VERSIONS ->
  forall fuel tag k x bs, tag_ok tag = true -> wfv E v fuel k x = true ->
  wr E v fuel tag k x = Some bs -> forall rest, rd E v fuel tag k (bs ++ rest) = Some (x, rest).
Proof.
  intros Hv fuel tag k x bs Ht. apply roundtrip'; [exact Hv|]. unfold tag_ok'. rewrite Ht, orb_true_r. reflexivity.
Qed.

Corollary reencode : In v VERSIONS ->
  forall fuel tag k x bs rest x' rest', tag_ok tag = true -> wfv E v fuel k x = true ->
  wr E v fuel tag k x = Some bs -> rd E v fuel tag k (bs ++ rest) = Some (x', rest') ->
  x' = x /\ rest' = rest /\ wr E v fuel tag k x' = Some bs.
Proof.
  intros Hv fuel tag k x bs rest x' rest' Ht Hwf Hw Hr.
  rewrite (roundtrip Hv fuel tag k x bs Ht Hwf Hw rest) in Hr. injection Hr as <- <-. auto.
Qed.

(* ---------------------------------------------------------------- C02: structure writers emit well-formed TTLV *)

Lemma field_children (wrf : Z -> kind -> value -> option bytes) (wff : kind -> value -> bool) tag k xs : forall bs,
  (forall x b, wff k x = true -> wrf tag k x = Some b -> wf_item b) ->
  forallb (wff k) xs = true ->
  opt_concat (map (wrf tag k) xs) = Some bs ->
  exists children, bs = List.concat children /\ Forall wf_item children.
Proof.
  induction xs as [|x xs IHx]; intros bs Hwf Hall H.
  - cbn in H. injection H as <-. exists []. split; [reflexivity|constructor].
  - cbn [map] in H. apply opt_concat_cons_some in H as (b & r & Hb & Hr & ->).
    cbn in Hall. apply andb_prop in Hall as [Hx Hall].
    destruct (IHx r Hwf Hall Hr) as (ch & -> & Hch).
    exists (b :: ch). split; [reflexivity|]. constructor; [|exact Hch]. eapply Hwf; eassumption.
Qed.

Lemma items_children (wrf : Z -> kind -> value -> option bytes) (wff : kind -> value -> bool) items :
  forall pre fields body,
  (forall tag k x b, tag_ok' tag k = true -> wff k x = true -> wrf tag k x = Some b -> wf_item b) ->
  (forall it, In it items -> item_ok E it = true) ->
  wf_items E v wff pre items fields = true ->
  wr_items wrf pre items fields = Some body ->
  exists children, body = List.concat children /\ Forall wf_item children.
Proof.
  induction items as [|it items IHi]; intros pre fields body Hwf Hok Hall H.
  - destruct fields; cbn in H; [|discriminate]. injection H as <-. exists []. split; [reflexivity|constructor].
  - destruct fields as [|fs fields]; [cbn in H; discriminate|]. cbn [wr_items] in H. cbn [wf_items] in Hall.
    assert (Hok' : forall it', In it' items -> item_ok E it' = true) by (intros; apply Hok; right; assumption).
    destruct (resolve_w pre it fs) as [it'| |] eqn:Er; [| |discriminate].
    + destruct (enc_field wrf (it', fs)) as [b|] eqn:Eb; [|discriminate].
      destruct (wr_items wrf (pre ++ [fs]) items fields) as [r|] eqn:Ew; [|discriminate]. injection H as <-.
      apply andb_prop in Hall as [Hall1 Hall]. apply andb_prop in Hall1 as [Hall1 _].
      destruct (resolve_w_ok E pre it fs it' (Hok it (or_introl eq_refl)) Er) as (Htag & _).
      unfold enc_field in Eb. cbn [fst snd] in Eb.
      destruct (mult_ok (i_mult it') (List.length fs)); [|discriminate].
      destruct (field_children wrf wff (i_tag it') (i_kind it') fs b) as (c1 & -> & H1);
        [intros x b' Hx Hb'; eapply Hwf; eassumption|exact Hall1|exact Eb|].
      destruct (IHi _ _ _ Hwf Hok' Hall Ew) as (c2 & -> & H2).
      exists (c1 ++ c2). split; [rewrite List.concat_app; reflexivity|]. apply Forall_app. split; assumption.
    + destruct fs; [|discriminate]. exact (IHi _ _ _ Hwf Hok' Hall H).
Qed.

Theorem wr_wf' : In v VERSIONS -> forall fuel tag k x bs, tag_ok' tag k = true -> wfv E v fuel k x = true ->
  wr E v fuel tag k x = Some bs -> wf_item bs.
Proof.
  intros Hv. induction fuel as [|f IH]; intros tag k x bs Ht Hwf Hw; [discriminate|].
  cbn [wr] in Hw. cbn [wfv] in Hwf.
  destruct k as [t|e|c|t]; destruct x as [p|fields|tg y]; try discriminate;
    try (unfold tag_ok' in Ht; cbn [is_tagged orb] in Ht).
  - destruct (ptype_eqb (ptype_of p) t && negb (ptype_eqb t PEnum)) eqn:Ep; [|discriminate].
    apply andb_prop in Ep as [Ept Hne]. apply ptype_eqb_eq in Ept. subst t. apply negb_true_iff in Hne.
    apply (enc_prim_wf (fun _ => false) tag p bs Ht); [|exact Hw].
    apply (enc_some_iff_wf (fun _ => false) tag p);
      [destruct p; try exact I; exact Hwf | destruct p; try exact I; cbn in Hne; discriminate | eauto].
  - destruct p as [| | |n| | | | |]; try discriminate.
    apply (enc_prim_wf (enum_mem E e) tag (VEnum n) bs Ht); [|exact Hw].
    apply (enc_some_iff_wf (enum_mem E e) tag (VEnum n)); [exact I|exact Hwf|eauto].
  - destruct (find_cls E c) as [k|] eqn:Ec; [|discriminate].
    destruct (cls_facts c k Hv Ec) as (Hrw & _ & Hio & _). rewrite Hrw in Hio.
    destruct (v <? c_minver k) eqn:Emv; [discriminate|]. cbn [negb andb] in Hwf.
    destruct (forallb (post_ok v fields) (c_post_wr k)) eqn:Epo; [|discriminate]. cbn [negb andb] in Hwf, Hw.
    destruct (wr_items _ _ _ _) as [body|] eqn:Eb; [|discriminate].
    destruct (items_children (wr E v f) (wfv E v f) _ _ _ _ IH Hio Hwf Eb) as (children & -> & Hch).
    apply with_hdr_some in Hw as (h & Hh & ->). apply hdr_spec in Hh as [-> Hr].
    unfold tag_ok in Ht.
    pose proof (wf_structure tag children ltac:(change (256 ^ 3) with 16777216; lia) Hch) as Hs.
    unfold zlen in *. rewrite <- !app_assoc. apply Hs. unfold TWO32 in Hr. lia.
  - destruct (find_row E v t tg) as [k'|] eqn:Ef; [|discriminate].
    destruct (row_facts t tg k' Ef) as (Htg & _ & Hnt). rewrite Hnt in *. cbn [negb andb] in Hwf.
    apply (IH tg k' y bs); [unfold tag_ok'; rewrite Htg, orb_true_r; reflexivity|exact Hwf|exact Hw].
Qed.

Theorem wr_wf : In v VERSIONS -> forall fuel tag k x bs, tag_ok tag = true -> wfv E v fuel k x = true ->
  wr E v fuel tag k x = Some bs -> wf_item bs.
Proof.
  intros Hv fuel tag k x bs Ht. apply wr_wf'; [exact Hv|]. unfold tag_ok'. rewrite Ht, orb_true_r. reflexivity.
Qed.

(* ---------------------------------------------------------------- decode-encode-decode for any accepted byte string *)

(* what the reader saw as the type byte is the type code of the value it produced *)
Definition type_byte_is (bs : bytes) (ty : Z) : Prop :=
  exists t4 r4, take_exact 4 bs = Some (t4, r4) /\ nth 3 t4 0 = ty.

Lemma dec_hdr_type_byte tag ty bs len r : 0 <= ty < 256 ->
  dec_hdr tag ty bs = Some (len, r) -> type_byte_is bs ty.
Proof.
  intros Hty H. unfold dec_hdr in H.
  destruct (take_exact 3 bs) as [[t r1]|] eqn:E1; [|discriminate].
  destruct (negb (be_dec t =? tag)); [discriminate|].
  destruct (take_exact 1 r1) as [[y r2]|] eqn:E2; [|discriminate].
  destruct (negb (be_dec y =? ty)) eqn:Ey; [discriminate|].
  apply take_exact_spec in E1 as [-> L1]. apply take_exact_spec in E2 as [-> L2].
  apply negb_false_iff, Z.eqb_eq in Ey.
  destruct y as [|b [|b' y']]; unfold zlen in L2; cbn in L2; try lia.
  exists (t ++ [b]), r2. split.
  - replace (t ++ [b] ++ r2) with ((t ++ [b]) ++ r2) by (rewrite <- app_assoc; reflexivity).
    apply take_exact_app'. rewrite zlen_app. unfold zlen in *. cbn. lia.
  - rewrite app_nth2; unfold zlen in L1; [|lia].
    replace (3 - List.length t)%nat with 0%nat by lia. cbn. unfold be_dec in Ey. cbn in Ey. lia.
Qed.

Definition SoundAt (rdf : Z -> kind -> bytes -> option (value * bytes))
                   (wrf : Z -> kind -> value -> option bytes) (wff : kind -> value -> bool) : Prop :=
  forall tag k bs x rest, tag_ok' tag k = true -> bytes_ok bs = true -> zlen bs < TWO31 ->
    rdf tag k bs = Some (x, rest) ->
    exists used bs', bs = used ++ rest /\ 8 <= zlen used /\ wff k x = true /\
                     wrf tag k x = Some bs' /\ zlen bs' <= 2 * zlen used /\ type_byte_is bs (tyc x).

Section Items.
Variable rdf : Z -> kind -> bytes -> option (value * bytes).
Variable wrf : Z -> kind -> value -> option bytes.
Variable wff : kind -> value -> bool.
Hypothesis Hsound : SoundAt rdf wrf wff.

Lemma rd_many_sound (nxt : bytes -> bool) tag k : tag_ok' tag k = true -> forall lfuel bs xs rest,
  bytes_ok bs = true -> zlen bs < TWO31 ->
  rd_many (rdf tag k) nxt lfuel bs = Some (xs, rest) ->
  exists used bs', bs = used ++ rest /\ forallb (wff k) xs = true /\
                   opt_concat (map (wrf tag k) xs) = Some bs' /\ zlen bs' <= 2 * zlen used.
Proof.
  intros Ht. induction lfuel as [|lf IH]; intros bs xs rest Hok Hs H; [discriminate|].
  cbn [rd_many] in H. destruct (nxt bs).
  - destruct (rdf tag k bs) as [[x r]|] eqn:E1; [|discriminate].
    destruct (rd_many (rdf tag k) nxt lf r) as [[xs' r']|] eqn:E2; [|discriminate].
    injection H as <- <-.
    destruct (Hsound tag k bs x r Ht Hok Hs E1) as (u1 & b1 & -> & Hu1 & Hw1 & Hb1 & Hl1 & _).
    apply bytes_ok_app in Hok as [_ Hokr]. rewrite zlen_app in Hs. pose proof (zlen_nonneg u1).
    destruct (IH r xs' r' Hokr ltac:(lia) E2) as (u2 & b2 & -> & Hw2 & Hb2 & Hl2).
    exists (u1 ++ u2), (b1 ++ b2). rewrite <- app_assoc. split; [reflexivity|].
    split; [cbn; rewrite Hw1, Hw2; reflexivity|]. split; [cbn [map opt_concat]; rewrite Hb1, Hb2; reflexivity|].
    rewrite !zlen_app. lia.
  - injection H as <- <-. exists [], []. cbn. repeat split; try reflexivity; try (unfold zlen; cbn; lia).
Qed.

Lemma rd_counted_sound tag k : tag_ok' tag k = true -> forall fuel n bs xs rest,
  bytes_ok bs = true -> zlen bs < TWO31 ->
  rd_counted (rdf tag k) fuel n bs = Some (xs, rest) ->
  exists used bs', bs = used ++ rest /\ forallb (wff k) xs = true /\
                   opt_concat (map (wrf tag k) xs) = Some bs' /\ zlen bs' <= 2 * zlen used /\
                   Z.of_nat (List.length xs) = Z.max n 0.
Proof.
  intros Ht. induction fuel as [|f IH]; intros n bs xs rest Hok Hs H.
  - cbn [rd_counted] in H. destruct (n <=? 0) eqn:En; [|discriminate]. injection H as <- <-.
    exists [], []. cbn. repeat split; try reflexivity; try (unfold zlen; cbn; lia); lia.
  - cbn [rd_counted] in H. destruct (n <=? 0) eqn:En.
    + injection H as <- <-. exists [], []. cbn. repeat split; try reflexivity; try (unfold zlen; cbn; lia); lia.
    + destruct (rdf tag k bs) as [[x r]|] eqn:E1; [|discriminate].
      destruct (rd_counted (rdf tag k) f (n - 1) r) as [[xs' r']|] eqn:E2; [|discriminate].
      injection H as <- <-.
      destruct (Hsound tag k bs x r Ht Hok Hs E1) as (u1 & b1 & -> & Hu1 & Hw1 & Hb1 & Hl1 & _).
      apply bytes_ok_app in Hok as [_ Hokr]. rewrite zlen_app in Hs. pose proof (zlen_nonneg u1).
      destruct (IH (n - 1) r xs' r' Hokr ltac:(lia) E2) as (u2 & b2 & -> & Hw2 & Hb2 & Hl2 & Hn2).
      exists (u1 ++ u2), (b1 ++ b2). rewrite <- app_assoc. split; [reflexivity|].
      split; [cbn; rewrite Hw1, Hw2; reflexivity|]. split; [cbn [map opt_concat]; rewrite Hb1, Hb2; reflexivity|].
      split; [rewrite !zlen_app; lia|]. cbn [List.length]. lia.
Qed.

Lemma rd_field_sound (nxt : bytes -> bool) it cnt bs fs rest : tag_ok' (i_tag it) (i_kind it) = true ->
  bytes_ok bs = true -> zlen bs < TWO31 ->
  rd_field (rdf (i_tag it) (i_kind it)) nxt it cnt bs = Some (fs, rest) ->
  exists used bs', bs = used ++ rest /\ forallb (wff (i_kind it)) fs = true /\
                   enc_field wrf (it, fs) = Some bs' /\ zlen bs' <= 2 * zlen used /\
                   count_ok it cnt (List.length fs) = true /\
                   (i_mult it = Req -> exists x, fs = [x] /\ type_byte_is bs (tyc x)).
Proof.
  intros Ht Hok Hs H. unfold rd_field in H. unfold enc_field, count_ok. cbn [fst snd].
  destruct (i_mult it) eqn:Em.
  - destruct (nxt bs); [|discriminate].
    destruct (rdf (i_tag it) (i_kind it) bs) as [[x r]|] eqn:E1; [|discriminate]. injection H as <- <-.
    destruct (Hsound _ _ bs x r Ht Hok Hs E1) as (u1 & b1 & -> & Hu1 & Hw1 & Hb1 & Hl1 & Hty).
    exists u1, b1. cbn. rewrite Hw1, Hb1, app_nil_r. repeat split; try reflexivity; try assumption.
    intros _. exists x. split; [reflexivity|exact Hty].
  - destruct (nxt bs).
    + destruct (rdf (i_tag it) (i_kind it) bs) as [[x r]|] eqn:E1; [|discriminate]. injection H as <- <-.
      destruct (Hsound _ _ bs x r Ht Hok Hs E1) as (u1 & b1 & -> & Hu1 & Hw1 & Hb1 & Hl1 & _).
      exists u1, b1. cbn. rewrite Hw1, Hb1, app_nil_r. repeat split; try reflexivity; try assumption. discriminate.
    + injection H as <- <-. exists [], []. cbn. repeat split; try reflexivity; try (unfold zlen; cbn; lia). discriminate.
  - cbn [mult_ok].
    destruct (rd_many_sound nxt (i_tag it) (i_kind it) Ht _ bs fs rest Hok Hs H) as (u & b & -> & Hw & Hb & Hl).
    exists u, b. repeat split; try assumption. discriminate.
  - destruct (rd_many (rdf (i_tag it) (i_kind it)) nxt (S (List.length bs)) bs) as [[xs r]|] eqn:Em1; [|discriminate].
    destruct xs as [|x xs]; [discriminate|]. injection H as <- <-.
    destruct (rd_many_sound nxt (i_tag it) (i_kind it) Ht _ bs (x :: xs) r Hok Hs Em1) as (u & b & -> & Hw & Hb & Hl).
    exists u, b. cbn [mult_ok List.length Nat.leb]. repeat split; try assumption. discriminate.
  - destruct cnt as [n|]; [|discriminate].
    destruct (rd_counted_sound (i_tag it) (i_kind it) Ht _ n bs fs rest Hok Hs H) as (u & b & -> & Hw & Hb & Hl & Hn).
    exists u, b. cbn [mult_ok]. repeat split; try assumption; [lia|discriminate].
Qed.

Lemma resolve_agree_rd pre it bs it' f :
  item_ok E it = true -> resolve_r pre it bs = RItem it' ->
  (i_mult it' = Req -> exists x, f = [x] /\ type_byte_is bs (tyc x)) ->
  resolve_w pre it f = RItem it'.
Proof.
  intros Hok Hr Hreq. unfold resolve_r in Hr. unfold resolve_w.
  destruct (i_by it) as [bsp|] eqn:Eby; [|exact Hr].
  destruct (by_src bsp) eqn:Es; [cbn [key_r] in Hr; cbn [key_w]; exact Hr|].
  destruct (next_type_req E it bsp Hok Eby Es) as [Hm Hskip].
  pose proof (resolve_k_item _ _ _ _ Hr) as (_ & Hm' & _).
  destruct (Hreq ltac:(congruence)) as (x & -> & t4 & r4 & Ht4 & Hn).
  cbn [key_r] in Hr. cbn [key_w]. rewrite Ht4 in Hr. rewrite Hn in Hr. exact Hr.
Qed.

Lemma resolve_skip_agree_rd pre it bs : item_ok E it = true -> resolve_r pre it bs = RSkip -> resolve_w pre it [] = RSkip.
Proof.
  intros Hok Hr. unfold resolve_r in Hr. unfold resolve_w.
  destruct (i_by it) as [bsp|] eqn:Eby; [|discriminate].
  destruct (by_src bsp) eqn:Es; [cbn [key_r] in Hr; cbn [key_w]; exact Hr|].
  destruct (next_type_req E it bsp Hok Eby Es) as [_ Hskip].
  cbn [key_r] in Hr. unfold resolve_k in Hr. rewrite Hskip in Hr.
  destruct (take_exact 4 bs) as [[t ?]|]; [|discriminate].
  destruct (find _ _) as [[? [? ?]]|]; discriminate.
Qed.

Lemma rd_items_sound items : (forall it, In it items -> item_ok E it = true) ->
  forall pre bs fields rest, bytes_ok bs = true -> zlen bs < TWO31 ->
  rd_items E v rdf pre items bs = Some (fields, rest) ->
  exists used body, bs = used ++ rest /\ wf_items E v wff pre items fields = true /\
     wr_items wrf pre items fields = Some body /\ zlen body <= 2 * zlen used.
Proof.
  induction items as [|it items IH]; intros Hok pre bs fields rest Hbs Hs H.
  - cbn in H. injection H as <- <-. exists [], []. cbn. repeat split; try reflexivity; try (unfold zlen; cbn; lia).
  - cbn [rd_items] in H.
    assert (Hok' : forall it', In it' items -> item_ok E it' = true) by (intros; apply Hok; right; assumption).
    pose proof (Hok it (or_introl eq_refl)) as Hokit.
    destruct (resolve_r pre it bs) as [it'| |] eqn:Er; [| |discriminate].
    + destruct (rd_field (rdf (i_tag it') (i_kind it')) (next_ok E it') it' (item_count E v pre it) bs) as [[f r]|] eqn:E1; [|discriminate].
      destruct (rd_items E v rdf (pre ++ [f]) items r) as [[fs r']|] eqn:E2; [|discriminate]. injection H as <- <-.
      destruct (resolve_r_ok E pre it bs it' Hokit Er) as (Htag & Hmult & _).
      destruct (rd_field_sound (next_ok E it') it' _ bs f r Htag Hbs Hs E1) as (u1 & b1 & Hu & Hw1 & Hb1 & Hl1 & Hc1 & Hreq).
      pose proof (resolve_agree_rd pre it bs it' f Hokit Er Hreq) as Hrw.
      subst bs.
      apply bytes_ok_app in Hbs as [_ Hokr]. rewrite zlen_app in Hs. pose proof (zlen_nonneg u1).
      destruct (IH Hok' (pre ++ [f]) r fs r' Hokr ltac:(lia) E2) as (u2 & b2 & -> & Hw2 & Hb2 & Hl2).
      exists (u1 ++ u2), (b1 ++ b2). rewrite <- app_assoc. split; [reflexivity|].
      cbn [wf_items wr_items]. rewrite Hrw, Hw1, Hw2, Hb1, Hb2.
      assert (Hc : count_ok it (item_count E v pre it) (List.length f) = true).
      { unfold count_ok in *. rewrite <- Hmult. exact Hc1. }
      rewrite Hc. repeat split; try reflexivity. rewrite !zlen_app. lia.
    + destruct (rd_items E v rdf (pre ++ [[]]) items bs) as [[fs r']|] eqn:E2; [|discriminate]. injection H as <- <-.
      destruct (IH Hok' (pre ++ [[]]) bs fs r' Hbs Hs E2) as (u2 & b2 & -> & Hw2 & Hb2 & Hl2).
      exists u2, b2. cbn [wf_items wr_items]. rewrite (resolve_skip_agree_rd pre it _ Hokit Er).
      repeat split; assumption.
Qed.
End Items.

Theorem rd_sound : In v VERSIONS -> forall fuel, SoundAt (rd E v fuel) (wr E v fuel) (wfv E v fuel).
Proof.
  intros Hv. induction fuel as [|f IH]; intros tag k bs x rest Ht Hok Hs H; [discriminate|].
  cbn [rd] in H.
  destruct k as [t|e|c|t]; try (unfold tag_ok' in Ht; cbn [is_tagged orb] in Ht).
  - destruct (ptype_eqb t PEnum) eqn:Ene; [discriminate|].
    destruct (dec_prim (fun _ => false) t tag bs) as [[p r]|] eqn:Ed; [|discriminate]. injection H as <- <-. cbn [wr wfv].
    assert (Htb : type_byte_is bs (type_code t)).
    { unfold dec_prim in Ed. destruct (dec_hdr tag (type_code t) bs) as [[len r0]|] eqn:Eh; [|discriminate].
      eapply dec_hdr_type_byte; [|exact Eh]. destruct t; cbn; lia. }
    destruct (dec_sound (fun _ => false) t tag bs p r Ht Hok Hs Ed) as (used & bs' & -> & Hu & Henc & Hl & Hwf & Hty).
    exists used, bs'. split; [reflexivity|]. split; [exact Hu|]. subst t.
    split.
    + destruct p; try reflexivity. cbn [wf_prim] in Hwf. apply andb_prop in Hwf as [Hb _]. exact Hb.
    + replace (ptype_eqb (ptype_of p) (ptype_of p)) with true by (symmetry; apply ptype_eqb_eq; reflexivity).
      rewrite Ene. cbn [andb negb]. split; [exact Henc|]. split; [lia|exact Htb].
  - destruct (dec_prim (enum_mem E e) PEnum tag bs) as [[p r]|] eqn:Ed; [|discriminate]. injection H as <- <-. cbn [wr wfv].
    assert (Htb : type_byte_is bs (type_code PEnum)).
    { unfold dec_prim in Ed. destruct (dec_hdr tag (type_code PEnum) bs) as [[len r0]|] eqn:Eh; [|discriminate].
      eapply dec_hdr_type_byte; [|exact Eh]. cbn; lia. }
    destruct (dec_sound (enum_mem E e) PEnum tag bs p r Ht Hok Hs Ed) as (used & bs' & -> & Hu & Henc & Hl & Hwf & Hty).
    exists used, bs'. split; [reflexivity|]. split; [exact Hu|].
    destruct p; try discriminate. cbn [wf_prim] in Hwf. apply andb_prop in Hwf as [_ Hm].
    split; [exact Hm|]. split; [exact Henc|]. split; [lia|exact Htb].
  - destruct (find_cls E c) as [k|] eqn:Ec; [|discriminate].
    destruct (cls_facts c k Hv Ec) as (Hrw & _ & Hio & _ & _ & Hpo).
    destruct (v <? c_minver k) eqn:Emv; [discriminate|].
    destruct (dec_hdr tag STRUCT_CODE bs) as [[len r]|] eqn:Eh; [|discriminate].
    pose proof (dec_hdr_type_byte tag STRUCT_CODE bs len r ltac:(unfold STRUCT_CODE; lia) Eh) as Htb.
    destruct (dec_hdr_spec _ _ _ _ _ Eh Hok) as (h & -> & Lh & Hlen & Hr).
    rewrite zlen_app in Hs. pose proof (zlen_nonneg r).
    assert (Hmk : forall (sub : bytes) (fields : list (list value)) (rest0 body usedsub : bytes),
               zlen usedsub <= zlen sub -> zlen sub <= zlen r -> zlen body <= 2 * zlen usedsub ->
               forallb (post_ok v fields) (c_post_rd k) = true ->
               wf_items E v (wfv E v f) [] (filter (active v) (c_rd k)) fields = true ->
               wr_items (wr E v f) [] (filter (active v) (c_rd k)) fields = Some body ->
               h ++ r = (h ++ sub) ++ rest0 ->
               exists used bs', h ++ r = used ++ rest0 /\ 8 <= zlen used /\
                 wfv E v (S f) (KStruct c) (VS fields) = true /\
                 wr E v (S f) tag (KStruct c) (VS fields) = Some bs' /\ zlen bs' <= 2 * zlen used /\
                 type_byte_is (h ++ r) (tyc (VS fields))).
    { intros sub fields rest0 body usedsub Hus Hsub Hlb Hpok Hwff Hbody Heq.
      exists (h ++ sub).
      assert (Hhdr : exists hb, hdr tag STRUCT_CODE (zlen body) = Some hb).
      { apply hdr_total. pose proof (zlen_nonneg body). unfold TWO31, TWO32 in *. lia. }
      destruct Hhdr as [hb Hhb].
      exists (hb ++ body). split; [exact Heq|].
      split; [rewrite zlen_app; pose proof (zlen_nonneg sub); lia|].
      cbn [wr wfv]. rewrite Ec, Emv. rewrite <- Hpo, Hpok. cbn [negb andb]. rewrite <- Hrw.
      split; [exact Hwff|]. rewrite Hbody. unfold with_hdr. rewrite Hhb.
      split; [reflexivity|].
      assert (zlen hb = 8).
      { unfold hdr in Hhb. destruct ((0 <=? zlen body) && (zlen body <? TWO32)); [|discriminate].
        assert (hb = be_enc 3 tag ++ [STRUCT_CODE] ++ be_enc 4 (zlen body)) by congruence. subst hb.
        rewrite !zlen_app, !zlen_be_enc. unfold zlen. cbn. lia. }
      split; [rewrite !zlen_app; lia|exact Htb]. }
    destruct (c_substream k) eqn:Esub.
    + set (n := Z.to_nat (Z.min len (zlen r))) in *.
      destruct (rd_items E v (rd E v f) [] (filter (active v) (c_rd k)) (firstn n r)) as [[fields leftover]|] eqn:Ei; [|discriminate].
      destruct (forallb (post_ok v fields) (c_post_rd k)) eqn:Epo; [|discriminate]. cbn [negb] in H.
      destruct (c_oversize_check k && negb (Nat.eqb (List.length leftover) 0)); [discriminate|]. injection H as <- <-.
      assert (Hsplit : r = firstn n r ++ skipn n r) by (symmetry; apply firstn_skipn).
      assert (Hoksub : bytes_ok (firstn n r) = true) by (rewrite Hsplit in Hr; apply bytes_ok_app in Hr; tauto).
      assert (Hsub_le : zlen (firstn n r) <= zlen r).
      { rewrite Hsplit at 2. rewrite zlen_app. pose proof (zlen_nonneg (skipn n r)). lia. }
      destruct (rd_items_sound (rd E v f) (wr E v f) (wfv E v f) IH (filter (active v) (c_rd k)) Hio [] (firstn n r) fields leftover
                  Hoksub ltac:(lia) Ei) as (usedsub & body & Hsubeq & Hwff & Hbody & Hlb).
      assert (Hus : zlen usedsub <= zlen (firstn n r)).
      { rewrite Hsubeq, zlen_app. pose proof (zlen_nonneg leftover). lia. }
      apply (Hmk (firstn n r) fields (skipn n r) body usedsub Hus Hsub_le Hlb Epo Hwff Hbody).
      rewrite <- app_assoc. f_equal. exact Hsplit.
    + destruct (rd_items E v (rd E v f) [] (filter (active v) (c_rd k)) r) as [[fields rest0]|] eqn:Ei; [|discriminate].
      destruct (forallb (post_ok v fields) (c_post_rd k)) eqn:Epo; [|discriminate]. cbn [negb] in H.
      injection H as <- <-.
      destruct (rd_items_sound (rd E v f) (wr E v f) (wfv E v f) IH (filter (active v) (c_rd k)) Hio [] r fields rest0
                  Hr ltac:(lia) Ei) as (usedsub & body & Hsubeq & Hwff & Hbody & Hlb).
      apply (Hmk usedsub fields rest0 body usedsub ltac:(lia)
                 ltac:(rewrite Hsubeq, zlen_app; pose proof (zlen_nonneg rest0); lia) Hlb Epo Hwff Hbody).
      rewrite <- app_assoc. f_equal. exact Hsubeq.
  - (* any-attribute element *)
    destruct (take_exact 3 bs) as [[tb rb]|] eqn:Etk; [|discriminate].
    destruct (find_row E v t (be_dec tb)) as [k'|] eqn:Ef; [|discriminate].
    destruct (row_facts t _ k' Ef) as (Htg & _ & Hnt). rewrite Hnt in H.
    destruct (rd E v f (be_dec tb) k' bs) as [[y r]|] eqn:Er; [|discriminate]. injection H as <- <-.
    destruct (IH (be_dec tb) k' bs y r ltac:(unfold tag_ok'; rewrite Htg, orb_true_r; reflexivity) Hok Hs Er)
      as (used & bs' & -> & Hu & Hwf & Hw & Hl & Hty).
    exists used, bs'. cbn [wr wfv tyc]. rewrite Ef, Hnt. cbn [negb andb]. repeat split; assumption.
Qed.

(* the statement the property asks for: for any byte string the decoder accepts,
   decode - encode - decode gives the same value as the first decode *)
Theorem dec_enc_dec_struct : In v VERSIONS ->
  forall fuel tag k bs x rest, tag_ok tag = true -> bytes_ok bs = true -> zlen bs < TWO31 ->
  rd E v fuel tag k bs = Some (x, rest) ->
  exists bs', wr E v fuel tag k x = Some bs' /\
              forall rest', rd E v fuel tag k (bs' ++ rest') = Some (x, rest').
Proof.
  intros Hv fuel tag k bs x rest Ht Hok Hs H.
  assert (Ht' : tag_ok' tag k = true) by (unfold tag_ok'; rewrite Ht, orb_true_r; reflexivity).
  destruct (rd_sound Hv fuel tag k bs x rest Ht' Hok Hs H) as (used & bs' & _ & _ & Hwf & Hw & _).
  exists bs'. split; [exact Hw|]. intros rest'. exact (roundtrip Hv fuel tag k x bs' Ht Hwf Hw rest').
Qed.

End Generic.

(* ---------------------------------------------------------------- C02 from the writer schemas alone
   Well-formedness of what `wr` emits needs neither the reader schemas nor the version to be a known one:
   only that every writer item and every table row carries a legal tag (env_wr_ok). *)
Section WriterOnly.
Variable E : env.
Variable v : Z.
Hypothesis HW : env_wr_ok E = true.

Lemma cls_wr_ok_of c k : find_cls E c = Some k -> forall it, In it (filter (active v) (c_wr k)) -> item_ok E it = true.
Proof.
  unfold find_cls. intros H it Hin. apply find_some in H as [Hk _].
  pose proof HW as HW'. unfold env_wr_ok in HW'. apply andb_prop in HW' as [H1 _].
  rewrite forallb_forall in H1. specialize (H1 _ Hk). rewrite forallb_forall in H1.
  apply filter_In in Hin as [Hin _]. apply H1. exact Hin.
Qed.

Lemma row_facts_w t tg k' : find_row E v t tg = Some k' -> tag_ok tg = true /\ is_tagged k' = false.
Proof.
  intros Hf. destruct (find_row_in _ _ _ _ _ Hf) as (r & Hin & <- & <-).
  pose proof HW as HW'. unfold env_wr_ok in HW'. apply andb_prop in HW' as [_ HE2].
  unfold find_table in Hin. destruct (find _ (e_tables E)) as [[n rows]|] eqn:Ef; [|destruct Hin].
  apply find_some in Ef as [Hint _]. rewrite forallb_forall in HE2. specialize (HE2 _ Hint). cbn in HE2.
  rewrite forallb_forall in HE2. specialize (HE2 _ Hin). unfold row_ok in HE2.
  apply andb_prop in HE2 as [HE2 _]. apply andb_prop in HE2 as [HE2 Hnt]. apply andb_prop in HE2 as [Ht Hm].
  apply negb_true_iff in Hnt. auto.
Qed.

Theorem wr_wf_w' : forall fuel tag k x bs, tag_ok' tag k = true -> wfv E v fuel k x = true ->
  wr E v fuel tag k x = Some bs -> wf_item bs.
Proof.
  induction fuel as [|f IH]; intros tag k x bs Ht Hwf Hw; [discriminate|].
  cbn [wr] in Hw. cbn [wfv] in Hwf.
  destruct k as [t|e|c|t]; destruct x as [p|fields|tg y]; try discriminate;
    try (unfold tag_ok' in Ht; cbn [is_tagged orb] in Ht).
  - destruct (ptype_eqb (ptype_of p) t && negb (ptype_eqb t PEnum)) eqn:Ep; [|discriminate].
    apply andb_prop in Ep as [Ept Hne]. apply ptype_eqb_eq in Ept. subst t. apply negb_true_iff in Hne.
    apply (enc_prim_wf (fun _ => false) tag p bs Ht); [|exact Hw].
    apply (enc_some_iff_wf (fun _ => false) tag p);
      [destruct p; try exact I; exact Hwf | destruct p; try exact I; cbn in Hne; discriminate | eauto].
  - destruct p as [| | |n| | | | |]; try discriminate.
    apply (enc_prim_wf (enum_mem E e) tag (VEnum n) bs Ht); [|exact Hw].
    apply (enc_some_iff_wf (enum_mem E e) tag (VEnum n)); [exact I|exact Hwf|eauto].
  - destruct (find_cls E c) as [k|] eqn:Ec; [|discriminate].
    pose proof (cls_wr_ok_of c k Ec) as Hio.
    destruct (v <? c_minver k) eqn:Emv; [discriminate|]. cbn [negb andb] in Hwf.
    destruct (forallb (post_ok v fields) (c_post_wr k)) eqn:Epo; [|discriminate]. cbn [negb andb] in Hwf, Hw.
    destruct (wr_items _ _ _ _) as [body|] eqn:Eb; [|discriminate].
    destruct (items_children E v (wr E v f) (wfv E v f) _ _ _ _ IH Hio Hwf Eb) as (children & -> & Hch).
    apply with_hdr_some in Hw as (h & Hh & ->). apply hdr_spec in Hh as [-> Hr].
    unfold tag_ok in Ht.
    pose proof (wf_structure tag children ltac:(change (256 ^ 3) with 16777216; lia) Hch) as Hs.
    unfold zlen in *. rewrite <- !app_assoc. apply Hs. unfold TWO32 in Hr. lia.
  - destruct (find_row E v t tg) as [k'|] eqn:Ef; [|discriminate].
    destruct (row_facts_w t tg k' Ef) as (Htg & Hnt). rewrite Hnt in *. cbn [negb andb] in Hwf.
    apply (IH tg k' y bs); [unfold tag_ok'; rewrite Htg, orb_true_r; reflexivity|exact Hwf|exact Hw].
Qed.

Theorem wr_wf_w : forall fuel tag k x bs, tag_ok tag = true -> wfv E v fuel k x = true ->
  wr E v fuel tag k x = Some bs -> wf_item bs.
Proof.
  intros fuel tag k x bs Ht. apply wr_wf_w'. unfold tag_ok'. rewrite Ht, orb_true_r. reflexivity.
Qed.
End WriterOnly.

Lemma env_ok_wr E : env_ok E = true -> env_wr_ok E = true.
Proof.
  unfold env_ok, env_wr_ok. intros H. apply andb_prop in H as [H1 H2]. rewrite H2, andb_true_r.
  rewrite forallb_forall in *. intros k Hk. specialize (H1 _ Hk). unfold cls_ok in H1.
  apply andb_prop in H1 as [H1 _]. apply andb_prop in H1 as [H1 _]. apply andb_prop in H1 as [H1 _].
  apply andb_prop in H1 as [H1 _]. apply andb_prop in H1 as [Hrw Hio].
  apply items_eqb_eq in Hrw. rewrite <- Hrw. exact Hio.
Qed.
