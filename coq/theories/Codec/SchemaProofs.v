(* Generic round-trip theorem for the schema interpreter (Schema.v):
   for every environment accepted by env_ok, every version, depth and value,
   rd (wr x ++ rest) = (x, rest). *)
From PK Require Import Base.Bytes Base.BytesProofs Base.Prim Base.PrimProofs Codec.Schema.
From Coq Require Import ZifyBool.
Open Scope Z_scope.

(* ---------------------------------------------------------------- small facts *)

Lemma ptype_eqb_eq a b : ptype_eqb a b = true <-> a = b.
Proof. unfold ptype_eqb. destruct a, b; cbn; split; intros H; try reflexivity; try discriminate. Qed.

Lemma mult_eqb_eq a b : mult_eqb a b = true -> a = b.
Proof. destruct a, b; cbn; intros H; try reflexivity; discriminate. Qed.

Lemma kind_eqb_eq a b : kind_eqb a b = true -> a = b.
Proof.
  destruct a, b; cbn; intros H; try discriminate.
  - apply ptype_eqb_eq in H. congruence.
  - apply String.eqb_eq in H. congruence.
  - apply String.eqb_eq in H. congruence.
Qed.

Lemma item_eqb_eq a b : item_eqb a b = true -> a = b.
Proof.
  unfold item_eqb. intros H.
  apply andb_prop in H as [H Hm]. apply andb_prop in H as [H Hhi]. apply andb_prop in H as [H Hlo].
  apply andb_prop in H as [Ht Hk].
  destruct a, b; cbn in *. apply kind_eqb_eq in Hk. apply mult_eqb_eq in Hm.
  f_equal; try lia; assumption.
Qed.

Lemma items_eqb_eq a : forall b, items_eqb a b = true -> a = b.
Proof.
  induction a as [|x a IH]; intros [|y b] H; cbn in H; try discriminate; [reflexivity|].
  apply andb_prop in H as [H1 H2]. apply item_eqb_eq in H1. apply IH in H2. congruence.
Qed.

Lemma nodupb_spec l : nodupb l = true -> NoDup l.
Proof.
  induction l as [|x l IH]; cbn; intros H; [constructor|].
  apply andb_prop in H as [H1 H2]. constructor; [|apply IH; exact H2].
  intros Hin. apply negb_true_iff in H1.
  assert (existsb (Z.eqb x) l = true) by (apply existsb_exists; exists x; split; [exact Hin|apply Z.eqb_refl]).
  congruence.
Qed.

Lemma opt_concat_cons_some o l bs :
  opt_concat (o :: l) = Some bs -> exists b r, o = Some b /\ opt_concat l = Some r /\ bs = b ++ r.
Proof.
  cbn. destruct o as [b|]; [|discriminate]. destruct (opt_concat l) as [r|]; [|discriminate].
  intros H; injection H as <-. eauto.
Qed.

(* ---------------------------------------------------------------- every encoding starts with its tag *)

Lemma is_tag_next_nil t : is_tag_next t [] = false.
Proof. reflexivity. Qed.

Lemma is_tag_next_tag t t' r : tag_ok t' = true -> is_tag_next t (be_enc 3 t' ++ r) = (t' =? t).
Proof.
  intros Ht. unfold is_tag_next.
  rewrite (take_exact_app' 3 (be_enc 3 t')) by (rewrite zlen_be_enc; reflexivity).
  rewrite be_dec_enc; [reflexivity|]. unfold tag_ok in Ht. rewrite p3. lia.
Qed.

Lemma with_hdr_starts tag ty len body bs :
  with_hdr tag ty len body = Some bs -> exists r, bs = be_enc 3 tag ++ r.
Proof.
  intros H. apply with_hdr_some in H as (h & Hh & ->). unfold hdr in Hh.
  destruct ((0 <=? len) && (len <? TWO32)); [|discriminate].
  assert (h = be_enc 3 tag ++ ([ty] ++ be_enc 4 len)) by congruence; subst h.
  rewrite <- app_assoc. eauto.
Qed.

Lemma enc_prim_starts tag p bs : enc_prim tag p = Some bs -> exists r, bs = be_enc 3 tag ++ r.
Proof.
  destruct p; cbn [enc_prim]; intros H;
    repeat match type of H with (if ?c then _ else _) = _ => destruct c; [|discriminate] end;
    eapply with_hdr_starts; exact H.
Qed.

Section Generic.
Variable E : env.
Variable v : Z.

Lemma wr_starts fuel tag k x bs : wr E v fuel tag k x = Some bs -> exists r, bs = be_enc 3 tag ++ r.
Proof.
  destruct fuel as [|f]; [discriminate|]. cbn [wr].
  destruct k as [t|e|c]; destruct x as [p|fields]; try discriminate.
  - destruct (ptype_eqb (ptype_of p) t && negb (ptype_eqb t PEnum)); [|discriminate]. apply enc_prim_starts.
  - destruct p; try discriminate. apply enc_prim_starts.
  - destruct (find_cls E c) as [k|]; [|discriminate].
    destruct (negb (Nat.eqb _ _)); [discriminate|].
    destruct (opt_concat _) as [body|]; [|discriminate]. apply with_hdr_starts.
Qed.

Lemma wr_nonempty fuel tag k x bs : wr E v fuel tag k x = Some bs -> (1 <= List.length bs)%nat.
Proof.
  intros H. apply wr_starts in H as [r ->]. rewrite app_length, be_enc_length. lia.
Qed.

(* the concatenated encodings of one field's occurrences *)
Lemma field_starts (wrf : Z -> kind -> value -> option bytes) tag k xs bs :
  (forall x b, wrf tag k x = Some b -> exists r, b = be_enc 3 tag ++ r) ->
  opt_concat (map (wrf tag k) xs) = Some bs -> bs = [] \/ exists r, bs = be_enc 3 tag ++ r.
Proof.
  intros Hs. destruct xs as [|x xs]; cbn [map]; intros H.
  - cbn in H. injection H as <-. left; reflexivity.
  - apply opt_concat_cons_some in H as (b & r & Hb & _ & ->).
    apply Hs in Hb as [r' ->]. right. rewrite <- app_assoc. eauto.
Qed.

(* the concatenated encodings of a list of items start with the tag of one of them, or are empty *)
Lemma items_start (wrf : Z -> kind -> value -> option bytes) items : forall fields body,
  (forall tag k x b, wrf tag k x = Some b -> exists r, b = be_enc 3 tag ++ r) ->
  opt_concat (map (enc_field wrf) (combine items fields)) = Some body ->
  body = [] \/ exists it r, In it items /\ body = be_enc 3 (i_tag it) ++ r.
Proof.
  induction items as [|it items IH]; intros fields body Hs H.
  - cbn in H. injection H as <-. left; reflexivity.
  - destruct fields as [|fs fields]; [cbn in H; injection H as <-; left; reflexivity|].
    cbn [combine map] in H. apply opt_concat_cons_some in H as (b & r & Hb & Hr & ->).
    unfold enc_field in Hb. cbn [fst snd] in Hb.
    destruct (mult_ok (i_mult it) (List.length fs)); [|discriminate].
    apply (field_starts wrf) in Hb; [|intros; eapply Hs; eassumption].
    destruct Hb as [->|[r' ->]].
    + cbn [app]. destruct (IH fields r Hs Hr) as [->|(it' & r' & Hin & ->)]; [left; reflexivity|].
      right. exists it', r'. split; [right; exact Hin|reflexivity].
    + right. exists it, (r' ++ r). split; [left; reflexivity|rewrite app_assoc; reflexivity].
Qed.

(* ---------------------------------------------------------------- reading back one field *)

Section Field.
Variable wrf : Z -> kind -> value -> option bytes.
Variable rdf : Z -> kind -> bytes -> option (value * bytes).
Hypothesis wrf_starts : forall tag k x b, wrf tag k x = Some b -> exists r, b = be_enc 3 tag ++ r.

Lemma rd_many_wr tag k xs : forall bs after lfuel,
  tag_ok tag = true ->
  (forall x b r, In x xs -> wrf tag k x = Some b -> rdf tag k (b ++ r) = Some (x, r)) ->
  opt_concat (map (wrf tag k) xs) = Some bs ->
  is_tag_next tag after = false ->
  (List.length xs < lfuel)%nat ->
  rd_many (rdf tag k) tag lfuel (bs ++ after) = Some (xs, after).
Proof.
  induction xs as [|x xs IH]; intros bs after lfuel Ht Hrt Henc Hafter Hfuel.
  - cbn in Henc. injection Henc as <-. destruct lfuel as [|lf]; [cbn in Hfuel; lia|].
    cbn [rd_many app]. rewrite Hafter. reflexivity.
  - cbn [map] in Henc. apply opt_concat_cons_some in Henc as (b & r & Hb & Hr & ->).
    destruct lfuel as [|lf]; [cbn in Hfuel; lia|]. cbn [rd_many].
    destruct (wrf_starts _ _ _ _ Hb) as [r0 Hb0].
    rewrite <- app_assoc.
    assert (Hnext : is_tag_next tag (b ++ r ++ after) = true).
    { rewrite Hb0, <- app_assoc, is_tag_next_tag by exact Ht. apply Z.eqb_refl. }
    rewrite Hnext. rewrite (Hrt x b (r ++ after) (or_introl eq_refl) Hb).
    rewrite (IH r after lf Ht); [reflexivity| |exact Hr|exact Hafter|cbn in Hfuel; lia].
    intros x' b' r' Hin. apply Hrt. right; exact Hin.
Qed.

Lemma rd_field_wr it fs bs after :
  tag_ok (i_tag it) = true ->
  (forall x b r, In x fs -> wrf (i_tag it) (i_kind it) x = Some b -> rdf (i_tag it) (i_kind it) (b ++ r) = Some (x, r)) ->
  enc_field wrf (it, fs) = Some bs ->
  is_tag_next (i_tag it) after = false ->
  rd_field (rdf (i_tag it) (i_kind it)) it (bs ++ after) = Some (fs, after).
Proof.
  intros Ht Hrt Henc Hafter. unfold enc_field in Henc. cbn [fst snd] in Henc.
  destruct (mult_ok (i_mult it) (List.length fs)) eqn:Hm; [|discriminate].
  unfold rd_field. destruct (i_mult it) eqn:Em.
  - (* Req *)
    destruct fs as [|x [|y fs]]; cbn in Hm; try discriminate.
    cbn [map] in Henc. apply opt_concat_cons_some in Henc as (b & r & Hb & Hr & ->).
    cbn in Hr. injection Hr as <-. rewrite app_nil_r.
    destruct (wrf_starts _ _ _ _ Hb) as [r0 Hb0].
    assert (Hnext : is_tag_next (i_tag it) (b ++ after) = true).
    { rewrite Hb0, <- app_assoc, is_tag_next_tag by exact Ht. apply Z.eqb_refl. }
    rewrite Hnext, (Hrt x b after (or_introl eq_refl) Hb). reflexivity.
  - (* Opt *)
    destruct fs as [|x [|y fs]]; cbn in Hm; try discriminate.
    + cbn in Henc. injection Henc as <-. cbn [app]. rewrite Hafter. reflexivity.
    + cbn [map] in Henc. apply opt_concat_cons_some in Henc as (b & r & Hb & Hr & ->).
      cbn in Hr. injection Hr as <-. rewrite app_nil_r.
      destruct (wrf_starts _ _ _ _ Hb) as [r0 Hb0].
      assert (Hnext : is_tag_next (i_tag it) (b ++ after) = true).
      { rewrite Hb0, <- app_assoc, is_tag_next_tag by exact Ht. apply Z.eqb_refl. }
      rewrite Hnext, (Hrt x b after (or_introl eq_refl) Hb). reflexivity.
  - (* Many *)
    apply rd_many_wr; try assumption.
    (* fuel: one turn per element, each element occupies at least one byte *)
    assert (Hlen : forall xs bs0, opt_concat (map (wrf (i_tag it) (i_kind it)) xs) = Some bs0 ->
                                  (List.length xs <= List.length bs0)%nat).
    { induction xs as [|x xs IHx]; intros bs0 H0; [cbn; lia|].
      cbn [map] in H0. apply opt_concat_cons_some in H0 as (b & r & Hb & Hr & ->).
      destruct (wrf_starts _ _ _ _ Hb) as [r0 ->]. specialize (IHx r Hr).
      rewrite !app_length, be_enc_length. cbn [List.length]. lia. }
    specialize (Hlen fs bs Henc). rewrite app_length. lia.
Qed.

(* ---------------------------------------------------------------- reading back an item list *)

Lemma rd_items_wr items : forall fields body tail,
  NoDup (map i_tag items) ->
  (forall it, In it items -> tag_ok (i_tag it) = true) ->
  List.length items = List.length fields ->
  (forall it fs x b r, In (it, fs) (combine items fields) -> In x fs ->
      wrf (i_tag it) (i_kind it) x = Some b -> rdf (i_tag it) (i_kind it) (b ++ r) = Some (x, r)) ->
  opt_concat (map (enc_field wrf) (combine items fields)) = Some body ->
  (forall it, In it items -> is_tag_next (i_tag it) tail = false) ->
  rd_items rdf items (body ++ tail) = Some (fields, tail).
Proof.
  induction items as [|it items IH]; intros fields body tail Hnd Htags Hlen Hrt Henc Htail.
  - destruct fields; [|cbn in Hlen; lia]. cbn in Henc. injection Henc as <-. reflexivity.
  - destruct fields as [|fs fields]; [cbn in Hlen; lia|].
    cbn [combine map] in Henc. apply opt_concat_cons_some in Henc as (b & r & Hb & Hr & ->).
    cbn [rd_items]. rewrite <- app_assoc.
    inversion Hnd as [|? ? Hnotin Hnd']; subst.
    assert (Hafter : is_tag_next (i_tag it) (r ++ tail) = false).
    { destruct (items_start wrf items fields r wrf_starts Hr) as [->|(it' & r' & Hin & ->)].
      - cbn [app]. apply Htail. left; reflexivity.
      - rewrite <- app_assoc, is_tag_next_tag by (apply Htags; right; exact Hin).
        apply Z.eqb_neq. intros Heq. apply Hnotin. rewrite <- Heq. apply in_map. exact Hin. }
    rewrite (rd_field_wr it fs b (r ++ tail)); [| apply Htags; left; reflexivity | | exact Hb | exact Hafter].
    + rewrite (IH fields r tail Hnd'); [reflexivity| | | |exact Hr|].
      * intros it' Hin. apply Htags. right; exact Hin.
      * cbn in Hlen. lia.
      * intros it' fs' x b' r' Hin. apply Hrt. right; exact Hin.
      * intros it' Hin. apply Htail. right; exact Hin.
    + intros x b' r' Hin. apply (Hrt it fs). left; reflexivity. exact Hin.
Qed.

End Field.

(* ---------------------------------------------------------------- the theorem *)

Hypothesis HE : env_ok E = true.

Lemma cls_ok_of c k : find_cls E c = Some k -> cls_ok E k = true.
Proof.
  unfold find_cls. intros H. apply find_some in H as [Hin _].
  unfold env_ok in HE. rewrite forallb_forall in HE. apply HE. exact Hin.
Qed.

Lemma filter_active_in it items : In it (filter (active v) items) -> In it items.
Proof. intros H. apply filter_In in H. tauto. Qed.

Lemma NoDup_map_filter_versions k : In v VERSIONS -> cls_ok E k = true ->
  NoDup (map i_tag (filter (active v) (c_rd k))).
Proof.
  intros Hv Hk. unfold cls_ok in Hk. apply andb_prop in Hk as [_ Hk].
  rewrite forallb_forall in Hk. apply nodupb_spec. apply Hk. exact Hv.
Qed.

Theorem roundtrip : In v VERSIONS ->
  forall fuel tag k x bs, tag_ok tag = true -> wfv E v fuel k x = true ->
  wr E v fuel tag k x = Some bs -> forall rest, rd E v fuel tag k (bs ++ rest) = Some (x, rest).
Proof.
  intros Hv. induction fuel as [|f IH]; intros tag k x bs Ht Hwf Hw rest; [discriminate|].
  cbn [wr] in Hw. cbn [wfv] in Hwf. cbn [rd].
  destruct k as [t|e|c]; destruct x as [p|fields]; try discriminate.
  - (* primitive *)
    destruct (ptype_eqb (ptype_of p) t && negb (ptype_eqb t PEnum)) eqn:Ep; [|discriminate].
    apply andb_prop in Ep as [Ept Hne]. apply ptype_eqb_eq in Ept. subst t.
    apply negb_true_iff in Hne. rewrite Hne.
    assert (Hwfp : wf_prim (fun _ => false) p = true).
    { apply (enc_some_iff_wf (fun _ => false) tag p).
      - destruct p; try exact I. exact Hwf.
      - destruct p; try exact I. cbn in Hne. discriminate.
      - eauto. }
    destruct (prim_roundtrip (fun _ => false) tag p Ht Hwfp) as (bs' & Hb' & Hd).
    rewrite Hw in Hb'. injection Hb' as <-. rewrite Hd. reflexivity.
  - (* enumeration *)
    destruct p as [| | |n| | | | |]; try discriminate.
    assert (Hwfp : wf_prim (enum_mem E e) (VEnum n) = true).
    { apply (enc_some_iff_wf (enum_mem E e) tag (VEnum n)); [exact I|exact Hwf|eauto]. }
    destruct (prim_roundtrip (enum_mem E e) tag (VEnum n) Ht Hwfp) as (bs' & Hb' & Hd).
    rewrite Hw in Hb'. injection Hb' as <-. cbn [ptype_of] in Hd. rewrite Hd. reflexivity.
  - (* structure *)
    destruct (find_cls E c) as [k|] eqn:Ec; [|discriminate].
    pose proof (cls_ok_of c k Ec) as Hk.
    assert (Hrw : c_rd k = c_wr k).
    { unfold cls_ok in Hk. apply andb_prop in Hk as [Hk _]. apply andb_prop in Hk as [Hk _].
      apply items_eqb_eq. exact Hk. }
    destruct (negb (Nat.eqb (List.length (filter (active v) (c_wr k))) (List.length fields))) eqn:El; [discriminate|].
    apply negb_false_iff, Nat.eqb_eq in El.
    destruct (opt_concat (map (enc_field (wr E v f)) (combine (filter (active v) (c_wr k)) fields))) as [body|] eqn:Eb;
      [|discriminate].
    apply with_hdr_some in Hw as (h & Hh & ->).
    rewrite <- app_assoc.
    rewrite (dec_hdr_hdr tag STRUCT_CODE (zlen body) h (body ++ rest) Ht ltac:(unfold STRUCT_CODE; lia) Hh).
    assert (Hn : Z.to_nat (Z.min (zlen body) (zlen (body ++ rest))) = List.length body).
    { rewrite zlen_app. pose proof (zlen_nonneg rest). unfold zlen in *. lia. }
    rewrite Hn. rewrite firstn_app, Nat.sub_diag, firstn_all. cbn [firstn]. rewrite app_nil_r.
    rewrite skipn_app, Nat.sub_diag, skipn_all. cbn [skipn app].
    rewrite Hrw.
    pose proof (rd_items_wr (wr E v f) (rd E v f) (fun tag k x b => wr_starts f tag k x b)
                  (filter (active v) (c_wr k)) fields body []) as Hitems.
    rewrite app_nil_r in Hitems. rewrite Hitems; clear Hitems.
    + rewrite andb_false_r. reflexivity.
    + rewrite <- Hrw. apply NoDup_map_filter_versions; assumption.
    + intros it Hin. apply filter_active_in in Hin. rewrite <- Hrw in Hin.
      unfold cls_ok in Hk. apply andb_prop in Hk as [Hk _]. apply andb_prop in Hk as [_ Hk].
      rewrite forallb_forall in Hk. specialize (Hk it Hin). apply andb_prop in Hk as [Hk _]. exact Hk.
    + exact El.
    + intros it fs x b r Hin Hx Hb. apply IH; [| |exact Hb].
      * apply in_combine_l in Hin. apply filter_active_in in Hin. rewrite <- Hrw in Hin.
        unfold cls_ok in Hk. apply andb_prop in Hk as [Hk _]. apply andb_prop in Hk as [_ Hk].
        rewrite forallb_forall in Hk. specialize (Hk it Hin). apply andb_prop in Hk as [Hk _]. exact Hk.
      * rewrite forallb_forall in Hwf. specialize (Hwf (it, fs) Hin). cbn [fst snd] in Hwf.
        rewrite forallb_forall in Hwf. apply Hwf. exact Hx.
    + exact Eb.
    + intros it _. apply is_tag_next_nil.
Qed.

(* re-encoding the decoded value reproduces the same bytes, and decode-encode-decode is stable:
   immediate from roundtrip because the decoded value IS the original one *)
Corollary reencode : In v VERSIONS ->
  forall fuel tag k x bs rest x' rest', tag_ok tag = true -> wfv E v fuel k x = true ->
  wr E v fuel tag k x = Some bs -> rd E v fuel tag k (bs ++ rest) = Some (x', rest') ->
  x' = x /\ rest' = rest /\ wr E v fuel tag k x' = Some bs.
Proof.
  intros Hv fuel tag k x bs rest x' rest' Ht Hwf Hw Hr.
  rewrite (roundtrip Hv fuel tag k x bs Ht Hwf Hw rest) in Hr. injection Hr as <- <-. auto.
Qed.

End Generic.

(* ---------------------------------------------------------------- C02: structure writers emit well-formed TTLV *)
From PK Require Import Base.WfSpec Base.SpecProofs.

Section WellFormed.
Variable E : env.
Variable v : Z.
Hypothesis HE : env_ok E = true.

Lemma field_children (wrf : Z -> kind -> value -> option bytes) tag k xs : forall bs,
  (forall x b, In x xs -> wrf tag k x = Some b -> wf_item b) ->
  opt_concat (map (wrf tag k) xs) = Some bs ->
  exists children, bs = List.concat children /\ Forall wf_item children.
Proof.
  induction xs as [|x xs IH]; intros bs Hwf H.
  - cbn in H. injection H as <-. exists []. split; [reflexivity|constructor].
  - cbn [map] in H. apply opt_concat_cons_some in H as (b & r & Hb & Hr & ->).
    destruct (IH r) as (ch & -> & Hch); [intros; eapply Hwf; [right|]; eassumption|exact Hr|].
    exists (b :: ch). split; [reflexivity|]. constructor; [|exact Hch].
    eapply Hwf; [left; reflexivity|exact Hb].
Qed.

Lemma items_children (wrf : Z -> kind -> value -> option bytes) items : forall fields body,
  (forall it fs x b, In (it, fs) (combine items fields) -> In x fs -> wrf (i_tag it) (i_kind it) x = Some b -> wf_item b) ->
  opt_concat (map (enc_field wrf) (combine items fields)) = Some body ->
  exists children, body = List.concat children /\ Forall wf_item children.
Proof.
  induction items as [|it items IH]; intros fields body Hwf H.
  - cbn in H. injection H as <-. exists []. split; [reflexivity|constructor].
  - destruct fields as [|fs fields]; [cbn in H; injection H as <-; exists []; split; [reflexivity|constructor]|].
    cbn [combine map] in H. apply opt_concat_cons_some in H as (b & r & Hb & Hr & ->).
    unfold enc_field in Hb. cbn [fst snd] in Hb.
    destruct (mult_ok (i_mult it) (List.length fs)); [|discriminate].
    destruct (field_children wrf (i_tag it) (i_kind it) fs b) as (c1 & -> & H1);
      [intros x b' Hx Hb'; eapply (Hwf it fs); [left; reflexivity|exact Hx|exact Hb']|exact Hb|].
    destruct (IH fields r) as (c2 & -> & H2); [intros it' fs' x b' Hin; apply Hwf; right; exact Hin|exact Hr|].
    exists (c1 ++ c2). split; [rewrite List.concat_app; reflexivity|]. apply Forall_app. split; assumption.
Qed.

Theorem wr_wf : forall fuel tag k x bs, tag_ok tag = true -> wfv E v fuel k x = true ->
  wr E v fuel tag k x = Some bs -> wf_item bs.
Proof.
  induction fuel as [|f IH]; intros tag k x bs Ht Hwf Hw; [discriminate|].
  cbn [wr] in Hw. cbn [wfv] in Hwf.
  destruct k as [t|e|c]; destruct x as [p|fields]; try discriminate.
  - destruct (ptype_eqb (ptype_of p) t && negb (ptype_eqb t PEnum)) eqn:Ep; [|discriminate].
    apply andb_prop in Ep as [Ept Hne]. apply ptype_eqb_eq in Ept. subst t. apply negb_true_iff in Hne.
    apply (enc_prim_wf (fun _ => false) tag p bs Ht); [|exact Hw].
    apply (enc_some_iff_wf (fun _ => false) tag p); [destruct p; try exact I; exact Hwf | destruct p; try exact I; cbn in Hne; discriminate | eauto].
  - destruct p as [| | |n| | | | |]; try discriminate.
    apply (enc_prim_wf (enum_mem E e) tag (VEnum n) bs Ht); [|exact Hw].
    apply (enc_some_iff_wf (enum_mem E e) tag (VEnum n)); [exact I|exact Hwf|eauto].
  - destruct (find_cls E c) as [k|] eqn:Ec; [|discriminate].
    destruct (negb (Nat.eqb _ _)); [discriminate|].
    destruct (opt_concat _) as [body|] eqn:Eb; [|discriminate].
    destruct (items_children (wr E v f) (filter (active v) (c_wr k)) fields body) as (children & -> & Hch); [|exact Eb|].
    + intros it fs x b Hin Hx Hb.
      rewrite forallb_forall in Hwf. specialize (Hwf (it, fs) Hin). cbn [fst snd] in Hwf.
      rewrite forallb_forall in Hwf.
      assert (Hti : tag_ok (i_tag it) = true).
      { pose proof (cls_ok_of E HE c k Ec) as Hk. unfold cls_ok in Hk.
        apply andb_prop in Hk as [Hk _]. apply andb_prop in Hk as [Hrw Hk].
        apply items_eqb_eq in Hrw. rewrite forallb_forall in Hk.
        apply in_combine_l, filter_In in Hin. destruct Hin as [Hin _]. rewrite <- Hrw in Hin.
        specialize (Hk it Hin). apply andb_prop in Hk as [Hk _]. exact Hk. }
      eapply IH; [exact Hti|apply Hwf; exact Hx|exact Hb].
    + apply with_hdr_some in Hw as (h & Hh & ->). apply hdr_spec in Hh as [-> Hr].
      unfold tag_ok in Ht.
      pose proof (wf_structure tag children ltac:(change (256 ^ 3) with 16777216; lia) Hch) as Hs.
      unfold zlen in *. rewrite <- !app_assoc. apply Hs. unfold TWO32 in Hr. lia.
Qed.
End WellFormed.

(* ---------------------------------------------------------------- decode-encode-decode for any accepted byte string *)

Section Sound.
Variable E : env.
Variable v : Z.
Hypothesis HE : env_ok E = true.

Definition SoundAt (rdf : Z -> kind -> bytes -> option (value * bytes))
                   (wrf : Z -> kind -> value -> option bytes) (wff : kind -> value -> bool) : Prop :=
  forall tag k bs x rest, tag_ok tag = true -> bytes_ok bs = true -> zlen bs < TWO31 ->
    rdf tag k bs = Some (x, rest) ->
    exists used bs', bs = used ++ rest /\ 8 <= zlen used /\ wff k x = true /\
                     wrf tag k x = Some bs' /\ zlen bs' <= 2 * zlen used.

Section Items.
Variable rdf : Z -> kind -> bytes -> option (value * bytes).
Variable wrf : Z -> kind -> value -> option bytes.
Variable wff : kind -> value -> bool.
Hypothesis Hsound : SoundAt rdf wrf wff.

Lemma rd_many_sound tag k : tag_ok tag = true -> forall lfuel bs xs rest,
  bytes_ok bs = true -> zlen bs < TWO31 ->
  rd_many (rdf tag k) tag lfuel bs = Some (xs, rest) ->
  exists used bs', bs = used ++ rest /\ forallb (wff k) xs = true /\
                   opt_concat (map (wrf tag k) xs) = Some bs' /\ zlen bs' <= 2 * zlen used.
Proof.
  intros Ht. induction lfuel as [|lf IH]; intros bs xs rest Hok Hs H; [discriminate|].
  cbn [rd_many] in H. destruct (is_tag_next tag bs).
  - destruct (rdf tag k bs) as [[x r]|] eqn:E1; [|discriminate].
    destruct (rd_many (rdf tag k) tag lf r) as [[xs' r']|] eqn:E2; [|discriminate].
    injection H as <- <-.
    destruct (Hsound tag k bs x r Ht Hok Hs E1) as (u1 & b1 & -> & Hu1 & Hw1 & Hb1 & Hl1).
    apply bytes_ok_app in Hok as [_ Hokr]. rewrite zlen_app in Hs. pose proof (zlen_nonneg u1).
    destruct (IH r xs' r' Hokr ltac:(lia) E2) as (u2 & b2 & -> & Hw2 & Hb2 & Hl2).
    exists (u1 ++ u2), (b1 ++ b2). rewrite <- app_assoc. split; [reflexivity|].
    split; [cbn; rewrite Hw1, Hw2; reflexivity|]. split; [cbn [map opt_concat]; rewrite Hb1, Hb2; reflexivity|].
    rewrite !zlen_app. lia.
  - injection H as <- <-. exists [], []. cbn. repeat split; try reflexivity; try (unfold zlen; cbn; lia).
Qed.

Lemma rd_field_sound it bs fs rest : tag_ok (i_tag it) = true ->
  bytes_ok bs = true -> zlen bs < TWO31 ->
  rd_field (rdf (i_tag it) (i_kind it)) it bs = Some (fs, rest) ->
  exists used bs', bs = used ++ rest /\ forallb (wff (i_kind it)) fs = true /\
                   enc_field wrf (it, fs) = Some bs' /\ zlen bs' <= 2 * zlen used.
Proof.
  intros Ht Hok Hs H. unfold rd_field in H. unfold enc_field. cbn [fst snd].
  destruct (i_mult it) eqn:Em.
  - destruct (is_tag_next (i_tag it) bs); [|discriminate].
    destruct (rdf (i_tag it) (i_kind it) bs) as [[x r]|] eqn:E1; [|discriminate]. injection H as <- <-.
    destruct (Hsound _ _ bs x r Ht Hok Hs E1) as (u1 & b1 & -> & Hu1 & Hw1 & Hb1 & Hl1).
    exists u1, b1. cbn. rewrite Hw1, Hb1, app_nil_r. repeat split; try reflexivity; assumption.
  - destruct (is_tag_next (i_tag it) bs).
    + destruct (rdf (i_tag it) (i_kind it) bs) as [[x r]|] eqn:E1; [|discriminate]. injection H as <- <-.
      destruct (Hsound _ _ bs x r Ht Hok Hs E1) as (u1 & b1 & -> & Hu1 & Hw1 & Hb1 & Hl1).
      exists u1, b1. cbn. rewrite Hw1, Hb1, app_nil_r. repeat split; try reflexivity; assumption.
    + injection H as <- <-. exists [], []. cbn. repeat split; try reflexivity; try (unfold zlen; cbn; lia).
  - cbn [mult_ok]. apply (rd_many_sound (i_tag it) (i_kind it) Ht _ bs fs rest Hok Hs H).
Qed.

Lemma rd_items_sound items : (forall it, In it items -> tag_ok (i_tag it) = true) ->
  forall bs fields rest, bytes_ok bs = true -> zlen bs < TWO31 ->
  rd_items rdf items bs = Some (fields, rest) ->
  exists used body, bs = used ++ rest /\ List.length items = List.length fields /\
     forallb (fun p => forallb (wff (i_kind (fst p))) (snd p)) (combine items fields) = true /\
     opt_concat (map (enc_field wrf) (combine items fields)) = Some body /\ zlen body <= 2 * zlen used.
Proof.
  induction items as [|it items IH]; intros Htags bs fields rest Hok Hs H.
  - cbn in H. injection H as <- <-. exists [], []. cbn. repeat split; try reflexivity; try (unfold zlen; cbn; lia).
  - cbn [rd_items] in H.
    destruct (rd_field (rdf (i_tag it) (i_kind it)) it bs) as [[f r]|] eqn:E1; [|discriminate].
    destruct (rd_items rdf items r) as [[fs r']|] eqn:E2; [|discriminate]. injection H as <- <-.
    destruct (rd_field_sound it bs f r (Htags it (or_introl eq_refl)) Hok Hs E1) as (u1 & b1 & -> & Hw1 & Hb1 & Hl1).
    apply bytes_ok_app in Hok as [_ Hokr]. rewrite zlen_app in Hs. pose proof (zlen_nonneg u1).
    destruct (IH (fun it' Hin => Htags it' (or_intror Hin)) r fs r' Hokr ltac:(lia) E2)
      as (u2 & b2 & -> & Hlen & Hw2 & Hb2 & Hl2).
    exists (u1 ++ u2), (b1 ++ b2). rewrite <- app_assoc. split; [reflexivity|].
    split; [cbn; lia|]. split; [cbn [combine forallb fst snd]; rewrite Hw1, Hw2; reflexivity|].
    split; [cbn [combine map opt_concat]; rewrite Hb1, Hb2; reflexivity|]. rewrite !zlen_app. lia.
Qed.
End Items.

Theorem rd_sound : In v VERSIONS -> forall fuel, SoundAt (rd E v fuel) (wr E v fuel) (wfv E v fuel).
Proof.
  intros Hv. induction fuel as [|f IH]; intros tag k bs x rest Ht Hok Hs H; [discriminate|].
  cbn [rd] in H. cbn [wr wfv].
  destruct k as [t|e|c].
  - destruct (ptype_eqb t PEnum) eqn:Ene; [discriminate|].
    destruct (dec_prim (fun _ => false) t tag bs) as [[p r]|] eqn:Ed; [|discriminate]. injection H as <- <-. cbn [wr wfv].
    destruct (dec_sound (fun _ => false) t tag bs p r Ht Hok Hs Ed) as (used & bs' & -> & Hu & Henc & Hl & Hwf & Hty).
    exists used, bs'. split; [reflexivity|]. split; [exact Hu|]. subst t.
    split.
    + destruct p; try reflexivity. cbn [wf_prim] in Hwf. apply andb_prop in Hwf as [Hb _]. exact Hb.
    + replace (ptype_eqb (ptype_of p) (ptype_of p)) with true by (symmetry; apply ptype_eqb_eq; reflexivity).
      cbn [andb negb]. split; [exact Henc|lia].
  - destruct (dec_prim (enum_mem E e) PEnum tag bs) as [[p r]|] eqn:Ed; [|discriminate]. injection H as <- <-. cbn [wr wfv].
    destruct (dec_sound (enum_mem E e) PEnum tag bs p r Ht Hok Hs Ed) as (used & bs' & -> & Hu & Henc & Hl & Hwf & Hty).
    exists used, bs'. split; [reflexivity|]. split; [exact Hu|].
    destruct p; try discriminate. cbn [wf_prim] in Hwf. apply andb_prop in Hwf as [_ Hm].
    split; [exact Hm|]. split; [exact Henc|lia].
  - destruct (find_cls E c) as [k|] eqn:Ec; [|discriminate].
    pose proof (cls_ok_of E HE c k Ec) as Hk.
    assert (Hrw : c_rd k = c_wr k).
    { unfold cls_ok in Hk. apply andb_prop in Hk as [Hk _]. apply andb_prop in Hk as [Hk _].
      apply items_eqb_eq. exact Hk. }
    destruct (dec_hdr tag STRUCT_CODE bs) as [[len r]|] eqn:Eh; [|discriminate].
    destruct (dec_hdr_spec _ _ _ _ _ Eh Hok) as (h & -> & Lh & Hlen & Hr).
    set (n := Z.to_nat (Z.min len (zlen r))) in *.
    destruct (rd_items (rd E v f) (filter (active v) (c_rd k)) (firstn n r)) as [[fields leftover]|] eqn:Ei; [|discriminate].
    destruct (c_oversize_check k && negb (Nat.eqb (List.length leftover) 0)); [discriminate|]. injection H as <- <-. cbn [wr wfv].
    assert (Hsplit : r = firstn n r ++ skipn n r) by (symmetry; apply firstn_skipn).
    assert (Hoksub : bytes_ok (firstn n r) = true) by (rewrite Hsplit in Hr; apply bytes_ok_app in Hr; tauto).
    rewrite zlen_app in Hs.
    assert (Hsub_le : zlen (firstn n r) <= zlen r).
    { rewrite Hsplit at 2. rewrite zlen_app. pose proof (zlen_nonneg (skipn n r)). lia. }
    pose proof (zlen_nonneg r).
    destruct (rd_items_sound (rd E v f) (wr E v f) (wfv E v f) IH (filter (active v) (c_rd k))) with
        (bs := firstn n r) (fields := fields) (rest := leftover)
      as (usedsub & body & Hsubeq & Hlenf & Hwff & Hbody & Hlb); try assumption; [| lia |].
    { intros it Hin. apply filter_In in Hin as [Hin _].
      unfold cls_ok in Hk. apply andb_prop in Hk as [Hk _]. apply andb_prop in Hk as [_ Hk].
      rewrite forallb_forall in Hk. specialize (Hk it Hin). apply andb_prop in Hk as [Hk _]. exact Hk. }
    assert (Hus : zlen usedsub <= zlen (firstn n r)).
    { rewrite Hsubeq, zlen_app. pose proof (zlen_nonneg leftover). lia. }
    rewrite Hrw in *.
    exists (h ++ firstn n r).
    assert (Hhdr : exists hb, hdr tag STRUCT_CODE (zlen body) = Some hb).
    { apply hdr_total. pose proof (zlen_nonneg body). unfold TWO31, TWO32 in *. lia. }
    destruct Hhdr as [hb Hhb].
    exists (hb ++ body). split; [rewrite <- app_assoc; f_equal; exact Hsplit|].
    split; [rewrite zlen_app; pose proof (zlen_nonneg (firstn n r)); lia|].
    split; [exact Hwff|].
    rewrite <- Hlenf, Nat.eqb_refl. cbn [negb]. rewrite Hbody. unfold with_hdr. rewrite Hhb.
    split; [reflexivity|].
    assert (zlen hb = 8).
    { unfold hdr in Hhb. destruct ((0 <=? zlen body) && (zlen body <? TWO32)); [|discriminate].
      assert (hb = be_enc 3 tag ++ [STRUCT_CODE] ++ be_enc 4 (zlen body)) by congruence. subst hb.
      rewrite !zlen_app, !zlen_be_enc. unfold zlen. cbn. lia. }
    rewrite !zlen_app. lia.
Qed.

(* the statement the property asks for: for any byte string the decoder accepts,
   decode - encode - decode gives the same value as the first decode *)
Theorem dec_enc_dec_struct : In v VERSIONS ->
  forall fuel tag k bs x rest, tag_ok tag = true -> bytes_ok bs = true -> zlen bs < TWO31 ->
  rd E v fuel tag k bs = Some (x, rest) ->
  exists bs', wr E v fuel tag k x = Some bs' /\
              forall rest', rd E v fuel tag k (bs' ++ rest') = Some (x, rest').
Proof.
  intros Hv fuel tag k bs x rest Ht Hok Hs H.
  destruct (rd_sound Hv fuel tag k bs x rest Ht Hok Hs H) as (used & bs' & _ & _ & Hwf & Hw & _).
  exists bs'. split; [exact Hw|]. intros rest'. exact (roundtrip E v HE Hv fuel tag k x bs' Ht Hwf Hw rest').
Qed.
End Sound.
