(* C20 - messages and log records as fragment lists (DESIGN 5.7).

   Two layers:

   * [sclass] is what the translator (translate/gen_logsites.py) can say about one
     piece of a logging call / raise / result-message expression by looking at its
     syntax.  It HAS constructors for "this is, or may be, secret" ([SSecret],
     [SUnknown]) because the table must be able to *represent* a bad site so that
     the obligation [logsites_safe] fails instead of the translator.

   * [frag] is the message model: what a result message or an INFO+ log record is
     made of.  It has NO constructor that can carry object values, key material,
     credentials, plaintext or message encodings.  [to_frag] is partial: it is
     undefined exactly on [SSecret] / [SUnknown].

   Definitions only (executable, total); proofs are in FragProofs.v. *)
From Coq Require Import ZArith List Bool String Ascii.
Import ListNotations.
Open Scope string_scope.
Open Scope Z_scope.

(* ------------------------------------------------------------------ site table types *)
Inductive level := LDebug | LInfo | LWarning | LError | LException | LCritical.

Inductive kind :=
| KLog (l : level)          (* <logger>.<level>(...)                                       *)
| KRaise (pk : bool)        (* raise C(...);  pk = C is an exception class defined by PyKMIP *)
| KResultMsg                (* a result message handed to the client (engine/session)       *)
| KPrint                    (* print / warnings.warn / traceback.print_* / sys.std*.write   *)
| KDead.                    (* a site inside a debug helper that nothing in the package references
                               (the translator re-checks "unreferenced" on every run)        *)

Inductive sclass :=
| SLit (s : string)         (* literal text                                                  *)
| STemplate                 (* a format-string constant defined elsewhere (ErrorStrings.X)   *)
| SUid                      (* unique identifier of a managed object                         *)
| SOpName                   (* operation name                                                *)
| STypeName                 (* object type / Python type / class name                        *)
| SEnumName                 (* enumeration member (name or value object)                     *)
| SAttrName                 (* attribute name                                                *)
| SNum                      (* len(...), sizes, indices, counts, integer fields              *)
| STime                     (* time stamp                                                    *)
| SVersion                  (* protocol version                                              *)
| SClientText               (* client/operator supplied non-secret text: policy, group,
                               session, user, host, file names, attribute values             *)
| SServerMsg                (* client side: the result message received from the server      *)
| SExc (classes : list string)  (* str(e) of the exception caught by the enclosing handler   *)
| SWire                     (* decoder diagnostics: a tag / type / length / padding / Boolean field
                               (at most 8 bytes) read from the request being decoded, echoed as a
                               number.  Known finding C20-decoder-field-echo: these bytes are request
                               content and can be key bytes of a malformed request.               *)
| SSecret (e : string)      (* syntactically recognised secret-bearing expression            *)
| SUnknown (e : string).    (* anything the whitelist does not recognise                     *)

Record site := mkSite {
  s_file : string; s_line : Z; s_end : Z; s_func : string;
  s_kind : kind; s_cls : string; s_parts : list sclass }.

(* ------------------------------------------------------------------ the message model *)
Inductive argclass :=
| AUid | AOpName | ATypeName | AEnumName | AAttrName | ANum | ATime | AVersion
| AClientText | AServerMsg
| AWire           (* <= 8 bytes of the undecodable request, as a decimal / hex number (known finding) *)
| AExcPk          (* text of an exception raised by PyKMIP code: itself a rendering of a raise site *)
| AExcForeign.    (* text of an exception that third-party code may have built: NOT modelled        *)

Inductive frag := FLit (s : string) | FTemplate | FArg (c : argclass).

Definition mem (x : string) (l : list string) : bool := existsb (String.eqb x) l.

(* pk : names of the exception classes defined by the PyKMIP package (generated).
   aw : allow the decoder's wire-field echo (true = the code as it is; false = the full-strength claim). *)
Definition to_frag (aw : bool) (pk : list string) (p : sclass) : option frag :=
  match p with
  | SLit s => Some (FLit s)
  | STemplate => Some FTemplate
  | SUid => Some (FArg AUid)
  | SOpName => Some (FArg AOpName)
  | STypeName => Some (FArg ATypeName)
  | SEnumName => Some (FArg AEnumName)
  | SAttrName => Some (FArg AAttrName)
  | SNum => Some (FArg ANum)
  | STime => Some (FArg ATime)
  | SVersion => Some (FArg AVersion)
  | SClientText => Some (FArg AClientText)
  | SServerMsg => Some (FArg AServerMsg)
  | SExc cls => Some (FArg (if (negb (match cls with [] => true | _ => false end)) && forallb (fun c => mem c pk) cls
                           then AExcPk else AExcForeign))
  | SWire => if aw then Some (FArg AWire) else None
  | SSecret _ => None
  | SUnknown _ => None
  end.

Fixpoint to_frags (aw : bool) (pk : list string) (ps : list sclass) : option (list frag) :=
  match ps with
  | [] => Some []
  | p :: r => match to_frag aw pk p, to_frags aw pk r with
              | Some f, Some fs => Some (f :: fs)
              | _, _ => None
              end
  end.

Definition has_wire (s : site) : bool := existsb (fun p => match p with SWire => true | _ => false end) (s_parts s).

(* numeric value of a level (Python logging) and "a record of this level is written when the logger's
   effective level is [threshold]" *)
Definition level_value (l : level) : Z :=
  match l with LDebug => 10 | LInfo => 20 | LWarning => 30 | LError => 40 | LException => 40 | LCritical => 50 end.
Definition written_at (threshold : Z) (l : level) : bool := (threshold <=? level_value l).

(* [observable] is "written at threshold 20 (INFO)" for logging calls *)
Definition observable_at (threshold : Z) (k : kind) : bool :=
  match k with KLog l => written_at threshold l | KDead => false | _ => true end.

Definition is_foreign (f : frag) : bool := match f with FArg AExcForeign => true | _ => false end.

(* Does this site produce text that can reach a log at level >= INFO or a client? *)
Definition observable (k : kind) : bool :=
  match k with
  | KLog LDebug => false
  | KDead => false
  | _ => true     (* INFO+ records, every raise (its text can reach logger.exception / a result message),
                     result messages, prints *)
  end.

(* The obligation on one site. *)
Definition site_ok (aw : bool) (pk : list string) (s : site) : bool :=
  negb (observable (s_kind s)) ||
  match to_frags aw pk (s_parts s) with Some _ => true | None => false end.

(* Strict: additionally no un-modelled (third-party) exception text. *)
Definition site_ok_strict (aw : bool) (pk : list string) (s : site) : bool :=
  negb (observable (s_kind s)) ||
  match to_frags aw pk (s_parts s) with Some fs => negb (existsb is_foreign fs) | None => false end.

(* The runtime remainder is pinned by (file, function): a new `logger.exception(e)` under a broad
   handler in another function breaks [remainder_pinned]. *)
Definition in_remainder (rem : list (string * string)) (s : site) : bool :=
  existsb (fun fr => String.eqb (fst fr) (s_file s) && String.eqb (snd fr) (s_func s)) rem.

(* ------------------------------------------------------------------ render *)
(* One argument string per non-literal fragment, in order.  A site with a template is not
   rendered by the model (the argument positions live inside the foreign constant). *)
Fixpoint render (fs : list frag) (args : list string) : option string :=
  match fs with
  | [] => match args with [] => Some "" | _ => None end
  | FLit s :: r => option_map (String.append s) (render r args)
  | FTemplate :: _ => None
  | FArg _ :: r => match args with
                   | a :: ar => option_map (String.append a) (render r ar)
                   | [] => None
                   end
  end.

(* The pieces a rendered text is the concatenation of. *)
Inductive piece := PLit (s : string) | PArg (c : argclass) (a : string).
Definition piece_text (p : piece) : string := match p with PLit s => s | PArg _ a => a end.

Fixpoint pieces (fs : list frag) (args : list string) : option (list piece) :=
  match fs with
  | [] => match args with [] => Some [] | _ => None end
  | FLit s :: r => option_map (cons (PLit s)) (pieces r args)
  | FTemplate :: _ => None
  | FArg c :: r => match args with
                   | a :: ar => option_map (cons (PArg c a)) (pieces r ar)
                   | [] => None
                   end
  end.

Fixpoint concat_str (l : list string) : string :=
  match l with [] => "" | s :: r => String.append s (concat_str r) end.

(* ------------------------------------------------------------------ argument languages *)
Definition chr_in (alphabet : string) (c : ascii) : bool :=
  existsb (Ascii.eqb c) (list_ascii_of_string alphabet).

Definition all_chars (alphabet : string) (s : string) : bool :=
  forallb (chr_in alphabet) (list_ascii_of_string s).

Definition digits := "0123456789".
Definition hexchars := "0123456789abcdefABCDEF".
Definition wordchars := "ABCDEFGHIJKLMNOPQRSTUVWXYZabcdefghijklmnopqrstuvwxyz0123456789_".

(* longest run of characters of [alphabet] *)
Fixpoint max_run_aux (alphabet : string) (l : list ascii) (cur best : nat) : nat :=
  match l with
  | [] => Nat.max cur best
  | c :: r => if chr_in alphabet c then max_run_aux alphabet r (S cur) best
              else max_run_aux alphabet r 0 (Nat.max cur best)
  end.
Definition max_run (alphabet : string) (s : string) : nat := max_run_aux alphabet (list_ascii_of_string s) 0 0.

(* Closed classes: short texts over a small alphabet, with no long run of hex digits (a 16-byte
   canary in hex is 32 hex digits; decimal lists and base64 do not fit the alphabets/lengths). *)
Definition closed_text (alphabet : string) (maxlen : nat) (a : string) : bool :=
  all_chars alphabet a && Nat.leb (String.length a) maxlen && Nat.ltb (max_run hexchars a) 24.

Definition arg_ok (c : argclass) (a : string) : bool :=
  match c with
  | ANum => closed_text "0123456789-+.eE xabcdefABCDEFLbytes" 40 a
  | ATime => closed_text "0123456789-: ." 40 a
  | AVersion => closed_text (String.append wordchars ". ()=,") 60 a
  | AOpName => closed_text (String.append wordchars " .") 80 a
  | AEnumName => closed_text (String.append wordchars " .<>:',()[]") 200 a
  | ATypeName => closed_text (String.append wordchars " .<>:',()[]") 200 a
  | AWire => closed_text "0123456789abcdefxL-" 22 a
  | AAttrName | AUid | AClientText | AServerMsg | AExcPk | AExcForeign => true
  end.

Definition closed_class (c : argclass) : bool :=
  match c with ANum | ATime | AVersion | AOpName | AEnumName | ATypeName | AWire => true | _ => false end.

Fixpoint args_ok (fs : list frag) (args : list string) : bool :=
  match fs with
  | [] => match args with [] => true | _ => false end
  | FLit _ :: r => args_ok r args
  | FTemplate :: _ => false
  | FArg c :: r => match args with a :: ar => arg_ok c a && args_ok r ar | [] => false end
  end.

(* ------------------------------------------------------------------ events of a run *)
(* An observed or predicted emission: "site number i of the table rendered with these arguments". *)
Record event := mkEvent { ev_site : nat; ev_args : list string }.

Definition dummy_site := mkSite "" 0 0 "" (KLog LDebug) "" [].

Definition event_text (pk : list string) (tbl : list site) (e : event) : option string :=
  match to_frags true pk (s_parts (nth (ev_site e) tbl dummy_site)) with
  | Some fs => render fs (ev_args e)
  | None => None
  end.

(* well-formed event: the site exists, is observable, converts to fragments, arguments are in their languages *)
Definition wf_event (pk : list string) (tbl : list site) (e : event) : bool :=
  Nat.ltb (ev_site e) (List.length tbl) &&
  let s := nth (ev_site e) tbl dummy_site in
  observable (s_kind s) &&
  match to_frags true pk (s_parts s) with
  | Some fs => args_ok fs (ev_args e)
  | None => false
  end.

(* ------------------------------------------------------------------ comparator for tie K *)
(* A case: (site index, file, line reported by the implementation (0 = unknown), arguments, observed text). *)
Record kcase := mkCase { c_site : nat; c_file : string; c_line : Z; c_args : list string; c_text : string }.

Definition check_case (pk : list string) (tbl : list site) (c : kcase) : bool :=
  let e := mkEvent (c_site c) (c_args c) in
  let s := nth (c_site c) tbl dummy_site in
  wf_event pk tbl e &&
  String.eqb (s_file s) (c_file c) &&
  ((c_line c =? 0) || ((s_line s <=? c_line c) && (c_line c <=? s_end s))) &&
  match event_text pk tbl e with Some t => String.eqb t (c_text c) | None => false end.
