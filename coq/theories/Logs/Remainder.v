(* C20 - the runtime remainder, pinned by hand.

   These are the only places (file, function; one entry per site, in source order) where text that
   the model cannot enumerate may reach an INFO+ log record or a result message: `str(e)` of an
   exception caught by a handler broader than the exception classes the PyKMIP package defines
   (`except Exception`, `except ValueError`, `except socket.error`).  Such an exception may have been
   built by third-party code (cryptography, SQLAlchemy, ssl, json, the Python runtime), whose message
   texts are outside the site table.  They are covered by the canary scan and the secret-swap run of
   harness/c20.py only (DESIGN 6/C20 "runtime remainder").

   props/C20.v proves that the list computed from the regenerated table is *exactly* this list, so a
   new `logger.exception(e)` under a broad handler anywhere in the package breaks the obligation. *)
From Coq Require Import List String.
Import ListNotations.
Open Scope string_scope.

Definition foreign_exc_remainder : list (string * string) := [
  ("kmip/core/policy.py", "read_policy_from_file");                           (* json error text inside a ValueError *)
  ("kmip/pie/client.py", "ProxyKmipClient.open");                             (* logger.error("could not open ...: %s", e) *)
  ("kmip/pie/client.py", "ProxyKmipClient.close");
  ("kmip/services/kmip_client.py", "KMIPProxy.open");                         (* connection error text *)
  ("kmip/services/server/crypto/engine.py", "CryptographyEngine.create_symmetric_key");
  ("kmip/services/server/crypto/engine.py", "CryptographyEngine.mac");
  ("kmip/services/server/crypto/engine.py", "CryptographyEngine._encrypt_symmetric");  (* logger.exception: invalid key bytes *)
  (* f8d262f / f56c8fe / 832c54a: the text of a `cryptography` exception is embedded in a result message (reaches
     the CLIENT) and its traceback is logged at ERROR.  Reviewed by experiment under canary keys / IVs / nonces /
     AAD / plaintext / ciphertext / tags / salts / derivation data (history engine-backend-refusals): the texts
     are literal statements about sizes and support ("Invalid IV size (7) for CBC.", "min_tag_length must be >= 4",
     "The length of the provided data is not a multiple of the block length.", "Invalid padding bytes.",
     "Authentication tag cannot be more than 16 bytes.", "cipher 3DES in GCM mode is not supported", InvalidTag
     (empty), "iterations must be greater than or equal to 1.", "Cannot derive keys larger than 8160 octets.",
     "Please specify an llen"); tracebacks show source lines, not values.  Not enumerable by the model. *)
  ("kmip/services/server/crypto/engine.py", "CryptographyEngine._encrypt_symmetric");  (* InvalidField: mode construction refused *)
  ("kmip/services/server/crypto/engine.py", "CryptographyEngine._encrypt_symmetric");  (* logger.exception: cipher operation *)
  ("kmip/services/server/crypto/engine.py", "CryptographyEngine._encrypt_symmetric");  (* CryptographicFailure: encryption failed *)
  (* 2eb33d4: the RSA operations got the same shape (backend texts "Encryption failed", "Decryption failed",
     "Ciphertext length must be equal to key size."; observed under canary keys / plaintext / ciphertext) *)
  ("kmip/services/server/crypto/engine.py", "CryptographyEngine._encrypt_asymmetric"); (* logger.exception: public_key.encrypt *)
  ("kmip/services/server/crypto/engine.py", "CryptographyEngine._encrypt_asymmetric"); (* CryptographicFailure: encryption failed *)
  ("kmip/services/server/crypto/engine.py", "CryptographyEngine._handle_symmetric_padding"); (* padding applied/removed *)
  ("kmip/services/server/crypto/engine.py", "CryptographyEngine._decrypt_symmetric");  (* logger.exception: invalid key bytes *)
  ("kmip/services/server/crypto/engine.py", "CryptographyEngine._decrypt_symmetric");  (* InvalidField: mode construction refused *)
  ("kmip/services/server/crypto/engine.py", "CryptographyEngine._decrypt_symmetric");  (* logger.exception: cipher operation *)
  ("kmip/services/server/crypto/engine.py", "CryptographyEngine._decrypt_symmetric");  (* CryptographicFailure: decryption failed *)
  ("kmip/services/server/crypto/engine.py", "CryptographyEngine._decrypt_asymmetric"); (* logger.exception: private_key.decrypt *)
  ("kmip/services/server/crypto/engine.py", "CryptographyEngine._decrypt_asymmetric"); (* CryptographicFailure: decryption failed *)
  ("kmip/services/server/crypto/engine.py", "CryptographyEngine._create_rsa_key_pair");
  ("kmip/services/server/crypto/engine.py", "CryptographyEngine.derive_key");          (* HKDF refused its parameters *)
  ("kmip/services/server/crypto/engine.py", "CryptographyEngine.derive_key");          (* PBKDF2 refused its parameters *)
  ("kmip/services/server/crypto/engine.py", "CryptographyEngine.derive_key");          (* KBKDF refused its parameters *)
  ("kmip/services/server/crypto/engine.py", "CryptographyEngine.wrap_key");   (* CryptographicFailure(str(e)): reaches the CLIENT *)
  ("kmip/services/server/crypto/engine.py", "CryptographyEngine.sign");        (* logger.exception: key.sign *)
  ("kmip/services/server/crypto/engine.py", "CryptographyEngine.sign");        (* CryptographicFailure: signing failed *)
  ("kmip/services/server/engine.py", "KmipEngine._process_batch");            (* every unexpected exception of an operation *)
  ("kmip/services/server/engine.py", "KmipEngine._process_delete_attribute"); (* except ValueError *)
  ("kmip/services/server/engine.py", "KmipEngine._process_register");
     (* InvalidField("The secret cannot be registered: {0}".format(e)), e : TypeError | ValueError raised under
        ObjectFactory.convert: reaches the CLIENT.  Reviewed: on the core->pie path the exception comes from
        kmip/pie/factory.py (literals, key format enums) or the kmip/pie/objects.py constructors/validate
        (literals, list positions, cryptographic_length, len(value)*8, valid format list) - all of them raise
        sites of the table that logsites_safe_partial covers, none formats the value - or from the Python
        runtime (attribute/len errors naming types).  No third-party library is called with the value there.
        Listed here because the handler classes are builtin (anything may raise them). *)
  ("kmip/services/server/server.py", "KmipServer.start");
  ("kmip/services/server/server.py", "KmipServer.stop");
  ("kmip/services/server/server.py", "KmipServer.stop");
  ("kmip/services/server/server.py", "KmipServer.stop");
  ("kmip/services/server/server.py", "KmipServer.serve");
  ("kmip/services/server/server.py", "KmipServer.serve");
  ("kmip/services/server/server.py", "KmipServer._setup_connection_handler");
  ("kmip/services/server/session.py", "KmipSession.run");
  ("kmip/services/server/session.py", "KmipSession.run");
  ("kmip/services/server/session.py", "KmipSession._handle_message_loop");    (* request decode failures *)
  ("kmip/services/server/session.py", "KmipSession._handle_message_loop");    (* unexpected error in process_request *)
  ("kmip/services/server/session.py", "KmipSession._handle_message_loop");    (* response could not be encoded *)
  ("kmip/services/server/session.py", "KmipSession.authenticate");
  ("kmip/services/server/session.py", "KmipSession.authenticate");
  ("kmip/services/server/session.py", "KmipSession.authenticate")
].

(* Known finding C20-decoder-field-echo: the TTLV decoder's diagnostics echo the tag / type / length /
   padding / Boolean field they could not accept (at most 8 bytes of the request, as a number).  For a
   malformed or mis-framed request these bytes are whatever the client sent at that position - possibly
   bytes of a key.  The text reaches the ERROR log through `logger.exception(e)` at session.py
   "Failure parsing request message" (never the client).  The sites, pinned (file, function), in order: *)
Definition wire_echo_sites : list (string * string) := [
  ("kmip/core/primitives.py", "Base.read_tag");
  ("kmip/core/primitives.py", "Base.read_type");
  ("kmip/core/primitives.py", "Integer.read_value");
  ("kmip/core/primitives.py", "Integer.read_value");
  ("kmip/core/primitives.py", "LongInteger.read");
  ("kmip/core/primitives.py", "BigInteger.read");
  ("kmip/core/primitives.py", "Boolean.read_value");
  ("kmip/core/primitives.py", "TextString.read_value");
  ("kmip/core/primitives.py", "ByteString.read_value")
].

(* Every place of the package that changes a logger's level, filters or routing, pinned.  The two INFO lines are
   the client-side guards ("DEBUG logging here may expose secrets, so log at INFO by default"); the server puts
   DEBUG on `kmip.server` while it starts and then the configured level (default INFO), unconditionally. *)
Definition setlevel_pinned : list (string * string * string) := [
  ("kmip/core/config_helper.py", "ConfigHelper.__init__", "setLevel(logging.INFO)");
  ("kmip/services/kmip_protocol.py", "KMIPProtocol.__init__", "setLevel(logging.INFO)");
  ("kmip/services/server/server.py", "KmipServer.__init__", "setLevel(self.config.settings.get('logging_level'))");
  ("kmip/services/server/server.py", "KmipServer._setup_logging", "setLevel(logging.DEBUG)")
].
