(* C20 - proofs about the fragment model (Frag.v).  Plain stdlib, closed under the global context. *)
From Coq Require Import ZArith List Bool String Ascii Lia.
From PK Require Import Logs.Frag.
Import ListNotations.
Open Scope string_scope.

(* ------------------------------------------------------------------ typing fact: no secret fragment *)
Definition is_secretish (aw : bool) (p : sclass) : bool :=
  match p with SSecret _ | SUnknown _ => true | SWire => negb aw | _ => false end.

Lemma to_frag_none_iff : forall aw pk p, to_frag aw pk p = None <-> is_secretish aw p = true.
Proof. intros aw pk p; destruct p; destruct aw; simpl; split; intro H; try discriminate; reflexivity. Qed.

Lemma to_frags_some_clean : forall aw pk ps fs,
  to_frags aw pk ps = Some fs -> existsb (is_secretish aw) ps = false /\ List.length fs = List.length ps.
Proof.
  intros aw pk ps; induction ps as [|p r IH]; intros fs H; simpl in *.
  - inversion H; auto.
  - destruct (to_frag aw pk p) eqn:Ep; [|discriminate].
    destruct (to_frags aw pk r) eqn:Er; [|discriminate].
    inversion H; subst; clear H.
    destruct (IH _ eq_refl) as [H1 H2].
    assert (is_secretish aw p = false).
    { destruct (is_secretish aw p) eqn:E; auto. apply to_frag_none_iff with (pk := pk) in E. congruence. }
    rewrite H, H1. simpl. auto.
Qed.

Lemma to_frags_secret_none : forall aw pk ps, existsb (is_secretish aw) ps = true -> to_frags aw pk ps = None.
Proof.
  intros aw pk ps H. destruct (to_frags aw pk ps) eqn:E; auto.
  apply to_frags_some_clean in E. destruct E; congruence.
Qed.

(* A fragment list never mentions a secret-bearing expression: there is nothing to prove - the type
   [frag] has no such constructor.  What is left is that conversion of a site succeeds. *)
Lemma site_ok_frags : forall aw pk tbl,
  forallb (site_ok aw pk) tbl = true ->
  forall s, In s tbl -> observable (s_kind s) = true -> exists fs, to_frags aw pk (s_parts s) = Some fs.
Proof.
  intros aw pk tbl H s Hin Hobs.
  rewrite forallb_forall in H. specialize (H s Hin). unfold site_ok in H.
  rewrite Hobs in H. simpl in H.
  destruct (to_frags aw pk (s_parts s)); [eauto|discriminate].
Qed.

Lemma site_ok_no_secret_part : forall aw pk tbl,
  forallb (site_ok aw pk) tbl = true ->
  forall s, In s tbl -> observable (s_kind s) = true -> existsb (is_secretish aw) (s_parts s) = false.
Proof.
  intros aw pk tbl H s Hin Hobs. destruct (site_ok_frags aw pk tbl H s Hin Hobs) as [fs Hfs].
  apply to_frags_some_clean in Hfs. tauto.
Qed.

(* ------------------------------------------------------------------ render = concatenation of pieces *)
Lemma render_pieces : forall fs args t,
  render fs args = Some t ->
  exists ps, pieces fs args = Some ps /\ t = concat_str (map piece_text ps).
Proof.
  induction fs as [|f r IH]; intros args t H; simpl in *.
  - destruct args; inversion H. exists []. auto.
  - destruct f as [s| |c].
    + destruct (render r args) eqn:E; simpl in H; inversion H; subst.
      destruct (IH _ _ E) as [ps [Hp Ht]]. exists (PLit s :: ps). rewrite Hp. simpl. subst. auto.
    + discriminate.
    + destruct args as [|a ar]; [discriminate|].
      destruct (render r ar) eqn:E; simpl in H; inversion H; subst.
      destruct (IH _ _ E) as [ps [Hp Ht]]. exists (PArg c a :: ps). rewrite Hp. simpl. subst. auto.
Qed.

Definition piece_ok (p : piece) : bool := match p with PLit _ => true | PArg c a => arg_ok c a end.

Definition piece_of (fs : list frag) (p : piece) : Prop :=
  match p with PLit s => In (FLit s) fs | PArg c _ => In (FArg c) fs end.

Lemma piece_of_cons : forall f fs p, piece_of fs p -> piece_of (f :: fs) p.
Proof. intros f fs p; destruct p; simpl; auto. Qed.

Lemma pieces_from : forall fs args ps, pieces fs args = Some ps -> Forall (piece_of fs) ps.
Proof.
  induction fs as [|f r IH]; intros args ps H; simpl in *.
  - destruct args; inversion H. constructor.
  - destruct f as [s| |c].
    + destruct (pieces r args) eqn:E; simpl in H; inversion H; subst.
      constructor; [simpl; auto|].
      eapply Forall_impl; [|eapply IH; eauto]. intros; apply piece_of_cons; auto.
    + discriminate.
    + destruct args as [|a ar]; [discriminate|].
      destruct (pieces r ar) eqn:E; simpl in H; inversion H; subst.
      constructor; [simpl; auto|].
      eapply Forall_impl; [|eapply IH; eauto]. intros; apply piece_of_cons; auto.
Qed.

Lemma pieces_ok : forall fs args ps,
  pieces fs args = Some ps -> args_ok fs args = true -> forallb piece_ok ps = true.
Proof.
  induction fs as [|f r IH]; intros args ps H Hok; simpl in *.
  - destruct args; inversion H. reflexivity.
  - destruct f as [s| |c].
    + destruct (pieces r args) eqn:E; simpl in H; inversion H; subst. simpl. eapply IH; eauto.
    + discriminate.
    + destruct args as [|a ar]; [discriminate|].
      destruct (pieces r ar) eqn:E; simpl in H; inversion H; subst.
      apply andb_true_iff in Hok. destruct Hok as [Ha Hr]. simpl. rewrite Ha. simpl. eapply IH; eauto.
Qed.

Lemma args_ok_render : forall fs args, args_ok fs args = true -> exists t, render fs args = Some t.
Proof.
  induction fs as [|f r IH]; intros args H; simpl in *.
  - destruct args; [eauto|discriminate].
  - destruct f as [s| |c].
    + destruct (IH _ H) as [t Ht]. rewrite Ht. simpl. eauto.
    + discriminate.
    + destruct args as [|a ar]; [discriminate|].
      apply andb_true_iff in H. destruct H as [_ Hr].
      destruct (IH _ Hr) as [t Ht]. rewrite Ht. simpl. eauto.
Qed.

(* ------------------------------------------------------------------ the statement "this text is secret free" *)
(* [t] is the concatenation of literal pieces of an observable site of the table and of arguments of
   non-secret classes (the only classes there are), each inside the language of its class. *)
Definition secret_free (pk : list string) (tbl : list site) (t : string) : Prop :=
  exists s fs ps,
    In s tbl /\ observable (s_kind s) = true /\ to_frags true pk (s_parts s) = Some fs /\
    existsb (is_secretish true) (s_parts s) = false /\
    Forall (piece_of fs) ps /\ forallb piece_ok ps = true /\
    t = concat_str (map piece_text ps).

Lemma nth_In_dummy : forall (tbl : list site) i, (i < List.length tbl)%nat -> In (nth i tbl dummy_site) tbl.
Proof. intros; apply nth_In; auto. Qed.

Theorem wf_event_secret_free : forall pk tbl e,
  wf_event pk tbl e = true -> exists t, event_text pk tbl e = Some t /\ secret_free pk tbl t.
Proof.
  intros pk tbl e H. unfold wf_event in H.
  apply andb_true_iff in H. destruct H as [Hlt H].
  apply andb_true_iff in H. destruct H as [Hobs H].
  apply Nat.ltb_lt in Hlt.
  unfold event_text.
  destruct (to_frags true pk (s_parts (nth (ev_site e) tbl dummy_site))) as [fs|] eqn:Efs; [|discriminate].
  destruct (args_ok_render _ _ H) as [t Ht]. exists t. split; [exact Ht|].
  destruct (render_pieces _ _ _ Ht) as [ps [Hps Hcat]].
  exists (nth (ev_site e) tbl dummy_site), fs, ps.
  split; [apply nth_In_dummy; auto|].
  split; [exact Hobs|].
  split; [exact Efs|].
  split; [apply to_frags_some_clean in Efs; tauto|].
  split; [eapply pieces_from; eauto|].
  split; [eapply pieces_ok; eauto|exact Hcat].
Qed.

(* All histories: a run of the model is the list of its emissions. *)
Theorem run_secret_free : forall pk tbl (h : list event),
  forallb (wf_event pk tbl) h = true ->
  Forall (fun e => exists t, event_text pk tbl e = Some t /\ secret_free pk tbl t) h.
Proof.
  intros pk tbl h; induction h as [|e r IH]; intro H; simpl in *.
  - constructor.
  - apply andb_true_iff in H. destruct H as [He Hr].
    constructor; [apply wf_event_secret_free; auto|auto].
Qed.

(* With the table obligation, well-formedness of an emission is only about its arguments. *)
Theorem table_safe_event_wf : forall pk tbl,
  forallb (site_ok true pk) tbl = true ->
  forall e, (ev_site e < List.length tbl)%nat ->
    observable (s_kind (nth (ev_site e) tbl dummy_site)) = true ->
    (forall fs, to_frags true pk (s_parts (nth (ev_site e) tbl dummy_site)) = Some fs -> args_ok fs (ev_args e) = true) ->
    wf_event pk tbl e = true.
Proof.
  intros pk tbl Htbl e Hlt Hobs Hargs. unfold wf_event.
  apply Nat.ltb_lt in Hlt. rewrite Hlt. simpl. rewrite Hobs. simpl.
  apply Nat.ltb_lt in Hlt.
  destruct (site_ok_frags true pk tbl Htbl _ (nth_In_dummy tbl _ Hlt) Hobs) as [fs Hfs].
  rewrite Hfs. apply Hargs. exact Hfs.
Qed.

(* The comparator of tie K accepts only secret-free texts. *)
Theorem check_case_sound : forall pk tbl c, check_case pk tbl c = true -> secret_free pk tbl (c_text c).
Proof.
  intros pk tbl c H. unfold check_case in H.
  apply andb_true_iff in H. destruct H as [H Htext].
  apply andb_true_iff in H. destruct H as [H _].
  apply andb_true_iff in H. destruct H as [Hwf _].
  destruct (wf_event_secret_free _ _ _ Hwf) as [t [Ht Hsf]].
  rewrite Ht in Htext. apply String.eqb_eq in Htext. subst. exact Hsf.
Qed.

(* ------------------------------------------------------------------ closed classes *)
Lemma closed_text_run : forall al n a, closed_text al n a = true -> (max_run hexchars a < 24)%nat.
Proof.
  intros al n a H. unfold closed_text in H.
  apply andb_true_iff in H. destruct H as [_ H]. apply Nat.ltb_lt in H. exact H.
Qed.

(* An argument of a closed class (numbers, times, versions, operation/enum/type names) never contains
   24 consecutive hexadecimal digits - so not the hex form of a secret of 12 bytes or more. *)
Theorem closed_arg_no_hex_run : forall c a,
  closed_class c = true -> arg_ok c a = true -> (max_run hexchars a < 24)%nat.
Proof.
  intros c a Hc H; destruct c; simpl in *; try discriminate; eapply closed_text_run; eauto.
Qed.

Theorem closed_arg_short : forall c a,
  closed_class c = true -> arg_ok c a = true -> (String.length a <= 200)%nat.
Proof.
  intros c a Hc H; destruct c; simpl in *; try discriminate; unfold closed_text in H;
    apply andb_true_iff in H; destruct H as [H _]; apply andb_true_iff in H; destruct H as [_ H];
    apply Nat.leb_le in H; lia.
Qed.

(* ------------------------------------------------------------------ the remainder *)
Definition remainder_of (pk : list string) (tbl : list site) : list (string * string) :=
  map (fun s => (s_file s, s_func s)) (filter (fun s => negb (site_ok_strict true pk s)) tbl).

Definition wire_sites_of (tbl : list site) : list (string * string) :=
  map (fun s => (s_file s, s_func s)) (filter (fun s => observable (s_kind s) && has_wire s) tbl).

Lemma strict_implies_ok : forall aw pk s, site_ok_strict aw pk s = true -> site_ok aw pk s = true.
Proof.
  intros aw pk s H. unfold site_ok_strict, site_ok in *.
  destruct (negb (observable (s_kind s))); simpl in *; auto.
  destruct (to_frags aw pk (s_parts s)); auto.
Qed.

(* without the wire echo the two claims coincide *)
Lemma to_frags_no_wire : forall pk ps,
  existsb (fun p => match p with SWire => true | _ => false end) ps = false -> to_frags false pk ps = to_frags true pk ps.
Proof.
  intros pk ps; induction ps as [|p r IH]; intro H; simpl in *; auto.
  apply orb_false_iff in H. destruct H as [Hp Hr]. rewrite (IH Hr).
  destruct p; simpl in *; try reflexivity. discriminate.
Qed.

Theorem no_wire_full_strength : forall pk s, has_wire s = false -> site_ok false pk s = site_ok true pk s.
Proof. intros pk s H. unfold site_ok. rewrite (to_frags_no_wire pk _ H). reflexivity. Qed.

(* Outside the remainder, every fragment of an observable site is of a modelled class. *)
Theorem outside_remainder_strict : forall pk tbl s,
  In s tbl -> ~ In (s_file s, s_func s) (remainder_of pk tbl) -> site_ok_strict true pk s = true.
Proof.
  intros pk tbl s Hin Hnot. destruct (site_ok_strict true pk s) eqn:E; auto.
  exfalso. apply Hnot. unfold remainder_of.
  apply in_map_iff. exists s. split; auto. apply filter_In. split; auto. rewrite E. reflexivity.
Qed.

(* ------------------------------------------------------------------ the default level *)
Lemma observable_is_info_threshold : forall k, observable k = observable_at 20 k.
Proof. intros k; destruct k as [l| | | |]; try reflexivity; destruct l; reflexivity. Qed.

(* a threshold at or above INFO writes nothing that the model calls unobservable *)
Lemma observable_at_mono : forall t k, (20 <= t)%Z -> observable_at t k = true -> observable k = true.
Proof.
  intros t k Ht H. rewrite observable_is_info_threshold.
  destruct k as [l| | | |]; simpl in *; auto.
  unfold written_at in *. apply Z.leb_le in H. apply Z.leb_le. lia.
Qed.

(* ... and a threshold below INFO does write debug records *)
Lemma below_info_writes_debug : forall t, (t <= 10)%Z -> observable_at t (KLog LDebug) = true.
Proof. intros t Ht. simpl. unfold written_at. apply Z.leb_le. simpl. lia. Qed.

(* ------------------------------------------------------------------ demo table for the examples *)
Definition demo_pk := ["KmipError"; "ItemNotFound"; "PermissionDenied"].
Definition demo_sites : list site := [
  mkSite "engine.py" 460 462 "KmipEngine._get_object_type" (KRaise true) "exceptions.ItemNotFound"
         [SLit "Could not locate object: "; SUid];
  mkSite "engine.py" 2007 2012 "KmipEngine._process_register" (KLog LInfo) "self._logger"
         [SLit "Registered a "; STypeName; SLit " with ID: "; SUid];
  mkSite "session.py" 356 358 "KmipSession._receive_bytes" (KLog LDebug) "self._logger"
         [SLit "Request encoding: "; SSecret "binascii.hexlify(message)"];
  mkSite "engine.py" 413 413 "KmipEngine._process_batch" (KLog LException) "self._logger" [SExc ["Exception"]];
  mkSite "engine.py" 408 408 "KmipEngine._process_batch" KResultMsg "result_message" [SExc ["KmipError"]]
].
Definition demo_bad : site :=
  mkSite "engine.py" 1 1 "f" (KLog LInfo) "self._logger" [SLit "key: "; SSecret "key_bytes"].

Definition demo_wire : site :=
  mkSite "primitives.py" 56 61 "Base.read_tag" (KRaise true) "exceptions.ReadValueError" [STypeName; SLit "tag"; SWire; SWire].
Example demo_wire_partial : site_ok true demo_pk demo_wire = true /\ site_ok false demo_pk demo_wire = false.
Proof. vm_compute. split; reflexivity. Qed.

Example demo_table_ok : forallb (site_ok false demo_pk) demo_sites = true.
Proof. vm_compute. reflexivity. Qed.
Example demo_bad_rejected : site_ok true demo_pk demo_bad = false.
Proof. vm_compute. reflexivity. Qed.
Example demo_promoted_debug_rejected :
  site_ok true demo_pk (mkSite "session.py" 356 358 "KmipSession._receive_bytes" (KLog LInfo) "self._logger"
                          [SLit "Request encoding: "; SSecret "binascii.hexlify(message)"]) = false.
Proof. vm_compute. reflexivity. Qed.
Example demo_remainder : remainder_of demo_pk demo_sites = [("engine.py", "KmipEngine._process_batch")].
Proof. vm_compute. reflexivity. Qed.
Example demo_event :
  wf_event demo_pk demo_sites (mkEvent 1 ["SymmetricKey"; "7"]) = true /\
  event_text demo_pk demo_sites (mkEvent 1 ["SymmetricKey"; "7"]) = Some "Registered a SymmetricKey with ID: 7".
Proof. vm_compute. split; reflexivity. Qed.
Example demo_hex_in_typename_rejected :
  wf_event demo_pk demo_sites (mkEvent 1 ["00112233445566778899aabbccddeeff"; "7"]) = false.
Proof. vm_compute. reflexivity. Qed.
Example demo_case :
  check_case demo_pk demo_sites (mkCase 0 "engine.py" 461 ["abc"] "Could not locate object: abc") = true.
Proof. vm_compute. reflexivity. Qed.
Example demo_case_wrong_text :
  check_case demo_pk demo_sites (mkCase 0 "engine.py" 461 ["abc"] "Could not locate object: abd") = false.
Proof. vm_compute. reflexivity. Qed.
