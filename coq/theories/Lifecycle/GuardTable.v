(* C04 - the guard skeleton of kmip/services/server/engine.py the lifecycle model was written against.
   One entry per event, in source order, in the format of translate/gen_lifecycle.py:
     lookup <uid expr> as <policy operation> | raise <exception class> | set <state assignment> | let <binding> |
     crypto <CryptographyEngine method> | delete | commit | return, each followed by the chain of enclosing
     conditions (innermost first; "unless c" = the else branch of "if c").
   HAND-MAINTAINED: when engine.py changes, GuardTie.guards_as_modelled breaks; re-read the handler, update
   Model.v, then this table.  The comment above each handler says which model clause mirrors it.
   Last brought up to date for /repo commits d24c06a (MAC type guard), 3da5f5b (Get: wrapping parameters and
   wrapped-object type), 229c9a2 (DeriveKey: cryptographic parameters required). *)
From Coq Require Import List String.
Import ListNotations.
Open Scope string_scope.

Definition expected_guards : list (string * list string) := [
  (* Model.step, Activate: lookup; ost = None -> RNoState IllegalOperation; st <> PreActive -> RState PermissionDenied; set Active *)
  ("_process_activate", [
    "lookup unique_identifier as enums.Operation.ACTIVATE";
    "let object_type = managed_object._object_type";
    "raise IllegalOperation <- if not hasattr(managed_object, 'state')";
    "raise PermissionDenied <- if managed_object.state != enums.State.PRE_ACTIVE";
    "set managed_object.state = enums.State.ACTIVE";
    "commit ";
    "return "]);
  (* Model.step, Revoke (the missing-reason-code refusal is outside the model: every modelled Revoke carries a code): lookup; RNoState; KEY_COMPROMISE -> Compromised / DestroyedCompromised; otherwise st <> Active -> RState IllegalOperation, else Deactivated *)
  ("_process_revoke", [
    "raise InvalidField <- unless payload.revocation_reason and payload.revocation_reason.revocation_code";
    "lookup unique_identifier as enums.Operation.REVOKE";
    "let object_type = managed_object._object_type";
    "raise IllegalOperation <- if not hasattr(managed_object, 'state')";
    "set managed_object.state = enums.State.DESTROYED_COMPROMISED <- if managed_object.state == enums.State.DESTROYED <- if revocation_code.value is enums.RevocationReasonCode.KEY_COMPROMISE";
    "set managed_object.state = enums.State.COMPROMISED <- unless managed_object.state == enums.State.DESTROYED <- if revocation_code.value is enums.RevocationReasonCode.KEY_COMPROMISE";
    "raise IllegalOperation <- if managed_object.state != enums.State.ACTIVE <- unless revocation_code.value is enums.RevocationReasonCode.KEY_COMPROMISE";
    "set managed_object.state = enums.State.DEACTIVATED <- unless managed_object.state != enums.State.ACTIVE <- unless revocation_code.value is enums.RevocationReasonCode.KEY_COMPROMISE";
    "commit ";
    "return "]);
  (* Model.step, Destroy: lookup; Active -> RState PermissionDenied; remove (the Compromised -> DestroyedCompromised assignment precedes the deletion of the row and is not observable) *)
  ("_process_destroy", [
    "lookup unique_identifier as enums.Operation.DESTROY";
    "raise PermissionDenied <- if managed_object.state == enums.State.ACTIVE <- if hasattr(managed_object, 'state')";
    "set managed_object.state = enums.State.DESTROYED_COMPROMISED <- if hasattr(managed_object, 'state') and managed_object.state == enums.State.COMPROMISED";
    "delete self._data_session.query(objects.ManagedObject).filter(objec";
    "commit ";
    "return "]);
  (* Model.use_key SymmetricKey bENCRYPT: lookup; params; type; state; mask; crypto *)
  ("_process_encrypt", [
    "lookup unique_identifier as enums.Operation.GET";
    "raise InvalidField <- if cryptographic_parameters is None";
    "raise PermissionDenied <- if managed_object._object_type != enums.ObjectType.SYMMETRIC_KEY";
    "raise PermissionDenied <- if managed_object.state != enums.State.ACTIVE";
    "let masks = managed_object.cryptographic_usage_masks";
    "raise PermissionDenied <- if enums.CryptographicUsageMask.ENCRYPT not in masks";
    "crypto encrypt";
    "return "]);
  (* Model.use_key SymmetricKey bDECRYPT *)
  ("_process_decrypt", [
    "lookup unique_identifier as enums.Operation.GET";
    "raise InvalidField <- if cryptographic_parameters is None";
    "raise PermissionDenied <- if managed_object._object_type != enums.ObjectType.SYMMETRIC_KEY";
    "raise PermissionDenied <- if managed_object.state != enums.State.ACTIVE";
    "let masks = managed_object.cryptographic_usage_masks";
    "raise PermissionDenied <- if enums.CryptographicUsageMask.DECRYPT not in masks";
    "crypto decrypt";
    "return "]);
  (* Model.use_key PublicKey bVERIFY *)
  ("_process_signature_verify", [
    "lookup unique_identifier as enums.Operation.GET";
    "raise InvalidField <- if parameters is None";
    "raise PermissionDenied <- if managed_object._object_type != enums.ObjectType.PUBLIC_KEY";
    "raise PermissionDenied <- if managed_object.state != enums.State.ACTIVE";
    "let masks = managed_object.cryptographic_usage_masks";
    "raise PermissionDenied <- if enums.CryptographicUsageMask.VERIFY not in masks";
    "crypto verify_signature";
    "return "]);
  (* Model.step, MAC: lookup; algorithm (given or a Key); value (assumed non-empty); data; type SymmetricKey|SecretData -> RType PermissionDenied (since d24c06a); state; mask; crypto *)
  ("_process_mac", [
    "lookup unique_identifier as enums.Operation.GET";
    "raise PermissionDenied <- unless isinstance(managed_object, objects.Key) and managed_object.cryptographic_algorithm <- unless payload.cryptographic_parameters and payload.cryptographic_parameters.cryptographic_algorithm";
    "raise PermissionDenied <- unless managed_object.value";
    "raise PermissionDenied <- unless payload.data";
    "raise PermissionDenied <- if managed_object._object_type not in [enums.ObjectType.SYMMETRIC_KEY, enums.ObjectType.SECRET_DATA]";
    "raise PermissionDenied <- if managed_object.state != enums.State.ACTIVE";
    "let masks = managed_object.cryptographic_usage_masks";
    "raise PermissionDenied <- if enums.CryptographicUsageMask.MAC_GENERATE not in masks";
    "crypto mac";
    "return "]);
  (* Model.use_key PrivateKey bSIGN *)
  ("_process_sign", [
    "lookup unique_identifier as enums.Operation.GET";
    "raise InvalidField <- if parameters is None";
    "raise PermissionDenied <- if managed_object._object_type != enums.ObjectType.PRIVATE_KEY";
    "raise PermissionDenied <- if managed_object.state != enums.State.ACTIVE";
    "let masks = managed_object.cryptographic_usage_masks";
    "raise PermissionDenied <- if enums.CryptographicUsageMask.SIGN not in masks";
    "crypto sign";
    "return "]);
  (* Model.derive_bases + step DeriveKey: per base object lookup; type -> RType InvalidField; mask -> RMask InvalidField; NO state guard; existing_objects[0] on an empty list -> CrashBefore; the template/length/parameter refusals are outside the model (well-formed requests); crypto; new SymmetricKey *)
  ("_process_derive_key", [
    "raise InvalidField <- if payload.object_type not in [enums.ObjectType.SYMMETRIC_KEY, enums.ObjectType.SECRET_DATA]";
    "lookup unique_identifier as enums.Operation.GET <- for unique_identifier in payload.unique_identifiers";
    "raise InvalidField <- if managed_object._object_type not in [enums.ObjectType.SECRET_DATA, enums.ObjectType.SYMMETRIC_KEY, enums.ObjectType.PUBLIC_KEY, enums.ObjectType.PRIVATE_KEY] <- for unique_identifier in payload.unique_identifiers";
    "raise InvalidField <- if enums.CryptographicUsageMask.DERIVE_KEY not in managed_object.cryptographic_usage_masks <- unless managed_object._object_type not in [enums.ObjectType.SECRET_DATA, enums.ObjectType.SYMMETRIC_KEY, enums.ObjectType.PUBLIC_KEY, enums.ObjectType.PRIVATE_KEY] <- for unique_identifier in payload.unique_identifiers";
    "break  <- if alternate._object_type == enums.ObjectType.SECRET_DATA <- for alternate in existing_objects[1:] <- if len(existing_objects) > 1 <- if derivation_parameters.derivation_data is None";
    "raise InvalidField <- unless derivation_length % 8 == 0 <- if attribute";
    "raise InvalidField <- unless attribute";
    "raise InvalidField <- unless attribute <- if payload.object_type == enums.ObjectType.SYMMETRIC_KEY";
    "raise InvalidField <- if crypto_parameters is None";
    "crypto derive_key";
    "raise CryptographicFailure <- if derivation_length > len(derived_data)";
    "commit ";
    "return "]);
  (* Model.step, GetWrap (requests with wrapping method ENCRYPT, encryption key information with cryptographic parameters, no attribute names, NO_ENCODING): lookup target; wrapping key lookup, any exception -> RWrapKeyMissing ItemNotFound; type -> RType IllegalOperation; state -> RState PermissionDenied; mask -> RMask PermissionDenied; wrapped object not a key / secret data -> RType IllegalOperation (since 3da5f5b); crypto *)
  ("_process_get", [
    "raise KeyCompressionTypeNotSupported <- if payload.key_compression_type";
    "lookup unique_identifier as enums.Operation.GET";
    "raise KeyFormatTypeNotSupported <- if not hasattr(managed_object, 'key_format_type') <- if key_format_type";
    "raise KeyFormatTypeNotSupported <- if key_format_type != managed_object.key_format_type <- if key_format_type";
    "raise OperationNotSupported <- if wrapping_method != enums.WrappingMethod.ENCRYPT <- if payload.key_wrapping_specification";
    "lookup encryption_key_uuid as enums.Operation.GET <- try <- if key_wrapping_spec.encryption_key_information <- if payload.key_wrapping_specification";
    "raise ItemNotFound <- except Exception <- if key_wrapping_spec.encryption_key_information <- if payload.key_wrapping_specification";
    "raise IllegalOperation <- if key._object_type != enums.ObjectType.SYMMETRIC_KEY <- if key_wrapping_spec.encryption_key_information <- if payload.key_wrapping_specification";
    "raise PermissionDenied <- if key.state != enums.State.ACTIVE <- if key_wrapping_spec.encryption_key_information <- if payload.key_wrapping_specification";
    "let mask = enums.CryptographicUsageMask.WRAP_KEY <- if key_wrapping_spec.encryption_key_information <- if payload.key_wrapping_specification";
    "raise PermissionDenied <- if mask not in key.cryptographic_usage_masks <- if key_wrapping_spec.encryption_key_information <- if payload.key_wrapping_specification";
    "raise IllegalOperation <- if key_wrapping_spec.attribute_names <- if key_wrapping_spec.encryption_key_information <- if payload.key_wrapping_specification";
    "raise EncodingOptionError <- if encoding_option != enums.EncodingOption.NO_ENCODING <- if key_wrapping_spec.encryption_key_information <- if payload.key_wrapping_specification";
    "raise InvalidField <- if encryption_key_params is None <- if key_wrapping_spec.encryption_key_information <- if payload.key_wrapping_specification";
    "raise IllegalOperation <- if managed_object._object_type not in [enums.ObjectType.SYMMETRIC_KEY, enums.ObjectType.PUBLIC_KEY, enums.ObjectType.PRIVATE_KEY, enums.ObjectType.SPLIT_KEY, enums.ObjectType.SECRET_DATA] <- if key_wrapping_spec.encryption_key_information <- if payload.key_wrapping_specification";
    "crypto wrap_key <- if key_wrapping_spec.encryption_key_information <- if payload.key_wrapping_specification";
    "raise PermissionDenied <- if key_wrapping_spec.mac_signature_key_information <- unless key_wrapping_spec.encryption_key_information <- if payload.key_wrapping_specification";
    "raise PermissionDenied <- unless key_wrapping_spec.mac_signature_key_information <- unless key_wrapping_spec.encryption_key_information <- if payload.key_wrapping_specification";
    "let response_payload = payloads.GetResponsePayload(object_type=managed_object._object_type, unique_identifier=unique_identifier, secret=core_se";
    "return "]);
  (* Model.lookup: under the single owning identity the policy check always allows *)
  ("_get_object_with_access_controls", [
    "call _get_object_type";
    "call one";
    "call _is_allowed_by_operation_policy";
    "raise PermissionDenied <- if not is_allowed";
    "return "]);
  (* Model.lookup = None -> RNotFound ItemNotFound *)
  ("_get_object_type", [
    "call one <- try";
    "let object_type = self._data_session.query(objects.ManagedObject._object_type).filter(objects.ManagedObject.unique_identifier == unique_id <- try";
    "raise ItemNotFound <- except exc.NoResultFound";
    "reraise e <- except exc.MultipleResultsFound as e";
    "raise InvalidField <- if class_type is None";
    "return "])
].
