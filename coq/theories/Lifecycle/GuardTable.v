(* C04 - the guard skeleton of kmip/services/server/engine.py the lifecycle model was written against.
   One entry per event, in the normal form of translate/gen_lifecycle.py (N1-N5 there):
     lookup <uid expr> as <policy operation> | raise <exception class> | set <state assignment> | let <binding> |
     crypto <CryptographyEngine method> | delete | commit | return | break, followed by " & literal" for every
     condition under which control reaches the event (complements of earlier terminating guards included;
     locals bound once to an attribute read are written out; "not (e)" = e is false; <for ..>, <try>, <except ..>
     mark loop bodies and handlers).
   HAND-MAINTAINED: when engine.py changes its behaviour, GuardTie.guards_as_modelled breaks; re-read the handler,
   update Model.v, then this table.  The comment above each handler says which model clause mirrors it.
   Last brought up to date for /repo commits d24c06a (MAC type guard), 3da5f5b (Get: wrapping parameters and
   wrapped-object type), 229c9a2 (DeriveKey: cryptographic parameters required), 52cb625 (_process_batch rolls back after a
   failed item; _process_batch added to the table), 02e2981 (DeriveKey refuses a negative length); format changed to reaching
   conditions so that behaviour-preserving rewrites (guard clause <-> if/else, hoisted attribute reads, dead
   initialisers, conditional expressions, De Morgan, nested if <-> and) give the same table. *)
From Coq Require Import List String.
Import ListNotations.
Open Scope string_scope.

Definition expected_guards : list (string * list string) := [
  (* Model.step, Activate: lookup; ost = None -> RNoState IllegalOperation; st <> PreActive -> RState PermissionDenied; set Active *)
  ("_process_activate", [
    "lookup unique_identifier as enums.Operation.ACTIVATE";
    "raise IllegalOperation & not (hasattr(managed_object, 'state'))";
    "raise PermissionDenied & hasattr(managed_object, 'state') & not (managed_object.state == enums.State.PRE_ACTIVE)";
    "set managed_object.state = enums.State.ACTIVE & hasattr(managed_object, 'state') & managed_object.state == enums.State.PRE_ACTIVE";
    "commit & hasattr(managed_object, 'state') & managed_object.state == enums.State.PRE_ACTIVE";
    "return & hasattr(managed_object, 'state') & managed_object.state == enums.State.PRE_ACTIVE"]);
  (* Model.step, Revoke (the missing-reason-code refusal is outside the model: every modelled Revoke carries a code): lookup; RNoState; KEY_COMPROMISE -> Compromised / DestroyedCompromised; otherwise st <> Active -> RState IllegalOperation, else Deactivated *)
  ("_process_revoke", [
    "raise InvalidField & not (payload.revocation_reason and payload.revocation_reason.revocation_code)";
    "lookup unique_identifier as enums.Operation.REVOKE & payload.revocation_reason & payload.revocation_reason.revocation_code";
    "raise IllegalOperation & payload.revocation_reason & payload.revocation_reason.revocation_code & not (hasattr(managed_object, 'state'))";
    "set managed_object.state = enums.State.DESTROYED_COMPROMISED & payload.revocation_reason & payload.revocation_reason.revocation_code & hasattr(managed_object, 'state') & payload.revocation_reason.revocation_code.value is enums.RevocationReasonCode.KEY_COMPROMISE & managed_object.state == enums.State.DESTROYED";
    "set managed_object.state = enums.State.COMPROMISED & payload.revocation_reason & payload.revocation_reason.revocation_code & hasattr(managed_object, 'state') & payload.revocation_reason.revocation_code.value is enums.RevocationReasonCode.KEY_COMPROMISE & not (managed_object.state == enums.State.DESTROYED)";
    "raise IllegalOperation & payload.revocation_reason & payload.revocation_reason.revocation_code & hasattr(managed_object, 'state') & not (payload.revocation_reason.revocation_code.value is enums.RevocationReasonCode.KEY_COMPROMISE) & not (managed_object.state == enums.State.ACTIVE)";
    "set managed_object.state = enums.State.DEACTIVATED & payload.revocation_reason & payload.revocation_reason.revocation_code & hasattr(managed_object, 'state') & not (payload.revocation_reason.revocation_code.value is enums.RevocationReasonCode.KEY_COMPROMISE) & managed_object.state == enums.State.ACTIVE";
    "commit & payload.revocation_reason & payload.revocation_reason.revocation_code & hasattr(managed_object, 'state')";
    "return & payload.revocation_reason & payload.revocation_reason.revocation_code & hasattr(managed_object, 'state')"]);
  (* Model.step, Destroy: lookup; Active -> RState PermissionDenied; remove (the Compromised -> DestroyedCompromised assignment precedes the deletion of the row and is not observable) *)
  ("_process_destroy", [
    "lookup unique_identifier as enums.Operation.DESTROY";
    "raise PermissionDenied & hasattr(managed_object, 'state') & managed_object.state == enums.State.ACTIVE";
    "set managed_object.state = enums.State.DESTROYED_COMPROMISED & hasattr(managed_object, 'state') & managed_object.state == enums.State.COMPROMISED";
    "delete self._data_session.query(objects.ManagedObject).filter(objec";
    "commit";
    "return"]);
  (* Model.use_key SymmetricKey bENCRYPT: lookup; params; type; state; mask; crypto *)
  ("_process_encrypt", [
    "lookup unique_identifier as enums.Operation.GET";
    "raise InvalidField & payload.cryptographic_parameters is None";
    "raise PermissionDenied & not (payload.cryptographic_parameters is None) & not (managed_object._object_type == enums.ObjectType.SYMMETRIC_KEY)";
    "raise PermissionDenied & not (payload.cryptographic_parameters is None) & managed_object._object_type == enums.ObjectType.SYMMETRIC_KEY & not (managed_object.state == enums.State.ACTIVE)";
    "raise PermissionDenied & not (payload.cryptographic_parameters is None) & managed_object._object_type == enums.ObjectType.SYMMETRIC_KEY & managed_object.state == enums.State.ACTIVE & not (enums.CryptographicUsageMask.ENCRYPT in managed_object.cryptographic_usage_masks)";
    "crypto encrypt & not (payload.cryptographic_parameters is None) & managed_object._object_type == enums.ObjectType.SYMMETRIC_KEY & managed_object.state == enums.State.ACTIVE & enums.CryptographicUsageMask.ENCRYPT in managed_object.cryptographic_usage_masks";
    "return & not (payload.cryptographic_parameters is None) & managed_object._object_type == enums.ObjectType.SYMMETRIC_KEY & managed_object.state == enums.State.ACTIVE & enums.CryptographicUsageMask.ENCRYPT in managed_object.cryptographic_usage_masks"]);
  (* Model.use_key SymmetricKey bDECRYPT *)
  ("_process_decrypt", [
    "lookup unique_identifier as enums.Operation.GET";
    "raise InvalidField & payload.cryptographic_parameters is None";
    "raise PermissionDenied & not (payload.cryptographic_parameters is None) & not (managed_object._object_type == enums.ObjectType.SYMMETRIC_KEY)";
    "raise PermissionDenied & not (payload.cryptographic_parameters is None) & managed_object._object_type == enums.ObjectType.SYMMETRIC_KEY & not (managed_object.state == enums.State.ACTIVE)";
    "raise PermissionDenied & not (payload.cryptographic_parameters is None) & managed_object._object_type == enums.ObjectType.SYMMETRIC_KEY & managed_object.state == enums.State.ACTIVE & not (enums.CryptographicUsageMask.DECRYPT in managed_object.cryptographic_usage_masks)";
    "crypto decrypt & not (payload.cryptographic_parameters is None) & managed_object._object_type == enums.ObjectType.SYMMETRIC_KEY & managed_object.state == enums.State.ACTIVE & enums.CryptographicUsageMask.DECRYPT in managed_object.cryptographic_usage_masks";
    "return & not (payload.cryptographic_parameters is None) & managed_object._object_type == enums.ObjectType.SYMMETRIC_KEY & managed_object.state == enums.State.ACTIVE & enums.CryptographicUsageMask.DECRYPT in managed_object.cryptographic_usage_masks"]);
  (* Model.use_key PublicKey bVERIFY *)
  ("_process_signature_verify", [
    "lookup unique_identifier as enums.Operation.GET";
    "raise InvalidField & payload.cryptographic_parameters is None";
    "raise PermissionDenied & not (payload.cryptographic_parameters is None) & not (managed_object._object_type == enums.ObjectType.PUBLIC_KEY)";
    "raise PermissionDenied & not (payload.cryptographic_parameters is None) & managed_object._object_type == enums.ObjectType.PUBLIC_KEY & not (managed_object.state == enums.State.ACTIVE)";
    "raise PermissionDenied & not (payload.cryptographic_parameters is None) & managed_object._object_type == enums.ObjectType.PUBLIC_KEY & managed_object.state == enums.State.ACTIVE & not (enums.CryptographicUsageMask.VERIFY in managed_object.cryptographic_usage_masks)";
    "crypto verify_signature & not (payload.cryptographic_parameters is None) & managed_object._object_type == enums.ObjectType.PUBLIC_KEY & managed_object.state == enums.State.ACTIVE & enums.CryptographicUsageMask.VERIFY in managed_object.cryptographic_usage_masks";
    "return & not (payload.cryptographic_parameters is None) & managed_object._object_type == enums.ObjectType.PUBLIC_KEY & managed_object.state == enums.State.ACTIVE & enums.CryptographicUsageMask.VERIFY in managed_object.cryptographic_usage_masks"]);
  (* Model.step, MAC: lookup; algorithm (given or a Key); value non-empty (oval) -> RParams PermissionDenied; data; type SymmetricKey|SecretData -> RType PermissionDenied (since d24c06a); state; mask; crypto *)
  ("_process_mac", [
    "lookup unique_identifier as enums.Operation.GET";
    "raise PermissionDenied & not (payload.cryptographic_parameters and payload.cryptographic_parameters.cryptographic_algorithm) & not (isinstance(managed_object, objects.Key) and managed_object.cryptographic_algorithm)";
    "raise PermissionDenied & not (managed_object.value)";
    "raise PermissionDenied & managed_object.value & not (payload.data)";
    "raise PermissionDenied & managed_object.value & payload.data & not (managed_object._object_type in [enums.ObjectType.SYMMETRIC_KEY, enums.ObjectType.SECRET_DATA])";
    "raise PermissionDenied & managed_object.value & payload.data & managed_object._object_type in [enums.ObjectType.SYMMETRIC_KEY, enums.ObjectType.SECRET_DATA] & not (managed_object.state == enums.State.ACTIVE)";
    "raise PermissionDenied & managed_object.value & payload.data & managed_object._object_type in [enums.ObjectType.SYMMETRIC_KEY, enums.ObjectType.SECRET_DATA] & managed_object.state == enums.State.ACTIVE & not (enums.CryptographicUsageMask.MAC_GENERATE in managed_object.cryptographic_usage_masks)";
    "crypto mac & managed_object.value & payload.data & managed_object._object_type in [enums.ObjectType.SYMMETRIC_KEY, enums.ObjectType.SECRET_DATA] & managed_object.state == enums.State.ACTIVE & enums.CryptographicUsageMask.MAC_GENERATE in managed_object.cryptographic_usage_masks";
    "return & managed_object.value & payload.data & managed_object._object_type in [enums.ObjectType.SYMMETRIC_KEY, enums.ObjectType.SECRET_DATA] & managed_object.state == enums.State.ACTIVE & enums.CryptographicUsageMask.MAC_GENERATE in managed_object.cryptographic_usage_masks"]);
  (* Model.use_key PrivateKey bSIGN *)
  ("_process_sign", [
    "lookup unique_identifier as enums.Operation.GET";
    "raise InvalidField & payload.cryptographic_parameters is None";
    "raise PermissionDenied & not (payload.cryptographic_parameters is None) & not (managed_object._object_type == enums.ObjectType.PRIVATE_KEY)";
    "raise PermissionDenied & not (payload.cryptographic_parameters is None) & managed_object._object_type == enums.ObjectType.PRIVATE_KEY & not (managed_object.state == enums.State.ACTIVE)";
    "raise PermissionDenied & not (payload.cryptographic_parameters is None) & managed_object._object_type == enums.ObjectType.PRIVATE_KEY & managed_object.state == enums.State.ACTIVE & not (enums.CryptographicUsageMask.SIGN in managed_object.cryptographic_usage_masks)";
    "crypto sign & not (payload.cryptographic_parameters is None) & managed_object._object_type == enums.ObjectType.PRIVATE_KEY & managed_object.state == enums.State.ACTIVE & enums.CryptographicUsageMask.SIGN in managed_object.cryptographic_usage_masks";
    "return & not (payload.cryptographic_parameters is None) & managed_object._object_type == enums.ObjectType.PRIVATE_KEY & managed_object.state == enums.State.ACTIVE & enums.CryptographicUsageMask.SIGN in managed_object.cryptographic_usage_masks"]);
  (* Model.derive_bases + step DeriveKey: per base object lookup; type -> RType InvalidField; mask -> RMask InvalidField; NO state guard; existing_objects[0] on an empty list -> CrashBefore; Cryptographic Length negative -> RParams InvalidField (since 02e2981), not a multiple of 8 -> RParams InvalidField; the other template / parameter refusals are outside the model (well-formed requests); crypto; new SymmetricKey whose value is empty iff the length is 0 *)
  ("_process_derive_key", [
    "raise InvalidField & not (payload.object_type in [enums.ObjectType.SYMMETRIC_KEY, enums.ObjectType.SECRET_DATA])";
    "lookup unique_identifier as enums.Operation.GET & payload.object_type in [enums.ObjectType.SYMMETRIC_KEY, enums.ObjectType.SECRET_DATA] & <for unique_identifier in payload.unique_identifiers>";
    "raise InvalidField & payload.object_type in [enums.ObjectType.SYMMETRIC_KEY, enums.ObjectType.SECRET_DATA] & <for unique_identifier in payload.unique_identifiers> & not (managed_object._object_type in [enums.ObjectType.SECRET_DATA, enums.ObjectType.SYMMETRIC_KEY, enums.ObjectType.PUBLIC_KEY, enums.ObjectType.PRIVATE_KEY])";
    "raise InvalidField & payload.object_type in [enums.ObjectType.SYMMETRIC_KEY, enums.ObjectType.SECRET_DATA] & <for unique_identifier in payload.unique_identifiers> & managed_object._object_type in [enums.ObjectType.SECRET_DATA, enums.ObjectType.SYMMETRIC_KEY, enums.ObjectType.PUBLIC_KEY, enums.ObjectType.PRIVATE_KEY] & not (enums.CryptographicUsageMask.DERIVE_KEY in managed_object.cryptographic_usage_masks)";
    "break & payload.object_type in [enums.ObjectType.SYMMETRIC_KEY, enums.ObjectType.SECRET_DATA] & payload.derivation_parameters.derivation_data is None & len(existing_objects) > 1 & <for alternate in existing_objects[1:]> & alternate._object_type == enums.ObjectType.SECRET_DATA";
    "raise InvalidField & payload.object_type in [enums.ObjectType.SYMMETRIC_KEY, enums.ObjectType.SECRET_DATA] & not (attribute)";
    "raise InvalidField & payload.object_type in [enums.ObjectType.SYMMETRIC_KEY, enums.ObjectType.SECRET_DATA] & attribute & derivation_length < 0";
    "raise InvalidField & payload.object_type in [enums.ObjectType.SYMMETRIC_KEY, enums.ObjectType.SECRET_DATA] & attribute & not (derivation_length < 0) & not (derivation_length % 8 == 0)";
    "raise InvalidField & payload.object_type in [enums.ObjectType.SYMMETRIC_KEY, enums.ObjectType.SECRET_DATA] & attribute & payload.object_type == enums.ObjectType.SYMMETRIC_KEY & not (attribute)";
    "raise InvalidField & payload.object_type in [enums.ObjectType.SYMMETRIC_KEY, enums.ObjectType.SECRET_DATA] & attribute & payload.derivation_parameters.cryptographic_parameters is None";
    "crypto derive_key & payload.object_type in [enums.ObjectType.SYMMETRIC_KEY, enums.ObjectType.SECRET_DATA] & attribute & not (payload.derivation_parameters.cryptographic_parameters is None)";
    "raise CryptographicFailure & payload.object_type in [enums.ObjectType.SYMMETRIC_KEY, enums.ObjectType.SECRET_DATA] & attribute & not (payload.derivation_parameters.cryptographic_parameters is None) & derivation_length > len(derived_data)";
    "commit & payload.object_type in [enums.ObjectType.SYMMETRIC_KEY, enums.ObjectType.SECRET_DATA] & attribute & not (payload.derivation_parameters.cryptographic_parameters is None) & not (derivation_length > len(derived_data))";
    "return & payload.object_type in [enums.ObjectType.SYMMETRIC_KEY, enums.ObjectType.SECRET_DATA] & attribute & not (payload.derivation_parameters.cryptographic_parameters is None) & not (derivation_length > len(derived_data))"]);
  (* Model.step, GetWrap (requests with wrapping method ENCRYPT, encryption key information with cryptographic parameters, no attribute names, NO_ENCODING): lookup target; wrapping key lookup, any exception -> RWrapKeyMissing ItemNotFound; type -> RType IllegalOperation; state -> RState PermissionDenied; mask -> RMask PermissionDenied; wrapped object not a key / secret data -> RType IllegalOperation (since 3da5f5b); crypto *)
  ("_process_get", [
    "raise KeyCompressionTypeNotSupported & payload.key_compression_type";
    "lookup unique_identifier as enums.Operation.GET & not (payload.key_compression_type)";
    "raise KeyFormatTypeNotSupported & not (payload.key_compression_type) & key_format_type & not (hasattr(managed_object, 'key_format_type'))";
    "raise KeyFormatTypeNotSupported & not (payload.key_compression_type) & key_format_type & hasattr(managed_object, 'key_format_type') & not (key_format_type == managed_object.key_format_type)";
    "raise OperationNotSupported & not (payload.key_compression_type) & payload.key_wrapping_specification & not (payload.key_wrapping_specification.wrapping_method == enums.WrappingMethod.ENCRYPT)";
    "raise PermissionDenied & not (payload.key_compression_type) & payload.key_wrapping_specification & payload.key_wrapping_specification.wrapping_method == enums.WrappingMethod.ENCRYPT & not (payload.key_wrapping_specification.encryption_key_information) & payload.key_wrapping_specification.mac_signature_key_information";
    "raise PermissionDenied & not (payload.key_compression_type) & payload.key_wrapping_specification & payload.key_wrapping_specification.wrapping_method == enums.WrappingMethod.ENCRYPT & not (payload.key_wrapping_specification.encryption_key_information) & not (payload.key_wrapping_specification.mac_signature_key_information)";
    "lookup payload.key_wrapping_specification.encryption_key_information.unique_identifier as enums.Operation.GET & not (payload.key_compression_type) & payload.key_wrapping_specification & payload.key_wrapping_specification.wrapping_method == enums.WrappingMethod.ENCRYPT & payload.key_wrapping_specification.encryption_key_information & <try>";
    "raise ItemNotFound & not (payload.key_compression_type) & payload.key_wrapping_specification & payload.key_wrapping_specification.wrapping_method == enums.WrappingMethod.ENCRYPT & payload.key_wrapping_specification.encryption_key_information & <except Exception>";
    "raise IllegalOperation & not (payload.key_compression_type) & payload.key_wrapping_specification & payload.key_wrapping_specification.wrapping_method == enums.WrappingMethod.ENCRYPT & payload.key_wrapping_specification.encryption_key_information & not (key._object_type == enums.ObjectType.SYMMETRIC_KEY)";
    "raise PermissionDenied & not (payload.key_compression_type) & payload.key_wrapping_specification & payload.key_wrapping_specification.wrapping_method == enums.WrappingMethod.ENCRYPT & payload.key_wrapping_specification.encryption_key_information & key._object_type == enums.ObjectType.SYMMETRIC_KEY & not (key.state == enums.State.ACTIVE)";
    "raise PermissionDenied & not (payload.key_compression_type) & payload.key_wrapping_specification & payload.key_wrapping_specification.wrapping_method == enums.WrappingMethod.ENCRYPT & payload.key_wrapping_specification.encryption_key_information & key._object_type == enums.ObjectType.SYMMETRIC_KEY & key.state == enums.State.ACTIVE & not (enums.CryptographicUsageMask.WRAP_KEY in key.cryptographic_usage_masks)";
    "raise IllegalOperation & not (payload.key_compression_type) & payload.key_wrapping_specification & payload.key_wrapping_specification.wrapping_method == enums.WrappingMethod.ENCRYPT & payload.key_wrapping_specification.encryption_key_information & key._object_type == enums.ObjectType.SYMMETRIC_KEY & key.state == enums.State.ACTIVE & enums.CryptographicUsageMask.WRAP_KEY in key.cryptographic_usage_masks & payload.key_wrapping_specification.attribute_names";
    "raise EncodingOptionError & not (payload.key_compression_type) & payload.key_wrapping_specification & payload.key_wrapping_specification.wrapping_method == enums.WrappingMethod.ENCRYPT & payload.key_wrapping_specification.encryption_key_information & key._object_type == enums.ObjectType.SYMMETRIC_KEY & key.state == enums.State.ACTIVE & enums.CryptographicUsageMask.WRAP_KEY in key.cryptographic_usage_masks & not (payload.key_wrapping_specification.attribute_names) & not (payload.key_wrapping_specification.encoding_option == enums.EncodingOption.NO_ENCODING)";
    "raise InvalidField & not (payload.key_compression_type) & payload.key_wrapping_specification & payload.key_wrapping_specification.wrapping_method == enums.WrappingMethod.ENCRYPT & payload.key_wrapping_specification.encryption_key_information & key._object_type == enums.ObjectType.SYMMETRIC_KEY & key.state == enums.State.ACTIVE & enums.CryptographicUsageMask.WRAP_KEY in key.cryptographic_usage_masks & not (payload.key_wrapping_specification.attribute_names) & payload.key_wrapping_specification.encoding_option == enums.EncodingOption.NO_ENCODING & payload.key_wrapping_specification.encryption_key_information.cryptographic_parameters is None";
    "raise IllegalOperation & not (payload.key_compression_type) & payload.key_wrapping_specification & payload.key_wrapping_specification.wrapping_method == enums.WrappingMethod.ENCRYPT & payload.key_wrapping_specification.encryption_key_information & key._object_type == enums.ObjectType.SYMMETRIC_KEY & key.state == enums.State.ACTIVE & enums.CryptographicUsageMask.WRAP_KEY in key.cryptographic_usage_masks & not (payload.key_wrapping_specification.attribute_names) & payload.key_wrapping_specification.encoding_option == enums.EncodingOption.NO_ENCODING & not (payload.key_wrapping_specification.encryption_key_information.cryptographic_parameters is None) & not (managed_object._object_type in [enums.ObjectType.SYMMETRIC_KEY, enums.ObjectType.PUBLIC_KEY, enums.ObjectType.PRIVATE_KEY, enums.ObjectType.SPLIT_KEY, enums.ObjectType.SECRET_DATA])";
    "crypto wrap_key & not (payload.key_compression_type) & payload.key_wrapping_specification & payload.key_wrapping_specification.wrapping_method == enums.WrappingMethod.ENCRYPT & payload.key_wrapping_specification.encryption_key_information & key._object_type == enums.ObjectType.SYMMETRIC_KEY & key.state == enums.State.ACTIVE & enums.CryptographicUsageMask.WRAP_KEY in key.cryptographic_usage_masks & not (payload.key_wrapping_specification.attribute_names) & payload.key_wrapping_specification.encoding_option == enums.EncodingOption.NO_ENCODING & not (payload.key_wrapping_specification.encryption_key_information.cryptographic_parameters is None) & managed_object._object_type in [enums.ObjectType.SYMMETRIC_KEY, enums.ObjectType.PUBLIC_KEY, enums.ObjectType.PRIVATE_KEY, enums.ObjectType.SPLIT_KEY, enums.ObjectType.SECRET_DATA]";
    "return & not (payload.key_compression_type)"]);
  (* Model.lookup: under the single owning identity the policy check always allows *)
  ("_get_object_with_access_controls", [
    "call _get_object_type";
    "call one";
    "call _is_allowed_by_operation_policy";
    "raise PermissionDenied & not (is_allowed)";
    "return & is_allowed"]);
  (* Model.lookup = None -> RNotFound ItemNotFound *)
  ("_get_object_type", [
    "call one & <try>";
    "raise ItemNotFound & <except exc.NoResultFound>";
    "reraise e & <except exc.MultipleResultsFound as e>";
    "raise InvalidField & class_type is None";
    "return & not (class_type is None)"]);
  (* the model lets a refused / crashed operation leave the store as it was: every item runs through _process_operation inside try/except, and since /repo 52cb625 a failed item is followed by a rollback of whatever it left uncommitted; Continue/Stop handling is outside the model (the harness always sends Continue) *)
  ("_process_batch", [
    "raise InvalidMessage & len(request_batch) > 1 & <for batch_item in request_batch> & not (batch_item.unique_batch_item_id)";
    "raise InvalidMessage & <with self._data_store_session_factory()> & <for batch_item in request_batch> & len(request_batch) > 1 & not (batch_item.unique_batch_item_id)";
    "call _process_operation & <with self._data_store_session_factory()> & <for batch_item in request_batch> & <try>";
    "rollback & <with self._data_store_session_factory()> & <for batch_item in request_batch> & error_occurred";
    "break & <with self._data_store_session_factory()> & <for batch_item in request_batch> & error_occurred & batch_handling == enums.BatchErrorContinuationOption.STOP";
    "return"])
].

(* What every operation handler dispatched by _process_operation can reach, through any chain of helper methods:
   CryptographyEngine methods, lookups of stored objects (with the policy operation), listings, assignments to
   `.state`, row deletions (translate/gen_lifecycle.py, reach).  This is the complete list of places where a stored key
   is used or a State is written; the model covers exactly the handlers with a non-trivial entry here other than the
   attribute operations (C15) and Locate (C14).  In particular Create / CreateKeyPair use the crypto engine only to
   generate material and Register reaches nothing: it consults no stored object (Model: `Register t m` ignores the
   store).  A new path - e.g. Register starting to unwrap with a stored key - breaks GuardTie.reach_as_modelled. *)
Definition expected_reach : list (string * list string) := [
  ("_process_activate", ["lookup as enums.Operation.ACTIVATE"; "set state enums.State.ACTIVE"]);
  ("_process_create", ["crypto create_symmetric_key"]);
  ("_process_create_key_pair", ["crypto create_asymmetric_key_pair"]);
  ("_process_decrypt", ["crypto decrypt"; "lookup as enums.Operation.GET"]);
  ("_process_delete_attribute", ["lookup as enums.Operation.DELETE_ATTRIBUTE"]);
  ("_process_derive_key", ["crypto derive_key"; "lookup as enums.Operation.GET"]);
  ("_process_destroy", ["delete row"; "lookup as enums.Operation.DESTROY"; "set state enums.State.DESTROYED_COMPROMISED"]);
  ("_process_discover_versions", []);
  ("_process_encrypt", ["crypto encrypt"; "lookup as enums.Operation.GET"]);
  ("_process_get", ["crypto wrap_key"; "lookup as enums.Operation.GET"]);
  ("_process_get_attribute_list", ["lookup as enums.Operation.GET_ATTRIBUTE_LIST"]);
  ("_process_get_attributes", ["lookup as enums.Operation.GET_ATTRIBUTES"]);
  ("_process_locate", ["list as enums.Operation.LOCATE"]);
  ("_process_mac", ["crypto mac"; "lookup as enums.Operation.GET"]);
  ("_process_modify_attribute", ["lookup as enums.Operation.MODIFY_ATTRIBUTE"]);
  ("_process_query", []);
  ("_process_register", []);
  ("_process_revoke", ["lookup as enums.Operation.REVOKE"; "set state enums.State.COMPROMISED"; "set state enums.State.DEACTIVATED"; "set state enums.State.DESTROYED_COMPROMISED"]);
  ("_process_set_attribute", ["lookup as enums.Operation.SET_ATTRIBUTE"]);
  ("_process_sign", ["crypto sign"; "lookup as enums.Operation.GET"]);
  ("_process_signature_verify", ["crypto verify_signature"; "lookup as enums.Operation.GET"])
].
