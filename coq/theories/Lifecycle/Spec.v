(* C04 - specification-level vocabulary used by the property theorems. *)
From PK Require Export Lifecycle.Model.
From Coq Require Import ZArith List Bool.
Import ListNotations.
Open Scope Z_scope.

(* the property text: "Compromised on a key- or CA-compromise revocation" *)
Definition compromise (c : rcode) : Prop := c = KeyCompromise \/ c = CACompromise.

(* What one step may do to the State of the object with identifier v (exactly what the code does):
   nothing; Pre-Active -> Active by a successful Activate of v; Active -> Deactivated by a successful Revoke of v
   with a reason other than KEY_COMPROMISE; anything -> Compromised by a successful Revoke of v with KEY_COMPROMISE
   (the Destroyed -> Destroyed-Compromised branch of the code is kept; no stored object is ever Destroyed, see wf). *)
Inductive transition (o : op) (out : outcome) (v : Z) : option state -> option state -> Prop :=
| T_same : forall a, transition o out v a a
| T_activate : o = Activate v -> out = OK -> transition o out v (Some PreActive) (Some Active)
| T_deactivate : forall c, o = Revoke v c -> out = OK -> is_key_compromise c = false ->
                 transition o out v (Some Active) (Some Deactivated)
| T_compromise : forall st, o = Revoke v KeyCompromise -> out = OK -> st <> Destroyed ->
                 transition o out v (Some st) (Some Compromised)
| T_destroyed_compromise : o = Revoke v KeyCompromise -> out = OK ->
                 transition o out v (Some Destroyed) (Some DestroyedCompromised).

(* the property's own, coarser reading of the same thing *)
Definition property_move (o : op) (v : Z) (a b : option state) : Prop :=
  a = b
  \/ (o = Activate v /\ a = Some PreActive /\ b = Some Active)
  \/ (exists c, o = Revoke v c /\ a = Some Active /\ b = Some Deactivated)
  \/ (exists c, o = Revoke v c /\ compromise c /\ b = Some Compromised).

(* stores the engine can be in: identifiers below the counter (sqlite autoincrement), no stored object in a
   Destroyed state (Destroy deletes the row) *)
Definition live_state (o : option state) : Prop := o <> Some Destroyed /\ o <> Some DestroyedCompromised.
Definition wf (s : store) : Prop :=
  forall v ob, lookup v (objs s) = Some ob -> v < next_uid s /\ live_state (ost ob).

(* only objects other than OpaqueData carry a State (kmip.pie.objects: OpaqueObject is not a CryptographicObject) *)
Definition wf_typed (s : store) : Prop :=
  forall v ob, lookup v (objs s) = Some ob -> oty ob = OpaqueData -> ost ob = None.


(* the kinds the property accepts for a MAC key (see notes/C04.md) *)
Definition mac_kind (t : otype) : Prop := t = SymmetricKey \/ t = SecretData.

(* "entered": one of the gated CryptographyEngine methods was called with the object's key material, whatever it
   then returned.  Success (OK) is a special case. *)
Definition entered (r : outcome) : Prop := r = OK \/ r = CryptoFail \/ r = CrashAfter.

(* the key u exists, is of type t, is Active and its usage mask has bit b *)
Definition usable (s : store) (u : Z) (t : otype) (b : Z) : Prop :=
  exists ob, lookup u (objs s) = Some ob /\ oty ob = t /\ ost ob = Some Active /\ has_bit (omask ob) b = true.

(* what must hold of the store for a cryptographic use to go ahead, per operation, as the code checks it *)
Definition gate (s : store) (o : op) : Prop :=
  match o with
  | Encrypt u _ => usable s u SymmetricKey bENCRYPT
  | Decrypt u _ => usable s u SymmetricKey bDECRYPT
  | Sign u _ => usable s u PrivateKey bSIGN
  | SignatureVerify u _ => usable s u PublicKey bVERIFY
  | MAC u _ _ => exists ob, lookup u (objs s) = Some ob /\ mac_kind (oty ob) /\ ost ob = Some Active
                            /\ has_bit (omask ob) bMAC_GENERATE = true
  | GetWrap _ w => usable s w SymmetricKey bWRAP_KEY     (* and the wrapped object is a key or secret data: get_wrap_gated *)
  | DeriveKey us _ _ =>
      us <> [] /\ forall u, In u us -> exists ob, lookup u (objs s) = Some ob /\ derivable (oty ob) = true
                                                   /\ has_bit (omask ob) bDERIVE_KEY = true
  | _ => True
  end.
