(* C04 - tie T: the guard skeleton regenerated from engine.py on this run (gen/LifecycleGuards.v) is the one the
   model was written against (Lifecycle/GuardTable.v). *)
From PKGen Require Import LifecycleGuards.
From PK Require Import Lifecycle.GuardTable.
From Coq Require Import List String.

Theorem guards_as_modelled : LifecycleGuards.guards = GuardTable.expected_guards.
Proof. vm_compute. reflexivity. Qed.

(* ... and no operation handler reaches the crypto engine, a stored object or a State assignment other than as listed *)
Theorem reach_as_modelled : LifecycleGuards.reach = GuardTable.expected_reach.
Proof. vm_compute. reflexivity. Qed.
