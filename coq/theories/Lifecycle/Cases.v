(* C04 - comparator for the correspondence (tie K).  A case is one history run on
   the real KmipEngine: for every step the operation, the crypto-oracle input,
   and what the implementation did (classified outcome, whether one of the gated
   CryptographyEngine methods was entered, and the Object Type / State /
   Cryptographic Usage Mask attributes of every object of the history's uid
   window read with GetAttributes after the step). *)
From PK Require Export Lifecycle.Model.
From Coq Require Import ZArith List Bool.
Import ListNotations.
Open Scope Z_scope.

(* observed outcome: a model outcome class, or something the harness could not classify *)
Inductive iout := IOut (o : outcome) | IOther.

(* observed attributes of one object: uid, Object Type, State (None: no State attribute), mask *)
Definition oview := (Z * otype * option state * Z)%type.

Record stepobs := mkstep { s_op : op; s_cok : bool; s_out : iout; s_called : bool; s_objs : list oview }.
Record hcase := mkcase { c_first : Z; c_steps : list stepobs }.

Definition ostate_eqb (a b : option state) : bool :=
  match a, b with
  | None, None => true
  | Some x, Some y => state_eqb x y
  | _, _ => false
  end.

Definition view (o : obj) : oview := (uid o, oty o, ost o, omask o).

Definition oview_eqb (a b : oview) : bool :=
  match a, b with
  | (u, t, st, m), (u', t', st', m') => (u =? u') && otype_eqb t t' && ostate_eqb st st' && (m =? m')
  end.

Fixpoint views_eqb (a b : list oview) : bool :=
  match a, b with
  | [], [] => true
  | x :: r, y :: r' => oview_eqb x y && views_eqb r r'
  | _, _ => false
  end.

Definition iout_matches (m : outcome) (i : iout) : bool :=
  match i with IOut o => outcome_eqb m o | IOther => false end.

Fixpoint check_steps (s : store) (l : list stepobs) : bool :=
  match l with
  | [] => true
  | x :: r =>
      let os := step (s_cok x) s (s_op x) in
      iout_matches (fst os) (s_out x)
      && Bool.eqb (crypto_called (s_op x) (fst os)) (s_called x)
      && views_eqb (map view (objs (snd os))) (s_objs x)
      && check_steps (snd os) r
  end.

Definition check_hcase (c : hcase) : bool := check_steps (empty_store (c_first c)) (c_steps c).

(* index of the first disagreeing step (for replay files) *)
Fixpoint first_bad (n : nat) (s : store) (l : list stepobs) : option (nat * outcome * list oview) :=
  match l with
  | [] => None
  | x :: r =>
      let os := step (s_cok x) s (s_op x) in
      if iout_matches (fst os) (s_out x)
         && Bool.eqb (crypto_called (s_op x) (fst os)) (s_called x)
         && views_eqb (map view (objs (snd os))) (s_objs x)
      then first_bad (S n) (snd os) r
      else Some (n, fst os, map view (objs (snd os)))
  end.
Definition explain (c : hcase) := first_bad 0 (empty_store (c_first c)) (c_steps c).
