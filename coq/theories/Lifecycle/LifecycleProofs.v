(* C04 - proofs about Lifecycle.Model (no axioms; plain stdlib). *)
From PK Require Import Lifecycle.Model Lifecycle.Spec.
From Coq Require Import ZArith List Bool Lia ZifyBool.
Import ListNotations.
Open Scope Z_scope.
Local Arguments has_bit : simpl never.

(* ------------------------------------------------------------------ small facts *)
Lemma state_eqb_eq : forall a b, state_eqb a b = true <-> a = b.
Proof. destruct a, b; simpl; split; intro H; try reflexivity; discriminate. Qed.

Lemma state_eqb_neq : forall a b, state_eqb a b = false <-> a <> b.
Proof. destruct a, b; simpl; split; intro H; try discriminate; try congruence; try reflexivity; exfalso; apply H; reflexivity. Qed.

Lemma otype_eqb_eq : forall a b, otype_eqb a b = true <-> a = b.
Proof. destruct a, b; simpl; split; intro H; try reflexivity; discriminate. Qed.

Lemma is_active_iff : forall o, is_active o = true <-> ost o = Some Active.
Proof.
  intro o. unfold is_active. destruct (ost o) as [st|]; [destruct st|]; split; intro H; try reflexivity; discriminate.
Qed.

Lemma uid_new_obj : forall u t m v, uid (new_objv u t m v) = u.
Proof. intros. unfold new_objv. destruct (has_state t); reflexivity. Qed.

Lemma ost_new_obj : forall u t m v, live_state (ost (new_objv u t m v)).
Proof. intros. unfold new_objv, live_state. destruct (has_state t); simpl; split; discriminate. Qed.

Lemma lookup_uid : forall l v o, lookup v l = Some o -> uid o = v.
Proof.
  induction l as [|a l IH]; simpl; intros v o H. discriminate.
  destruct (uid a =? v) eqn:E. inversion H; subst. lia. eauto.
Qed.

Lemma lookup_set_state : forall l u st v,
  lookup v (set_state u st l) =
  match lookup v l with
  | None => None
  | Some o => Some (if uid o =? u then mkobj (uid o) (oty o) (Some st) (omask o) (oval o) else o)
  end.
Proof.
  induction l as [|a l IH]; simpl; intros u st v. reflexivity.
  destruct (uid a =? u) eqn:E1; simpl; destruct (uid a =? v) eqn:E2; try rewrite E1; try reflexivity; apply IH.
Qed.

Lemma lookup_remove : forall l u v, lookup v (remove_uid u l) = if v =? u then None else lookup v l.
Proof.
  induction l as [|a l IH]; simpl; intros u v.
  - destruct (v =? u); reflexivity.
  - destruct (uid a =? u) eqn:E1; simpl.
    + rewrite IH. destruct (v =? u) eqn:E2. reflexivity.
      destruct (uid a =? v) eqn:E3. lia. reflexivity.
    + destruct (uid a =? v) eqn:E3.
      * destruct (v =? u) eqn:E2. lia. reflexivity.
      * apply IH.
Qed.

Lemma lookup_app : forall l n v,
  lookup v (l ++ [n]) = match lookup v l with Some o => Some o | None => if uid n =? v then Some n else None end.
Proof.
  induction l as [|a l IH]; simpl; intros n v. reflexivity.
  destruct (uid a =? v). reflexivity. apply IH.
Qed.

Lemma lookup_addv_old : forall s t m b v ob, lookup v (objs s) = Some ob -> lookup v (objs (add_objv s t m b)) = Some ob.
Proof. intros. unfold add_objv; simpl. rewrite lookup_app, H. reflexivity. Qed.

Lemma lookup_add_old : forall s t m v ob, lookup v (objs s) = Some ob -> lookup v (objs (add_obj s t m)) = Some ob.
Proof. intros. apply lookup_addv_old. assumption. Qed.

Lemma lookup_add_inv : forall s t m b v ob,
  lookup v (objs (add_objv s t m b)) = Some ob ->
  lookup v (objs s) = Some ob \/ (lookup v (objs s) = None /\ v = next_uid s /\ ob = new_objv (next_uid s) t m b).
Proof.
  intros s t m b v ob H. unfold add_objv in H; simpl in H. rewrite lookup_app in H.
  destruct (lookup v (objs s)) as [o|]. left; exact H.
  right. rewrite uid_new_obj in H. destruct (next_uid s =? v) eqn:E; [|discriminate].
  inversion H. repeat split. lia.
Qed.

(* ------------------------------------------------------------------ well-formed stores *)
Lemma wf_empty : forall n, wf (empty_store n).
Proof. intros n v ob H. simpl in H. discriminate. Qed.

Lemma wf_addv : forall s t m b, wf s -> wf (add_objv s t m b).
Proof.
  intros s t m b W v ob H. apply lookup_add_inv in H. destruct H as [H|[_ [E1 E2]]].
  - destruct (W _ _ H). split. unfold add_objv; simpl. lia. assumption.
  - subst. split. unfold add_objv; simpl. lia. apply ost_new_obj.
Qed.

Lemma wf_add : forall s t m, wf s -> wf (add_obj s t m).
Proof. intros. apply wf_addv. assumption. Qed.

Lemma wf_set_state : forall s u st, wf s -> st <> Destroyed -> st <> DestroyedCompromised ->
  wf (mkstore (set_state u st (objs s)) (next_uid s)).
Proof.
  intros s u st W N1 N2 v ob H. simpl in H. rewrite lookup_set_state in H.
  destruct (lookup v (objs s)) as [o|] eqn:L; [|discriminate].
  destruct (W _ _ L) as [B Lv]. inversion H; subst. simpl. split. assumption.
  destruct (uid o =? u); simpl. split; congruence. assumption.
Qed.

Lemma wf_remove : forall s u, wf s -> wf (mkstore (remove_uid u (objs s)) (next_uid s)).
Proof.
  intros s u W v ob H. simpl in H. rewrite lookup_remove in H. destruct (v =? u). discriminate.
  simpl. apply W. assumption.
Qed.

Lemma step_wf : forall cok s o, wf s -> wf (snd (step cok s o)).
Proof.
  intros cok s o W. destruct o; simpl.
  - apply wf_add; assumption.
  - apply wf_add, wf_add; assumption.
  - apply wf_add; assumption.
  - destruct (lookup u (objs s)) as [ob|]; [|exact W]. destruct (ost ob) as [st|]; [|exact W].
    destruct (negb (state_eqb st PreActive)). exact W. apply wf_set_state; [assumption|discriminate|discriminate].
  - destruct (lookup u (objs s)) as [ob|] eqn:L; [|exact W]. destruct (ost ob) as [st|] eqn:S; [|exact W].
    destruct (is_key_compromise c).
    + destruct (state_eqb st Destroyed) eqn:E.
      * apply state_eqb_eq in E. subst. destruct (W _ _ L) as [_ [N _]]. congruence.
      * apply wf_set_state; [assumption|discriminate|discriminate].
    + destruct (negb (state_eqb st Active)). exact W. apply wf_set_state; [assumption|discriminate|discriminate].
  - destruct (lookup u (objs s)) as [ob|]; [|exact W]. destruct (is_active ob). exact W. apply wf_remove; assumption.
  - exact W.
  - exact W.
  - exact W.
  - exact W.
  - destruct (lookup u (objs s)) as [ob|]; [|exact W].
    destruct (negb (alg || is_key (oty ob))). exact W. destruct (negb (oval ob)). exact W. destruct (negb data). exact W.
    destruct (negb (mac_kind_b (oty ob))). exact W.
    destruct (ost ob) as [st|]; [|exact W]. destruct (negb (state_eqb st Active)). exact W.
    destruct (negb (has_bit (omask ob) bMAC_GENERATE)). exact W. destruct cok; exact W.
  - destruct (derive_bases s us). exact W. destruct us. exact W. destruct (len <? 0). exact W. destruct (negb (len mod 8 =? 0)). exact W. destruct cok. apply wf_addv; assumption. exact W.
  - destruct (lookup u (objs s)) as [ob|]; [|exact W]. destruct (lookup w (objs s)) as [k|]; [|exact W].
    destruct (negb (otype_eqb (oty k) SymmetricKey)). exact W. destruct (negb (is_active k)). exact W.
    destruct (negb (has_bit (omask k) bWRAP_KEY)). exact W. destruct (negb (has_key_block (oty ob))). exact W. destruct cok; exact W.
  - destruct (lookup u (objs s)); exact W.
  - destruct (lookup u (objs s)); exact W.
  - exact W.
Qed.

Lemma exec_wf : forall h s, wf s -> wf (exec s h).
Proof.
  induction h as [|e h IH]; simpl; intros s W. exact W.
  apply IH. apply step_wf. exact W.
Qed.

Lemma typed_empty : forall n, wf_typed (empty_store n).
Proof. intros n v ob H. simpl in H. discriminate. Qed.

Lemma typed_addv : forall s t m b, wf_typed s -> wf_typed (add_objv s t m b).
Proof.
  intros s t m b W v ob H T. apply lookup_add_inv in H. destruct H as [H|[_ [_ E]]].
  - eapply W; eassumption.
  - subst ob. unfold new_objv in *. destruct t; simpl in *; try discriminate. reflexivity.
Qed.

Lemma typed_add : forall s t m, wf_typed s -> wf_typed (add_obj s t m).
Proof. intros. apply typed_addv. assumption. Qed.

Lemma typed_set_state : forall s u st tg st0, wf_typed s ->
  lookup u (objs s) = Some tg -> ost tg = Some st0 ->
  wf_typed (mkstore (set_state u st (objs s)) (next_uid s)).
Proof.
  intros s u st tg st0 W Lu S v ob H T. simpl in H. rewrite lookup_set_state in H.
  destruct (lookup v (objs s)) as [o|] eqn:L; [|discriminate]. inversion H; subst ob; clear H.
  destruct (uid o =? u) eqn:E.
  - simpl in T. assert (v = u) by (apply lookup_uid in L; lia). subst v. rewrite Lu in L. inversion L; subst o.
    rewrite (W _ _ Lu T) in S. discriminate.
  - eapply W; eassumption.
Qed.

Lemma typed_remove : forall s u, wf_typed s -> wf_typed (mkstore (remove_uid u (objs s)) (next_uid s)).
Proof.
  intros s u W v ob H. simpl in H. rewrite lookup_remove in H. destruct (v =? u). discriminate. apply W with (v := v). assumption.
Qed.

Lemma step_typed : forall cok s o, wf_typed s -> wf_typed (snd (step cok s o)).
Proof.
  intros cok s o W. destruct o; simpl.
  - apply typed_add; assumption.
  - apply typed_add, typed_add; assumption.
  - apply typed_add; assumption.
  - destruct (lookup u (objs s)) as [ob|] eqn:L; [|exact W]. destruct (ost ob) as [st|] eqn:S; [|exact W].
    destruct (negb (state_eqb st PreActive)). exact W. eapply typed_set_state; eassumption.
  - destruct (lookup u (objs s)) as [ob|] eqn:L; [|exact W]. destruct (ost ob) as [st|] eqn:S; [|exact W].
    destruct (is_key_compromise c).
    + destruct (state_eqb st Destroyed); eapply typed_set_state; eassumption.
    + destruct (negb (state_eqb st Active)). exact W. eapply typed_set_state; eassumption.
  - destruct (lookup u (objs s)) as [ob|]; [|exact W]. destruct (is_active ob). exact W. apply typed_remove; assumption.
  - exact W.
  - exact W.
  - exact W.
  - exact W.
  - destruct (lookup u (objs s)) as [ob|]; [|exact W].
    destruct (negb (alg || is_key (oty ob))). exact W. destruct (negb (oval ob)). exact W. destruct (negb data). exact W.
    destruct (negb (mac_kind_b (oty ob))). exact W.
    destruct (ost ob) as [st|]; [|exact W]. destruct (negb (state_eqb st Active)). exact W.
    destruct (negb (has_bit (omask ob) bMAC_GENERATE)). exact W. destruct cok; exact W.
  - destruct (derive_bases s us). exact W. destruct us. exact W. destruct (len <? 0). exact W. destruct (negb (len mod 8 =? 0)). exact W. destruct cok. apply typed_addv; assumption. exact W.
  - destruct (lookup u (objs s)) as [ob|]; [|exact W]. destruct (lookup w (objs s)) as [k|]; [|exact W].
    destruct (negb (otype_eqb (oty k) SymmetricKey)). exact W. destruct (negb (is_active k)). exact W.
    destruct (negb (has_bit (omask k) bWRAP_KEY)). exact W. destruct (negb (has_key_block (oty ob))). exact W. destruct cok; exact W.
  - destruct (lookup u (objs s)); exact W.
  - destruct (lookup u (objs s)); exact W.
  - exact W.
Qed.

Lemma exec_typed : forall h s, wf_typed s -> wf_typed (exec s h).
Proof.
  induction h as [|e h IH]; simpl; intros s W. exact W.
  apply IH. apply step_typed. exact W.
Qed.

Lemma exec_app : forall h1 h2 s, exec s (h1 ++ h2) = exec (exec s h1) h2.
Proof. intros. unfold exec. apply fold_left_app. Qed.

(* ------------------------------------------------------------------ what one step does to one object *)
(* the part of [step] that does not touch the store *)
Lemma use_key_store : forall cok s u p t b, snd (use_key cok s u p t b, s) = s.
Proof. reflexivity. Qed.

Definition kept (o : op) (out : outcome) (v : Z) (ob : obj) (s' : store) : Prop :=
  lookup v (objs s') = None \/
  exists ob', lookup v (objs s') = Some ob' /\ oty ob' = oty ob /\ omask ob' = omask ob /\
              transition o out v (ost ob) (ost ob').

Lemma kept_same : forall o out v ob s, lookup v (objs s) = Some ob -> kept o out v ob s.
Proof. intros. right. exists ob. repeat split; try assumption. apply T_same. Qed.

Lemma kept_addv : forall o out v ob s t m b, lookup v (objs s) = Some ob -> kept o out v ob (add_objv s t m b).
Proof. intros. right. exists ob. repeat split. apply lookup_addv_old; assumption. apply T_same. Qed.

Lemma kept_add : forall o out v ob s t m, lookup v (objs s) = Some ob -> kept o out v ob (add_obj s t m).
Proof. intros. apply kept_addv. assumption. Qed.

Lemma step_kept : forall cok s o out s' v ob,
  step cok s o = (out, s') -> lookup v (objs s) = Some ob -> kept o out v ob s'.
Proof.
  intros cok s o out s' v ob H L.
  destruct o; simpl in H.
  - inversion H; subst. apply kept_add; assumption.
  - inversion H; subst. apply kept_add. apply lookup_add_old. assumption.
  - inversion H; subst. apply kept_add; assumption.
  - (* Activate *)
    destruct (lookup u (objs s)) as [tg|] eqn:Lu; [|inversion H; subst; apply kept_same; assumption].
    destruct (ost tg) as [st|] eqn:St; [|inversion H; subst; apply kept_same; assumption].
    destruct (negb (state_eqb st PreActive)) eqn:G; [inversion H; subst; apply kept_same; assumption|].
    inversion H; subst; clear H. right. simpl. rewrite lookup_set_state, L.
    destruct (uid ob =? u) eqn:E.
    + eexists. split. reflexivity. simpl. repeat split.
      assert (v = u) by (apply lookup_uid in L; lia). subst v. rewrite Lu in L. inversion L; subst tg.
      rewrite St. apply negb_false_iff, state_eqb_eq in G. subst st. apply T_activate; reflexivity.
    + exists ob. repeat split. apply T_same.
  - (* Revoke *)
    destruct (lookup u (objs s)) as [tg|] eqn:Lu; [|inversion H; subst; apply kept_same; assumption].
    destruct (ost tg) as [st|] eqn:St; [|inversion H; subst; apply kept_same; assumption].
    destruct (is_key_compromise c) eqn:C.
    + assert (c = KeyCompromise) by (destruct c; simpl in C; try discriminate; reflexivity). subst c.
      destruct (state_eqb st Destroyed) eqn:D; inversion H; subst; clear H; right; simpl; rewrite lookup_set_state, L;
        (destruct (uid ob =? u) eqn:E;
         [ eexists; split; [reflexivity|]; simpl; repeat split;
           assert (v = u) by (apply lookup_uid in L; lia); subst v; rewrite Lu in L; inversion L; subst tg; rewrite St
         | exists ob; repeat split; apply T_same ]).
      * apply state_eqb_eq in D. subst st. apply T_destroyed_compromise; reflexivity.
      * apply state_eqb_neq in D. apply T_compromise; try reflexivity. assumption.
    + destruct (negb (state_eqb st Active)) eqn:G; [inversion H; subst; apply kept_same; assumption|].
      inversion H; subst; clear H. right. simpl. rewrite lookup_set_state, L.
      destruct (uid ob =? u) eqn:E.
      * eexists. split. reflexivity. simpl. repeat split.
        assert (v = u) by (apply lookup_uid in L; lia). subst v. rewrite Lu in L. inversion L; subst tg.
        rewrite St. apply negb_false_iff, state_eqb_eq in G. subst st. apply T_deactivate with (c := c); auto.
      * exists ob. repeat split. apply T_same.
  - (* Destroy *)
    destruct (lookup u (objs s)) as [tg|] eqn:Lu; [|inversion H; subst; apply kept_same; assumption].
    destruct (is_active tg); inversion H; subst; clear H. apply kept_same; assumption.
    simpl. unfold kept. simpl. rewrite lookup_remove. destruct (v =? u). left; reflexivity.
    right. exists ob. repeat split. assumption. apply T_same.
  - inversion H; subst. apply kept_same; assumption.
  - inversion H; subst. apply kept_same; assumption.
  - inversion H; subst. apply kept_same; assumption.
  - inversion H; subst. apply kept_same; assumption.
  - (* MAC *)
    destruct (lookup u (objs s)) as [tg|]; [|inversion H; subst; apply kept_same; assumption].
    destruct (negb (alg || is_key (oty tg))); [inversion H; subst; apply kept_same; assumption|].
    destruct (negb (oval tg)); [inversion H; subst; apply kept_same; assumption|].
    destruct (negb data); [inversion H; subst; apply kept_same; assumption|].
    destruct (negb (mac_kind_b (oty tg))); [inversion H; subst; apply kept_same; assumption|].
    destruct (ost tg) as [st|]; [|inversion H; subst; apply kept_same; assumption].
    destruct (negb (state_eqb st Active)); [inversion H; subst; apply kept_same; assumption|].
    destruct (negb (has_bit (omask tg) bMAC_GENERATE)); [inversion H; subst; apply kept_same; assumption|].
    destruct cok; inversion H; subst; apply kept_same; assumption.
  - (* DeriveKey *)
    destruct (derive_bases s us); [inversion H; subst; apply kept_same; assumption|].
    destruct us; [inversion H; subst; apply kept_same; assumption|].
    destruct (len <? 0); [inversion H; subst; apply kept_same; assumption|].
    destruct (negb (len mod 8 =? 0)); [inversion H; subst; apply kept_same; assumption|].
    destruct cok; inversion H; subst. apply kept_addv; assumption. apply kept_same; assumption.
  - (* GetWrap *)
    destruct (lookup u (objs s)) as [tg|]; [|inversion H; subst; apply kept_same; assumption].
    destruct (lookup w (objs s)) as [k|]; [|inversion H; subst; apply kept_same; assumption].
    destruct (negb (otype_eqb (oty k) SymmetricKey)); [inversion H; subst; apply kept_same; assumption|].
    destruct (negb (is_active k)); [inversion H; subst; apply kept_same; assumption|].
    destruct (negb (has_bit (omask k) bWRAP_KEY)); [inversion H; subst; apply kept_same; assumption|].
    destruct (negb (has_key_block (oty tg))); [inversion H; subst; apply kept_same; assumption|].
    destruct cok; inversion H; subst; apply kept_same; assumption.
  - destruct (lookup u (objs s)); inversion H; subst; apply kept_same; assumption.
  - destruct (lookup u (objs s)); inversion H; subst; apply kept_same; assumption.
  - inversion H; subst; apply kept_same; assumption.
Qed.

(* ------------------------------------------------------------------ C04 clause 1: transitions *)
Theorem step_transition_exact : forall cok s o out s' v ob ob',
  step cok s o = (out, s') ->
  lookup v (objs s) = Some ob -> lookup v (objs s') = Some ob' ->
  oty ob' = oty ob /\ omask ob' = omask ob /\ transition o out v (ost ob) (ost ob').
Proof.
  intros cok s o out s' v ob ob' H L L'.
  destruct (step_kept _ _ _ _ _ _ _ H L) as [N|[x [Lx [A [B C]]]]].
  - rewrite N in L'. discriminate.
  - rewrite Lx in L'. inversion L'; subst. auto.
Qed.

Lemma transition_property_move : forall o out v a b,
  a <> Some Destroyed -> transition o out v a b -> property_move o v a b.
Proof.
  intros o out v a b ND T. destruct T.
  - left. reflexivity.
  - right. left. auto.
  - right. right. left. exists c. auto.
  - right. right. right. exists KeyCompromise. repeat split; try assumption. left; reflexivity.
  - congruence.
Qed.

(* the statement of DESIGN.md / the property text, for every store the engine can be in *)
Theorem step_transition : forall cok s o out s' v ob ob',
  wf s -> step cok s o = (out, s') ->
  lookup v (objs s) = Some ob -> lookup v (objs s') = Some ob' ->
  property_move o v (ost ob) (ost ob').
Proof.
  intros cok s o out s' v ob ob' W H L L'.
  destruct (step_transition_exact _ _ _ _ _ _ _ _ H L L') as [_ [_ T]].
  apply transition_property_move with (out := out); [|assumption].
  destruct (W _ _ L) as [_ [N _]]. assumption.
Qed.

(* type and mask of a stored object never change *)
Theorem step_type_mask_fixed : forall cok s o out s' v ob ob',
  step cok s o = (out, s') ->
  lookup v (objs s) = Some ob -> lookup v (objs s') = Some ob' ->
  oty ob' = oty ob /\ omask ob' = omask ob.
Proof.
  intros. destruct (step_transition_exact _ _ _ _ _ _ _ _ H H0 H1) as [A [B _]]. auto.
Qed.

(* ------------------------------------------------------------------ C04 clause 2: only Activate / Revoke change the state *)
Theorem only_activate_revoke_change_state : forall cok s o out s' v ob ob',
  step cok s o = (out, s') ->
  lookup v (objs s) = Some ob -> lookup v (objs s') = Some ob' ->
  ost ob' <> ost ob ->
  out = OK /\ (o = Activate v \/ exists c, o = Revoke v c).
Proof.
  intros cok s o out s' v ob ob' H L L' D.
  destruct (step_transition_exact _ _ _ _ _ _ _ _ H L L') as [_ [_ T]].
  inversion T; subst.
  - exfalso. apply D. congruence.
  - auto.
  - split. reflexivity. right. eauto.
  - split. reflexivity. right. eauto.
  - split. reflexivity. right. eauto.
Qed.

Lemma option_state_dec : forall a b : option state, {a = b} + {a <> b}.
Proof. decide equality. decide equality. Qed.

(* every other operation leaves every State alone, whatever its outcome *)
Corollary other_operations_keep_states : forall cok s o out s' v ob ob',
  step cok s o = (out, s') ->
  (forall u, o <> Activate u) -> (forall u c, o <> Revoke u c) ->
  lookup v (objs s) = Some ob -> lookup v (objs s') = Some ob' -> ost ob' = ost ob.
Proof.
  intros cok s o out s' v ob ob' H NA NR L L'.
  destruct (option_state_dec (ost ob') (ost ob)) as [E|D]. exact E.
  destruct (only_activate_revoke_change_state _ _ _ _ _ _ _ _ H L L' D) as [_ [A|[c R]]].
  - exfalso. apply (NA v). exact A.
  - exfalso. apply (NR v c). exact R.
Qed.

(* ------------------------------------------------------------------ C04 clause 1b: monotone along every history *)
Lemma transition_rank : forall o out v a b,
  live_state a -> transition o out v a b -> orank a <= orank b.
Proof.
  intros o out v a b [N1 N2] T. destruct T; simpl; try lia.
  destruct st; simpl; try lia; congruence.
Qed.

Lemma step_next_uid : forall cok s o, next_uid s <= next_uid (snd (step cok s o)).
Proof.
  intros cok s o. destruct o; simpl; try lia.
  - destruct (lookup u (objs s)) as [ob|]; simpl; [|lia]. destruct (ost ob) as [st|]; simpl; [|lia].
    destruct (negb (state_eqb st PreActive)); simpl; lia.
  - destruct (lookup u (objs s)) as [ob|]; simpl; [|lia]. destruct (ost ob) as [st|]; simpl; [|lia].
    destruct (is_key_compromise c). destruct (state_eqb st Destroyed); simpl; lia.
    destruct (negb (state_eqb st Active)); simpl; lia.
  - destruct (lookup u (objs s)) as [ob|]; simpl; [|lia]. destruct (is_active ob); simpl; lia.
  - destruct (lookup u (objs s)) as [ob|]; simpl; [|lia].
    destruct (negb (alg || is_key (oty ob))); simpl; [lia|]. destruct (negb (oval ob)); simpl; [lia|]. destruct (negb data); simpl; [lia|].
    destruct (negb (mac_kind_b (oty ob))); simpl; [lia|].
    destruct (ost ob) as [st|]; simpl; [|lia]. destruct (negb (state_eqb st Active)); simpl; [lia|].
    destruct (negb (has_bit (omask ob) bMAC_GENERATE)); simpl; [lia|]. destruct cok; simpl; lia.
  - destruct (derive_bases s us); simpl; [lia|]. destruct us; simpl; [lia|]. destruct (len <? 0); simpl; [lia|].
    destruct (negb (len mod 8 =? 0)); simpl; [lia|]. destruct cok; simpl; lia.
  - destruct (lookup u (objs s)) as [ob|]; simpl; [|lia]. destruct (lookup w (objs s)) as [k|]; simpl; [|lia].
    destruct (negb (otype_eqb (oty k) SymmetricKey)); simpl; [lia|]. destruct (negb (is_active k)); simpl; [lia|].
    destruct (negb (has_bit (omask k) bWRAP_KEY)); simpl; [lia|].
    destruct (negb (has_key_block (oty ob))); simpl; [lia|]. destruct cok; simpl; lia.
  - destruct (lookup u (objs s)); simpl; lia.
  - destruct (lookup u (objs s)); simpl; lia.
Qed.

(* an identifier that is below the counter and absent is never present again (needed so that "the object u" is
   one object along a history; the full statement about identifiers is property C07) *)
Lemma step_dead : forall cok s o v,
  lookup v (objs s) = None -> v < next_uid s -> lookup v (objs (snd (step cok s o))) = None.
Proof.
  intros cok s o v L B.
  assert (A : forall s0 t m b, lookup v (objs s0) = None -> v < next_uid s0 -> lookup v (objs (add_objv s0 t m b)) = None).
  { intros s0 t m b L0 B0. unfold add_objv; simpl. rewrite lookup_app, L0, uid_new_obj. destruct (next_uid s0 =? v) eqn:E. lia. reflexivity. }
  destruct o; cbn [step snd fst]; try assumption.
  - apply A; assumption.
  - apply A. apply A; assumption. unfold add_obj, add_objv; simpl. lia.
  - apply A; assumption.
  - destruct (lookup u (objs s)) as [ob|]; simpl; [|assumption]. destruct (ost ob) as [st|]; simpl; [|assumption].
    destruct (negb (state_eqb st PreActive)); simpl. assumption. rewrite lookup_set_state, L. reflexivity.
  - destruct (lookup u (objs s)) as [ob|]; simpl; [|assumption]. destruct (ost ob) as [st|]; simpl; [|assumption].
    destruct (is_key_compromise c). destruct (state_eqb st Destroyed); simpl; rewrite lookup_set_state, L; reflexivity.
    destruct (negb (state_eqb st Active)); simpl. assumption. rewrite lookup_set_state, L. reflexivity.
  - destruct (lookup u (objs s)) as [ob|]; simpl; [|assumption]. destruct (is_active ob); simpl. assumption.
    rewrite lookup_remove, L. destruct (v =? u); reflexivity.
  - destruct (lookup u (objs s)) as [ob|]; simpl; [|assumption].
    destruct (negb (alg || is_key (oty ob))); simpl; [assumption|]. destruct (negb (oval ob)); simpl; [assumption|]. destruct (negb data); simpl; [assumption|].
    destruct (negb (mac_kind_b (oty ob))); simpl; [assumption|].
    destruct (ost ob) as [st|]; simpl; [|assumption]. destruct (negb (state_eqb st Active)); simpl; [assumption|].
    destruct (negb (has_bit (omask ob) bMAC_GENERATE)); simpl; [assumption|]. destruct cok; simpl; assumption.
  - destruct (derive_bases s us); simpl; [assumption|]. destruct us; simpl; [assumption|].
    destruct (len <? 0); simpl; [assumption|]. destruct (negb (len mod 8 =? 0)); simpl; [assumption|].
    destruct cok; simpl. apply A; assumption. assumption.
  - destruct (lookup u (objs s)) as [ob|]; simpl; [|assumption]. destruct (lookup w (objs s)) as [k|]; simpl; [|assumption].
    destruct (negb (otype_eqb (oty k) SymmetricKey)); simpl; [assumption|]. destruct (negb (is_active k)); simpl; [assumption|].
    destruct (negb (has_bit (omask k) bWRAP_KEY)); simpl; [assumption|].
    destruct (negb (has_key_block (oty ob))); simpl; [assumption|]. destruct cok; simpl; assumption.
  - destruct (lookup u (objs s)); simpl; assumption.
  - destruct (lookup u (objs s)); simpl; assumption.
Qed.

Lemma exec_dead : forall h s v,
  lookup v (objs s) = None -> v < next_uid s -> lookup v (objs (exec s h)) = None.
Proof.
  induction h as [|e h IH]; simpl; intros s v L B. assumption.
  apply IH. apply step_dead; assumption.
  pose proof (step_next_uid (snd e) s (fst e)). lia.
Qed.

(* along any history, from any store the engine can be in, the rank of an object never decreases, and its type and
   usage mask stay what they were *)
Theorem monotone_from : forall h s v ob ob',
  wf s -> lookup v (objs s) = Some ob -> lookup v (objs (exec s h)) = Some ob' ->
  orank (ost ob) <= orank (ost ob') /\ oty ob' = oty ob /\ omask ob' = omask ob.
Proof.
  induction h as [|e h IH]; simpl; intros s v ob ob' W L L'.
  - rewrite L in L'. inversion L'; subst. repeat split; lia.
  - destruct (step (snd e) s (fst e)) as [out s1] eqn:H. simpl in L'.
    assert (W1 : wf s1). { pose proof (step_wf (snd e) s (fst e) W) as X. rewrite H in X. exact X. }
    destruct (step_kept _ _ _ _ _ _ _ H L) as [N|[x [Lx [A [B T]]]]].
    + (* destroyed by this step: never present again *)
      destruct (W _ _ L) as [Bd _].
      pose proof (step_next_uid (snd e) s (fst e)) as Nx. rewrite H in Nx. simpl in Nx.
      rewrite (exec_dead h s1 v N) in L' by lia. discriminate.
    + destruct (IH s1 v x ob' W1 Lx L') as [R [A' B']].
      destruct (W _ _ L) as [_ Lv].
      pose proof (transition_rank _ _ _ _ _ Lv T).
      repeat split; try lia; congruence.
Qed.

(* the statement of the property: for every history from the empty store (any first identifier), split anywhere *)
Theorem monotone : forall first h1 h2 v ob ob',
  lookup v (objs (exec (empty_store first) h1)) = Some ob ->
  lookup v (objs (exec (empty_store first) (h1 ++ h2))) = Some ob' ->
  orank (ost ob) <= orank (ost ob').
Proof.
  intros first h1 h2 v ob ob' L L'. rewrite exec_app in L'.
  apply (monotone_from h2 (exec (empty_store first) h1) v ob ob'); try assumption.
  apply exec_wf, wf_empty.
Qed.

(* no stored object is ever in a Destroyed state, and its state is never lower than Pre-Active *)
Theorem reachable_states : forall first h v ob,
  lookup v (objs (exec (empty_store first) h)) = Some ob ->
  ost ob = None \/ ost ob = Some PreActive \/ ost ob = Some Active \/ ost ob = Some Deactivated \/ ost ob = Some Compromised.
Proof.
  intros first h v ob L.
  destruct (exec_wf h (empty_store first) (wf_empty first) _ _ L) as [_ [N1 N2]].
  destruct (ost ob) as [st|]; [|auto]. destruct st; auto; congruence.
Qed.

(* ------------------------------------------------------------------ C04 clause 3: cryptographic use is gated *)
(* "entered": one of the gated CryptographyEngine methods was called with the object's key material, whatever it
   then returned.  Success is a special case. *)

Lemma use_key_gated : forall cok s u p t b r,
  use_key cok s u p t b = r -> entered r ->
  p = true /\ exists ob, lookup u (objs s) = Some ob /\ oty ob = t /\ ost ob = Some Active /\ has_bit (omask ob) b = true.
Proof.
  intros cok s u p t b r H E. unfold use_key in H.
  destruct (lookup u (objs s)) as [ob|]; [|subst; destruct E as [E|[E|E]]; discriminate].
  destruct (negb p) eqn:G1; [subst; destruct E as [E|[E|E]]; discriminate|].
  destruct (negb (otype_eqb (oty ob) t)) eqn:G2; [subst; destruct E as [E|[E|E]]; discriminate|].
  destruct (negb (is_active ob)) eqn:G3; [subst; destruct E as [E|[E|E]]; discriminate|].
  destruct (negb (has_bit (omask ob) b)) eqn:G4; [subst; destruct E as [E|[E|E]]; discriminate|].
  apply negb_false_iff in G1, G2, G3, G4. split. assumption.
  exists ob. repeat split; try assumption. apply otype_eqb_eq; assumption. apply is_active_iff; assumption.
Qed.


Theorem encrypt_gated : forall cok s u p r s',
  step cok s (Encrypt u p) = (r, s') -> entered r -> s' = s /\ usable s u SymmetricKey bENCRYPT.
Proof. intros cok s u p r s' H E. simpl in H. inversion H; subst. split. reflexivity. eapply use_key_gated; eauto. Qed.

Theorem decrypt_gated : forall cok s u p r s',
  step cok s (Decrypt u p) = (r, s') -> entered r -> s' = s /\ usable s u SymmetricKey bDECRYPT.
Proof. intros cok s u p r s' H E. simpl in H. inversion H; subst. split. reflexivity. eapply use_key_gated; eauto. Qed.

Theorem sign_gated : forall cok s u p r s',
  step cok s (Sign u p) = (r, s') -> entered r -> s' = s /\ usable s u PrivateKey bSIGN.
Proof. intros cok s u p r s' H E. simpl in H. inversion H; subst. split. reflexivity. eapply use_key_gated; eauto. Qed.

Theorem signature_verify_gated : forall cok s u p r s',
  step cok s (SignatureVerify u p) = (r, s') -> entered r -> s' = s /\ usable s u PublicKey bVERIFY.
Proof. intros cok s u p r s' H E. simpl in H. inversion H; subst. split. reflexivity. eapply use_key_gated; eauto. Qed.

Lemma mac_kind_b_iff : forall t, mac_kind_b t = true <-> mac_kind t.
Proof. intro t. unfold mac_kind. destruct t; simpl; split; intro H; auto; try discriminate; destruct H; discriminate. Qed.

(* MAC: symmetric key or secret data, Active, MAC Generate bit *)
Theorem mac_gated : forall cok s u alg data r s',
  step cok s (MAC u alg data) = (r, s') -> entered r ->
  s' = s /\ exists ob, lookup u (objs s) = Some ob /\ mac_kind (oty ob) /\ ost ob = Some Active
                       /\ has_bit (omask ob) bMAC_GENERATE = true.
Proof.
  intros cok s u alg data r s' H E. simpl in H.
  destruct (lookup u (objs s)) as [ob|]; [|inversion H; subst; destruct E as [E|[E|E]]; discriminate].
  destruct (negb (alg || is_key (oty ob))); [inversion H; subst; destruct E as [E|[E|E]]; discriminate|].
  destruct (negb (oval ob)) eqn:GV; [inversion H; subst; destruct E as [E|[E|E]]; discriminate|].
  destruct (negb data); [inversion H; subst; destruct E as [E|[E|E]]; discriminate|].
  destruct (negb (mac_kind_b (oty ob))) eqn:G0; [inversion H; subst; destruct E as [E|[E|E]]; discriminate|].
  destruct (ost ob) as [st|] eqn:St; [|inversion H; subst; destruct E as [E|[E|E]]; discriminate].
  destruct (negb (state_eqb st Active)) eqn:G1; [inversion H; subst; destruct E as [E|[E|E]]; discriminate|].
  destruct (negb (has_bit (omask ob) bMAC_GENERATE)) eqn:G2; [inversion H; subst; destruct E as [E|[E|E]]; discriminate|].
  apply negb_false_iff in G0, G1, G2. apply state_eqb_eq in G1. subst st. apply mac_kind_b_iff in G0.
  split. destruct cok; inversion H; reflexivity.
  exists ob. repeat split; assumption.
Qed.

(* the "right kind" clause for MAC, as the property demands it (refuted before fix d24c06a, which added the
   object-type guard to _process_mac) *)
Theorem mac_right_kind : forall cok s u alg data s',
  step cok s (MAC u alg data) = (OK, s') ->
  exists ob, lookup u (objs s) = Some ob /\ mac_kind (oty ob).
Proof.
  intros cok s u alg data s' H.
  destruct (mac_gated _ _ _ _ _ _ _ H (or_introl eq_refl)) as [_ [ob [L [K _]]]].
  exists ob. auto.
Qed.

(* DeriveKey: every base object exists, is of a derivable type and carries the DeriveKey bit; there is at least one *)
Lemma derive_bases_none : forall s us, derive_bases s us = None ->
  forall u, In u us -> exists ob, lookup u (objs s) = Some ob /\ derivable (oty ob) = true /\ has_bit (omask ob) bDERIVE_KEY = true.
Proof.
  induction us as [|a us IH]; simpl; intros H u I. contradiction.
  destruct (lookup a (objs s)) as [ob|] eqn:L; [|discriminate].
  destruct (negb (derivable (oty ob))) eqn:G1; [discriminate|].
  destruct (negb (has_bit (omask ob) bDERIVE_KEY)) eqn:G2; [discriminate|].
  apply negb_false_iff in G1, G2.
  destruct I as [I|I]. subst a. exists ob. auto. apply IH; assumption.
Qed.

Lemma derive_bases_not_entered : forall s us x, derive_bases s us = Some x -> ~ entered x.
Proof.
  induction us as [|a us IH]; simpl; intros x D E. discriminate.
  destruct (lookup a (objs s)) as [ob|]; [|inversion D; subst; destruct E as [E|[E|E]]; discriminate].
  destruct (negb (derivable (oty ob))); [inversion D; subst; destruct E as [E|[E|E]]; discriminate|].
  destruct (negb (has_bit (omask ob) bDERIVE_KEY)); [inversion D; subst; destruct E as [E|[E|E]]; discriminate|].
  eapply IH; eassumption.
Qed.

Theorem derive_key_gated : forall cok s us m len r s',
  step cok s (DeriveKey us m len) = (r, s') -> entered r ->
  us <> [] /\ 0 <= len /\ len mod 8 = 0 /\
  (forall u, In u us -> exists ob, lookup u (objs s) = Some ob /\ derivable (oty ob) = true /\ has_bit (omask ob) bDERIVE_KEY = true) /\
  (r = OK -> s' = add_objv s SymmetricKey m (negb (len =? 0))) /\ (r <> OK -> s' = s).
Proof.
  intros cok s us m len r s' H E. simpl in H.
  destruct (derive_bases s us) as [x|] eqn:D.
  - inversion H; subst. exfalso. eapply derive_bases_not_entered; eassumption.
  - destruct us as [|a us]. inversion H; subst. destruct E as [E|[E|E]]; discriminate.
    destruct (len <? 0) eqn:G1; [inversion H; subst; destruct E as [E|[E|E]]; discriminate|].
    destruct (negb (len mod 8 =? 0)) eqn:G2; [inversion H; subst; destruct E as [E|[E|E]]; discriminate|].
    apply negb_false_iff in G2.
    split. discriminate. split. lia. split. lia. split. apply derive_bases_none; assumption.
    destruct cok; inversion H; subst; split; intro X; try reflexivity; try discriminate; congruence.
Qed.

(* Get with a key-wrapping specification: the wrapping key is an Active symmetric key with the WrapKey bit (and the
   wrapped object is a key or secret data) *)
Theorem get_wrap_gated : forall cok s u w r s',
  step cok s (GetWrap u w) = (r, s') -> entered r ->
  s' = s /\ usable s w SymmetricKey bWRAP_KEY /\ exists ob, lookup u (objs s) = Some ob /\ has_key_block (oty ob) = true.
Proof.
  intros cok s u w r s' H E. simpl in H.
  destruct (lookup u (objs s)) as [ob|]; [|inversion H; subst; destruct E as [E|[E|E]]; discriminate].
  destruct (lookup w (objs s)) as [k|] eqn:L; [|inversion H; subst; destruct E as [E|[E|E]]; discriminate].
  destruct (negb (otype_eqb (oty k) SymmetricKey)) eqn:G1; [inversion H; subst; destruct E as [E|[E|E]]; discriminate|].
  destruct (negb (is_active k)) eqn:G2; [inversion H; subst; destruct E as [E|[E|E]]; discriminate|].
  destruct (negb (has_bit (omask k) bWRAP_KEY)) eqn:G3; [inversion H; subst; destruct E as [E|[E|E]]; discriminate|].
  destruct (negb (has_key_block (oty ob))) eqn:G4; [inversion H; subst; destruct E as [E|[E|E]]; discriminate|].
  apply negb_false_iff in G1, G2, G3, G4.
  split. destruct cok; inversion H; reflexivity.
  split. exists k. repeat split; try assumption. apply otype_eqb_eq; assumption. apply is_active_iff; assumption.
  exists ob. auto.
Qed.

(* every gated operation: if the crypto engine is not entered nothing is created; no operation other than the
   creating ones and a successful DeriveKey adds an object (stated through crypto_called for the correspondence) *)
Lemma crypto_called_entered : forall o r, crypto_called o r = true -> entered r.
Proof. intros o r H. unfold crypto_called in H. apply andb_true_iff in H. destruct H as [_ H]. unfold entered. destruct r; auto; discriminate. Qed.

(* all seven in one statement: the crypto engine is entered only through the gate; gated operations change the
   store only by the object a successful DeriveKey adds *)
Theorem crypto_engine_gated : forall cok s o r s',
  step cok s o = (r, s') -> crypto_called o r = true -> gate s o.
Proof.
  intros cok s o r s' H C. pose proof (crypto_called_entered _ _ C) as E.
  destruct o; try (simpl in C; discriminate); unfold gate.
  - eapply encrypt_gated; eassumption.
  - eapply decrypt_gated; eassumption.
  - eapply sign_gated; eassumption.
  - eapply signature_verify_gated; eassumption.
  - eapply mac_gated; eassumption.
  - destruct (derive_key_gated _ _ _ _ _ _ _ H E) as [A [_ [_ [B _]]]]. split; assumption.
  - destruct (get_wrap_gated _ _ _ _ _ _ H E) as [_ [U _]]. exact U.
Qed.

Theorem crypto_gated : forall cok s o s', step cok s o = (OK, s') -> gate s o.
Proof.
  intros cok s o s' H. destruct (gated o) eqn:G.
  - eapply crypto_engine_gated. eassumption. unfold crypto_called. rewrite G. reflexivity.
  - destruct o; simpl in G; try discriminate; exact I.
Qed.

Theorem gated_store_unchanged : forall cok s o r s',
  step cok s o = (r, s') -> gated o = true ->
  s' = s \/ (exists us m len, o = DeriveKey us m len /\ r = OK /\ s' = add_objv s SymmetricKey m (negb (len =? 0))).
Proof.
  intros cok s o r s' H G. destruct o; simpl in G; try discriminate; simpl in H.
  - inversion H. auto.
  - inversion H. auto.
  - inversion H. auto.
  - inversion H. auto.
  - destruct (lookup u (objs s)) as [ob|]; [|inversion H; auto].
    destruct (negb (alg || is_key (oty ob))); [inversion H; auto|]. destruct (negb (oval ob)); [inversion H; auto|]. destruct (negb data); [inversion H; auto|].
    destruct (negb (mac_kind_b (oty ob))); [inversion H; auto|].
    destruct (ost ob) as [st|]; [|inversion H; auto]. destruct (negb (state_eqb st Active)); [inversion H; auto|].
    destruct (negb (has_bit (omask ob) bMAC_GENERATE)); [inversion H; auto|]. destruct cok; inversion H; auto.
  - destruct (derive_bases s us); [inversion H; auto|]. destruct us; [inversion H; auto|].
    destruct (len <? 0); [inversion H; auto|]. destruct (negb (len mod 8 =? 0)); [inversion H; auto|].
    destruct cok; inversion H; auto. right. do 3 eexists. repeat split; reflexivity.
  - destruct (lookup u (objs s)) as [ob|]; [|inversion H; auto]. destruct (lookup w (objs s)) as [k|]; [|inversion H; auto].
    destruct (negb (otype_eqb (oty k) SymmetricKey)); [inversion H; auto|]. destruct (negb (is_active k)); [inversion H; auto|].
    destruct (negb (has_bit (omask k) bWRAP_KEY)); [inversion H; auto|].
    destruct (negb (has_key_block (oty ob))); [inversion H; auto|]. destruct cok; inversion H; auto.
Qed.

(* the same over histories: at whatever point of whatever history, a use that goes ahead went through the gate *)
Theorem crypto_gated_history : forall first h e r s',
  step (snd e) (exec (empty_store first) h) (fst e) = (r, s') -> crypto_called (fst e) r = true ->
  gate (exec (empty_store first) h) (fst e).
Proof. intros. eapply crypto_engine_gated; eassumption. Qed.

(* ------------------------------------------------------------------ C04 clause 4: Destroy is refused for an Active object *)
Theorem destroy_refused_when_active : forall cok s u ob,
  lookup u (objs s) = Some ob -> ost ob = Some Active ->
  step cok s (Destroy u) = (Refused RState PermissionDenied, s).
Proof.
  intros cok s u ob L A. simpl. rewrite L. apply is_active_iff in A. rewrite A. reflexivity.
Qed.

(* conversely a successful Destroy removed an object that was not Active, and nothing else *)
Theorem destroy_ok_inv : forall cok s u s',
  step cok s (Destroy u) = (OK, s') ->
  (exists ob, lookup u (objs s) = Some ob /\ ost ob <> Some Active) /\
  lookup u (objs s') = None /\ (forall v, v <> u -> lookup v (objs s') = lookup v (objs s)).
Proof.
  intros cok s u s' H. simpl in H.
  destruct (lookup u (objs s)) as [ob|] eqn:L; [|discriminate].
  destruct (is_active ob) eqn:A; [discriminate|]. inversion H; subst; clear H. simpl.
  split. exists ob. split. reflexivity. intro X. apply is_active_iff in X. congruence.
  split. rewrite lookup_remove, Z.eqb_refl. reflexivity.
  intros v N. rewrite lookup_remove. destruct (v =? u) eqn:E. lia. reflexivity.
Qed.

(* ------------------------------------------------------------------ converses: the gates are also sufficient *)
Lemma otype_eqb_refl : forall t, otype_eqb t t = true.
Proof. destruct t; reflexivity. Qed.

Theorem use_key_ok_iff : forall cok s u p t b,
  use_key cok s u p t b = OK <-> cok = true /\ p = true /\ usable s u t b.
Proof.
  intros cok s u p t b. split.
  - intro H. destruct (use_key_gated cok s u p t b OK H (or_introl eq_refl)) as [P U].
    split; [|split; assumption].
    unfold use_key in H. destruct (lookup u (objs s)) as [ob|]; [|discriminate].
    destruct (negb p); [discriminate|]. destruct (negb (otype_eqb (oty ob) t)); [discriminate|].
    destruct (negb (is_active ob)); [discriminate|]. destruct (negb (has_bit (omask ob) b)); [discriminate|].
    destruct cok; [reflexivity|discriminate].
  - intros [C [P [ob [L [T [A B]]]]]]. subst cok p t. unfold use_key. rewrite L. simpl.
    rewrite otype_eqb_refl. simpl. apply is_active_iff in A. rewrite A, B. reflexivity.
Qed.

Theorem activate_ok_iff : forall cok s u s',
  step cok s (Activate u) = (OK, s') <->
  (exists ob, lookup u (objs s) = Some ob /\ ost ob = Some PreActive) /\ s' = mkstore (set_state u Active (objs s)) (next_uid s).
Proof.
  intros cok s u s'. simpl. split.
  - intro H. destruct (lookup u (objs s)) as [ob|]; [|discriminate]. destruct (ost ob) as [st|] eqn:S; [|discriminate].
    destruct (negb (state_eqb st PreActive)) eqn:G; [discriminate|]. apply negb_false_iff, state_eqb_eq in G. subst st.
    inversion H. split. exists ob. auto. reflexivity.
  - intros [[ob [L S]] E]. rewrite L, S. simpl. subst s'. reflexivity.
Qed.

Theorem revoke_ok_inv : forall cok s u c s',
  step cok s (Revoke u c) = (OK, s') ->
  exists ob st, lookup u (objs s) = Some ob /\ ost ob = Some st /\ (c = KeyCompromise \/ st = Active).
Proof.
  intros cok s u c s' H. simpl in H.
  destruct (lookup u (objs s)) as [ob|]; [|discriminate]. destruct (ost ob) as [st|] eqn:S; [|discriminate].
  exists ob, st. split. reflexivity. split. exact S.
  destruct (is_key_compromise c) eqn:C.
  - left. destruct c; simpl in C; try discriminate; reflexivity.
  - right. destruct (negb (state_eqb st Active)) eqn:G; [discriminate|]. apply negb_false_iff, state_eqb_eq in G. assumption.
Qed.

(* Register consults no stored object *)
Theorem register_uses_no_key : forall cok s t m,
  step cok s (Register t m) = (OK, add_obj s t m) /\ (forall v ob, lookup v (objs s) = Some ob -> lookup v (objs (add_obj s t m)) = Some ob).
Proof. intros. split. reflexivity. intros. apply lookup_add_old. assumption. Qed.
