(* C04 - executable model of the lifecycle / usage guards of
   kmip/services/server/engine.py (KmipEngine._process_activate, _process_revoke,
   _process_destroy, _process_encrypt, _process_decrypt, _process_sign,
   _process_signature_verify, _process_mac, _process_derive_key and the
   key-wrapping branch of _process_get), one Gallina guard per Python guard, in
   the order of the Python.

   Scope of the model (see notes/C04.md):
   - one identity that owns every object under the default policy, so
     _get_object_with_access_controls fails only when the uid does not exist;
   - creation requests (Create / CreateKeyPair / Register / the template of
     DeriveKey, except its Cryptographic Length) are well formed, so creation succeeds;
   - cryptographic results are not modelled: [cok] is an oracle input that says
     whether the CryptographyEngine call of this step returned (true) or raised
     (false); the model decides WHETHER that call is reached.
   Definitions only; proofs are in LifecycleProofs.v. *)
From Coq Require Import ZArith List Bool.
Import ListNotations.
Open Scope Z_scope.

(* ------------------------------------------------------------------ data *)
Inductive otype := SymmetricKey | PublicKey | PrivateKey | SplitKey | Certificate | SecretData | OpaqueData.
Inductive state := PreActive | Active | Deactivated | Compromised | Destroyed | DestroyedCompromised.
Inductive rcode := Unspecified | KeyCompromise | CACompromise | AffiliationChanged | Superseded
                 | CessationOfOperation | PrivilegeWithdrawn.

Definition otype_eqb (a b : otype) : bool :=
  match a, b with
  | SymmetricKey, SymmetricKey | PublicKey, PublicKey | PrivateKey, PrivateKey | SplitKey, SplitKey
  | Certificate, Certificate | SecretData, SecretData | OpaqueData, OpaqueData => true
  | _, _ => false
  end.

Definition state_eqb (a b : state) : bool :=
  match a, b with
  | PreActive, PreActive | Active, Active | Deactivated, Deactivated | Compromised, Compromised
  | Destroyed, Destroyed | DestroyedCompromised, DestroyedCompromised => true
  | _, _ => false
  end.

Definition is_key_compromise (c : rcode) : bool := match c with KeyCompromise => true | _ => false end.

(* kmip.pie.objects: every class except OpaqueObject derives from CryptographicObject
   (columns state, cryptographic_usage_mask) *)
Definition has_state (t : otype) : bool := match t with OpaqueData => false | _ => true end.
(* isinstance(managed_object, objects.Key) *)
Definition is_key (t : otype) : bool :=
  match t with SymmetricKey | PublicKey | PrivateKey | SplitKey => true | _ => false end.
(* _process_mac: object types accepted as a MAC key *)
Definition mac_kind_b (t : otype) : bool :=
  match t with SymmetricKey | SecretData => true | _ => false end.
(* _process_get: object types that can be wrapped (their core secret has a key_block) *)
Definition has_key_block (t : otype) : bool :=
  match t with SymmetricKey | PublicKey | PrivateKey | SplitKey | SecretData => true | _ => false end.
(* _process_derive_key: suitable base object types *)
Definition derivable (t : otype) : bool :=
  match t with SecretData | SymmetricKey | PublicKey | PrivateKey => true | _ => false end.

(* enums.CryptographicUsageMask: bit positions *)
Definition bSIGN := 0.  Definition bVERIFY := 1.  Definition bENCRYPT := 2.  Definition bDECRYPT := 3.
Definition bWRAP_KEY := 4.  Definition bMAC_GENERATE := 7.  Definition bDERIVE_KEY := 9.
Definition has_bit (m b : Z) : bool := Z.testbit m b.

(* oval: the stored value is not empty (only DeriveKey with Cryptographic Length 0 stores an empty one) *)
Record obj := mkobj { uid : Z; oty : otype; ost : option state; omask : Z; oval : bool }.
Record store := mkstore { objs : list obj; next_uid : Z }.

Definition empty_store (first : Z) : store := mkstore [] first.

Definition new_objv (u : Z) (t : otype) (m : Z) (v : bool) : obj :=
  if has_state t then mkobj u t (Some PreActive) m v else mkobj u t None 0 v.
Definition new_obj (u : Z) (t : otype) (m : Z) : obj := new_objv u t m true.

Fixpoint lookup (u : Z) (l : list obj) : option obj :=
  match l with
  | [] => None
  | o :: r => if uid o =? u then Some o else lookup u r
  end.

Definition set_state (u : Z) (st : state) (l : list obj) : list obj :=
  map (fun o => if uid o =? u then mkobj (uid o) (oty o) (Some st) (omask o) (oval o) else o) l.

Definition remove_uid (u : Z) (l : list obj) : list obj := filter (fun o => negb (uid o =? u)) l.

Definition add_objv (s : store) (t : otype) (m : Z) (v : bool) : store :=
  mkstore (objs s ++ [new_objv (next_uid s) t m v]) (next_uid s + 1).
Definition add_obj (s : store) (t : otype) (m : Z) : store := add_objv s t m true.

(* ------------------------------------------------------------------ operations and outcomes *)
Inductive op :=
| Create (m : Z)
| CreateKeyPair (mpub mpriv : Z)
| Register (t : otype) (m : Z)
| Activate (u : Z)
| Revoke (u : Z) (c : rcode)
| Destroy (u : Z)
| Encrypt (u : Z) (params : bool)
| Decrypt (u : Z) (params : bool)
| Sign (u : Z) (params : bool)
| SignatureVerify (u : Z) (params : bool)
| MAC (u : Z) (alg data : bool)
| DeriveKey (us : list Z) (m : Z) (len : Z)        (* len: the Cryptographic Length of the template, in bits *)
| GetWrap (u w : Z)
| ForeignUse (u : Z)      (* Activate / Revoke / Destroy of u sent by an identity that does not own it *)
| AttrWrite (u : Z)       (* SetAttribute / ModifyAttribute / DeleteAttribute of a lifecycle attribute of u (State, Activation
                             Date, Deactivation Date, Compromise (Occurrence) Date, Destroy Date, Process Start / Protect Stop Date) *)
| CreateRejected.         (* Create / Register whose template carries one of those attributes *)

(* which guard refused *)
Inductive refusal := RNotFound | RNoState | RState | RType | RMask | RWrapKeyMissing | RParams.
(* the KMIP result reason the exception class carries *)
(* AttrRule: refused by the attribute rules - unsupported (InvalidField), not set (InvalidField / AttributeNotFound),
   read-only (PermissionDenied / ReadOnlyAttribute), required (PermissionDenied); one class for the correspondence *)
Inductive reason := ItemNotFound | PermissionDenied | IllegalOperation | InvalidField | AttrRule.

Inductive outcome :=
| OK                                   (* SUCCESS *)
| Refused (r : refusal) (k : reason)   (* a guard raised a KmipError before the crypto engine was reached *)
| CryptoFail                           (* all guards passed, the CryptographyEngine call raised *)
| CrashBefore                          (* non-KMIP exception before the crypto engine (GENERAL_FAILURE) *)
| CrashAfter.                          (* non-KMIP exception after a successful crypto call (an observation class;
                                          the model of the current code never produces it) *)

Definition refusal_eqb (a b : refusal) : bool :=
  match a, b with
  | RNotFound, RNotFound | RNoState, RNoState | RState, RState | RType, RType | RMask, RMask
  | RWrapKeyMissing, RWrapKeyMissing | RParams, RParams => true
  | _, _ => false
  end.
Definition reason_eqb (a b : reason) : bool :=
  match a, b with
  | ItemNotFound, ItemNotFound | PermissionDenied, PermissionDenied | IllegalOperation, IllegalOperation
  | InvalidField, InvalidField | AttrRule, AttrRule => true
  | _, _ => false
  end.
Definition outcome_eqb (a b : outcome) : bool :=
  match a, b with
  | OK, OK | CryptoFail, CryptoFail | CrashBefore, CrashBefore | CrashAfter, CrashAfter => true
  | Refused r k, Refused r' k' => refusal_eqb r r' && reason_eqb k k'
  | _, _ => false
  end.

(* operations that end in one of the seven gated CryptographyEngine methods
   (encrypt decrypt sign verify_signature mac derive_key wrap_key) *)
Definition gated (o : op) : bool :=
  match o with
  | Encrypt _ _ | Decrypt _ _ | Sign _ _ | SignatureVerify _ _ | MAC _ _ _ | DeriveKey _ _ _ | GetWrap _ _ => true
  | _ => false
  end.
(* was that method entered? *)
Definition crypto_called (o : op) (r : outcome) : bool :=
  gated o && match r with OK | CryptoFail | CrashAfter => true | _ => false end.

Definition is_active (o : obj) : bool :=
  match ost o with Some Active => true | _ => false end.

(* tail shared by Encrypt / Decrypt / Sign / SignatureVerify:
   params present -> object type -> state -> mask -> crypto *)
Definition use_key (cok : bool) (s : store) (u : Z) (params : bool) (want : otype) (bit : Z) : outcome :=
  match lookup u (objs s) with
  | None => Refused RNotFound ItemNotFound
  | Some o =>
      if negb params then Refused RParams InvalidField
      else if negb (otype_eqb (oty o) want) then Refused RType PermissionDenied
      else if negb (is_active o) then Refused RState PermissionDenied
      else if negb (has_bit (omask o) bit) then Refused RMask PermissionDenied
      else if cok then OK else CryptoFail
  end.

(* the loop of _process_derive_key over payload.unique_identifiers *)
Fixpoint derive_bases (s : store) (us : list Z) : option outcome :=
  match us with
  | [] => None
  | u :: r =>
      match lookup u (objs s) with
      | None => Some (Refused RNotFound ItemNotFound)
      | Some o =>
          if negb (derivable (oty o)) then Some (Refused RType InvalidField)
          else if negb (has_bit (omask o) bDERIVE_KEY) then Some (Refused RMask InvalidField)
          else derive_bases s r
      end
  end.

Definition step (cok : bool) (s : store) (o : op) : outcome * store :=
  match o with
  | Create m => (OK, add_obj s SymmetricKey m)
  | CreateKeyPair mpub mpriv => (OK, add_obj (add_obj s PublicKey mpub) PrivateKey mpriv)
  | Register t m => (OK, add_obj s t m)
  | Activate u =>
      match lookup u (objs s) with
      | None => (Refused RNotFound ItemNotFound, s)
      | Some ob =>
          match ost ob with
          | None => (Refused RNoState IllegalOperation, s)
          | Some st =>
              if negb (state_eqb st PreActive) then (Refused RState PermissionDenied, s)
              else (OK, mkstore (set_state u Active (objs s)) (next_uid s))
          end
      end
  | Revoke u c =>
      match lookup u (objs s) with
      | None => (Refused RNotFound ItemNotFound, s)
      | Some ob =>
          match ost ob with
          | None => (Refused RNoState IllegalOperation, s)
          | Some st =>
              if is_key_compromise c then
                if state_eqb st Destroyed
                then (OK, mkstore (set_state u DestroyedCompromised (objs s)) (next_uid s))
                else (OK, mkstore (set_state u Compromised (objs s)) (next_uid s))
              else if negb (state_eqb st Active) then (Refused RState IllegalOperation, s)
              else (OK, mkstore (set_state u Deactivated (objs s)) (next_uid s))
          end
      end
  | Destroy u =>
      match lookup u (objs s) with
      | None => (Refused RNotFound ItemNotFound, s)
      | Some ob =>
          if is_active ob then (Refused RState PermissionDenied, s)
          else (OK, mkstore (remove_uid u (objs s)) (next_uid s))
      end
  | Encrypt u p => (use_key cok s u p SymmetricKey bENCRYPT, s)
  | Decrypt u p => (use_key cok s u p SymmetricKey bDECRYPT, s)
  | Sign u p => (use_key cok s u p PrivateKey bSIGN, s)
  | SignatureVerify u p => (use_key cok s u p PublicKey bVERIFY, s)
  | MAC u alg data =>
      match lookup u (objs s) with
      | None => (Refused RNotFound ItemNotFound, s)
      | Some ob =>
          if negb (alg || is_key (oty ob)) then (Refused RParams PermissionDenied, s)
          else if negb (oval ob) then (Refused RParams PermissionDenied, s)      (* "A secret key value must be specified" *)
          else if negb data then (Refused RParams PermissionDenied, s)
          else if negb (mac_kind_b (oty ob)) then (Refused RType PermissionDenied, s)
          else match ost ob with
               | None => (CrashBefore, s)           (* .state of an object without one; unreachable after the type guard *)
               | Some st =>
                   if negb (state_eqb st Active) then (Refused RState PermissionDenied, s)
                   else if negb (has_bit (omask ob) bMAC_GENERATE) then (Refused RMask PermissionDenied, s)
                   else if cok then (OK, s) else (CryptoFail, s)
               end
      end
  | DeriveKey us m len =>
      match derive_bases s us with
      | Some r => (r, s)
      | None =>
          match us with
          | [] => (CrashBefore, s)                   (* existing_objects[0]: IndexError *)
          | _ =>
              if len <? 0 then (Refused RParams InvalidField, s)                   (* since /repo 02e2981 *)
              else if negb (len mod 8 =? 0) then (Refused RParams InvalidField, s)
              else if cok then (OK, add_objv s SymmetricKey m (negb (len =? 0))) else (CryptoFail, s)
          end
      end
  | GetWrap u w =>
      match lookup u (objs s) with
      | None => (Refused RNotFound ItemNotFound, s)
      | Some ob =>
          match lookup w (objs s) with
          | None => (Refused RWrapKeyMissing ItemNotFound, s)
          | Some k =>
              if negb (otype_eqb (oty k) SymmetricKey) then (Refused RType IllegalOperation, s)
              else if negb (is_active k) then (Refused RState PermissionDenied, s)
              else if negb (has_bit (omask k) bWRAP_KEY) then (Refused RMask PermissionDenied, s)
              else if negb (has_key_block (oty ob)) then (Refused RType IllegalOperation, s)
              else if cok then (OK, s) else (CryptoFail, s)
          end
      end
  | ForeignUse u =>
      (* _get_object_type raises ItemNotFound for an unknown identifier; otherwise the default policy (ACTIVATE,
         REVOKE, DESTROY are ALLOW_OWNER for every object type) makes _get_object_with_access_controls feign
         ignorance: PermissionDenied.  (GET - under which the cryptographic operations run - is ALLOW_ALL for
         certificates and public keys; that is property C03's matter and not modelled here.) *)
      match lookup u (objs s) with
      | None => (Refused RNotFound ItemNotFound, s)
      | Some _ => (Refused RNotFound PermissionDenied, s)
      end
  | AttrWrite u =>
      (* the object is looked up first; then every lifecycle attribute is refused by the attribute rules: the State
         column has no writer among the attribute operations *)
      match lookup u (objs s) with
      | None => (Refused RNotFound ItemNotFound, s)
      | Some _ => (Refused RParams AttrRule, s)
      end
  | CreateRejected => (Refused RParams AttrRule, s)      (* "The <name> attribute is unsupported."; nothing is stored *)
  end.

(* a history is a list of operations, each with its crypto-oracle input *)
Definition ev := (op * bool)%type.

Definition exec (s : store) (h : list ev) : store :=
  fold_left (fun s e => snd (step (snd e) s (fst e))) h s.

(* the run with every intermediate outcome and store, for the correspondence *)
Fixpoint trace (s : store) (h : list ev) : list (outcome * store) :=
  match h with
  | [] => []
  | e :: r => let os := step (snd e) s (fst e) in os :: trace (snd os) r
  end.

(* lifecycle order used by the monotonicity theorem *)
Definition rank (st : state) : Z :=
  match st with
  | PreActive => 0 | Active => 1 | Deactivated => 2 | Compromised => 3 | Destroyed => 4 | DestroyedCompromised => 5
  end.
Definition orank (o : option state) : Z := match o with None => 0 | Some st => rank st end.
