(* C03 - lemmas about the access choke points (Access.v). *)
From Coq Require Import ZArith List Bool String Lia.
From PK Require Import Policy.Policy Policy.PolicyProofs Policy.AccessTypes Policy.Access.
From PKGen Require Import HandlerAccessOps.
Import ListNotations.
Open Scope Z_scope.
Open Scope string_scope.

(* ------------------------------------------------------------------ lists *)

Lemma find_obj_some : forall u l o, find_obj u l = Some o -> In o l /\ o_uid o = u.
Proof.
  intros u l o H. unfold find_obj in H. apply find_some in H. destruct H as [Hin He].
  apply String.eqb_eq in He. auto.
Qed.

Lemma mem_true_iff : forall u l, mem u l = true <-> In u l.
Proof.
  intros. unfold mem. rewrite existsb_exists. split.
  - intros [x [Hin He]]. apply String.eqb_eq in He. now subst.
  - intro H. exists u. split; [exact H|apply String.eqb_refl].
Qed.

Lemma mem_false_iff : forall u l, mem u l = false <-> ~ In u l.
Proof.
  intros. rewrite <- mem_true_iff. destruct (mem u l); split; intro H.
  - discriminate.
  - exfalso. now apply H.
  - intro; discriminate.
  - reflexivity.
Qed.

Lemma nodup_map_inj : forall A B (f : A -> B) l a b,
  NoDup (map f l) -> In a l -> In b l -> f a = f b -> a = b.
Proof.
  induction l as [|x l IH]; intros a b Hnd Ha Hb Hf; [destruct Ha|].
  simpl in Hnd. inversion Hnd as [|y ys Hnin Hnd']; subst.
  destruct Ha as [->|Ha], Hb as [->|Hb]; auto.
  - exfalso. apply Hnin. rewrite Hf. now apply in_map.
  - exfalso. apply Hnin. rewrite <- Hf. now apply in_map.
Qed.

Lemma nodup_snoc : forall A (l : list A) x, NoDup l -> ~ In x l -> NoDup (l ++ [x]).
Proof.
  induction l as [|a l IH]; simpl; intros x Hnd Hx.
  - constructor; [intros []|constructor].
  - inversion Hnd; subst. constructor.
    + intro Hin. apply in_app_or in Hin. destruct Hin as [Hin|[<-|[]]]; [contradiction|]. apply Hx. now left.
    + apply IH; [assumption|]. intro. apply Hx. now right.
Qed.

Lemma find_obj_nodup : forall l o, NoDup (map o_uid l) -> In o l -> find_obj (o_uid o) l = Some o.
Proof.
  intros l o Hnd Hin. destruct (find_obj (o_uid o) l) as [o'|] eqn:E.
  - apply find_obj_some in E. destruct E as [Hin' He]. f_equal. eapply nodup_map_inj; eauto.
  - unfold find_obj in E. eapply find_none in E; eauto. rewrite String.eqb_refl in E. discriminate.
Qed.

Lemma nodup_filter : forall A (f : A -> bool) l, NoDup l -> NoDup (filter f l).
Proof.
  induction l as [|x l IH]; intro H; simpl; [constructor|].
  inversion H; subst. destruct (f x); auto. constructor; auto.
  intro Hin. apply filter_In in Hin. tauto.
Qed.

Lemma map_filter_uid : forall u l, map o_uid (remove_uid u l) = filter (fun v => negb (String.eqb v u)) (map o_uid l).
Proof.
  induction l as [|x l IH]; simpl; [reflexivity|].
  destruct (negb (String.eqb (o_uid x) u)); simpl; now rewrite IH.
Qed.

(* ------------------------------------------------------------------ loads *)

Lemma load1_inr : forall P id s op u o,
  load1 P id s op u = inr o ->
  exists us, u = Some us /\ find_obj us (objs s) = Some o /\ allowed_obj P id op o = true.
Proof.
  intros P id s op [us|] o H; simpl in H; [|discriminate].
  destruct (find_obj us (objs s)) as [o'|] eqn:Ef; [|discriminate].
  destruct (allowed_obj P id op o') eqn:Ea; [|discriminate].
  inversion H; subst. exists us. auto.
Qed.

Lemma load1_inl : forall P id s op u out,
  load1 P id s op u = inl out -> passed out = false /\ is_failure out = true.
Proof.
  intros P id s op [us|] out H; simpl in H.
  - destruct (find_obj us (objs s)) as [o'|]; [destruct (allowed_obj P id op o')|]; inversion H; auto.
  - inversion H; auto.
Qed.

Lemma mask_fail : forall g out, passed out = false /\ is_failure out = true ->
  passed (mask g out) = false /\ is_failure (mask g out) = true.
Proof. intros [|m] out H; simpl; auto. Qed.

Lemma load_all_inl : forall P id s op g us cs out,
  load_all P id s op g us cs = inl out -> passed out = false /\ is_failure out = true.
Proof.
  induction us as [|u t IH]; intros cs out H; simpl in H; [discriminate|].
  destruct (load1 P id s op u) as [o1|o] eqn:E1.
  - inversion H; subst. apply mask_fail. eapply load1_inl; eauto.
  - destruct (negb (hd true cs)); [inversion H; subst; auto|].
    destruct (load_all P id s op g t (tl cs)) as [o2|os] eqn:E2; [|discriminate].
    inversion H; subst. eapply IH; eauto.
Qed.

Lemma load_all_inr : forall P id s op g us cs os,
  load_all P id s op g us cs = inr os ->
  (forall u o, In (Some u) us -> find_obj u (objs s) = Some o -> allowed_obj P id op o = true) /\
  (forall o, In o os -> exists u, In (Some u) us /\ find_obj u (objs s) = Some o /\ allowed_obj P id op o = true).
Proof.
  induction us as [|u t IH]; intros cs os H; simpl in H.
  - inversion H; subst. split; [intros ? ? []|intros ? []].
  - destruct (load1 P id s op u) as [o1|o] eqn:E1; [discriminate|].
    destruct (negb (hd true cs)); [discriminate|].
    destruct (load_all P id s op g t (tl cs)) as [o2|os'] eqn:E2; [discriminate|].
    inversion H; subst. destruct (IH _ _ E2) as [IH1 IH2].
    apply load1_inr in E1. destruct E1 as [us [-> [Ef Ea]]]. split.
    + intros u' o' [He|Hin] Hf.
      * inversion He; subst. congruence.
      * eapply IH1; eauto.
    + intros o' [<-|Hin].
      * exists us. simpl. auto.
      * destruct (IH2 _ Hin) as [u' [Hu' Hr]]. exists u'. simpl. auto.
Qed.

Lemma run_sites_inl : forall P id s ph r sites out,
  run_sites P id s ph r sites = inl out -> passed out = false /\ is_failure out = true.
Proof.
  induction sites as [|[src g op|op] t IH]; intros out H; simpl in H; [discriminate| |].
  - destruct (load_all P id s op g (site_uids src r ph) (site_checks src r)) as [o1|os] eqn:E1.
    + inversion H; subst. eapply load_all_inl; eauto.
    + destruct (run_sites P id s ph r t) as [o2|ld]; [|discriminate]. inversion H; subst. now apply IH.
  - destruct (run_sites P id s ph r t) as [o2|ld]; [|discriminate]. inversion H; subst. now apply IH.
Qed.

Lemma run_sites_inr : forall P id s ph r sites ld,
  run_sites P id s ph r sites = inr ld ->
  (forall src g op u o, In (SLoad src g op) sites -> In (Some u) (site_uids src r ph) ->
                        find_obj u (objs s) = Some o -> allowed_obj P id op o = true) /\
  (forall o, In o (l_objs ld) -> exists src g op u, In (SLoad src g op) sites /\ In (Some u) (site_uids src r ph) /\
                        find_obj u (objs s) = Some o /\ allowed_obj P id op o = true) /\
  (forall o, In o (l_listed ld) -> In o (objs s) /\ exists op, In (SListAll op) sites /\ allowed_obj P id op o = true).
Proof.
  induction sites as [|[src g op|op] t IH]; intros ld H; simpl in H.
  - inversion H; subst. simpl. split; [|split].
    + intros ? ? ? ? ? [].
    + intros ? [].
    + intros ? [].
  - destruct (load_all P id s op g (site_uids src r ph) (site_checks src r)) as [o1|os] eqn:E1; [discriminate|].
    destruct (run_sites P id s ph r t) as [o2|ld'] eqn:E2; [discriminate|].
    inversion H; subst. simpl. destruct (IH _ eq_refl) as [I1 [I2 I3]].
    apply load_all_inr in E1. destruct E1 as [A1 A2]. split; [|split].
    + intros src' g' op' u o [He|Hin] Hu Hf.
      * inversion He; subst. eapply A1; eauto.
      * eapply I1; eauto.
    + intros o Hin. apply in_app_or in Hin. destruct Hin as [Hin|Hin].
      * destruct (A2 _ Hin) as [u [Hu [Hf Ha]]]. exists src, g, op, u. simpl. auto.
      * destruct (I2 _ Hin) as [src' [g' [op' [u [Hs Hr]]]]]. exists src', g', op', u. simpl. auto.
    + intros o Hin. destruct (I3 _ Hin) as [Ho [op' [Hs Ha]]]. split; [exact Ho|]. exists op'. simpl. auto.
  - destruct (run_sites P id s ph r t) as [o2|ld'] eqn:E2; [discriminate|].
    inversion H; subst. simpl. destruct (IH _ eq_refl) as [I1 [I2 I3]]. split; [|split].
    + intros src' g' op' u o [He|Hin] Hu Hf; [discriminate|]. eapply I1; eauto.
    + intros o Hin. destruct (I2 _ Hin) as [src' [g' [op' [u [Hs Hr]]]]]. exists src', g', op', u. simpl. auto.
    + intros o Hin. apply in_app_or in Hin. destruct Hin as [Hin|Hin].
      * apply filter_In in Hin. destruct Hin as [Ho Ha]. split; [exact Ho|]. exists op. simpl. auto.
      * destruct (I3 _ Hin) as [Ho [op' [Hs Ha]]]. split; [exact Ho|]. exists op'. simpl. auto.
Qed.

(* ------------------------------------------------------------------ the shape of a step *)

Lemma handler_of_inv : forall op h,
  handler_of op = Some h -> exists hn, zlookup op dispatch = Some hn /\ find_handler hn = Some h.
Proof.
  intros op h H. unfold handler_of in H. destruct (zlookup op dispatch) as [hn|]; [|discriminate].
  exists hn. auto.
Qed.

Inductive step_shape (P : policies) (id : identity) (s : store) (ph : option string) (r : request)
  : outcome -> state -> Prop :=
| ShNoEffect : forall out, passed out = false -> is_failure out = true -> step_shape P id s ph r out (s, ph)
| ShPostFail : forall h ld, handler_of (r_op r) = Some h -> run_sites P id s ph r (h_sites h) = inr ld ->
    step_shape P id s ph r OPostFail (s, ph)
| ShDelete : forall h ld o rest, handler_of (r_op r) = Some h -> run_sites P id s ph r (h_sites h) = inr ld ->
    l_objs ld = o :: rest -> (0 < h_direct_queries h)%nat ->
    step_shape P id s ph r (OSuccess []) ({| objs := remove_uid (o_uid o) (objs s); dead := o_uid o :: dead s |}, ph)
| ShAdd : forall h ld s' ph', handler_of (r_op r) = Some h -> run_sites P id s ph r (h_sites h) = inr ld ->
    add_all s (id_user id) (r_new r) = Some s' -> (0 < h_adds h)%nat ->
    step_shape P id s ph r (OSuccess (map new_uid (r_new r))) (s', ph')
| ShPlain : forall h ld, handler_of (r_op r) = Some h -> run_sites P id s ph r (h_sites h) = inr ld ->
    h_adds h = 0%nat -> h_direct_queries h = 0%nat ->
    step_shape P id s ph r (OSuccess (located ld r)) (s, ph)
| ShUpdate : forall h ld o rest c, handler_of (r_op r) = Some h -> run_sites P id s ph r (h_sites h) = inr ld ->
    h_adds h = 0%nat -> h_direct_queries h = 0%nat ->
    l_objs ld = o :: rest -> In (r_op r) mutating_ops ->
    step_shape P id s ph r (OSuccess (located ld r))
               ({| objs := set_content (o_uid o) c (objs s); dead := dead s |}, ph).

Lemma step_item_shape : forall P id s ph r,
  step_shape P id s ph r (fst (step_item P id (s, ph) r)) (snd (step_item P id (s, ph) r)).
Proof.
  intros. unfold step_item.
  destruct (zlookup (r_op r) dispatch) as [hn|] eqn:Ed; [|now constructor].
  destruct (find_handler hn) as [h|] eqn:Eh; [|now constructor].
  assert (Hh : handler_of (r_op r) = Some h) by (unfold handler_of; now rewrite Ed).
  destruct (negb (r_pre_ok r)); [now constructor|].
  destruct (run_sites P id s ph r (h_sites h)) as [out|ld] eqn:Er.
  - destruct (run_sites_inl _ _ _ _ _ _ _ Er). now constructor.
  - destruct (negb (r_post_ok r)); [simpl; eapply ShPostFail; eauto|].
    destruct (Nat.ltb 0 (h_direct_queries h)) eqn:Eq.
    + destruct (l_objs ld) as [|o rest] eqn:El; [now constructor|]. simpl. eapply ShDelete; eauto.
      now apply Nat.ltb_lt in Eq.
    + destruct (Nat.ltb 0 (h_adds h)) eqn:Ea.
      * destruct (Nat.eqb (List.length (r_new r)) (h_adds h) && Nat.eqb (h_owner_assignments h) (h_adds h)); [|now constructor].
        destruct (add_all s (id_user id) (r_new r)) as [s'|] eqn:Eadd; [|now constructor].
        simpl. eapply ShAdd; eauto. now apply Nat.ltb_lt in Ea.
      * apply Nat.ltb_ge in Eq. apply Nat.ltb_ge in Ea.
        destruct (existsb (Z.eqb (r_op r)) mutating_ops) eqn:Em; [|simpl; eapply ShPlain; eauto; lia].
        destruct (l_objs ld) as [|o rest] eqn:El; [simpl; eapply ShPlain; eauto; lia|].
        destruct (r_upd r) as [c|]; [|simpl; eapply ShPlain; eauto; lia].
        simpl. eapply ShUpdate; eauto; try lia.
        apply existsb_exists in Em. destruct Em as [x [Hin Hx]]. apply Z.eqb_eq in Hx. now subst.
Qed.

(* ------------------------------------------------------------------ no effect, no disclosure without a grant *)

Lemma no_effect_without_grant_l : forall P id s ph r out st',
  step_item P id (s, ph) r = (out, st') ->
  forall o op, addressed r ph s o op -> allowed_obj P id op o = false ->
  st' = (s, ph) /\ passed out = false /\ is_failure out = true.
Proof.
  intros P id s ph r out st' Hstep o op [h [src [g [u [Hh [Hs [Hu Hf]]]]]]] Hden.
  pose proof (step_item_shape P id s ph r) as Sh. rewrite Hstep in Sh. simpl in Sh.
  assert (Hno : forall h' ld, handler_of (r_op r) = Some h' -> run_sites P id s ph r (h_sites h') = inr ld -> False).
  { intros h' ld Hh' Hr. assert (h' = h) by congruence. subst.
    destruct (run_sites_inr _ _ _ _ _ _ _ Hr) as [A _].
    rewrite (A _ _ _ _ _ Hs Hu Hf) in Hden. discriminate. }
  inversion Sh; subst; try (exfalso; eapply Hno; eassumption). auto.
Qed.

(* the exact answer when the first choke point of the handler refuses *)
Lemma first_site_answer : forall P id s ph r h op rest u,
  handler_of (r_op r) = Some h -> h_sites h = SLoad UPrimary GNone op :: rest -> r_pre_ok r = true ->
  resolve_primary r ph = Some u ->
  (forall o, find_obj u (objs s) = Some o -> allowed_obj P id op o = false ->
     step_item P id (s, ph) r = (ODenied (render1 denied_format u), (s, ph))) /\
  (find_obj u (objs s) = None ->
     step_item P id (s, ph) r = (ONotFound (render1 notfound_format u), (s, ph))).
Proof.
  intros P id s ph r h op rest u Hh Hs Hpre Hres.
  destruct (handler_of_inv _ _ Hh) as [hn [Ed Ef]].
  split; [intros o Hf Hden|intros Hf]; unfold step_item; rewrite Ed, Ef, Hpre, Hs; simpl;
    rewrite Hres; simpl; rewrite Hf; [rewrite Hden|]; reflexivity.
Qed.

Lemma denial_text_eq_notfound_l : forall u, render1 denied_format u = render1 notfound_format u.
Proof. reflexivity. Qed.

(* text carried by a refusal *)
Definition out_text (o : outcome) : option string :=
  match o with ODenied m | ONotFound m => Some m | _ => None end.

(* a denied primary object is answered like a missing one: same text, same (unchanged) state *)
Lemma denied_like_missing_primary_l : forall P id s s0 ph r h op rest u o,
  handler_of (r_op r) = Some h -> h_sites h = SLoad UPrimary GNone op :: rest -> r_pre_ok r = true ->
  resolve_primary r ph = Some u ->
  find_obj u (objs s) = Some o -> allowed_obj P id op o = false ->
  find_obj u (objs s0) = None ->
  out_text (fst (step_item P id (s, ph) r)) = out_text (fst (step_item P id (s0, ph) r)) /\
  snd (step_item P id (s, ph) r) = (s, ph) /\ snd (step_item P id (s0, ph) r) = (s0, ph).
Proof.
  intros P id s s0 ph r h op rest u o Hh Hs Hpre Hres Hf Hden Hf0.
  destruct (first_site_answer P id s ph r h op rest u Hh Hs Hpre Hres) as [A _].
  destruct (first_site_answer P id s0 ph r h op rest u Hh Hs Hpre Hres) as [_ B].
  rewrite (A _ Hf Hden), (B Hf0). simpl. now rewrite denial_text_eq_notfound_l.
Qed.

(* whatever happens or is disclosed, every addressed object was loaded under a grant *)
Lemma effect_only_if_granted_l : forall P id s ph r out s' ph',
  step_item P id (s, ph) r = (out, (s', ph')) ->
  s' <> s \/ ph' <> ph \/ passed out = true ->
  forall o op, addressed r ph s o op -> granted_spec P (o_pol o) id (o_owner o) (o_type o) op.
Proof.
  intros P id s ph r out s' ph' Hstep Heff o op Ha.
  destruct (allowed_obj P id op o) eqn:E.
  - now apply decision_sound_l.
  - destruct (no_effect_without_grant_l _ _ _ _ _ _ _ Hstep _ _ Ha E) as [He [Hp _]].
    inversion He; subst. destruct Heff as [H|[H|H]]; [now elim H|now elim H|congruence].
Qed.

Lemma set_content_uids : forall u c l, map o_uid (set_content u c l) = map o_uid l.
Proof.
  intros u c l. induction l as [|a l IH]; simpl; [reflexivity|]. rewrite IH.
  destruct (String.eqb (o_uid a) u); reflexivity.
Qed.

Lemma set_content_other : forall u c l o, In o l -> o_uid o <> u -> In o (set_content u c l).
Proof.
  intros u c l o Hin Hne. unfold set_content. apply in_map_iff. exists o. split; [|exact Hin].
  destruct (String.eqb (o_uid o) u) eqn:E; [apply String.eqb_eq in E; contradiction|reflexivity].
Qed.

Lemma set_content_acl : forall u c l o', In o' (set_content u c l) -> exists o, In o l /\ same_acl o o'.
Proof.
  intros u c l o' Hin. unfold set_content in Hin. apply in_map_iff in Hin. destruct Hin as [o [He Hin]].
  exists o. split; [exact Hin|]. destruct (String.eqb (o_uid o) u); subst; unfold same_acl; simpl; auto.
Qed.

Lemma set_content_acl_fwd : forall u c l o, In o l -> exists o', In o' (set_content u c l) /\ same_acl o o'.
Proof.
  intros u c l o Hin. eexists. split; [unfold set_content; apply in_map; exact Hin|].
  destruct (String.eqb (o_uid o) u); unfold same_acl; simpl; auto.
Qed.

Lemma add_all_keeps : forall ns s w s' o, add_all s w ns = Some s' -> In o (objs s) -> In o (objs s').
Proof.
  induction ns as [|n t IH]; intros s w s' o Hadd Hin; simpl in Hadd.
  - inversion Hadd; now subst.
  - destruct (add_new s w n) as [s1|] eqn:E1; [|discriminate].
    eapply IH; [exact Hadd|]. unfold add_new in E1. destruct n as [[[u t0] p] c0].
    destruct (fresh s u); [|discriminate]. inversion E1; subst. simpl. apply in_or_app. now left.
Qed.

(* an object of the store that is no longer there after the step was addressed under a grant *)
Lemma only_addressed_objects_change_l : forall P id s ph r out s' ph',
  wf_store s ->
  step_item P id (s, ph) r = (out, (s', ph')) ->
  forall o, In o (objs s) ->
  In o (objs s') \/ exists op, addressed r ph s o op /\ allowed_obj P id op o = true.
Proof.
  intros P id s ph r out s' ph' [Hnd _] Hstep o Hin.
  pose proof (step_item_shape P id s ph r) as Sh. rewrite Hstep in Sh. simpl in Sh.
  inversion Sh; subst; auto.
  - (* delete *)
    destruct (String.eqb (o_uid o) (o_uid o0)) eqn:E.
    + right. apply String.eqb_eq in E.
      match goal with Hr : run_sites _ _ _ _ _ _ = inr ?ld, Hl : l_objs ?ld = _ |- _ =>
        destruct (run_sites_inr _ _ _ _ _ _ _ Hr) as [_ [A _]];
        destruct (A o0) as [src [g [op [u [Hs [Hu [Hf Hal]]]]]]]; [rewrite Hl; now left|] end.
      destruct (find_obj_some _ _ _ Hf) as [Hin0 Hu0].
      assert (o = o0) by (eapply nodup_map_inj; eauto). subst o0.
      exists op. split; [|exact Hal]. exists h, src, g, u. auto.
    + left. simpl. unfold remove_uid. apply filter_In. split; [exact Hin|]. now rewrite E.
  - (* add *)
    left. eapply add_all_keeps; eauto.
  - (* update of the primary object's content *)
    destruct (String.eqb (o_uid o) (o_uid o0)) eqn:E.
    + right. apply String.eqb_eq in E.
      match goal with Hr : run_sites _ _ _ _ _ _ = inr ?ld, Hl : l_objs ?ld = _ |- _ =>
        destruct (run_sites_inr _ _ _ _ _ _ _ Hr) as [_ [A _]];
        destruct (A o0) as [src [g [op [u [Hs [Hu [Hf Hal]]]]]]]; [rewrite Hl; now left|] end.
      destruct (find_obj_some _ _ _ Hf) as [Hin0 Hu0].
      assert (o = o0) by (eapply nodup_map_inj; eauto). subst o0.
      exists op. split; [|exact Hal]. exists h, src, g, u. auto.
    + left. simpl. apply set_content_other; [exact Hin|]. now apply String.eqb_neq.
Qed.

(* a request that fails changes nothing at all (rows, contents, ID placeholder) *)
Lemma failure_changes_nothing_l : forall P id s ph r out st',
  step_item P id (s, ph) r = (out, st') -> is_failure out = true -> st' = (s, ph).
Proof.
  intros P id s ph r out st' Hstep Hf.
  pose proof (step_item_shape P id s ph r) as Sh. rewrite Hstep in Sh. simpl in Sh.
  inversion Sh; subst; try reflexivity; simpl in Hf; discriminate.
Qed.

(* THE FRAME over the whole attribute state: after any request item, an object of the store is there unchanged
   (all columns and its whole content), unless the item succeeded, is an attribute-writing operation or Destroy,
   and the object is one the item loaded under a grant *)
Lemma content_frame_l : forall P id s ph r out s' ph',
  wf_store s ->
  step_item P id (s, ph) r = (out, (s', ph')) ->
  forall o, In o (objs s) ->
  In o (objs s') \/
  (is_failure out = false /\
   (In (r_op r) mutating_ops \/ exists h, handler_of (r_op r) = Some h /\ (0 < h_direct_queries h)%nat) /\
   exists op, addressed r ph s o op /\ allowed_obj P id op o = true).
Proof.
  intros P id s ph r out s' ph' [Hnd Hd] Hstep o Hin.
  pose proof (step_item_shape P id s ph r) as Sh. rewrite Hstep in Sh. simpl in Sh.
  destruct (only_addressed_objects_change_l _ _ _ _ _ _ _ _ (conj Hnd Hd) Hstep o Hin) as [Hl|Hr]; [now left|].
  inversion Sh; subst; auto;
    try (left; eapply add_all_keeps; eauto; fail);
    right; (split; [reflexivity|]); (split; [|exact Hr]);
    first [now left | right; eexists; split; eassumption].
Qed.



(* Locate (and any handler that only lists) answers with permitted objects only *)
Lemma listed_only_permitted_l : forall P id s ph r ids st' h,
  step_item P id (s, ph) r = (OSuccess ids, st') ->
  handler_of (r_op r) = Some h -> h_adds h = 0%nat -> h_direct_queries h = 0%nat ->
  forall u, In u ids ->
  exists o op, In o (objs s) /\ o_uid o = u /\ In (SListAll op) (h_sites h) /\ allowed_obj P id op o = true.
Proof.
  intros P id s ph r ids st' h Hstep Hh Ha Hq u Hin.
  pose proof (step_item_shape P id s ph r) as Sh. rewrite Hstep in Sh. simpl in Sh.
  inversion Sh; subst; try discriminate.
  - destruct Hin.
  - assert (h0 = h) by congruence. subst. lia.
  - assert (h0 = h) by congruence. subst.
    match goal with Hr : run_sites _ _ _ _ _ _ = inr ?ld |- _ =>
      destruct (run_sites_inr _ _ _ _ _ _ _ Hr) as [_ [_ A]] end.
    assert (Hin' : In u (map o_uid (l_listed ld))).
    { unfold located in Hin. destruct (r_match r); [apply filter_In in Hin; tauto|exact Hin]. }
    apply in_map_iff in Hin'. destruct Hin' as [o [Hu Ho]].
    destruct (A _ Ho) as [Hos [op [Hs Hal]]]. exists o, op. auto.
  - assert (h0 = h) by congruence. subst.
    match goal with Hr : run_sites _ _ _ _ _ _ = inr ?ld |- _ =>
      destruct (run_sites_inr _ _ _ _ _ _ _ Hr) as [_ [_ A]] end.
    assert (Hin' : In u (map o_uid (l_listed ld))).
    { unfold located in Hin. destruct (r_match r); [apply filter_In in Hin; tauto|exact Hin]. }
    apply in_map_iff in Hin'. destruct Hin' as [o1 [Hu Ho]].
    destruct (A _ Ho) as [Hos [op [Hs Hal]]]. exists o1, op. auto.
Qed.

(* ------------------------------------------------------------------ invariants over histories *)

Lemma same_acl_refl : forall o, same_acl o o.
Proof. intro o. unfold same_acl. auto. Qed.

Lemma same_acl_trans : forall a b c, same_acl a b -> same_acl b c -> same_acl a c.
Proof. unfold same_acl. intros a b c [A1 [A2 [A3 A4]]] [B1 [B2 [B3 B4]]]. repeat split; congruence. Qed.

(* s' extends s: every row of s is still there with the same access-control columns (its content may have been
   rewritten) or its identifier is dead; dead stays dead *)
Definition ext (s s' : store) : Prop :=
  (forall o, In o (objs s) -> (exists o', In o' (objs s') /\ same_acl o o') \/ In (o_uid o) (dead s')) /\
  (forall u, In u (dead s) -> In u (dead s')).

(* where the rows of s' come from: a row of s with the same access-control columns, or created by w *)
Definition origin (w : user) (s s' : store) : Prop :=
  forall o', In o' (objs s') ->
    (exists o, In o (objs s) /\ same_acl o o') \/ (o_owner o' = w /\ ~ In (o_uid o') (uids s)).

Lemma ext_refl : forall s, ext s s.
Proof. intro s. split; auto. intros o Hin. left. exists o. split; [exact Hin|apply same_acl_refl]. Qed.

Lemma origin_refl : forall w s, origin w s s.
Proof. intros w s o Hin. left. exists o. split; [exact Hin|apply same_acl_refl]. Qed.

Lemma ext_trans : forall a b c, ext a b -> ext b c -> ext a c.
Proof.
  intros a b c [A1 A2] [B1 B2]. split; [|auto].
  intros o Hin. destruct (A1 _ Hin) as [[o1 [H1 S1]]|H]; [|right; auto].
  destruct (B1 _ H1) as [[o2 [H2 S2]]|H].
  - left. exists o2. split; [exact H2|eapply same_acl_trans; eauto].
  - right. destruct S1 as [E _]. now rewrite E.
Qed.

(* composing origins needs to know that identifiers of s that are no longer rows of the middle store are dead there *)
Lemma origin_trans : forall w a b c,
  wf_store c -> ext a b -> ext b c -> origin w a b -> origin w b c -> origin w a c.
Proof.
  intros w a b c [_ Wd] [X1 _] [X2a X2] O1 O2 o' Hin.
  destruct (O2 _ Hin) as [[o1 [H1 S1]]|[Hw Hn]].
  - destruct (O1 _ H1) as [[o0 [H0 S0]]|[Hw0 Hn0]].
    + left. exists o0. split; [exact H0|eapply same_acl_trans; eauto].
    + right. destruct S1 as [E [_ [Eo _]]]. split; [congruence|]. now rewrite <- E.
  - right. split; [exact Hw|]. intro Hu. unfold uids in Hu. apply in_map_iff in Hu.
    destruct Hu as [o0 [Hu0 Hin0]]. destruct (X1 _ Hin0) as [[o1 [H1 [E _]]]|Hk].
    + apply Hn. unfold uids. rewrite <- Hu0, E. now apply in_map.
    + apply (Wd _ (X2 _ Hk)). rewrite Hu0. unfold uids. now apply in_map.
Qed.

Lemma add_new_props : forall s w n s',
  wf_store s -> add_new s w n = Some s' -> wf_store s' /\ ext s s' /\ origin w s s'.
Proof.
  intros s w [[[u t] p] c] s' [Hnd Hdead] H. unfold add_new in H.
  destruct (fresh s u) eqn:Ef; [|discriminate]. inversion H; subst; clear H.
  unfold fresh in Ef. apply andb_true_iff in Ef. destruct Ef as [F1 F2].
  apply negb_true_iff in F1, F2. apply mem_false_iff in F1, F2.
  split; [|split].
  - split; unfold uids in *; simpl.
    + rewrite map_app. simpl. apply nodup_snoc; assumption.
    + intros v Hv. rewrite map_app, in_app_iff. simpl. intros [Hin|[<-|[]]]; [eapply Hdead; eauto|contradiction].
  - split; simpl; auto. intros o Hin. left. exists o. split; [apply in_or_app; now left|apply same_acl_refl].
  - intros o Hin. simpl in Hin. apply in_app_or in Hin. destruct Hin as [Hin|[<-|[]]].
    + left. exists o. split; [exact Hin|apply same_acl_refl].
    + right. simpl. auto.
Qed.

Lemma add_all_props : forall ns s w s',
  wf_store s -> add_all s w ns = Some s' -> wf_store s' /\ ext s s' /\ origin w s s'.
Proof.
  induction ns as [|n t IH]; intros s w s' Hwf H; simpl in H.
  - inversion H; subst. split; [exact Hwf|]. split; [apply ext_refl|apply origin_refl].
  - destruct (add_new s w n) as [s1|] eqn:E1; [|discriminate].
    destruct (add_new_props _ _ _ _ Hwf E1) as [W1 [X1 O1]].
    destruct (IH _ _ _ W1 H) as [W2 [X2 O2]].
    split; [exact W2|]. split; [eapply ext_trans; eauto|eapply origin_trans; eauto].
Qed.

Lemma step_item_invariant : forall P id s ph r out s' ph',
  wf_store s -> step_item P id (s, ph) r = (out, (s', ph')) ->
  wf_store s' /\ ext s s' /\ origin (id_user id) s s'.
Proof.
  intros P id s ph r out s' ph' Hwf Hstep.
  pose proof (step_item_shape P id s ph r) as Sh. rewrite Hstep in Sh. simpl in Sh.
  inversion Sh; subst; try (split; [exact Hwf|split; [apply ext_refl|apply origin_refl]]).
  - (* delete *)
    destruct Hwf as [Hnd Hdead]. split; [|split].
    + split; unfold uids in *; simpl.
      * rewrite map_filter_uid. now apply nodup_filter.
      * intros v [<-|Hv]; rewrite map_filter_uid; intro Hin; apply filter_In in Hin; destruct Hin as [Hin Hne].
        -- rewrite String.eqb_refl in Hne. discriminate.
        -- eapply Hdead; eauto.
    + split; simpl; [|auto]. intros o1 Hin. destruct (String.eqb (o_uid o1) (o_uid o)) eqn:E.
      * right. left. apply String.eqb_eq in E. now rewrite E.
      * left. exists o1. split; [|apply same_acl_refl]. apply filter_In. split; [exact Hin|]. now rewrite E.
    + intros o1 Hin. simpl in Hin. apply filter_In in Hin. left. exists o1. split; [tauto|apply same_acl_refl].
  - (* add *)
    eapply add_all_props; eauto.
  - (* update *)
    destruct Hwf as [Hnd Hdead]. split; [|split].
    + split; unfold uids in *; simpl; rewrite set_content_uids; assumption.
    + split; simpl; [|auto]. intros o1 Hin. left. now apply set_content_acl_fwd.
    + intros o1 Hin. simpl in Hin. left. now apply set_content_acl in Hin.
Qed.

Arguments step_item : simpl never.

Lemma run_items_invariant : forall P id cont rs s ph outs s' ph',
  wf_store s -> run_items P id cont (s, ph) rs = (outs, (s', ph')) ->
  wf_store s' /\ ext s s' /\ origin (id_user id) s s'.
Proof.
  induction rs as [|r t IH]; intros s ph outs s' ph' Hwf H; simpl in H.
  - inversion H; subst. split; [exact Hwf|]. split; [apply ext_refl|apply origin_refl].
  - destruct (step_item P id (s, ph) r) as [out [s1 ph1]] eqn:E1.
    destruct (step_item_invariant _ _ _ _ _ _ _ _ Hwf E1) as [W1 [X1 O1]].
    destruct (is_failure out && negb cont).
    + inversion H; subst. auto.
    + destruct (run_items P id cont (s1, ph1) t) as [outs2 [s2 ph2]] eqn:E2.
      inversion H; subst. destruct (IH _ _ _ _ _ W1 E2) as [W2 [X2 O2]].
      split; [exact W2|]. split; [eapply ext_trans; eauto|eapply origin_trans; eauto].
Qed.

Lemma process_request_invariant : forall P s q outs s',
  wf_store s -> process_request P s q = (outs, s') ->
  wf_store s' /\ ext s s' /\ origin (id_user (q_id q)) s s'.
Proof.
  intros P s q outs s' Hwf H. unfold process_request in H.
  destruct (run_items P (q_id q) (q_cont q) (s, None) (q_items q)) as [outs1 [s1 ph1]] eqn:E.
  inversion H; subst. simpl. eapply run_items_invariant; eauto.
Qed.

Lemma run_invariant : forall P h s, wf_store s -> wf_store (run P s h) /\ ext s (run P s h).
Proof.
  induction h as [|q t IH]; intros s Hwf; simpl.
  - split; [exact Hwf|apply ext_refl].
  - destruct (process_request P s q) as [outs s1] eqn:E. simpl.
    destruct (process_request_invariant _ _ _ _ _ Hwf E) as [W1 [X1 _]].
    destruct (IH _ W1) as [W2 X2]. split; [exact W2|eapply ext_trans; eauto].
Qed.

Lemma wf_empty : wf_store empty_store.
Proof. split; [constructor|intros ? []]. Qed.

Lemma reachable_wf : forall P h, wf_store (run P empty_store h).
Proof. intros. apply run_invariant. apply wf_empty. Qed.

(* the access-control columns of a row never change: same identifier later means same type, owner and policy *)
Lemma rows_never_change_l : forall P h s o o',
  wf_store s -> In o (objs s) -> In o' (objs (run P s h)) -> o_uid o' = o_uid o -> same_acl o o'.
Proof.
  intros P h s o o' Hwf Hin Hin' Hu.
  destruct (run_invariant P h s Hwf) as [[Hnd Hdead] [X _]].
  destruct (X _ Hin) as [[o1 [H1 S1]]|Hk].
  - assert (o1 = o') by (eapply nodup_map_inj; eauto; destruct S1 as [E _]; congruence). now subst.
  - exfalso. apply (Hdead _ Hk). rewrite <- Hu. unfold uids. now apply in_map.
Qed.

(* the owner of an object is the identity of the request that created it, forever *)
Lemma owner_forever_l : forall P s q h o,
  wf_store s ->
  In o (objs (snd (process_request P s q))) -> ~ In (o_uid o) (uids s) ->
  o_owner o = id_user (q_id q) /\
  forall o', In o' (objs (run P (snd (process_request P s q)) h)) -> o_uid o' = o_uid o -> same_acl o o'.
Proof.
  intros P s q h o Hwf Hin Hnew.
  destruct (process_request P s q) as [outs s1] eqn:E. simpl in *.
  destruct (process_request_invariant _ _ _ _ _ Hwf E) as [W1 [_ O1]].
  split.
  - destruct (O1 _ Hin) as [[o0 [H0 [E0 _]]]|[Hw _]]; [|exact Hw].
    exfalso. apply Hnew. unfold uids. rewrite <- E0. now apply in_map.
  - intros o' Hin' Hu. eapply rows_never_change_l; eauto.
Qed.

(* a request all of whose items fail changes nothing *)
Lemma failed_items_change_nothing_l : forall P id cont rs s ph outs st',
  run_items P id cont (s, ph) rs = (outs, st') ->
  forallb is_failure outs = true -> st' = (s, ph).
Proof.
  induction rs as [|r t IH]; intros s ph outs st' H Hall; simpl in H.
  - now inversion H.
  - destruct (step_item P id (s, ph) r) as [out st1] eqn:E1.
    destruct (is_failure out && negb cont) eqn:Eb.
    + inversion H; subst. simpl in Hall. apply andb_true_iff in Hall. destruct Hall as [Hf _].
      eapply failure_changes_nothing_l; eauto.
    + destruct (run_items P id cont st1 t) as [outs2 st2] eqn:E2. inversion H; subst.
      simpl in Hall. apply andb_true_iff in Hall. destruct Hall as [Hf Hrest].
      rewrite (failure_changes_nothing_l _ _ _ _ _ _ _ E1 Hf) in E2. eapply IH; eauto.
Qed.
