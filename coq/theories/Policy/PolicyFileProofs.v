(* C03 - loading a policy file preserves every access decision and every grant. *)
From Coq Require Import ZArith List Bool String.
From PK Require Import Policy.Policy Policy.PolicyProofs Policy.PolicyFile.
Import ListNotations.
Open Scope Z_scope.
Open Scope string_scope.

(* the decision as a function of the bundle found under the policy name *)
Definition section_of (b : option bundle) (g : option string) : option section :=
  match b with
  | None => None
  | Some b =>
    if bundle_falsy b then None
    else match g with
         | Some gname =>
           match groups b with
           | None => None
           | Some gs => if is_nil gs then None
                        else match slookup gname gs with
                             | None => None
                             | Some s => if is_nil s then None else Some s
                             end
           end
         | None => preset b
         end
  end.

Lemma relevant_section_of : forall P pn g, relevant_section P pn g = section_of (slookup pn P) g.
Proof. intros. unfold relevant_section, section_of. destruct (slookup pn P); reflexivity. Qed.

(* two bundles the engine cannot tell apart *)
Definition same_decisions (a b : option bundle) : Prop :=
  forall g ot, match section_of a g, section_of b g with
               | Some s, Some s' => zlookup ot s = zlookup ot s'
               | Some s, None | None, Some s => zlookup ot s = None
               | None, None => True
               end.

Lemma load_vs_meaning : forall b, same_decisions (load_body b) (meaning_body b).
Proof.
  intros [pre grp|s] g ot; simpl.
  - destruct pre as [[|e p]|], grp as [[|e' q]|]; simpl; destruct g as [gn|]; simpl;
      try reflexivity; try exact I;
      try (destruct (String.eqb gn (fst e')) eqn:E; simpl);
      repeat match goal with
             | |- context [match ?x with _ => _ end] => destruct x; simpl
             end; try reflexivity; try exact I.
  - destruct s as [|e t]; simpl; [exact I|]. destruct g; simpl; [exact I|reflexivity].
Qed.

Lemma is_allowed_same : forall P P' pn u g owner ot op,
  same_decisions (slookup pn P) (slookup pn P') ->
  is_allowed P pn u g owner ot op = is_allowed P' pn u g owner ot op.
Proof.
  intros P P' pn u g owner ot op H. unfold is_allowed. rewrite !relevant_section_of.
  specialize (H g ot).
  destruct (section_of (slookup pn P) g) as [s|], (section_of (slookup pn P') g) as [s'|]; try reflexivity.
  - now rewrite H.
  - now rewrite H.
  - now rewrite H.
Qed.

Lemma same_decisions_refl : forall a, same_decisions a a.
Proof. intros a g ot. destruct (section_of a g); [reflexivity|exact I]. Qed.

Lemma slookup_app : forall A k (a b : list (string * A)),
  slookup k (a ++ b) = match slookup k a with Some v => Some v | None => slookup k b end.
Proof.
  induction a as [|[k' v] t IH]; intros b; simpl; [reflexivity|].
  destruct (String.eqb k k'); [reflexivity|apply IH].
Qed.

Lemma none_iff : forall b, load_body b = None <-> meaning_body b = None.
Proof.
  intros [pre grp|s]; simpl.
  - destruct pre, grp; split; intro H; try discriminate; reflexivity.
  - destruct (is_nil s); split; intro H; try discriminate; reflexivity.
Qed.

Lemma keep_lookup : forall A (f : dbody -> option A) pn n b,
  slookup pn (keep f (n, b)) = if String.eqb pn n then f b else None.
Proof.
  intros. unfold keep. simpl. destruct (f b); simpl; destruct (String.eqb pn n); reflexivity.
Qed.

Lemma lookup_loaded_vs_meaning : forall d pn,
  match slookup pn (load_document d), slookup pn (document_meaning d) with
  | Some a, Some b => same_decisions (Some a) (Some b)
  | None, None => True
  | _, _ => False
  end.
Proof.
  induction d as [|[n b] t IH]; intro pn; [exact I|].
  unfold load_document, document_meaning in *. cbn [flat_map].
  rewrite !slookup_app, !keep_lookup.
  destruct (String.eqb pn n); [|apply IH].
  pose proof (load_vs_meaning b) as L. pose proof (none_iff b) as N.
  destruct (load_body b) as [x|] eqn:E1, (meaning_body b) as [y|] eqn:E2.
  - exact L.
  - exfalso. destruct N as [_ N]. specialize (N eq_refl). discriminate.
  - exfalso. destruct N as [N _]. specialize (N eq_refl). discriminate.
  - apply IH.
Qed.

Lemma overlay_same : forall base d pn,
  same_decisions (slookup pn (overlay base (load_document d))) (slookup pn (overlay base (document_meaning d))).
Proof.
  intros base d pn. unfold overlay. rewrite !slookup_app.
  pose proof (lookup_loaded_vs_meaning d pn) as H.
  destruct (slookup pn (load_document d)), (slookup pn (document_meaning d)); try contradiction.
  - exact H.
  - apply same_decisions_refl.
Qed.

(* the engine decides on the loaded file exactly as it would on what the document says *)
Lemma loading_preserves_decisions_l : forall base d pn id owner ot op,
  allowed_by_policy (overlay base (load_document d)) pn id owner ot op
  = allowed_by_policy (overlay base (document_meaning d)) pn id owner ot op.
Proof.
  intros. unfold allowed_by_policy. destruct (id_groups id) as [gs|].
  - induction gs as [|g t IH]; simpl; [reflexivity|].
    rewrite IH. f_equal. apply is_allowed_same. apply overlay_same.
  - apply is_allowed_same. apply overlay_same.
Qed.

(* hence whatever is allowed under a loaded file is granted by the DOCUMENT *)
Lemma loaded_file_sound_l : forall base d pn id owner ot op,
  allowed_by_policy (overlay base (load_document d)) pn id owner ot op = true ->
  granted_spec (overlay base (document_meaning d)) pn id owner ot op.
Proof.
  intros base d pn id owner ot op H. rewrite loading_preserves_decisions_l in H.
  now apply decision_sound_l.
Qed.

(* ------------------------------------------------------------------ the store fed by the monitor *)

Lemma allowed_lookup_only : forall P P' pn id owner ot op,
  slookup pn P = slookup pn P' ->
  allowed_by_policy P pn id owner ot op = allowed_by_policy P' pn id owner ot op.
Proof.
  intros P P' pn id owner ot op E. unfold allowed_by_policy.
  assert (S : same_decisions (slookup pn P) (slookup pn P')) by (rewrite E; apply same_decisions_refl).
  destruct (id_groups id) as [gs|].
  - induction gs as [|g t IH]; simpl; [reflexivity|]. rewrite IH. f_equal. now apply is_allowed_same.
  - now apply is_allowed_same.
Qed.

(* a missing policy - also one that no file on disk defines any more - grants to nobody; whatever the engine allows
   under a store all of whose entries come from the built-ins or from documents on disk is granted by the built-in
   policy or by one of those documents *)
Lemma store_from_disk_sound_l : forall builtin docs store pn id owner ot op,
  from_disk builtin docs store ->
  allowed_by_policy store pn id owner ot op = true ->
  granted_spec builtin pn id owner ot op \/
  exists d, In d docs /\ granted_spec (document_meaning d) pn id owner ot op.
Proof.
  intros builtin docs store pn id owner ot op Hfd H.
  destruct (slookup pn store) as [b|] eqn:Eb.
  - destruct (Hfd _ _ Eb) as [Hb|[d [Hin Hd]]].
    + left. apply decision_sound_l. rewrite <- H. apply allowed_lookup_only. congruence.
    + right. exists d. split; [exact Hin|]. apply decision_sound_l.
      pose proof (loading_preserves_decisions_l [] d pn id owner ot op) as L. unfold overlay in L.
      rewrite !app_nil_r in L. rewrite <- L, <- H. apply allowed_lookup_only. congruence.
  - rewrite (deny_policy_missing _ _ id owner ot op Eb) in H. discriminate.
Qed.
