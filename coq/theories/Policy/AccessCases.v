(* C03 - comparator for the correspondence runs (tie K): Coq replays an engine
   history on the model and compares it with what the implementation did.
   Definitions only. *)
From Coq Require Import String ZArith List Bool.
From PK Require Import Policy.Policy Policy.AccessTypes Policy.Access.
From PKGen Require Import HandlerAccessOps.
Import ListNotations.
Open Scope Z_scope.
Open Scope string_scope.

(* what the implementation answered for one batch item *)
Record obs := { ob_ok : bool;            (* result status = SUCCESS *)
                ob_reason : string;      (* result reason name, "" on success *)
                ob_msg : string;         (* result message, "" when absent *)
                ob_ids : list string;    (* Locate: identifiers listed; creators: identifiers issued; else [] *)
                ob_partial : bool }.     (* Locate with offset / maximum items: the answer is a part of the candidates
                                            (which part is C14's business; here: nothing outside the candidates) *)

Definition guard_text (s : site) : list string :=
  match s with SLoad _ (GMaskNotFound m) _ => [m] | _ => [] end.

Definition masked_texts : list string :=
  flat_map (fun h => flat_map guard_text (h_sites h)) handler_access_ops.

(* the text of an access refusal: the not-found text of some identifier, or a masked one *)
Definition access_refusal_text (m : string) : bool :=
  String.prefix (f_prefix notfound_format) m || mem m masked_texts.

Definition subset (a b : list string) : bool := forallb (fun x => mem x b) a.
Definition same_set (a b : list string) : bool :=
  subset a b && subset b a && Nat.eqb (List.length a) (List.length b).

Definition out_match (o : outcome) (b : obs) : bool :=
  match o with
  | ODenied m => negb (ob_ok b) && String.eqb (ob_reason b) "PERMISSION_DENIED" && String.eqb (ob_msg b) m
  | ONotFound m => negb (ob_ok b) && String.eqb (ob_reason b) "ITEM_NOT_FOUND" && String.eqb (ob_msg b) m
  | OPreFail | OPostFail | OMidFail => negb (ob_ok b) && negb (access_refusal_text (ob_msg b))
  | OSuccess ids => ob_ok b && (if ob_partial b then subset (ob_ids b) ids else same_set ids (ob_ids b))
  | OUnsupported | OStuck => false
  end.

Fixpoint outs_match (os : list outcome) (bs : list obs) : bool :=
  match os, bs with
  | [], [] => true
  | o :: os', b :: bs' => out_match o b && outs_match os' bs'
  | _, _ => false
  end.

Fixpoint rows_match (a b : list obj) : bool :=
  match a, b with
  | [], [] => true
  | x :: a', y :: b' => obj_eqb x y && rows_match a' b'
  | _, _ => false
  end.

(* one request of a history: the request, the observed batch items, the observed rows afterwards *)
Definition hstep := (req * list obs * list obj)%type.

Fixpoint check_steps (P : policies) (s : store) (h : list hstep) : bool :=
  match h with
  | [] => true
  | (q, bs, rows) :: t =>
    let (outs, s') := process_request P s q in
    outs_match outs bs && rows_match (objs s') rows && check_steps P s' t
  end.

(* index of the first request on which model and implementation differ (for replay files) *)
Fixpoint first_bad (P : policies) (s : store) (h : list hstep) (k : nat) : option (nat * list outcome * list obj) :=
  match h with
  | [] => None
  | (q, bs, rows) :: t =>
    let (outs, s') := process_request P s q in
    if outs_match outs bs && rows_match (objs s') rows then first_bad P s' t (S k)
    else Some (k, outs, objs s')
  end.

Definition check_history (c : policies * list hstep) : bool := check_steps (fst c) empty_store (snd c).
