(* C03 - user policies come from policy FILES: kmip/core/policy.py read_policy_from_file / parse_policy.
   [load_document] transcribes what the loader builds from a (valid) JSON document,
   [document_meaning] is what the document says (docs/source/server.rst).  Names of object types,
   operations and permissions are resolved to enumeration values before they reach the model (invalid
   names and malformed documents are rejected by the loader - property C18).
   Model file: definitions only. *)
From Coq Require Import ZArith List Bool String.
From PK Require Import Policy.Policy.
Import ListNotations.
Open Scope Z_scope.
Open Scope string_scope.

(* the value under a policy name *)
Inductive dbody :=
| DSections (pre : option section) (grp : option (list (string * section)))  (* keys within {"preset","groups"} ({} = neither) *)
| DLegacy (s : section).                                                    (* keys are object types: the body is the preset *)

Definition document := list (string * dbody).      (* JSON object, in document order; keys unique *)

(* read_policy_from_file, per policy name *)
Definition load_body (b : dbody) : option bundle :=
  match b with
  | DSections None None => None                     (* len(object_policy.keys()) == 0: continue *)
  | DSections pre grp =>
      Some {| preset := match pre with                (* `if default_policy:` *)
                        | Some s => if is_nil s then None else Some s
                        | None => None end;
              groups := match grp with                (* `if group_policies:` *)
                        | Some g => if is_nil g then None else Some g
                        | None => None end |}
  | DLegacy s => if is_nil s then None else Some {| preset := Some s; groups := None |}
  end.

(* what the document says *)
Definition meaning_body (b : dbody) : option bundle :=
  match b with
  | DSections None None => None
  | DSections pre grp => Some {| preset := pre; groups := grp |}
  | DLegacy s => if is_nil s then None else Some {| preset := Some s; groups := None |}
  end.

Definition keep {A} (f : dbody -> option A) (e : string * dbody) : list (string * A) :=
  match f (snd e) with Some x => [(fst e, x)] | None => [] end.

Definition load_document (d : document) : policies := flat_map (keep load_body) d.
Definition document_meaning (d : document) : policies := flat_map (keep meaning_body) d.

(* the policy store of the engine: the built-in policies updated with the loaded ones *)
Definition overlay (base upd : policies) : policies := (upd ++ base)%list.

(* comparator for tie K: the loader's actual result, printed by the harness, is the model's *)
Definition opmap_eqb (a b : opmap) : bool :=
  Nat.eqb (List.length a) (List.length b) &&
  forallb (fun p => Z.eqb (fst (fst p)) (fst (snd p)) && perm_eqb (snd (fst p)) (snd (snd p))) (combine a b).
Definition section_eqb (a b : section) : bool :=
  Nat.eqb (List.length a) (List.length b) &&
  forallb (fun p => Z.eqb (fst (fst p)) (fst (snd p)) && opmap_eqb (snd (fst p)) (snd (snd p))) (combine a b).
Definition osection_eqb (a b : option section) : bool :=
  match a, b with Some x, Some y => section_eqb x y | None, None => true | _, _ => false end.
Definition groups_eqb (a b : option (list (string * section))) : bool :=
  match a, b with
  | Some x, Some y => Nat.eqb (List.length x) (List.length y) &&
      forallb (fun p => String.eqb (fst (fst p)) (fst (snd p)) && section_eqb (snd (fst p)) (snd (snd p))) (combine x y)
  | None, None => true
  | _, _ => false
  end.
Definition bundle_eqb (a b : bundle) : bool := osection_eqb (preset a) (preset b) && groups_eqb (groups a) (groups b).
Definition policies_eqb (a b : policies) : bool :=
  Nat.eqb (List.length a) (List.length b) &&
  forallb (fun p => String.eqb (fst (fst p)) (fst (snd p)) && bundle_eqb (snd (fst p)) (snd (snd p))) (combine a b).

Definition check_loaded (c : document * policies) : bool := policies_eqb (load_document (fst c)) (snd c).

(* ------------------------------------------------------------------ the policy store fed by the directory monitor *)

(* Every entry of the store is a built-in policy or what the loader builds from a document that is on disk NOW
   (which of several files defining the same name wins is property C18's business). *)
Definition from_disk (builtin : policies) (docs : list document) (store : policies) : Prop :=
  forall pn b, slookup pn store = Some b ->
    slookup pn builtin = Some b \/ exists d, In d docs /\ slookup pn (load_document d) = Some b.

(* comparator for tie K: the observed store after a scan against the documents on disk; reserved (built-in) names
   must carry the built-in policy *)
Definition entry_from_disk (builtin : policies) (docs : list document) (e : string * bundle) : bool :=
  match slookup (fst e) builtin with
  | Some b' => bundle_eqb (snd e) b'
  | None => existsb (fun d => match slookup (fst e) (load_document d) with
                              | Some b' => bundle_eqb (snd e) b'
                              | None => false end) docs
  end.
Definition from_disk_b (builtin : policies) (docs : list document) (store : policies) : bool :=
  forallb (entry_from_disk builtin docs) store.
Definition check_store (builtin : policies) (c : list document * policies) : bool := from_disk_b builtin (fst c) (snd c).
