(* C03 - the access choke points of the request handlers.

   A small store (uid, object type, owner, operation policy name) and an abstract
   step for every dispatched operation, at the granularity the property needs:
   which objects a handler loads, under which Operation constant, in which
   order, what the answer is when a load is refused, and what happens to the
   four access-control columns.  Which choke point a handler calls, with which
   constant and which identifier, is NOT written here: it is read from the
   generated table PKGen.HandlerAccessOps (ast pass over engine.py).

   What a handler does after all its loads were granted (lifecycle, masks,
   cryptography, attribute rules) is outside C03; the model takes the verdict
   "the rest succeeded" as an oracle input ([r_post_ok]) and only describes
   the effect on the access-control columns (object added with owner =
   requester; object deleted by Destroy).

   Model file: definitions only, executable. *)
From Coq Require Import ZArith List Bool String.
From PK Require Import Policy.Policy Policy.AccessTypes.
From PKGen Require Import HandlerAccessOps.
Import ListNotations.
Open Scope Z_scope.
Open Scope string_scope.

(* ------------------------------------------------------------------ state *)

(* everything else the data store holds about ONE object, abstractly: a list of (kind, value id) pairs - one per
   table that has rows for the object, the value id standing for the object's rows there (names, object groups,
   application specific information, state, usage mask, key material, ...).  A value belongs to ONE object: this is
   the property-level view; the data store may share rows, the observable attribute state may not. *)
Definition content := list (string * string).

Record obj := { o_uid : string;      (* str(unique_identifier), canonical decimal *)
                o_type : Z;          (* managed_objects.object_type *)
                o_owner : user;      (* managed_objects.owner *)
                o_pol : string;      (* managed_objects.operation_policy_name *)
                o_content : content }.

Record store := { objs : list obj;        (* rows, in insertion order *)
                  dead : list string }.   (* identifiers of deleted rows (SQLite AUTOINCREMENT never reissues them) *)

Definition content_eqb (a b : content) : bool :=
  Nat.eqb (List.length a) (List.length b) &&
  forallb (fun p => String.eqb (fst (fst p)) (fst (snd p)) && String.eqb (snd (fst p)) (snd (snd p))) (combine a b).

Definition obj_eqb (a b : obj) : bool :=
  String.eqb (o_uid a) (o_uid b) && Z.eqb (o_type a) (o_type b) &&
  user_eqb (o_owner a) (o_owner b) && String.eqb (o_pol a) (o_pol b) && content_eqb (o_content a) (o_content b).

(* the access-control columns of two rows agree *)
Definition same_acl (a b : obj) : Prop :=
  o_uid a = o_uid b /\ o_type a = o_type b /\ o_owner a = o_owner b /\ o_pol a = o_pol b.

Definition set_content (u : string) (c : content) (l : list obj) : list obj :=
  map (fun o => if String.eqb (o_uid o) u
                then {| o_uid := o_uid o; o_type := o_type o; o_owner := o_owner o; o_pol := o_pol o; o_content := c |}
                else o) l.

(* operations whose success rewrites attributes of their primary object (Activate, Revoke: the state;
   Modify/Set/DeleteAttribute); Destroy deletes the row; creators write the content of the rows they add *)
Definition mutating_ops : list Z := [18; 19; 14; 15; 49].

Definition uids (s : store) : list string := map o_uid (objs s).

Definition find_obj (u : string) (l : list obj) : option obj :=
  find (fun o => String.eqb (o_uid o) u) l.

Definition remove_uid (u : string) (l : list obj) : list obj :=
  filter (fun o => negb (String.eqb (o_uid o) u)) l.

Definition mem (u : string) (l : list string) : bool := existsb (String.eqb u) l.

Definition fresh (s : store) (u : string) : bool := negb (mem u (uids s)) && negb (mem u (dead s)).

(* ------------------------------------------------------------------ requests *)

Record request := {
  r_op : Z;                            (* batch item operation (enum value) *)
  r_uid : option string;               (* payload unique identifier; None = absent *)
  r_uids : list string;                (* payload.unique_identifiers (DeriveKey) *)
  r_each_ok : list bool;               (* oracle input, DeriveKey: base i passes the suitability checks made right after
                                          it is loaded (type, DeriveKey mask bit), before the next base is loaded *)
  r_wrap : option string;              (* Get: encryption_key_information.unique_identifier of the wrapping specification *)
  r_pre_ok : bool;                     (* the handler's checks that precede its first choke point pass *)
  r_post_ok : bool;                    (* oracle input: everything after the granted loads succeeds *)
  r_match : option (list string);      (* Locate: identifiers matching the attribute filters (None = no filter) *)
  r_upd : option content;              (* oracle input for the attribute-writing operations: the content of the primary
                                          object afterwards (None = unchanged) *)
  r_new : list (string * Z * string * content)
                                       (* oracle input for creators: (identifier issued, object type, policy name, content) *)
}.

Inductive outcome :=
| ODenied (msg : string)         (* PermissionDenied raised by _get_object_with_access_controls *)
| ONotFound (msg : string)       (* ItemNotFound of _get_object_type, or the masked failure of a guarded site *)
| OPreFail                       (* refused before any object was loaded *)
| OPostFail                      (* every addressed object was loaded under a grant; the operation failed afterwards *)
| OMidFail                       (* a check on an object already loaded under a grant failed before the remaining
                                    objects were loaded (the loop of DeriveKey) *)
| OSuccess (ids : list string)   (* success; Locate: identifiers listed; creators: identifiers issued *)
| OUnsupported                   (* operation not dispatched *)
| OStuck.                        (* oracle inputs inconsistent with the model (never on a real run) *)

Definition is_failure (o : outcome) : bool :=
  match o with OSuccess _ => false | _ => true end.

(* the object was loaded under a grant and the handler went on with it *)
Definition passed (o : outcome) : bool :=
  match o with OSuccess _ | OPostFail => true | _ => false end.

(* ------------------------------------------------------------------ identifier resolution *)

(* `if payload.unique_identifier:` - absent or empty falls back to self._id_placeholder *)
Definition resolve_primary (r : request) (ph : option string) : option string :=
  match r_uid r with
  | Some u => if String.eqb u "" then ph else Some u
  | None => ph
  end.

Definition uid_text (u : option string) : string :=
  match u with Some s => s | None => "None" end.          (* "{0}".format(None) *)

Definition site_uids (src : uid_source) (r : request) (ph : option string) : list (option string) :=
  match src with
  | UPrimary => [resolve_primary r ph]
  | UEach => map Some (r_uids r)
  | UWrapKey => match r_wrap r with Some u => [Some u] | None => [] end
  end.

(* ------------------------------------------------------------------ the choke points *)

Definition allowed_obj (P : policies) (id : identity) (op : Z) (o : obj) : bool :=
  allowed_by_policy P (o_pol o) id (o_owner o) (o_type o) op.

(* _get_object_with_access_controls(uid, op) *)
Definition load1 (P : policies) (id : identity) (s : store) (op : Z) (u : option string) : outcome + obj :=
  match u with
  | None => inl (ONotFound (render1 notfound_format (uid_text None)))
  | Some us =>
    match find_obj us (objs s) with
    | None => inl (ONotFound (render1 notfound_format us))
    | Some o => if allowed_obj P id op o then inr o
                else inl (ODenied (render1 denied_format us))
    end
  end.

Definition mask (g : site_guard) (out : outcome) : outcome :=
  match g with GNone => out | GMaskNotFound m => ONotFound m end.

Fixpoint load_all (P : policies) (id : identity) (s : store) (op : Z) (g : site_guard)
                  (us : list (option string)) (cs : list bool) : outcome + list obj :=
  match us with
  | [] => inr []
  | u :: t =>
    match load1 P id s op u with
    | inl out => inl (mask g out)
    | inr o =>
      if negb (hd true cs) then inl OMidFail
      else match load_all P id s op g t (tl cs) with
           | inl out => inl out
           | inr os => inr (o :: os)
           end
    end
  end.

Definition site_checks (src : uid_source) (r : request) : list bool :=
  match src with UEach => r_each_ok r | _ => [] end.

Record loaded := { l_objs : list obj;      (* objects loaded one by one, in order *)
                   l_listed : list obj }.  (* result of _list_objects_with_access_controls *)

Fixpoint run_sites (P : policies) (id : identity) (s : store) (ph : option string) (r : request)
                   (sites : list site) : outcome + loaded :=
  match sites with
  | [] => inr {| l_objs := []; l_listed := [] |}
  | SLoad src g op :: t =>
    match load_all P id s op g (site_uids src r ph) (site_checks src r) with
    | inl out => inl out
    | inr os => match run_sites P id s ph r t with
                | inl out => inl out
                | inr ld => inr {| l_objs := os ++ l_objs ld; l_listed := l_listed ld |}
                end
    end
  | SListAll op :: t =>
    match run_sites P id s ph r t with
    | inl out => inl out
    | inr ld => inr {| l_objs := l_objs ld; l_listed := filter (allowed_obj P id op) (objs s) ++ l_listed ld |}
    end
  end.

(* ------------------------------------------------------------------ effects on the access-control columns *)

Definition add_new (s : store) (owner : user) (n : string * Z * string * content) : option store :=
  let '(u, t, p, c) := n in
  if fresh s u then Some {| objs := objs s ++ [{| o_uid := u; o_type := t; o_owner := owner; o_pol := p; o_content := c |}];
                            dead := dead s |}
  else None.

Fixpoint add_all (s : store) (owner : user) (ns : list (string * Z * string * content)) : option store :=
  match ns with
  | [] => Some s
  | n :: t => match add_new s owner n with None => None | Some s' => add_all s' owner t end
  end.

Definition new_uid (n : string * Z * string * content) : string := fst (fst (fst n)).

Definition located (ld : loaded) (r : request) : list string :=
  let ids := map o_uid (l_listed ld) in
  match r_match r with
  | None => ids
  | Some keep => filter (fun u => mem u keep) ids
  end.

Definition find_handler (hn : string) : option handler_info :=
  find (fun h => String.eqb (h_name h) hn) handler_access_ops.

Definition handler_of (op : Z) : option handler_info :=
  match zlookup op dispatch with None => None | Some hn => find_handler hn end.

Definition state := (store * option string)%type.      (* rows, self._id_placeholder *)

Definition step_item (P : policies) (id : identity) (st : state) (r : request) : outcome * state :=
  let (s, ph) := st in
  match zlookup (r_op r) dispatch with
  | None => (OUnsupported, st)
  | Some hn =>
    match find_handler hn with
    | None => (OStuck, st)
    | Some h =>
      if negb (r_pre_ok r) then (OPreFail, st) else
      match run_sites P id s ph r (h_sites h) with
      | inl out => (out, st)
      | inr ld =>
        if negb (r_post_ok r) then (OPostFail, st) else
        if Nat.ltb 0 (h_direct_queries h) then
          (* the one handler that queries the table itself: Destroy deletes the row it loaded *)
          match l_objs ld with
          | [] => (OStuck, st)
          | o :: _ => (OSuccess [], ({| objs := remove_uid (o_uid o) (objs s); dead := o_uid o :: dead s |}, ph))
          end
        else if Nat.ltb 0 (h_adds h) then
          if Nat.eqb (List.length (r_new r)) (h_adds h) && Nat.eqb (h_owner_assignments h) (h_adds h) then
            match add_all s (id_user id) (r_new r) with
            | None => (OStuck, st)
            | Some s' => (OSuccess (map new_uid (r_new r)),
                          (s', if h_sets_placeholder h then
                                 match rev (r_new r) with n :: _ => Some (new_uid n) | [] => ph end
                               else ph))
            end
          else (OStuck, st)
        else if existsb (Z.eqb (r_op r)) mutating_ops then
          (* an attribute-writing operation rewrites the content of the object it loaded - and of no other *)
          match l_objs ld, r_upd r with
          | o :: _, Some c => (OSuccess (located ld r), ({| objs := set_content (o_uid o) c (objs s); dead := dead s |}, ph))
          | _, _ => (OSuccess (located ld r), st)
          end
        else (OSuccess (located ld r), st)
      end
    end
  end.

(* ------------------------------------------------------------------ batches, requests, histories *)

Fixpoint run_items (P : policies) (id : identity) (cont : bool) (st : state) (rs : list request)
  : list outcome * state :=
  match rs with
  | [] => ([], st)
  | r :: t =>
    let (out, st') := step_item P id st r in
    if is_failure out && negb cont then ([out], st')
    else let (outs, st'') := run_items P id cont st' t in (out :: outs, st'')
  end.

Record req := { q_id : identity;          (* credential of the connection *)
                q_cont : bool;            (* batch error continuation option = CONTINUE *)
                q_items : list request }.

(* process_request: the ID placeholder starts empty in every request *)
Definition process_request (P : policies) (s : store) (q : req) : list outcome * store :=
  let (outs, st) := run_items P (q_id q) (q_cont q) (s, None) (q_items q) in (outs, fst st).

Fixpoint run (P : policies) (s : store) (h : list req) : store :=
  match h with
  | [] => s
  | q :: t => run P (snd (process_request P s q)) t
  end.

Fixpoint run_obs (P : policies) (s : store) (h : list req) : list (list outcome * store) :=
  match h with
  | [] => []
  | q :: t => let (outs, s') := process_request P s q in (outs, s') :: run_obs P s' t
  end.

Definition empty_store : store := {| objs := []; dead := [] |}.

Definition wf_store (s : store) : Prop :=
  NoDup (uids s) /\ forall u, In u (dead s) -> ~ In u (uids s).

(* ------------------------------------------------------------------ which object a request addresses under which operation *)

(* [addressed r ph s o op]: a choke-point call of the handler dispatched for
   [r], as listed in the generated table, resolves to object [o] of the store
   and passes the Operation constant [op]. *)
Definition addressed (r : request) (ph : option string) (s : store) (o : obj) (op : Z) : Prop :=
  exists h src g u,
    handler_of (r_op r) = Some h /\ In (SLoad src g op) (h_sites h) /\
    In (Some u) (site_uids src r ph) /\ find_obj u (objs s) = Some o.
