(* C03 - a request is answered, as far as refusal texts go, as if the objects the
   requester has no grant for did not exist: at EVERY load site (primary object,
   wrapping key of Get, bases of DeriveKey, ID placeholder). *)
From Coq Require Import ZArith List Bool String Lia.
From PK Require Import Policy.Policy Policy.PolicyProofs Policy.AccessTypes Policy.Access Policy.AccessProofs.
From PKGen Require Import HandlerAccessOps.
Import ListNotations.
Open Scope Z_scope.
Open Scope string_scope.

Definition without (o : obj) (s : store) : store :=
  {| objs := remove_uid (o_uid o) (objs s); dead := dead s |}.

Lemma find_obj_remove_other : forall u v l, u <> v -> find_obj u (remove_uid v l) = find_obj u l.
Proof.
  intros u v l Hne. induction l as [|a l IH]; [reflexivity|]. simpl.
  destruct (String.eqb (o_uid a) v) eqn:Ev; simpl.
  - apply String.eqb_eq in Ev. destruct (String.eqb (o_uid a) u) eqn:Eu.
    + apply String.eqb_eq in Eu. congruence.
    + exact IH.
  - destruct (String.eqb (o_uid a) u); [reflexivity|exact IH].
Qed.

Lemma find_obj_remove_same : forall v l, find_obj v (remove_uid v l) = None.
Proof.
  intros v l. induction l as [|a l IH]; [reflexivity|]. simpl.
  destruct (String.eqb (o_uid a) v) eqn:Ev; simpl; [exact IH|]. rewrite Ev. exact IH.
Qed.

(* results of a load phase in the two stores: both go on, or both refuse with the same text *)
Definition rel {A B} (x : outcome + A) (y : outcome + B) : Prop :=
  match x, y with
  | inl a, inl b => out_text a = out_text b
  | inr _, inr _ => True
  | _, _ => False
  end.

Lemma mask_text : forall g a b, out_text a = out_text b -> out_text (mask g a) = out_text (mask g b).
Proof. intros [|m] a b H; simpl; auto. Qed.

Lemma load1_rel : forall P id s o op u,
  NoDup (uids s) -> In o (objs s) ->
  (u = Some (o_uid o) -> allowed_obj P id op o = false) ->
  match load1 P id s op u, load1 P id (without o s) op u with
  | inl a, inl b => out_text a = out_text b
  | inr a, inr b => a = b
  | _, _ => False
  end.
Proof.
  intros P id s o op [us|] Hnd Hin Hden; simpl; [|reflexivity].
  destruct (String.eqb us (o_uid o)) eqn:E.
  - apply String.eqb_eq in E. subst us. rewrite (find_obj_nodup _ _ Hnd Hin), (Hden eq_refl).
    rewrite find_obj_remove_same. simpl. now rewrite denial_text_eq_notfound_l.
  - apply String.eqb_neq in E. rewrite (find_obj_remove_other _ _ _ E).
    destruct (find_obj us (objs s)) as [o'|]; [|reflexivity].
    destruct (allowed_obj P id op o'); reflexivity.
Qed.

Lemma load_all_rel : forall P id s o op g us cs,
  NoDup (uids s) -> In o (objs s) ->
  (In (Some (o_uid o)) us -> allowed_obj P id op o = false) ->
  rel (load_all P id s op g us cs) (load_all P id (without o s) op g us cs).
Proof.
  intros P id s o op g us. induction us as [|u t IH]; intros cs Hnd Hin Hden; simpl; [exact I|].
  pose proof (load1_rel P id s o op u Hnd Hin) as L.
  destruct (load1 P id s op u) as [a|a], (load1 P id (without o s) op u) as [b|b];
    try (exfalso; apply L; intros ->; apply Hden; now left).
  - simpl. apply mask_text. apply L. intros ->. apply Hden. now left.
  - destruct (negb (hd true cs)); [reflexivity|].
    assert (IH' := IH (tl cs) Hnd Hin (fun H => Hden (or_intror H))).
    unfold rel in IH'.
    destruct (load_all P id s op g t (tl cs)), (load_all P id (without o s) op g t (tl cs)); simpl; auto.
Qed.

Lemma run_sites_rel : forall P id s ph r o sites,
  NoDup (uids s) -> In o (objs s) ->
  (forall src g op, In (SLoad src g op) sites -> In (Some (o_uid o)) (site_uids src r ph) ->
                    allowed_obj P id op o = false) ->
  rel (run_sites P id s ph r sites) (run_sites P id (without o s) ph r sites).
Proof.
  intros P id s ph r o sites Hnd Hin. induction sites as [|[src g op|op] t IH]; intro Hden; simpl; [exact I| |].
  - pose proof (load_all_rel P id s o op g (site_uids src r ph) (site_checks src r) Hnd Hin
                  (fun H => Hden src g op (or_introl eq_refl) H)) as L.
    unfold rel in L.
    destruct (load_all P id s op g (site_uids src r ph) (site_checks src r)),
             (load_all P id (without o s) op g (site_uids src r ph) (site_checks src r)); try contradiction; [exact L|].
    assert (IH' := IH (fun src' g' op' H => Hden src' g' op' (or_intror H))). unfold rel in IH'.
    destruct (run_sites P id s ph r t), (run_sites P id (without o s) ph r t); simpl; auto.
  - assert (IH' := IH (fun src' g' op' H => Hden src' g' op' (or_intror H))). unfold rel in IH'.
    destruct (run_sites P id s ph r t), (run_sites P id (without o s) ph r t); simpl; auto.
Qed.

(* once every load has been granted no refusal text is produced *)
Lemma after_loads_no_text : forall P id s ph r hn h ld,
  zlookup (r_op r) dispatch = Some hn -> find_handler hn = Some h -> r_pre_ok r = true ->
  run_sites P id s ph r (h_sites h) = inr ld ->
  out_text (fst (step_item P id (s, ph) r)) = None.
Proof.
  intros P id s ph r hn h ld Ed Ef Hpre Hr. unfold step_item. rewrite Ed, Ef, Hpre, Hr. simpl.
  destruct (negb (r_post_ok r)); [reflexivity|].
  destruct (Nat.ltb 0 (h_direct_queries h)).
  - destruct (l_objs ld); reflexivity.
  - destruct (Nat.ltb 0 (h_adds h)).
    + destruct (Nat.eqb (List.length (r_new r)) (h_adds h) && Nat.eqb (h_owner_assignments h) (h_adds h)); [|reflexivity].
      destruct (add_all s (id_user id) (r_new r)); reflexivity.
    + match goal with |- context [if ?c then _ else _] => destruct c end; [|reflexivity].
      destruct (l_objs ld); [reflexivity|]. destruct (r_upd r); reflexivity.
Qed.

Lemma denied_like_missing_l : forall P id s ph r o,
  wf_store s -> In o (objs s) ->
  (forall op, addressed r ph s o op -> allowed_obj P id op o = false) ->
  out_text (fst (step_item P id (s, ph) r)) = out_text (fst (step_item P id (without o s, ph) r)).
Proof.
  intros P id s ph r o [Hnd _] Hin Hden.
  destruct (zlookup (r_op r) dispatch) as [hn|] eqn:Ed; [|unfold step_item; now rewrite Ed].
  destruct (find_handler hn) as [h|] eqn:Ef; [|unfold step_item; now rewrite Ed, Ef].
  destruct (r_pre_ok r) eqn:Hpre; [|unfold step_item; now rewrite Ed, Ef, Hpre].
  assert (Hh : handler_of (r_op r) = Some h) by (unfold handler_of; now rewrite Ed).
  pose proof (run_sites_rel P id s ph r o (h_sites h) Hnd Hin) as R.
  assert (Hd : forall src g op, In (SLoad src g op) (h_sites h) -> In (Some (o_uid o)) (site_uids src r ph) ->
                                allowed_obj P id op o = false).
  { intros src g op Hs Hu. apply Hden. exists h, src, g, (o_uid o).
    split; [exact Hh|]. split; [exact Hs|]. split; [exact Hu|]. now apply find_obj_nodup. }
  specialize (R Hd). unfold rel in R.
  destruct (run_sites P id s ph r (h_sites h)) as [a|ld] eqn:E1,
           (run_sites P id (without o s) ph r (h_sites h)) as [b|ld'] eqn:E2; try contradiction.
  - unfold step_item. rewrite Ed, Ef, Hpre. simpl. rewrite E1, E2. exact R.
  - rewrite (after_loads_no_text _ _ _ _ _ _ _ _ Ed Ef Hpre E1), (after_loads_no_text _ _ _ _ _ _ _ _ Ed Ef Hpre E2).
    reflexivity.
Qed.

(* and in both runs nothing changes: by no_effect_without_grant_l in the first, and because a refusal
   never changes anything in the second (step_item_shape) *)
