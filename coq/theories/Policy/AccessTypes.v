(* C03 - vocabulary shared by the generated table gen/HandlerAccessOps.v
   (translate/gen_policies.py, an `ast` pass over kmip/services/server/engine.py)
   and the hand model Policy/Access.v. *)
From Coq Require Import ZArith List String.
Import ListNotations.

(* where the identifier handed to _get_object_with_access_controls comes from *)
Inductive uid_source :=
| UPrimary      (* the payload's unique identifier, else self._id_placeholder *)
| UEach         (* loop variable of `for unique_identifier in payload.unique_identifiers` *)
| UWrapKey.     (* key_wrapping_specification.encryption_key_information.unique_identifier *)

(* what surrounds the call *)
Inductive site_guard :=
| GNone
| GMaskNotFound (msg : string).   (* try: ... except Exception: raise ItemNotFound(msg) *)

Inductive site :=
| SLoad (src : uid_source) (g : site_guard) (op : Z)   (* self._get_object_with_access_controls(uid, enums.Operation.<op>) *)
| SListAll (op : Z).                                   (* self._list_objects_with_access_controls(enums.Operation.<op>) *)

Record handler_info := {
  h_name : string;                (* method name, e.g. "_process_get" *)
  h_sites : list site;            (* choke-point calls, in source order *)
  h_direct_queries : nat;         (* uses of self._data_session.query in the handler itself *)
  h_owner_assignments : nat;      (* statements `<obj>._owner = self._client_identity[0]` *)
  h_adds : nat;                   (* objects handed to self._data_session.add *)
  h_sets_placeholder : bool       (* assigns self._id_placeholder *)
}.

(* a text with one hole: "<prefix>{0}<suffix>".format(uid) *)
Record fmt1 := { f_prefix : string; f_suffix : string }.
Definition render1 (f : fmt1) (u : string) : string := (f_prefix f ++ u ++ f_suffix f)%string.
