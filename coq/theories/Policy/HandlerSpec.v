(* C03 - what the property demands of every request handler, written by hand
   (NOT derived from engine.py): which objects a handler must load through the
   choke point, under which policy operation, and nothing else.

   Reading of "the object's operation policy grants that operation":
   * an operation that has an entry in the KMIP operation-policy tables is
     governed by its own entry (Get, GetAttributes, GetAttributeList, Activate,
     Revoke, Destroy, ModifyAttribute, SetAttribute, DeleteAttribute, Locate);
   * using or reading key material through an operation for which the KMIP
     default policy has no row (Encrypt, Decrypt, Sign, SignatureVerify, MAC),
     and reaching an object indirectly to read its material (the wrapping key
     of Get, the base objects of DeriveKey) is governed by Get - the engine's
     documented choice (comments at _process_encrypt, _process_mac);
   * creators (Create, CreateKeyPair, Register, DeriveKey) address no existing
     object as primary and stamp the requester as owner on every row they add;
   * Destroy is the only handler that touches the table directly (to delete
     the row it loaded). *)
From Coq Require Import ZArith List Bool String.
From PK Require Import Policy.Policy Policy.AccessTypes.
From PKGen Require Import HandlerAccessOps DefaultPolicies.
Import ListNotations.
Open Scope Z_scope.
Open Scope string_scope.

Definition op_named (n : string) : Z := match slookup n OP_ with Some v => v | None => -1 end.

Definition GET := op_named "GET".

(* operation -> the policy operation that must be granted on the primary object *)
Definition governing_table : list (Z * Z) :=
  [ (op_named "GET", GET);
    (op_named "GET_ATTRIBUTES", op_named "GET_ATTRIBUTES");
    (op_named "GET_ATTRIBUTE_LIST", op_named "GET_ATTRIBUTE_LIST");
    (op_named "ACTIVATE", op_named "ACTIVATE");
    (op_named "REVOKE", op_named "REVOKE");
    (op_named "DESTROY", op_named "DESTROY");
    (op_named "MODIFY_ATTRIBUTE", op_named "MODIFY_ATTRIBUTE");
    (op_named "SET_ATTRIBUTE", op_named "SET_ATTRIBUTE");
    (op_named "DELETE_ATTRIBUTE", op_named "DELETE_ATTRIBUTE");
    (op_named "ENCRYPT", GET); (op_named "DECRYPT", GET); (op_named "SIGN", GET);
    (op_named "SIGNATURE_VERIFY", GET); (op_named "MAC", GET) ].

Definition plain (n : string) (sites : list site) : handler_info :=
  {| h_name := n; h_sites := sites; h_direct_queries := 0; h_owner_assignments := 0; h_adds := 0;
     h_sets_placeholder := false |}.

Definition creator (n : string) (sites : list site) (k : nat) : handler_info :=
  {| h_name := n; h_sites := sites; h_direct_queries := 0; h_owner_assignments := k; h_adds := k;
     h_sets_placeholder := true |}.

Definition primary (op : Z) : site := SLoad UPrimary GNone op.

Definition spec_handlers : list handler_info := [
  plain "_process_activate" [primary (op_named "ACTIVATE")];
  creator "_process_create" [] 1;
  creator "_process_create_key_pair" [] 2;
  plain "_process_decrypt" [primary GET];
  plain "_process_delete_attribute" [primary (op_named "DELETE_ATTRIBUTE")];
  creator "_process_derive_key" [SLoad UEach GNone GET] 1;
  {| h_name := "_process_destroy"; h_sites := [primary (op_named "DESTROY")];
     h_direct_queries := 1; h_owner_assignments := 0; h_adds := 0; h_sets_placeholder := false |};
  plain "_process_discover_versions" [];
  plain "_process_encrypt" [primary GET];
  plain "_process_get" [primary GET; SLoad UWrapKey (GMaskNotFound "Wrapping key does not exist.") GET];
  plain "_process_get_attribute_list" [primary (op_named "GET_ATTRIBUTE_LIST")];
  plain "_process_get_attributes" [primary (op_named "GET_ATTRIBUTES")];
  plain "_process_locate" [SListAll (op_named "LOCATE")];
  plain "_process_mac" [primary GET];
  plain "_process_modify_attribute" [primary (op_named "MODIFY_ATTRIBUTE")];
  plain "_process_query" [];
  creator "_process_register" [] 1;
  plain "_process_revoke" [primary (op_named "REVOKE")];
  plain "_process_set_attribute" [primary (op_named "SET_ATTRIBUTE")];
  plain "_process_sign" [primary GET];
  plain "_process_signature_verify" [primary GET]
].

Definition spec_dispatch : list (string * string) := [
  ("CREATE", "_process_create"); ("CREATE_KEY_PAIR", "_process_create_key_pair");
  ("DELETE_ATTRIBUTE", "_process_delete_attribute"); ("REGISTER", "_process_register");
  ("DERIVE_KEY", "_process_derive_key"); ("LOCATE", "_process_locate"); ("GET", "_process_get");
  ("GET_ATTRIBUTES", "_process_get_attributes"); ("GET_ATTRIBUTE_LIST", "_process_get_attribute_list");
  ("ACTIVATE", "_process_activate"); ("REVOKE", "_process_revoke"); ("DESTROY", "_process_destroy");
  ("QUERY", "_process_query"); ("DISCOVER_VERSIONS", "_process_discover_versions");
  ("ENCRYPT", "_process_encrypt"); ("DECRYPT", "_process_decrypt");
  ("SIGNATURE_VERIFY", "_process_signature_verify"); ("SET_ATTRIBUTE", "_process_set_attribute");
  ("MODIFY_ATTRIBUTE", "_process_modify_attribute"); ("MAC", "_process_mac"); ("SIGN", "_process_sign")
].
