(* C03 - the access decision of kmip/services/server/engine.py
     _is_allowed_by_operation_policy  (l.1064-1090)
     get_relevant_policy_section      (l.1092-1127)
     is_allowed                       (l.1129-1181)
   transcribed as total Gallina functions over an abstract policy store, and
   [granted_spec], the declarative grant relation written from the property text.

   Model file: definitions only, executable, stands alone. *)
From Coq Require Import ZArith List Bool String.
Import ListNotations.
Open Scope Z_scope.
Open Scope string_scope.

(* ------------------------------------------------------------------ policy data *)

(* The value found under an operation in a policy section.  Everything that is
   not one of the three members of enums.Policy (a missing entry is [None] at
   the lookup) is [POther]: the Python falls into `if not ...: return False`
   (falsy values) or into the final `else: return False`. *)
Inductive perm := AllowAll | AllowOwner | DisallowAll | POther.

Definition perm_eqb (a b : perm) : bool :=
  match a, b with
  | AllowAll, AllowAll | AllowOwner, AllowOwner | DisallowAll, DisallowAll | POther, POther => true
  | _, _ => false
  end.

(* dict as association list; Python dict.get = first match (keys are unique in a dict) *)
Fixpoint zlookup {A} (k : Z) (l : list (Z * A)) : option A :=
  match l with
  | [] => None
  | (k', v) :: t => if Z.eqb k k' then Some v else zlookup k t
  end.

Fixpoint slookup {A} (k : string) (l : list (string * A)) : option A :=
  match l with
  | [] => None
  | (k', v) :: t => if String.eqb k k' then Some v else slookup k t
  end.

Definition opmap   := list (Z * perm).          (* operation (enum value) -> permission *)
Definition section := list (Z * opmap).         (* object type (enum value) -> opmap      *)

Record bundle := { preset : option section;                       (* policy_bundle.get('preset') *)
                   groups : option (list (string * section)) }.   (* policy_bundle.get('groups') *)

Definition policies := list (string * bundle).  (* engine._operation_policies *)

Definition is_nil {A} (l : list A) : bool := match l with [] => true | _ => false end.

(* `not policy_bundle` : the dict {} (neither key present) is falsy *)
Definition bundle_falsy (b : bundle) : bool :=
  match preset b, groups b with None, None => true | _, _ => false end.

(* ------------------------------------------------------------------ identities *)

Definition user := option string.               (* session user / owner column; None when no credential *)

Record identity := { id_user : user; id_groups : option (list string) }.

Definition user_eqb (a b : user) : bool :=
  match a, b with
  | None, None => true
  | Some x, Some y => String.eqb x y
  | _, _ => false
  end.

(* ------------------------------------------------------------------ the three methods *)

(* get_relevant_policy_section(policy_name, group) *)
Definition relevant_section (P : policies) (pn : string) (g : option string) : option section :=
  match slookup pn P with
  | None => None                                            (* .get(policy_name) is None *)
  | Some b =>
    if bundle_falsy b then None                             (* `if not policy_bundle` on {} *)
    else match g with
         | Some gname =>                                    (* `if group is not None:` (every group name, "" included) *)
           match groups b with
           | None => None                                   (* `if not groups_policy_bundle` *)
           | Some gs =>
             if is_nil gs then None
             else match slookup gname gs with
                  | None => None                            (* `if not group_policy` *)
                  | Some s => if is_nil s then None else Some s
                  end
           end
         | None => preset b                                 (* policy_bundle.get('preset') *)
         end
  end.

(* is_allowed(policy_name, session_user, session_group, object_owner, object_type, operation) *)
Definition is_allowed (P : policies) (pn : string) (u : user) (g : option string)
                      (owner : user) (ot op : Z) : bool :=
  match relevant_section P pn g with
  | None => false
  | Some s =>
    match zlookup ot s with
    | None => false
    | Some om =>
      if is_nil om then false                               (* `if not object_policy` *)
      else match zlookup op om with
           | None => false                                  (* `if not operation_object_policy` *)
           | Some AllowAll => true
           | Some AllowOwner => user_eqb u owner
           | Some DisallowAll => false
           | Some POther => false
           end
    end
  end.

(* _is_allowed_by_operation_policy(policy_name, session_identity, object_owner, object_type, operation) *)
Definition allowed_by_policy (P : policies) (pn : string) (id : identity)
                             (owner : user) (ot op : Z) : bool :=
  match id_groups id with
  | None => is_allowed P pn (id_user id) None owner ot op               (* session_groups = [None] *)
  | Some gs => existsb (fun g => is_allowed P pn (id_user id) (Some g) owner ot op) gs
  end.

(* ------------------------------------------------------------------ the specification *)

(* 'allow all' to anyone, 'allow owner' only to the identity that created the
   object, anything else to nobody *)
Definition perm_grants (p : perm) (u owner : user) : Prop :=
  p = AllowAll \/ (p = AllowOwner /\ u = owner).

(* a section grants when it has an entry for the object type, and that an entry
   for the operation, and the permission found there grants *)
Definition section_grants (s : section) (u owner : user) (ot op : Z) : Prop :=
  exists om p, zlookup ot s = Some om /\ zlookup op om = Some p /\ perm_grants p u owner.

(* "the policy defines no groups" *)
Definition defines_no_groups (b : bundle) : Prop :=
  groups b = None \/ groups b = Some [].

(* The object's operation policy grants the operation for that object type to
   the requester:
   - without group information only the preset section;
   - with group information the most permissive applicable group section
     decides (i.e. it is enough that the section of ONE of the requester's
     groups grants), the preset section when the policy defines no groups;
   - a missing policy / section / object type / operation / group entry grants
     to nobody (no disjunct is satisfiable). *)
Definition granted_spec (P : policies) (pn : string) (id : identity)
                        (owner : user) (ot op : Z) : Prop :=
  exists b, slookup pn P = Some b /\
    match id_groups id with
    | None => exists s, preset b = Some s /\ section_grants s (id_user id) owner ot op
    | Some gs =>
        (exists g gm s, In g gs /\ groups b = Some gm /\ slookup g gm = Some s /\
                        section_grants s (id_user id) owner ot op)
        \/ (defines_no_groups b /\
            exists s, preset b = Some s /\ section_grants s (id_user id) owner ot op)
    end.

(* The section the CODE consults for one group value; used by the exact characterisation. *)
Definition code_section (b : bundle) (g : option string) (s : section) : Prop :=
  match g with
  | None => preset b = Some s
  | Some gname => exists gm, groups b = Some gm /\ slookup gname gm = Some s
  end.
