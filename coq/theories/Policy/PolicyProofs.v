(* C03 - lemmas about the access decision (Policy.v). *)
From Coq Require Import ZArith List Bool String Lia.
From PK Require Import Policy.Policy.
Import ListNotations.
Open Scope Z_scope.
Open Scope string_scope.

(* ------------------------------------------------------------------ small facts *)

Lemma user_eqb_eq : forall a b, user_eqb a b = true <-> a = b.
Proof.
  intros [a|] [b|]; simpl; split; intro H; try discriminate; try reflexivity.
  - apply String.eqb_eq in H. now subst.
  - inversion H. apply String.eqb_refl.
Qed.

Lemma user_eqb_refl : forall a, user_eqb a a = true.
Proof. intro a. now apply user_eqb_eq. Qed.

Lemma zlookup_some_not_nil : forall A k (l : list (Z * A)) v, zlookup k l = Some v -> is_nil l = false.
Proof. intros A k [|x l] v H; [discriminate|reflexivity]. Qed.

Lemma slookup_some_not_nil : forall A k (l : list (string * A)) v, slookup k l = Some v -> is_nil l = false.
Proof. intros A k [|x l] v H; [discriminate|reflexivity]. Qed.

(* ------------------------------------------------------------------ relevant_section *)

Lemma relevant_section_iff : forall P pn g s,
  (relevant_section P pn g = Some s /\ (g <> None -> is_nil s = false))
  <-> (exists b, slookup pn P = Some b /\ code_section b g s /\ (g <> None -> is_nil s = false)).
Proof.
  intros P pn g s. unfold relevant_section. split.
  - intros [H Hn]. destruct (slookup pn P) as [b|] eqn:Eb; [|discriminate].
    exists b. split; [reflexivity|]. split; [|exact Hn].
    destruct (bundle_falsy b) eqn:Ef; [discriminate|].
    destruct g as [gn|]; simpl in *.
    + destruct (groups b) as [gm|] eqn:Egm; [|discriminate].
      destruct (is_nil gm); [discriminate|].
      destruct (slookup gn gm) as [s'|] eqn:Es; [|discriminate].
      destruct (is_nil s'); [discriminate|]. inversion H; subst.
      exists gm. split; [reflexivity|exact Es].
    + exact H.
  - intros [b [Eb [Hc Hn]]]. rewrite Eb. split; [|exact Hn].
    destruct g as [gn|]; simpl in *.
    + destruct Hc as [gm [Egm Es]]. unfold bundle_falsy. rewrite Egm.
      assert (Hs : is_nil s = false) by (apply Hn; discriminate).
      destruct (preset b); simpl; rewrite (slookup_some_not_nil _ _ _ _ Es), Es, Hs; reflexivity.
    + unfold bundle_falsy. rewrite Hc. reflexivity.
Qed.

(* ------------------------------------------------------------------ is_allowed, exact *)

Lemma section_grants_not_nil : forall s u o ot op, section_grants s u o ot op -> is_nil s = false.
Proof. intros s u o ot op [om [p [H _]]]. eapply zlookup_some_not_nil; eauto. Qed.

Lemma is_allowed_section : forall (s : section) u owner ot op,
  (match zlookup ot s with
   | None => false
   | Some om => if is_nil om then false
                else match zlookup op om with
                     | None => false | Some AllowAll => true | Some AllowOwner => user_eqb u owner
                     | Some DisallowAll => false | Some POther => false end
   end) = true <-> section_grants s u owner ot op.
Proof.
  intros. unfold section_grants, perm_grants. split.
  - destruct (zlookup ot s) as [om|] eqn:Eo; [|discriminate].
    destruct (is_nil om); [discriminate|].
    destruct (zlookup op om) as [p|] eqn:Ep; [|discriminate].
    destruct p; try discriminate; intro H.
    + exists om, AllowAll. auto.
    + exists om, AllowOwner. apply user_eqb_eq in H. auto.
  - intros [om [p [Eo [Ep Hg]]]]. rewrite Eo, (zlookup_some_not_nil _ _ _ _ Ep), Ep.
    destruct Hg as [->|[-> ->]]; [reflexivity|apply user_eqb_refl].
Qed.

Lemma is_allowed_true_iff : forall P pn u g owner ot op,
  is_allowed P pn u g owner ot op = true <->
  exists b s, slookup pn P = Some b /\ code_section b g s /\ section_grants s u owner ot op.
Proof.
  intros. unfold is_allowed. split.
  - destruct (relevant_section P pn g) as [s|] eqn:Er; [|discriminate]. intro H.
    apply is_allowed_section in H.
    assert (Hn : g <> None -> is_nil s = false) by (intros _; eapply section_grants_not_nil; eauto).
    destruct (proj1 (relevant_section_iff P pn g s) (conj Er Hn)) as [b [Eb [Hc _]]].
    exists b, s. auto.
  - intros [b [s [Eb [Hc Hg]]]].
    assert (Hn : g <> None -> is_nil s = false) by (intros _; eapply section_grants_not_nil; eauto).
    destruct (proj2 (relevant_section_iff P pn g s)) as [Er _]; [exists b; auto|].
    rewrite Er. now apply is_allowed_section.
Qed.

(* ------------------------------------------------------------------ decision_table *)

(* exact characterisation of the decision: allowed iff the policy exists and a
   section the code consults for the requester (preset without group
   information; for a group g its group section, or the preset when g is "")
   has an entry for type and operation that is AllowAll, or AllowOwner with
   requester = owner *)
Definition table_spec (P : policies) (pn : string) (id : identity) (owner : user) (ot op : Z) : Prop :=
  exists b s, slookup pn P = Some b /\
    (match id_groups id with
     | None => code_section b None s
     | Some gs => exists g, In g gs /\ code_section b (Some g) s
     end) /\ section_grants s (id_user id) owner ot op.

Lemma decision_table_l : forall P pn id owner ot op,
  allowed_by_policy P pn id owner ot op = true <-> table_spec P pn id owner ot op.
Proof.
  intros. unfold allowed_by_policy, table_spec. destruct (id_groups id) as [gs|].
  - rewrite existsb_exists. split.
    + intros [g [Hin H]]. apply is_allowed_true_iff in H. destruct H as [b [s [Eb [Hc Hg]]]].
      exists b, s. split; [exact Eb|]. split; [exists g; auto|exact Hg].
    + intros [b [s [Eb [[g [Hin Hc]] Hg]]]]. exists g. split; [exact Hin|].
      apply is_allowed_true_iff. exists b, s. auto.
  - rewrite is_allowed_true_iff. split.
    + intros [b [s [Eb [Hc Hg]]]]. exists b, s. auto.
    + intros [b [s [Eb [Hc Hg]]]]. exists b, s. auto.
Qed.

(* ------------------------------------------------------------------ soundness *)

Lemma decision_sound_l : forall P pn id owner ot op,
  allowed_by_policy P pn id owner ot op = true -> granted_spec P pn id owner ot op.
Proof.
  intros P pn id owner ot op H. apply decision_table_l in H.
  destruct H as [b [s [Eb [Hc Hg]]]]. exists b. split; [exact Eb|].
  destruct (id_groups id) as [gs|].
  - destruct Hc as [g [Hin [gm [Egm Es]]]]. left. exists g, gm, s. auto.
  - simpl in Hc. exists s. auto.
Qed.

(* without group information the converse holds as well *)
Lemma no_groups_exact_l : forall P pn u owner ot op,
  allowed_by_policy P pn {| id_user := u; id_groups := None |} owner ot op = true
  <-> granted_spec P pn {| id_user := u; id_groups := None |} owner ot op.
Proof.
  intros. rewrite decision_table_l. unfold table_spec, granted_spec. simpl. split.
  - intros [b [s [Eb [Hc Hg]]]]. exists b. split; [exact Eb|]. exists s. auto.
  - intros [b [Eb [s [Hc Hg]]]]. exists b, s. auto.
Qed.

(* regression witness for the repaired finding C03-empty-group-name (commit 512fea4): a policy with a permissive
   preset and a groups section; the requester's only group is "" - no group entry applies, and the engine
   no longer consults the preset *)
Definition f11_policies : policies :=
  [("p", {| preset := Some [(2, [(10, AllowAll)])];
            groups := Some [("A", [(2, [(10, DisallowAll)])])] |})].
Definition f11_identity : identity := {| id_user := Some "bob"; id_groups := Some [""] |}.

Lemma empty_group_name_denied_l : allowed_by_policy f11_policies "p" f11_identity (Some "alice") 2 10 = false.
Proof. vm_compute. reflexivity. Qed.

(* the converse of soundness fails in the restrictive direction (DESIGN F10):
   group information present + policy with only a preset section -> denied,
   although granted_spec (and docs/source/server.rst) let the preset decide *)
Definition f10_policies : policies :=
  [("default", {| preset := Some [(2, [(10, AllowOwner)])]; groups := None |})].

Lemma converse_counterexample_l :
  exists P pn id owner ot op,
    granted_spec P pn id owner ot op /\ allowed_by_policy P pn id owner ot op = false.
Proof.
  exists f10_policies, "default", {| id_user := Some "alice"; id_groups := Some ["A"] |}, (Some "alice"), 2, 10.
  split; [|vm_compute; reflexivity].
  eexists. split; [vm_compute; reflexivity|]. simpl. right. split; [left; reflexivity|].
  eexists. split; [reflexivity|]. exists [(10, AllowOwner)], AllowOwner.
  split; [reflexivity|]. split; [reflexivity|]. right. auto.
Qed.

(* ------------------------------------------------------------------ default deny *)

Lemma deny_policy_missing : forall P pn id owner ot op,
  slookup pn P = None -> allowed_by_policy P pn id owner ot op = false.
Proof.
  intros. destruct (allowed_by_policy P pn id owner ot op) eqn:E; [|reflexivity].
  apply decision_table_l in E. destruct E as [b [s [Eb _]]]. congruence.
Qed.

Lemma deny_preset_missing : forall P pn b u owner ot op,
  slookup pn P = Some b -> preset b = None ->
  allowed_by_policy P pn {| id_user := u; id_groups := None |} owner ot op = false.
Proof.
  intros. destruct (allowed_by_policy _ _ _ _ _ _) eqn:E; [|reflexivity].
  apply decision_table_l in E. destruct E as [b' [s [Eb [Hc _]]]]. simpl in Hc. congruence.
Qed.

Lemma deny_groups_missing : forall P pn b id gs owner ot op,
  slookup pn P = Some b -> id_groups id = Some gs ->
  (groups b = None \/ groups b = Some []) ->
  allowed_by_policy P pn id owner ot op = false.
Proof.
  intros P pn b id gs owner ot op Eb Eg Hn.
  destruct (allowed_by_policy _ _ _ _ _ _) eqn:E; [|reflexivity].
  apply decision_table_l in E. destruct E as [b' [s [Eb' [Hc _]]]]. rewrite Eg in Hc.
  destruct Hc as [g [Hin [gm [Egm Es]]]]. assert (b' = b) by congruence. subst.
  destruct Hn as [Hn|Hn]; rewrite Hn in Egm; [discriminate|]. inversion Egm; subst. discriminate.
Qed.

Lemma deny_group_entry_missing : forall P pn b id gs gm owner ot op,
  slookup pn P = Some b -> id_groups id = Some gs -> groups b = Some gm ->
  (forall g, In g gs -> slookup g gm = None) ->
  allowed_by_policy P pn id owner ot op = false.
Proof.
  intros P pn b id gs gm owner ot op Eb Eg Egm Hnone.
  destruct (allowed_by_policy _ _ _ _ _ _) eqn:E; [|reflexivity].
  apply decision_table_l in E. destruct E as [b' [s [Eb' [Hc _]]]]. rewrite Eg in Hc.
  destruct Hc as [g [Hin [gm' [Egm' Es]]]]. assert (b' = b) by congruence. subst.
  assert (gm' = gm) by congruence. subst. rewrite (Hnone g Hin) in Es. discriminate.
Qed.

Lemma deny_empty_group_list : forall P pn u owner ot op,
  allowed_by_policy P pn {| id_user := u; id_groups := Some [] |} owner ot op = false.
Proof. reflexivity. Qed.

(* every section of the policy (preset and all group sections) lacks the object
   type, or has it without the operation, or has anything but AllowAll/AllowOwner *)
Definition section_silent (s : section) (u owner : user) (ot op : Z) : Prop :=
  zlookup ot s = None \/
  exists om, zlookup ot s = Some om /\
    (zlookup op om = None \/ zlookup op om = Some DisallowAll \/ zlookup op om = Some POther \/
     (zlookup op om = Some AllowOwner /\ u <> owner)).

Lemma silent_not_grants : forall s u owner ot op, section_silent s u owner ot op -> ~ section_grants s u owner ot op.
Proof.
  intros s u owner ot op Hs [om [p [Eo [Ep Hg]]]]. destruct Hs as [Hs|[om' [Eo' Hs]]]; [congruence|].
  assert (om' = om) by congruence. subst.
  destruct Hg as [->|[-> ->]]; destruct Hs as [Hs|[Hs|[Hs|[Hs Hne]]]]; try congruence.
Qed.

Lemma deny_all_sections_silent : forall P pn b id owner ot op,
  slookup pn P = Some b ->
  (forall s, preset b = Some s -> section_silent s (id_user id) owner ot op) ->
  (forall gm g s, groups b = Some gm -> slookup g gm = Some s -> section_silent s (id_user id) owner ot op) ->
  allowed_by_policy P pn id owner ot op = false.
Proof.
  intros P pn b id owner ot op Eb Hp Hg.
  destruct (allowed_by_policy _ _ _ _ _ _) eqn:E; [|reflexivity].
  apply decision_table_l in E. destruct E as [b' [s [Eb' [Hc Hgr]]]].
  assert (b' = b) by congruence. subst. exfalso.
  assert (Hs : section_silent s (id_user id) owner ot op).
  { destruct (id_groups id) as [gs|].
    - destruct Hc as [g [_ [gm [Egm Es]]]]. eapply Hg; eauto.
    - now apply Hp. }
  exact (silent_not_grants _ _ _ _ _ Hs Hgr).
Qed.

(* ------------------------------------------------------------------ groups: most permissive *)

Definition group_section_grants (P : policies) (pn g : string) (u owner : user) (ot op : Z) : Prop :=
  exists b gm s, slookup pn P = Some b /\ groups b = Some gm /\ slookup g gm = Some s /\
                 section_grants s u owner ot op.

Lemma most_permissive_group_l : forall P pn u gs owner ot op,
  allowed_by_policy P pn {| id_user := u; id_groups := Some gs |} owner ot op = true
  <-> exists g, In g gs /\ group_section_grants P pn g u owner ot op.
Proof.
  intros P pn u gs owner ot op. rewrite decision_table_l. unfold table_spec, group_section_grants. simpl. split.
  - intros [b [s [Eb [[g [Hin [gm [Egm Es]]]] Hg]]]]. exists g. split; [exact Hin|]. exists b, gm, s. auto.
  - intros [g [Hin [b [gm [s [Eb [Egm [Es Hg]]]]]]]]. exists b, s. split; [exact Eb|]. split; [|exact Hg].
    exists g. split; [exact Hin|]. exists gm. auto.
Qed.

(* belonging to more groups never takes a permission away *)
Lemma more_groups_never_less_l : forall P pn u gs gs' owner ot op,
  incl gs gs' ->
  allowed_by_policy P pn {| id_user := u; id_groups := Some gs |} owner ot op = true ->
  allowed_by_policy P pn {| id_user := u; id_groups := Some gs' |} owner ot op = true.
Proof.
  intros P pn u gs gs' owner ot op Hi. unfold allowed_by_policy. simpl.
  rewrite !existsb_exists. intros [g [Hin H]]. exists g. split; [apply Hi; exact Hin|exact H].
Qed.

(* AllowOwner never reaches another identity; whoever is allowed by an
   all-AllowOwner policy is the owner *)
Lemma allowed_implies_all_or_owner_l : forall P pn id owner ot op,
  allowed_by_policy P pn id owner ot op = true ->
  id_user id = owner \/
  exists b s om, slookup pn P = Some b /\ zlookup ot s = Some om /\ zlookup op om = Some AllowAll /\
                 (preset b = Some s \/ exists gm g, groups b = Some gm /\ slookup g gm = Some s).
Proof.
  intros P pn id owner ot op H. apply decision_table_l in H.
  destruct H as [b [s [Eb [Hc [om [p [Eo [Ep [->|[-> Hu]]]]]]]]]]; [right|left; exact Hu].
  exists b, s, om. repeat split; auto.
  destruct (id_groups id) as [gs|].
  - destruct Hc as [g [_ [gm [Egm Es]]]]. right. exists gm, g. auto.
  - left. exact Hc.
Qed.
