(* C03 - the generated table of choke-point calls is the one the property demands. *)
From Coq Require Import ZArith List Bool String.
From PK Require Import Policy.Policy Policy.AccessTypes Policy.Access Policy.HandlerSpec.
From PKGen Require Import HandlerAccessOps DefaultPolicies.
Import ListNotations.
Open Scope Z_scope.
Open Scope string_scope.

Lemma handler_table_as_specified : handler_access_ops = spec_handlers.
Proof. vm_compute. reflexivity. Qed.

Lemma dispatch_as_specified : dispatch = map (fun p => (op_named (fst p), snd p)) spec_dispatch.
Proof. vm_compute. reflexivity. Qed.

(* the attribute-writing operations of the model are the ones the specification names *)
Lemma mutating_ops_as_specified :
  mutating_ops = map op_named ["ACTIVATE"; "REVOKE"; "MODIFY_ATTRIBUTE"; "DELETE_ATTRIBUTE"; "SET_ATTRIBUTE"].
Proof. vm_compute. reflexivity. Qed.

Lemma formats_equal : denied_format = notfound_format.
Proof. reflexivity. Qed.

Definition site_eqb_primary (s : site) (g : Z) : bool :=
  match s with SLoad UPrimary GNone op => Z.eqb op g | _ => false end.

Definition governed_ok (p : Z * Z) : bool :=
  match handler_of (fst p) with
  | Some h => match h_sites h with s :: _ => site_eqb_primary s (snd p) | [] => false end
  | None => false
  end.

Lemma governed_all : forallb governed_ok governing_table = true.
Proof. vm_compute. reflexivity. Qed.

(* every operation that addresses a primary object loads it first, through the
   choke point, under the policy operation the property names *)
Lemma governed_primary : forall op g, In (op, g) governing_table ->
  exists h rest, handler_of op = Some h /\ h_sites h = SLoad UPrimary GNone g :: rest.
Proof.
  intros op g Hin. pose proof governed_all as H. rewrite forallb_forall in H.
  specialize (H _ Hin). unfold governed_ok in H. simpl in H.
  destruct (handler_of op) as [h|]; [|discriminate].
  destruct (h_sites h) as [|s rest] eqn:Es; [discriminate|].
  destruct s as [[| |] [|m] o|o]; simpl in H; try discriminate.
  apply Z.eqb_eq in H. subst. exists h, rest. auto.
Qed.

(* no handler other than the listed ones reaches the table: sites of the remaining dispatched operations *)
Lemma locate_sites : exists h, handler_of (op_named "LOCATE") = Some h /\ h_sites h = [SListAll (op_named "LOCATE")]
                               /\ h_adds h = 0%nat /\ h_direct_queries h = 0%nat.
Proof. eexists. vm_compute. repeat split. Qed.

Lemma derive_key_sites : exists h, handler_of (op_named "DERIVE_KEY") = Some h /\ h_sites h = [SLoad UEach GNone GET].
Proof. eexists. vm_compute. repeat split. Qed.

Lemma get_sites : exists h, handler_of GET = Some h /\
  h_sites h = [SLoad UPrimary GNone GET; SLoad UWrapKey (GMaskNotFound "Wrapping key does not exist.") GET].
Proof. eexists. vm_compute. repeat split. Qed.

(* ------------------------------------------------------------------ consequences for single operations *)
From PK Require Import Policy.PolicyProofs Policy.AccessProofs.

Lemma locate_only_permitted_l : forall P id s ph r ids st',
  r_op r = op_named "LOCATE" -> step_item P id (s, ph) r = (OSuccess ids, st') ->
  forall u, In u ids ->
  exists o, In o (objs s) /\ o_uid o = u /\ allowed_obj P id (op_named "LOCATE") o = true.
Proof.
  intros P id s ph r ids st' Hop Hstep u Hin.
  destruct locate_sites as [h [Hh [Hs [Ha Hq]]]]. rewrite <- Hop in Hh.
  destruct (listed_only_permitted_l _ _ _ _ _ _ _ _ Hstep Hh Ha Hq u Hin) as [o [op [Ho [Hu [Hsite Hal]]]]].
  rewrite Hs in Hsite. destruct Hsite as [He|[]]. inversion He; subst. exists o. auto.
Qed.

(* an operation governed by g on its primary object: refused with the not-found text unless g is granted *)
Lemma governed_denial : forall P id s ph r g u o,
  In (r_op r, g) governing_table -> r_pre_ok r = true ->
  resolve_primary r ph = Some u -> find_obj u (objs s) = Some o ->
  allowed_obj P id g o = false ->
  step_item P id (s, ph) r = (ODenied (render1 notfound_format u), (s, ph)).
Proof.
  intros P id s ph r g u o Hin Hpre Hres Hf Hden.
  destruct (governed_primary _ _ Hin) as [h [rest [Hh Hs]]].
  destruct (first_site_answer P id s ph r h g rest u Hh Hs Hpre Hres) as [A _].
  rewrite (A _ Hf Hden). now rewrite denial_text_eq_notfound_l.
Qed.

(* the wrapping key of Get and the bases of DeriveKey are addressed under Get *)
Lemma wrapping_key_addressed : forall r ph s u o,
  r_op r = GET -> r_wrap r = Some u -> find_obj u (objs s) = Some o -> addressed r ph s o GET.
Proof.
  intros r ph s u o Hop Hw Hf. destruct get_sites as [h [Hh Hs]]. rewrite <- Hop in Hh.
  exists h, UWrapKey, (GMaskNotFound "Wrapping key does not exist."), u.
  split; [exact Hh|]. split; [rewrite Hs; right; now left|]. split; [simpl; rewrite Hw; now left|exact Hf].
Qed.

Lemma derive_base_addressed : forall r ph s u o,
  r_op r = op_named "DERIVE_KEY" -> In u (r_uids r) -> find_obj u (objs s) = Some o -> addressed r ph s o GET.
Proof.
  intros r ph s u o Hop Hin Hf. destruct derive_key_sites as [h [Hh Hs]]. rewrite <- Hop in Hh.
  exists h, UEach, GNone, u.
  split; [exact Hh|]. split; [rewrite Hs; now left|]. split; [simpl; now apply in_map|exact Hf].
Qed.

Lemma primary_addressed : forall r ph s g u o,
  In (r_op r, g) governing_table -> resolve_primary r ph = Some u -> find_obj u (objs s) = Some o ->
  addressed r ph s o g.
Proof.
  intros r ph s g u o Hin Hres Hf. destruct (governed_primary _ _ Hin) as [h [rest [Hh Hs]]].
  exists h, UPrimary, GNone, u. split; [exact Hh|]. split; [rewrite Hs; now left|].
  split; [simpl; rewrite Hres; now left|exact Hf].
Qed.

(* ------------------------------------------------------------------ the built-in policies (generated) *)

Lemma zlookup_in : forall A k (l : list (Z * A)) v, zlookup k l = Some v -> In (k, v) l.
Proof.
  induction l as [|[k' v'] t IH]; intros v H; simpl in H; [discriminate|].
  destruct (Z.eqb_spec k k'); [inversion H; subst; now left|right; auto].
Qed.

Definition no_allow_all (om : opmap) : bool := forallb (fun e => negb (perm_eqb (snd e) AllowAll)) om.

Lemma no_allow_all_sound : forall om op, no_allow_all om = true -> zlookup op om <> Some AllowAll.
Proof.
  intros om op H E. apply zlookup_in in E. unfold no_allow_all in H. rewrite forallb_forall in H.
  specialize (H _ E). discriminate.
Qed.

(* under the built-in 'default' policy every operation on a symmetric key, private key, split key or
   secret data is allowed to the owner only *)
Definition owner_only_types : list Z := [2; 4; 5; 7].

Lemma default_owner_only_check :
  forallb (fun t => match zlookup t builtin_default_preset with Some om => no_allow_all om | None => true end)
          owner_only_types = true.
Proof. vm_compute. reflexivity. Qed.

Lemma builtin_default_owner_only : forall id owner ot op,
  In ot owner_only_types ->
  allowed_by_policy default_policies "default" id owner ot op = true -> id_user id = owner.
Proof.
  intros id owner ot op Hot H. apply allowed_implies_all_or_owner_l in H.
  destruct H as [H|[b [s [om [Eb [Eo [Ep Hsec]]]]]]]; [exact H|exfalso].
  cbn [default_policies slookup String.eqb Ascii.eqb Bool.eqb] in Eb. inversion Eb; subst b; clear Eb.
  destruct Hsec as [Hp|[gm [g [Hg _]]]]; [|discriminate].
  cbv [builtin_default preset] in Hp. inversion Hp; subst s; clear Hp.
  pose proof default_owner_only_check as C. rewrite forallb_forall in C. specialize (C _ Hot).
  unfold opmap in *. rewrite Eo in C. exact (no_allow_all_sound _ _ C Ep).
Qed.
