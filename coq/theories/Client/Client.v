(* C19 - model of how the two PyKMIP clients turn a decoded response into a
   return value or an exception.  Definitions only (the harness evaluates them).

   Two layers, as in the code:
     kmip/services/kmip_client.py  KMIPProxy.<op>      response -> result object | dict | payload | exception
     kmip/pie/client.py            ProxyKmipClient.<op> that    -> returned data | KmipOperationFailure | other exception
   The model mirrors the code AS IT IS (after fix: commits for the missing Result Message, Check and DiscoverVersions). *)
From PK Require Import Base.Bytes.
From PKGen Require Import Enums.
From Coq Require Import ZArith List Bool.
Import ListNotations.
Open Scope Z_scope.

(* ------------------------------------------------------------------ data *)
(* what a Python attribute read / a returned value is projected to by the harness *)
Inductive val :=
| VNone
| VInt (z : Z)              (* int, bool, enum member (its value) *)
| VBytes (b : bytes)        (* bytes, or the ASCII bytes of a str, or primitive.value of either *)
| VList (l : list val).     (* list / tuple / projected structure *)

Fixpoint val_eqb (a b : val) : bool :=
  match a, b with
  | VNone, VNone => true
  | VInt x, VInt y => x =? y
  | VBytes x, VBytes y => bytes_eqb x y
  | VList x, VList y =>
      (fix go (x y : list val) : bool :=
         match x, y with
         | [], [] => true
         | a' :: x', b' :: y' => val_eqb a' b' && go x' y'
         | _, _ => false
         end) x y
  | _, _ => false
  end.

(* attribute names: P* = attributes of response payload objects, R* = attributes of
   kmip.services.results objects, D* = keys of the result dictionaries *)
Inductive fname :=
| PUniqueIdentifier | PObjectType | PTemplateAttribute
| PPrivUid | PPubUid | PPrivTemplate | PPubTemplate
| PSecret | PAttributes | PAttributeNames | PUniqueIdentifiers
| PMacData | PData | PIvCounterNonce | PValidityIndicator | PSignatureData
| PUsageLimitsCount | PCryptoUsageMask | PLeaseTime | PAttribute
| PProtocolVersions | POperations | PObjectTypes | PVendor | PServerInfo | PNamespaces | PExtensions
| RUuid | RObjectType | RTemplate | RPrivUuid | RPubUuid | RPrivTemplate | RPubTemplate
| RSecret | RAttributes | RUid | RNames | RUuids | RUniqueIdentifier | RMacData
| RProtocolVersions | ROperations | RObjectTypes | RVendor | RServerInfo | RNamespaces | RExtensions
| DUniqueIdentifier | DTemplateAttribute | DData | DIvCounterNonce | DValidityIndicator | DSignature
| DUsageLimitsCount | DCryptoUsageMask | DLeaseTime.

Definition fcode (f : fname) : Z :=
  match f with
  | PUniqueIdentifier => 1 | PObjectType => 2 | PTemplateAttribute => 3
  | PPrivUid => 4 | PPubUid => 5 | PPrivTemplate => 6 | PPubTemplate => 7
  | PSecret => 8 | PAttributes => 9 | PAttributeNames => 10 | PUniqueIdentifiers => 11
  | PMacData => 12 | PData => 13 | PIvCounterNonce => 14 | PValidityIndicator => 15 | PSignatureData => 16
  | PUsageLimitsCount => 17 | PCryptoUsageMask => 18 | PLeaseTime => 19 | PAttribute => 20
  | PProtocolVersions => 21 | POperations => 22 | PObjectTypes => 23 | PVendor => 24 | PServerInfo => 25
  | PNamespaces => 26 | PExtensions => 27
  | RUuid => 40 | RObjectType => 41 | RTemplate => 42 | RPrivUuid => 43 | RPubUuid => 44
  | RPrivTemplate => 45 | RPubTemplate => 46 | RSecret => 47 | RAttributes => 48 | RUid => 49
  | RNames => 50 | RUuids => 51 | RUniqueIdentifier => 52 | RMacData => 53 | RProtocolVersions => 54
  | ROperations => 55 | RObjectTypes => 56 | RVendor => 57 | RServerInfo => 58 | RNamespaces => 59 | RExtensions => 60
  | DUniqueIdentifier => 70 | DTemplateAttribute => 71 | DData => 72 | DIvCounterNonce => 73
  | DValidityIndicator => 74 | DSignature => 75 | DUsageLimitsCount => 76 | DCryptoUsageMask => 77 | DLeaseTime => 78
  end.
Definition fname_eqb (a b : fname) : bool := fcode a =? fcode b.

(* a Python object seen through its attributes (or a dict through its keys) *)
Definition attrs := list (fname * val).

Fixpoint getattr (f : fname) (o : attrs) : option val :=      (* None = AttributeError *)
  match o with
  | [] => None
  | (g, v) :: r => if fname_eqb f g then Some v else getattr f r
  end.
Definition dget (f : fname) (d : attrs) : val :=               (* dict.get(key): None when missing *)
  match getattr f d with Some v => v | None => VNone end.

(* ------------------------------------------------------------------ responses *)
Record ritem := {
  ri_op : option Z;               (* echoed Operation (enum value), absent in request-level error responses *)
  ri_status : Z;                  (* ResultStatus value: 0 Success, 1 Operation Failed, 2 Pending, 3 Undone *)
  ri_reason : option Z;           (* ResultReason value *)
  ri_msg : option bytes;          (* Result Message text *)
  ri_payload : option attrs       (* the decoded response payload object, seen through its attributes *)
}.

Inductive resp :=
| Undecodable                     (* ResponseMessage.read raises *)
| Decoded (items : list ritem).

Definition SUCCESS : Z := 0.

(* ------------------------------------------------------------------ operations *)
Inductive op :=
| OCreate | OCreateKeyPair | ORegister | OLocate | OGet | OGetAttributes | OGetAttributeList
| OActivate | ORevoke | ODestroy | OMac
| ORekey | ODeriveKey | OCheck | OEncrypt | ODecrypt | OSignatureVerify | OSign
| ODeleteAttribute | OSetAttribute | OModifyAttribute
| OQuery | ODiscoverVersions | ORekeyKeyPair.      (* KMIPProxy only *)

Definition all_ops : list op :=
  [OCreate; OCreateKeyPair; ORegister; OLocate; OGet; OGetAttributes; OGetAttributeList;
   OActivate; ORevoke; ODestroy; OMac; ORekey; ODeriveKey; OCheck; OEncrypt; ODecrypt;
   OSignatureVerify; OSign; ODeleteAttribute; OSetAttribute; OModifyAttribute;
   OQuery; ODiscoverVersions; ORekeyKeyPair].

Definition is_pie (o : op) : bool :=
  match o with OQuery | ODiscoverVersions | ORekeyKeyPair => false | _ => true end.

(* enums.Operation values (checked against the generated table in ClientProofs.v) *)
Definition opcode (o : op) : Z :=
  match o with
  | OCreate => 1 | OCreateKeyPair => 2 | ORegister => 3 | ORekey => 4 | ODeriveKey => 5
  | OLocate => 8 | OCheck => 9 | OGet => 10 | OGetAttributes => 11 | OGetAttributeList => 12
  | OModifyAttribute => 14 | ODeleteAttribute => 15 | OActivate => 18 | ORevoke => 19 | ODestroy => 20
  | OQuery => 24 | ORekeyKeyPair => 29 | ODiscoverVersions => 30
  | OEncrypt => 31 | ODecrypt => 32 | OSign => 33 | OSignatureVerify => 34 | OMac => 35
  | OSetAttribute => 49
  end.

(* which code path of kmip_client.py serves the operation *)
Inductive style := SDirect | SProcess | SDict | SPayload.
Definition style_of (o : op) : style :=
  match o with
  | OCreate | ORegister | OLocate | OGet | OActivate | ORevoke | ODestroy | OMac => SDirect
  | OCreateKeyPair | OGetAttributes | OGetAttributeList | OQuery | ODiscoverVersions | ORekeyKeyPair => SProcess
  | ORekey | ODeriveKey | OCheck | OEncrypt | ODecrypt | OSignatureVerify | OSign => SDict
  | ODeleteAttribute | OSetAttribute | OModifyAttribute => SPayload
  end.

(* ------------------------------------------------------------------ KMIPProxy layer *)
Inductive rclass :=
| CCreate | CRegister | CGet | CActivate | CDestroy | CRevoke | CLocate | CMac
| CCreateKeyPair | CRekeyKeyPair | CGetAttributes | CGetAttributeList | CQuery | CDiscoverVersions
| COperationResult.

Record presult := {
  pr_class : rclass;
  pr_status : Z;                  (* result.result_status.value *)
  pr_reason : option Z;           (* result.result_reason (None) or its .value *)
  pr_msg : option bytes;          (* result.result_message (None) or its .value *)
  pr_fields : attrs               (* the remaining attributes of the result object *)
}.

Inductive pout :=
| PResult (r : presult)                          (* a kmip.services.results object *)
| PDict (status : Z) (reason : option Z) (msg : option bytes) (d : attrs)   (* a result dictionary *)
| PPayload (p : attrs)                           (* send_request_payload: the response payload *)
| PFail (st rs : Z) (m : option bytes)           (* send_request_payload: kmip.core.exceptions.OperationFailure *)
| PExc.                                          (* any other exception escapes *)

(* `x = None if payload is None else payload.x` for every listed (result name, payload attribute) *)
Fixpoint copy_fields (p : attrs) (fs : list (fname * fname)) : option attrs :=
  match fs with
  | [] => Some []
  | (rn, pn) :: r =>
      match getattr pn p, copy_fields p r with
      | Some v, Some t => Some ((rn, v) :: t)
      | _, _ => None
      end
  end.
Definition none_fields (fs : list (fname * fname)) : attrs := map (fun x => (fst x, VNone)) fs.

Definition fields_of (it : ritem) (fs : list (fname * fname)) : option attrs :=
  match ri_payload it with
  | None => Some (none_fields fs)
  | Some p => copy_fields p fs
  end.

Definition mk_result (c : rclass) (it : ritem) (fs : list (fname * fname)) : pout :=
  match fields_of it fs with
  | Some f => PResult {| pr_class := c; pr_status := ri_status it; pr_reason := ri_reason it;
                         pr_msg := ri_msg it; pr_fields := f |}
  | None => PExc
  end.

(* _create/_register/_get/_activate/_destroy/_revoke/_locate/_mac: batch_items[0], the echoed operation is not looked at *)
Definition direct_fields (o : op) : rclass * list (fname * fname) :=
  match o with
  | OCreate => (CCreate, [(RObjectType, PObjectType); (RUuid, PUniqueIdentifier); (RTemplate, PTemplateAttribute)])
  | ORegister => (CRegister, [(RUuid, PUniqueIdentifier); (RTemplate, PTemplateAttribute)])
  | OGet => (CGet, [(RObjectType, PObjectType); (RUuid, PUniqueIdentifier); (RSecret, PSecret)])
  | OActivate => (CActivate, [(RUuid, PUniqueIdentifier)])
  | ODestroy => (CDestroy, [(RUuid, PUniqueIdentifier)])
  | ORevoke => (CRevoke, [(RUniqueIdentifier, PUniqueIdentifier)])
  | OLocate => (CLocate, [(RUuids, PUniqueIdentifiers)])
  | _ => (CMac, [(RUuid, PUniqueIdentifier); (RMacData, PMacData)])
  end.

Definition proxy_direct (o : op) (items : list ritem) : pout :=
  match items with
  | [] => PExc                                            (* IndexError *)
  | it :: _ => let cf := direct_fields o in mk_result (fst cf) it (snd cf)
  end.

(* _process_batch_items: every item is dispatched on ITS OWN echoed operation *)
Definition list_or_empty (v : val) : val := match v with VNone => VList [] | _ => v end.

Definition key_pair_fields : list (fname * fname) :=
  [(RPrivUuid, PPrivUid); (RPubUuid, PPubUid); (RPrivTemplate, PPrivTemplate); (RPubTemplate, PPubTemplate)].
Definition query_fields : list (fname * fname) :=
  [(ROperations, POperations); (RObjectTypes, PObjectTypes); (RVendor, PVendor); (RServerInfo, PServerInfo);
   (RNamespaces, PNamespaces); (RExtensions, PExtensions)].

Definition query_norm (f : attrs) : attrs :=
  map (fun x => match fst x with
                | ROperations | RObjectTypes | RNamespaces | RExtensions => (fst x, list_or_empty (snd x))
                | _ => x
                end) f.

Definition process_item (it : ritem) : pout :=
  match ri_op it with
  | None => mk_result COperationResult it []
  | Some c =>
      if c =? 2 then mk_result CCreateKeyPair it key_pair_fields
      else if c =? 11 then mk_result CGetAttributes it [(RUuid, PUniqueIdentifier); (RAttributes, PAttributes)]
      else if c =? 12 then mk_result CGetAttributeList it [(RUid, PUniqueIdentifier); (RNames, PAttributeNames)]
      else if c =? 29 then mk_result CRekeyKeyPair it key_pair_fields
      else if c =? 24 then
        match mk_result CQuery it query_fields with
        | PResult r => PResult {| pr_class := pr_class r; pr_status := pr_status r; pr_reason := pr_reason r;
                                  pr_msg := pr_msg r; pr_fields := query_norm (pr_fields r) |}
        | x => x
        end
      else if c =? 30 then mk_result CDiscoverVersions it [(RProtocolVersions, PProtocolVersions)]
      else PExc                                           (* ValueError: no processor for operation *)
  end.

Fixpoint process_all (items : list ritem) : option (list pout) :=
  match items with
  | [] => Some []
  | it :: r =>
      match process_item it with
      | PExc => None
      | x => match process_all r with Some t => Some (x :: t) | None => None end
      end
  end.

Definition proxy_process (items : list ritem) : pout :=
  match process_all items with
  | Some (x :: _) => x
  | _ => PExc                                             (* an item raised, or results[0] on an empty list *)
  end.

(* rekey/derive_key/check/encrypt/decrypt/signature_verify/sign: dictionaries *)
Definition dict_fields (o : op) : list (fname * fname) :=
  match o with
  | ORekey | ODeriveKey => [(DUniqueIdentifier, PUniqueIdentifier); (DTemplateAttribute, PTemplateAttribute)]
  | OEncrypt => [(DUniqueIdentifier, PUniqueIdentifier); (DData, PData); (DIvCounterNonce, PIvCounterNonce)]
  | ODecrypt => [(DUniqueIdentifier, PUniqueIdentifier); (DData, PData)]
  | OSignatureVerify => [(DUniqueIdentifier, PUniqueIdentifier); (DValidityIndicator, PValidityIndicator)]
  | OSign => [(DUniqueIdentifier, PUniqueIdentifier); (DSignature, PSignatureData)]
  | _ => [(DUniqueIdentifier, PUniqueIdentifier); (DUsageLimitsCount, PUsageLimitsCount);
          (DCryptoUsageMask, PCryptoUsageMask); (DLeaseTime, PLeaseTime)]
  end.

(* check(): the integer mask of the payload becomes the list of CryptographicUsageMask members set in it *)
Definition mask_members (m : Z) : val :=
  VList (map VInt (filter (fun b => negb (Z.land m b =? 0)) EV_CryptographicUsageMask)).
Definition check_norm (d : attrs) : option attrs :=
  match getattr DCryptoUsageMask d with
  | Some (VInt m) => Some (map (fun x => match fst x with DCryptoUsageMask => (fst x, mask_members m) | _ => x end) d)
  | Some VNone | None => Some d
  | Some _ => None                                        (* `mask & enumeration.value` on a non-integer *)
  end.

Definition proxy_dict (o : op) (items : list ritem) : pout :=
  match items with
  | [] => PExc
  | it :: _ =>
      match ri_payload it with
      | None => PDict (ri_status it) (ri_reason it) (ri_msg it) []
      | Some p =>
          match copy_fields p (dict_fields o) with
          | Some d =>
              match o with
              | OCheck => match check_norm d with
                          | Some d' => PDict (ri_status it) (ri_reason it) (ri_msg it) d'
                          | None => PExc
                          end
              | _ => PDict (ri_status it) (ri_reason it) (ri_msg it) d
              end
          | None => PExc
          end
      end
  end.

(* send_request_payload *)
Definition proxy_payload (o : op) (items : list ritem) : pout :=
  match items with
  | [it] =>
      if negb (ri_status it =? SUCCESS) then
        match ri_reason it with
        | Some rs => PFail (ri_status it) rs (ri_msg it)  (* the message is optional *)
        | None => PExc                                    (* None.value *)
        end
      else
        match ri_op it with
        | None => PExc
        | Some c =>
            if negb (c =? opcode o) then PExc             (* InvalidMessage *)
            else match ri_payload it with
                 | None => PExc                           (* InvalidMessage: payload type check *)
                 | Some p => PPayload p
                 end
        end
  | _ => PExc                                             (* InvalidMessage: wrong number of results *)
  end.

Definition proxy_call (o : op) (r : resp) : pout :=
  match r with
  | Undecodable => PExc
  | Decoded items =>
      match style_of o with
      | SDirect => proxy_direct o items
      | SProcess => proxy_process items
      | SDict => proxy_dict o items
      | SPayload => proxy_payload o items
      end
  end.

(* ------------------------------------------------------------------ ProxyKmipClient layer *)
Inductive fcls := FPie | FCore.     (* kmip.pie.exceptions.KmipOperationFailure | kmip.core.exceptions.OperationFailure *)

Inductive outcome :=
| Return (v : val)
| Raise (c : fcls) (st rs : Z) (m : option bytes)
| RaiseOther.

(* sorted(names) for a list of strings *)
Fixpoint bytes_leb (a b : bytes) : bool :=
  match a, b with
  | [], _ => true
  | _ :: _, [] => false
  | x :: a', y :: b' => if x <? y then true else if y <? x then false else bytes_leb a' b'
  end.
Fixpoint insert_sorted (x : bytes) (l : list bytes) : list bytes :=
  match l with
  | [] => [x]
  | y :: r => if bytes_leb x y then x :: l else y :: insert_sorted x r
  end.
Definition sort_bytes (l : list bytes) : list bytes := fold_right insert_sorted [] l.

Fixpoint all_bytes (l : list val) : option (list bytes) :=
  match l with
  | [] => Some []
  | VBytes b :: r => match all_bytes r with Some t => Some (b :: t) | None => None end
  | _ :: _ => None
  end.

Definition opt2 (a b : option val) (k : val -> val -> outcome) : outcome :=
  match a, b with Some x, Some y => k x y | _, _ => RaiseOther end.

(* what the method returns when status == SUCCESS (attribute reads on the result object) *)
Definition pie_success_result (o : op) (f : attrs) : outcome :=
  match o with
  | OCreate | ORegister => match getattr RUuid f with Some v => Return v | None => RaiseOther end
  | OCreateKeyPair => opt2 (getattr RPubUuid f) (getattr RPrivUuid f) (fun a b => Return (VList [a; b]))
  | OLocate => match getattr RUuids f with Some v => Return v | None => RaiseOther end
  | OGet =>
      match getattr RSecret f with
      | Some VNone | None => RaiseOther                   (* ObjectFactory.convert(None): TypeError *)
      | Some v => Return v
      end
  | OGetAttributes => opt2 (getattr RUuid f) (getattr RAttributes f) (fun a b => Return (VList [a; b]))
  | OGetAttributeList =>
      match getattr RNames f with
      | Some (VList l) =>
          match all_bytes l with
          | Some bs => Return (VList (map VBytes (sort_bytes bs)))
          | None => RaiseOther
          end
      | _ => RaiseOther                                   (* sorted(None) *)
      end
  | OActivate | ORevoke | ODestroy => Return VNone
  | OMac =>
      opt2 (getattr RUuid f) (getattr RMacData f)
           (fun a b => match a, b with
                       | VNone, _ | _, VNone => RaiseOther       (* None.value *)
                       | _, _ => Return (VList [a; b])
                       end)
  | _ => RaiseOther
  end.

Definition pie_of_result (o : op) (r : presult) : outcome :=
  if pr_status r =? SUCCESS then pie_success_result o (pr_fields r)
  else match pr_reason r with
       | Some rs => Raise FPie (pr_status r) rs (pr_msg r)   (* _get_result_message: None when absent *)
       | None => RaiseOther                               (* result.result_reason.value on None *)
       end.

Definition pie_dict_return (o : op) (d : attrs) : val :=
  match o with
  | OEncrypt => VList [dget DData d; dget DIvCounterNonce d]
  | ODecrypt => dget DData d
  | OSignatureVerify => dget DValidityIndicator d
  | OSign => dget DSignature d
  | _ => dget DUniqueIdentifier d                         (* rekey, derive_key, check *)
  end.

Definition pie_of_dict (o : op) (st : Z) (rs : option Z) (m : option bytes) (d : attrs) : outcome :=
  if st =? SUCCESS then Return (pie_dict_return o d)
  else match rs with
       | Some r => Raise FPie st r m
       | None => RaiseOther                               (* KmipOperationFailure.__init__: reason.name on None *)
       end.

Definition pie_of_payload (o : op) (p : attrs) : outcome :=
  match o with
  | OSetAttribute => match getattr PUniqueIdentifier p with Some v => Return v | None => RaiseOther end
  | _ => opt2 (getattr PUniqueIdentifier p) (getattr PAttribute p) (fun a b => Return (VList [a; b]))
  end.

(* ProxyKmipClient.<o> once the request is out and the response has arrived *)
Definition interpret (o : op) (r : resp) : outcome :=
  if negb (is_pie o) then RaiseOther else
  match proxy_call o r with
  | PResult res => pie_of_result o res
  | PDict st rs m d => pie_of_dict o st rs m d
  | PPayload p => pie_of_payload o p
  | PFail st rs m => Raise FCore st rs m
  | PExc => RaiseOther
  end.

(* ------------------------------------------------------------------ the specification side *)
(* The data a successful response carries for the caller, read directly off the payload. *)
Definition spec_return (o : op) (p : attrs) : option val :=
  let g f := getattr f p in
  let two a b := match g a, g b with Some x, Some y => Some (VList [x; y]) | _, _ => None end in
  match o with
  | OCreate | ORegister | ORekey | ODeriveKey | OCheck | OSetAttribute => g PUniqueIdentifier
  | OCreateKeyPair => two PPubUid PPrivUid
  | OLocate => g PUniqueIdentifiers
  | OGet => g PSecret
  | OGetAttributes => two PUniqueIdentifier PAttributes
  | OGetAttributeList =>
      match g PAttributeNames with
      | Some (VList l) => match all_bytes l with Some bs => Some (VList (map VBytes (sort_bytes bs))) | None => None end
      | _ => None
      end
  | OActivate | ORevoke | ODestroy => Some VNone
  | OMac => two PUniqueIdentifier PMacData
  | OEncrypt => two PData PIvCounterNonce
  | ODecrypt => g PData
  | OSignatureVerify => g PValidityIndicator
  | OSign => g PSignatureData
  | ODeleteAttribute | OModifyAttribute => two PUniqueIdentifier PAttribute
  | _ => None
  end.

(* attributes every decoded payload object of the operation has (they exist, possibly None) *)
Definition payload_attrs (o : op) : list fname :=
  match o with
  | OCreate => [PObjectType; PUniqueIdentifier; PTemplateAttribute]
  | OCreateKeyPair | ORekeyKeyPair => [PPrivUid; PPubUid; PPrivTemplate; PPubTemplate]
  | ORegister | ORekey | ODeriveKey => [PUniqueIdentifier; PTemplateAttribute]
  | OLocate => [PUniqueIdentifiers]
  | OGet => [PObjectType; PUniqueIdentifier; PSecret]
  | OGetAttributes => [PUniqueIdentifier; PAttributes]
  | OGetAttributeList => [PUniqueIdentifier; PAttributeNames]
  | OActivate | ORevoke | ODestroy | OSetAttribute => [PUniqueIdentifier]
  | OMac => [PUniqueIdentifier; PMacData]
  | OCheck => [PUniqueIdentifier; PUsageLimitsCount; PCryptoUsageMask; PLeaseTime]
  | OEncrypt => [PUniqueIdentifier; PData; PIvCounterNonce]
  | ODecrypt => [PUniqueIdentifier; PData]
  | OSignatureVerify => [PUniqueIdentifier; PValidityIndicator]
  | OSign => [PUniqueIdentifier; PSignatureData]
  | ODeleteAttribute | OModifyAttribute => [PUniqueIdentifier; PAttribute]
  | OQuery => [POperations; PObjectTypes; PVendor; PServerInfo; PNamespaces; PExtensions]
  | ODiscoverVersions => [PProtocolVersions]
  end.

Definition has_attrs (p : attrs) (fs : list fname) : bool :=
  forallb (fun f => match getattr f p with Some _ => true | None => false end) fs.

Definition not_none (v : option val) : bool :=
  match v with Some VNone | None => false | Some _ => true end.

(* a payload a server can legally send for a successful <o>: the payload class of <o> with its
   required fields present *)
Definition wf_payload (o : op) (p : attrs) : bool :=
  has_attrs p (payload_attrs o) &&
  match o with
  | OGet => not_none (getattr PSecret p)
  | OMac => not_none (getattr PUniqueIdentifier p) && not_none (getattr PMacData p)
  | OGetAttributeList => match spec_return o p with Some _ => true | None => false end
  | OCheck => match getattr PCryptoUsageMask p with Some (VInt _) | Some VNone => true | _ => false end
  | _ => true
  end.

(* legal responses to a one-item request for <o> *)
Definition legal_success (o : op) (it : ritem) (p : attrs) : Prop :=
  ri_status it = SUCCESS /\ ri_op it = Some (opcode o) /\ ri_payload it = Some p /\ wf_payload o p = true.

(* a failure: status other than Success, a reason (mandatory on failure), the message is OPTIONAL,
   no payload; the operation is echoed, or absent when the server could not even parse the request *)
Definition legal_failure (o : op) (it : ritem) (rs : Z) : Prop :=
  ri_status it <> SUCCESS /\ ri_reason it = Some rs /\ ri_payload it = None /\
  (ri_op it = Some (opcode o) \/ ri_op it = None).
