(* C19 - the envelope of the requests KMIPProxy emits (_build_request_message, _build_protocol_version,
   RequestMessage/RequestHeader/RequestBatchItem.write) and the server-side reader of that envelope
   (RequestMessage/RequestHeader/RequestBatchItem.read).  The request payload is an opaque body here
   (its codec is C01's subject).  Definitions only; primitives come from Base.Prim (tied to
   kmip/core/primitives.py by C02's correspondence). *)
From PK Require Import Base.Prim.
From Coq Require Import ZArith List Bool.
Import ListNotations.
Open Scope Z_scope.

Definition T_REQUEST_MESSAGE : Z := 4325496.
Definition T_REQUEST_HEADER : Z := 4325495.
Definition T_PROTOCOL_VERSION : Z := 4325481.
Definition T_MAJOR : Z := 4325482.
Definition T_MINOR : Z := 4325483.
Definition T_BATCH_COUNT : Z := 4325389.
Definition T_BATCH_ITEM : Z := 4325391.
Definition T_OPERATION : Z := 4325468.
Definition T_REQUEST_PAYLOAD : Z := 4325497.
(* optional fields the reader looks for and this client never writes (no credential configured) *)
Definition HEADER_OPTIONALS : list Z := [4325456; 4325383; 4325388; 4325390; 4325392; 4325522].
   (* MAXIMUM_RESPONSE_SIZE ASYNCHRONOUS_INDICATOR AUTHENTICATION BATCH_ERROR_CONTINUATION_OPTION BATCH_ORDER_OPTION TIME_STAMP *)
Definition ITEM_OPTIONALS : list Z := [4325716; 4325523].      (* EPHEMERAL UNIQUE_BATCH_ITEM_ID *)
Definition T_MESSAGE_EXTENSION : Z := 4325457.

Inductive kver := V10 | V11 | V12 | V13 | V14 | V20.
(* KMIPProxy._build_protocol_version *)
Definition version_pair (v : kver) : Z * Z :=
  match v with V10 => (1, 0) | V11 => (1, 1) | V12 => (1, 2) | V13 => (1, 3) | V14 => (1, 4) | V20 => (2, 0) end.

Definition cat2 (a b : option bytes) : option bytes :=
  match a, b with Some x, Some y => Some (x ++ y) | _, _ => None end.
Definition struct_ (tag : Z) (body : option bytes) : option bytes :=
  match body with Some b => with_hdr tag STRUCT_CODE (zlen b) b | None => None end.

(* one batch item, batch count 1, no authentication *)
Definition enc_request (v : kver) (opc : Z) (payload : bytes) : option bytes :=
  let pv := version_pair v in
  struct_ T_REQUEST_MESSAGE
    (cat2
       (struct_ T_REQUEST_HEADER
          (cat2 (struct_ T_PROTOCOL_VERSION (cat2 (enc_prim T_MAJOR (VInt (fst pv))) (enc_prim T_MINOR (VInt (snd pv)))))
                (enc_prim T_BATCH_COUNT (VInt 1))))
       (struct_ T_BATCH_ITEM
          (cat2 (enc_prim T_OPERATION (VEnum opc)) (struct_ T_REQUEST_PAYLOAD (Some payload))))).

(* ---- the reader *)
Definition dec_struct (tag : Z) (bs : bytes) : option (bytes * bytes) :=
  match dec_hdr tag STRUCT_CODE bs with
  | Some (len, r) => take_exact len r
  | None => None
  end.
Definition absent (tags : list Z) (bs : bytes) : bool := forallb (fun t => negb (is_tag_next t bs)) tags.
Definition is_nil (bs : bytes) : bool := match bs with [] => true | _ => false end.
Definition anyint (_ : Z) : bool := true.

(* None = the reader raises, or the message uses a field outside this model *)
Definition dec_request (opmem : Z -> bool) (bs : bytes) : option ((Z * Z) * Z * bytes) :=
  match dec_hdr T_REQUEST_MESSAGE STRUCT_CODE bs with
  | None => None
  | Some (_, r0) =>
  match dec_struct T_REQUEST_HEADER r0 with
  | None => None
  | Some (hb, r1) =>
  match dec_struct T_PROTOCOL_VERSION hb with
  | None => None
  | Some (pvb, h1) =>
  match dec_prim anyint PInt T_MAJOR pvb with
  | Some (VInt maj, p1) =>
  match dec_prim anyint PInt T_MINOR p1 with
  | Some (VInt min, p2) =>
  if negb (is_nil p2) then None else
  if negb (absent HEADER_OPTIONALS h1) then None else
  match dec_prim anyint PInt T_BATCH_COUNT h1 with
  | Some (VInt bc, h2) =>
  if negb (is_nil h2) then None else
  if negb (bc =? 1) then None else
  match dec_struct T_BATCH_ITEM r1 with
  | None => None
  | Some (bb, _) =>
  match dec_prim opmem PEnum T_OPERATION bb with
  | Some (VEnum opc, b1) =>
  if negb (absent ITEM_OPTIONALS b1) then None else
  match dec_struct T_REQUEST_PAYLOAD b1 with
  | None => None
  | Some (pl, b2) =>
  if negb (is_nil b2) then None else Some ((maj, min), opc, pl)
  end
  | _ => None end
  end
  | _ => None end
  | _ => None end
  | _ => None end
  end end end.
