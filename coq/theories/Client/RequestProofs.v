(* C19 - the request envelope written by the client is read back by the server-side reader. *)
From PK Require Import Base.Prim Base.BytesProofs Base.PrimProofs Client.Request Client.Framing Client.FramingProofs.
From PKGen Require Import Enums.
From Coq Require Import ZArith List Bool Lia ZifyBool String.
Import ListNotations.
Open Scope Z_scope.

(* tie T: the tag numbers are those of kmip/core/enums.py *)
Definition tag_named (n : string) (t : Z) : bool :=
  existsb (fun p => String.eqb (fst p) n && (snd p =? t)) E_Tags.
Definition tags_match_enums_statement : Prop :=
  tag_named "REQUEST_MESSAGE" T_REQUEST_MESSAGE && tag_named "REQUEST_HEADER" T_REQUEST_HEADER &&
  tag_named "PROTOCOL_VERSION" T_PROTOCOL_VERSION && tag_named "PROTOCOL_VERSION_MAJOR" T_MAJOR &&
  tag_named "PROTOCOL_VERSION_MINOR" T_MINOR && tag_named "BATCH_COUNT" T_BATCH_COUNT &&
  tag_named "BATCH_ITEM" T_BATCH_ITEM && tag_named "OPERATION" T_OPERATION &&
  tag_named "REQUEST_PAYLOAD" T_REQUEST_PAYLOAD && tag_named "MESSAGE_EXTENSION" T_MESSAGE_EXTENSION &&
  forallb (fun p => tag_named (fst p) (snd p))
    (combine ["MAXIMUM_RESPONSE_SIZE"; "ASYNCHRONOUS_INDICATOR"; "AUTHENTICATION"; "BATCH_ERROR_CONTINUATION_OPTION";
              "BATCH_ORDER_OPTION"; "TIME_STAMP"]%string HEADER_OPTIONALS) &&
  forallb (fun p => tag_named (fst p) (snd p)) (combine ["EPHEMERAL"; "UNIQUE_BATCH_ITEM_ID"]%string ITEM_OPTIONALS) = true.
Lemma tags_match_enums : tags_match_enums_statement.
Proof. vm_compute. reflexivity. Qed.

Lemma cat2_some a b bs : cat2 a b = Some bs -> exists x y, a = Some x /\ b = Some y /\ bs = x ++ y.
Proof. destruct a, b; simpl; try discriminate. intros H; injection H as <-. eauto. Qed.

Lemma struct_some tag b bs :
  struct_ tag b = Some bs -> exists body h, b = Some body /\ hdr tag STRUCT_CODE (zlen body) = Some h /\ bs = h ++ body.
Proof.
  destruct b as [body|]; simpl; [|discriminate]. intros H.
  apply with_hdr_some in H. destruct H as (h & Hh & ->). eauto.
Qed.

Lemma dec_struct_enc tag body h rest :
  tag_ok tag = true -> hdr tag STRUCT_CODE (zlen body) = Some h ->
  dec_struct tag ((h ++ body) ++ rest) = Some (body, rest).
Proof.
  intros Ht Hh. unfold dec_struct. rewrite <- List.app_assoc.
  rewrite (dec_hdr_hdr tag STRUCT_CODE (zlen body) h (body ++ rest)); auto; [|unfold STRUCT_CODE; lia].
  apply take_exact_app.
Qed.

Lemma is_tag_next_hdr t tag ty len h rest :
  tag_ok tag = true -> hdr tag ty len = Some h -> is_tag_next t (h ++ rest) = (tag =? t).
Proof.
  intros Ht Hh. unfold hdr in Hh. destruct ((0 <=? len) && (len <? TWO32)); [|discriminate].
  assert (h = be_enc 3 tag ++ [ty] ++ be_enc 4 len) by congruence; subst h; clear Hh. unfold is_tag_next. rewrite <- !List.app_assoc.
  rewrite (take_exact_app' 3 (be_enc 3 tag)) by (rewrite zlen_be_enc; reflexivity).
  unfold tag_ok in Ht. rewrite be_dec_enc by (rewrite p3; lia). reflexivity.
Qed.

Lemma enc_prim_hdr tag p bs :
  enc_prim tag p = Some bs -> exists ty len h body, hdr tag ty len = Some h /\ bs = h ++ body.
Proof.
  destruct p; simpl; intros H;
    repeat match type of H with (if ?c then _ else _) = _ => destruct c; [|discriminate] end;
    apply with_hdr_some in H; destruct H as (h & Hh & ->); do 4 eexists; (split; [exact Hh | reflexivity]).
Qed.

Lemma is_tag_next_prim t tag p bs rest :
  tag_ok tag = true -> enc_prim tag p = Some bs -> is_tag_next t (bs ++ rest) = (tag =? t).
Proof.
  intros Ht H. apply enc_prim_hdr in H. destruct H as (ty & len & h & body & Hh & ->).
  rewrite <- List.app_assoc. eapply is_tag_next_hdr; eauto.
Qed.

Lemma prim_dec mem tag p bs rest :
  tag_ok tag = true -> wf_prim mem p = true -> enc_prim tag p = Some bs ->
  dec_prim mem (ptype_of p) tag (bs ++ rest) = Some (p, rest).
Proof.
  intros Ht Hw He. destruct (prim_roundtrip mem tag p Ht Hw) as (bs' & E & D).
  rewrite He in E. injection E as <-. apply D.
Qed.

Lemma int_dec mem tag x bs rest :
  tag_ok tag = true -> wf_prim mem (VInt x) = true -> enc_prim tag (VInt x) = Some bs ->
  dec_prim mem PInt tag (bs ++ rest) = Some (VInt x, rest).
Proof. apply (prim_dec mem tag (VInt x)). Qed.
Lemma enum_dec mem tag x bs rest :
  tag_ok tag = true -> wf_prim mem (VEnum x) = true -> enc_prim tag (VEnum x) = Some bs ->
  dec_prim mem PEnum tag (bs ++ rest) = Some (VEnum x, rest).
Proof. apply (prim_dec mem tag (VEnum x)). Qed.

Lemma version_wf v : wf_prim anyint (VInt (fst (version_pair v))) = true /\ wf_prim anyint (VInt (snd (version_pair v))) = true.
Proof. destruct v; vm_compute; auto. Qed.

(* every request the client writes - any version, any operation the server knows, any payload body -
   is read back by the server-side reader as the same version, operation and payload *)
Theorem request_envelope_roundtrip opmem v opc payload bs :
  opmem opc = true ->
  enc_request v opc payload = Some bs ->
  dec_request opmem bs = Some (version_pair v, opc, payload).
Proof.
  intros Hm He. unfold enc_request in He. cbv zeta in He.
  apply struct_some in He. destruct He as (mbody & mh & Hmb & Hmh & ->).
  apply cat2_some in Hmb. destruct Hmb as (hs & bis & Hhs & Hbis & ->).
  apply struct_some in Hhs. destruct Hhs as (hbody & hh & Hhb & Hhh & ->).
  apply cat2_some in Hhb. destruct Hhb as (pvs & bc & Hpvs & Hbc & ->).
  apply struct_some in Hpvs. destruct Hpvs as (pvbody & pvh & Hpvb & Hpvh & ->).
  apply cat2_some in Hpvb. destruct Hpvb as (mj & mn & Hmj & Hmn & ->).
  apply struct_some in Hbis. destruct Hbis as (ibody & ih & Hib & Hih & ->).
  apply cat2_some in Hib. destruct Hib as (ops & pls & Hops & Hpls & ->).
  apply struct_some in Hpls. destruct Hpls as (pl & plh & Hpl & Hplh & ->).
  injection Hpl as <-.
  destruct (version_wf v) as [Wmj Wmn].
  assert (Wop : wf_prim opmem (VEnum opc) = true).
  { simpl in Hops. destruct ((0 <=? opc) && (opc <? TWO32)) eqn:E; [|discriminate]. simpl. rewrite E, Hm. reflexivity. }
  unfold dec_request.
  (* outer header *)
  rewrite (dec_hdr_hdr T_REQUEST_MESSAGE STRUCT_CODE _ mh _ eq_refl ltac:(unfold STRUCT_CODE; lia) Hmh).
  (* request header struct *)
  rewrite (dec_struct_enc T_REQUEST_HEADER _ hh _ eq_refl Hhh).
  (* protocol version struct inside the header body *)
  rewrite (dec_struct_enc T_PROTOCOL_VERSION _ pvh _ eq_refl Hpvh).
  rewrite (int_dec anyint T_MAJOR _ mj mn eq_refl Wmj Hmj).
  rewrite <- (app_nil_r mn) at 1.
  rewrite (int_dec anyint T_MINOR _ mn [] eq_refl Wmn Hmn). cbn [is_nil negb].
  (* optional header fields are absent: the next tag is BATCH_COUNT *)
  replace (absent HEADER_OPTIONALS bc) with true.
  2:{ symmetry. unfold absent, HEADER_OPTIONALS. rewrite <- (app_nil_r bc). cbn [forallb].
      rewrite !(is_tag_next_prim _ T_BATCH_COUNT (VInt 1) bc [] eq_refl Hbc). reflexivity. }
  cbn [negb].
  rewrite <- (app_nil_r bc) at 1.
  rewrite (int_dec anyint T_BATCH_COUNT 1 bc [] eq_refl eq_refl Hbc). cbn [is_nil negb Z.eqb Pos.eqb].
  (* the batch item *)
  rewrite <- (app_nil_r (ih ++ _)).
  rewrite (dec_struct_enc T_BATCH_ITEM _ ih [] eq_refl Hih).
  rewrite (enum_dec opmem T_OPERATION opc ops _ eq_refl Wop Hops).
  replace (absent ITEM_OPTIONALS (plh ++ payload)) with true.
  2:{ symmetry. unfold absent, ITEM_OPTIONALS. cbn [forallb].
      rewrite !(is_tag_next_hdr _ T_REQUEST_PAYLOAD STRUCT_CODE (zlen payload) plh payload eq_refl Hplh). reflexivity. }
  cbn [negb].
  rewrite <- (app_nil_r (plh ++ payload)).
  rewrite (dec_struct_enc T_REQUEST_PAYLOAD _ plh [] eq_refl Hplh).
  cbn [is_nil negb]. destruct (version_pair v). reflexivity.
Qed.

(* the emitted request is one TTLV message: header + exactly the announced number of bytes,
   so the server's own framing (the same length-prefixed loop) delivers it whole *)
Theorem request_is_frame v opc payload bs : enc_request v opc payload = Some bs -> is_frame bs.
Proof.
  intros He. unfold enc_request in He. cbv zeta in He.
  apply struct_some in He. destruct He as (mbody & mh & _ & Hmh & ->).
  exists mh, mbody. split; auto.
  unfold hdr in Hmh. destruct ((0 <=? zlen mbody) && (zlen mbody <? TWO32)) eqn:E; [|discriminate].
  assert (mh = be_enc 3 T_REQUEST_MESSAGE ++ [STRUCT_CODE] ++ be_enc 4 (zlen mbody)) by congruence; subst mh; clear Hmh. split.
  - rewrite !zlen_app, !zlen_be_enc. reflexivity.
  - replace (skipn 4 (be_enc 3 T_REQUEST_MESSAGE ++ [STRUCT_CODE] ++ be_enc 4 (zlen mbody))%list)
      with (be_enc 4 (zlen mbody)) by reflexivity.
    apply be_dec_enc. rewrite p4. lia.
Qed.

