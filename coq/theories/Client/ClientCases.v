(* Comparator for the C19 correspondence (tie K): each case carries an abstract response (or a
   chunk list) and what the implementation did; the checker says whether the model agrees. *)
From PK Require Export Base.Bytes Client.Client Client.Framing Client.EndToEnd.
From PK Require Client.Request.
From Coq Require Import ZArith List Bool.
Import ListNotations.
Open Scope Z_scope.

Definition oZ_eqb (a b : option Z) : bool :=
  match a, b with Some x, Some y => x =? y | None, None => true | _, _ => false end.
Definition obytes_eqb (a b : option bytes) : bool :=
  match a, b with Some x, Some y => bytes_eqb x y | None, None => true | _, _ => false end.
Definition fcls_eqb (a b : fcls) : bool :=
  match a, b with FPie, FPie | FCore, FCore => true | _, _ => false end.

Definition outcome_eqb (a b : outcome) : bool :=
  match a, b with
  | Return x, Return y => val_eqb x y
  | Raise c s r m, Raise c' s' r' m' => fcls_eqb c c' && (s =? s') && (r =? r') && obytes_eqb m m'
  | RaiseOther, RaiseOther => true
  | _, _ => false
  end.

(* result objects / dictionaries are compared as attribute maps: same names, same values *)
Definition sub_attrs (a b : attrs) : bool :=
  forallb (fun x => match getattr (fst x) b with Some v => val_eqb (snd x) v | None => false end) a.
Definition attrs_eqb (a b : attrs) : bool := sub_attrs a b && sub_attrs b a.

Definition dict_keys : list fname :=
  [DUniqueIdentifier; DTemplateAttribute; DData; DIvCounterNonce; DValidityIndicator; DSignature;
   DUsageLimitsCount; DCryptoUsageMask; DLeaseTime].
Definition dict_eqb (a b : attrs) : bool := forallb (fun k => val_eqb (dget k a) (dget k b)) dict_keys.

Definition rclass_code (c : rclass) : Z :=
  match c with
  | CCreate => 1 | CRegister => 2 | CGet => 3 | CActivate => 4 | CDestroy => 5 | CRevoke => 6 | CLocate => 7 | CMac => 8
  | CCreateKeyPair => 9 | CRekeyKeyPair => 10 | CGetAttributes => 11 | CGetAttributeList => 12 | CQuery => 13
  | CDiscoverVersions => 14 | COperationResult => 15
  end.

Definition pout_eqb (a b : pout) : bool :=
  match a, b with
  | PResult x, PResult y =>
      (rclass_code (pr_class x) =? rclass_code (pr_class y)) && (pr_status x =? pr_status y) &&
      oZ_eqb (pr_reason x) (pr_reason y) && obytes_eqb (pr_msg x) (pr_msg y) && attrs_eqb (pr_fields x) (pr_fields y)
  | PDict s r m d, PDict s' r' m' d' => (s =? s') && oZ_eqb r r' && obytes_eqb m m' && dict_eqb d d'
  | PPayload p, PPayload q => attrs_eqb p q
  | PFail s r m, PFail s' r' m' => (s =? s') && (r =? r') && obytes_eqb m m'
  | PExc, PExc => true
  | _, _ => false
  end.

Definition fres_eqb (a b : fres) : bool :=
  match a, b with
  | FOk f r, FOk f' r' => bytes_eqb f f' && chunks_eqb r r'
  | FEof, FEof => true
  | FShort e r, FShort e' r' => (e =? e') && (r =? r')
  | _, _ => false
  end.

Inductive ccase :=
| CPie (o : op) (r : resp) (obs : outcome)          (* ProxyKmipClient.<o> on response r did obs *)
| CProxy (o : op) (r : resp) (obs : pout)           (* KMIPProxy.<o> on response r did obs *)
| CRead (chunks : list bytes) (obs : fres)          (* KMIPProtocol.read on this transport did obs *)
| CReq (v : Request.kver) (opc : Z) (body : bytes) (emitted : bytes)
   (* the client emitted `emitted` for operation opc under version v; `body` is the request payload's body *)
| CCall (o : op) (chunks : list bytes) (frame : bytes) (r : resp) (obs : outcome).
   (* ProxyKmipClient.<o> did obs when the transport delivered `chunks`; the real decoder maps `frame` to r *)

Definition check_ccase (c : ccase) : bool :=
  match c with
  | CPie o r obs => outcome_eqb (interpret o r) obs
  | CProxy o r obs => pout_eqb (proxy_call o r) obs
  | CRead chunks obs => fres_eqb (read chunks) obs
  | CReq v opc body emitted =>
      match Request.enc_request v opc body, Request.dec_request (fun _ => true) emitted with
      | Some bs, Some (pv, opc', body') =>
          bytes_eqb bs emitted && (fst pv =? fst (Request.version_pair v)) && (snd pv =? snd (Request.version_pair v)) &&
          (opc' =? opc) && bytes_eqb body' body
      | _, _ => false
      end
  | CCall o chunks frame r obs =>
      outcome_eqb (client_call (fun f => if bytes_eqb f frame then r else Undecodable) o chunks) obs
  end.
