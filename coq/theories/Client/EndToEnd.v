(* C19 - one client call end to end: the response is read from the transport, decoded, interpreted.
   Definitions only.  `decode` stands for ResponseMessage.read under the client's version. *)
From PK Require Import Base.Bytes Client.Client Client.Framing.
From Coq Require Import ZArith List Bool.
Import ListNotations.
Open Scope Z_scope.

Definition client_call (decode : bytes -> resp) (o : op) (cs : list bytes) : outcome :=
  match read cs with
  | FOk f _ => interpret o (decode f)
  | _ => RaiseOther                      (* EOFError / RequestLengthMismatch propagate to the caller *)
  end.
