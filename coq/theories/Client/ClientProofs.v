(* C19 - lemmas about Client.v (the two client layers). *)
From PK Require Import Base.Bytes Client.Client.
From PKGen Require Import Enums.
From Coq Require Import ZArith List Bool Lia ZifyBool String.
Import ListNotations.
Open Scope Z_scope.

(* ------------------------------------------------------------------ tie T: operation codes *)
Definition opname (o : op) : string :=
  match o with
  | OCreate => "CREATE" | OCreateKeyPair => "CREATE_KEY_PAIR" | ORegister => "REGISTER" | OLocate => "LOCATE"
  | OGet => "GET" | OGetAttributes => "GET_ATTRIBUTES" | OGetAttributeList => "GET_ATTRIBUTE_LIST"
  | OActivate => "ACTIVATE" | ORevoke => "REVOKE" | ODestroy => "DESTROY" | OMac => "MAC"
  | ORekey => "REKEY" | ODeriveKey => "DERIVE_KEY" | OCheck => "CHECK" | OEncrypt => "ENCRYPT"
  | ODecrypt => "DECRYPT" | OSignatureVerify => "SIGNATURE_VERIFY" | OSign => "SIGN"
  | ODeleteAttribute => "DELETE_ATTRIBUTE" | OSetAttribute => "SET_ATTRIBUTE" | OModifyAttribute => "MODIFY_ATTRIBUTE"
  | OQuery => "QUERY" | ODiscoverVersions => "DISCOVER_VERSIONS" | ORekeyKeyPair => "REKEY_KEY_PAIR"
  end%string.

Definition in_table (o : op) : bool :=
  existsb (fun p => String.eqb (fst p) (opname o) && (snd p =? opcode o)) E_Operation.

Lemma all_ops_complete o : In o all_ops.
Proof. destruct o; simpl; tauto. Qed.

Lemma opcodes_match_enums o : in_table o = true.
Proof. destruct o; vm_compute; reflexivity. Qed.

Lemma result_status_success : In ("SUCCESS"%string, SUCCESS) E_ResultStatus.
Proof. vm_compute. tauto. Qed.

(* ------------------------------------------------------------------ the proxy layer copies status / reason / message *)
Lemma mk_result_inv c it fs r :
  mk_result c it fs = PResult r ->
  pr_status r = ri_status it /\ pr_reason r = ri_reason it /\ pr_msg r = ri_msg it /\
  pr_class r = c /\ fields_of it fs = Some (pr_fields r).
Proof.
  unfold mk_result. destruct (fields_of it fs) eqn:E; [|discriminate].
  intros H. injection H as <-. simpl. auto.
Qed.

Lemma mk_result_shape c it fs :
  mk_result c it fs = PExc \/ exists r, mk_result c it fs = PResult r.
Proof. unfold mk_result. destruct (fields_of it fs); eauto. Qed.

Definition copies (it : ritem) (x : pout) : Prop :=
  match x with
  | PResult r => pr_status r = ri_status it /\ pr_reason r = ri_reason it /\ pr_msg r = ri_msg it
  | PDict st rs m _ => st = ri_status it /\ rs = ri_reason it /\ m = ri_msg it
  | PPayload _ => ri_status it = SUCCESS
  | PFail st rs m => st = ri_status it /\ st <> SUCCESS /\ ri_reason it = Some rs /\ ri_msg it = m
  | PExc => True
  end.

Lemma mk_result_copies c it fs : copies it (mk_result c it fs).
Proof.
  destruct (mk_result_shape c it fs) as [E | [r E]]; rewrite E; simpl; auto.
  apply mk_result_inv in E. tauto.
Qed.

Lemma process_item_copies it : copies it (process_item it).
Proof.
  unfold process_item. destruct (ri_op it) as [c|]; [|apply mk_result_copies].
  destruct (c =? 2); [apply mk_result_copies|].
  destruct (c =? 11); [apply mk_result_copies|].
  destruct (c =? 12); [apply mk_result_copies|].
  destruct (c =? 29); [apply mk_result_copies|].
  destruct (c =? 24).
  { destruct (mk_result_shape CQuery it query_fields) as [E | [r E]]; rewrite E; simpl; auto.
    apply mk_result_inv in E. tauto. }
  destruct (c =? 30); [apply mk_result_copies|simpl; auto].
Qed.

Lemma proxy_process_copies it rest : copies it (proxy_process (it :: rest)).
Proof.
  unfold proxy_process. simpl.
  pose proof (process_item_copies it) as H.
  destruct (process_item it) eqn:E; simpl; auto;
    destruct (process_all rest); simpl; auto.
Qed.

Lemma proxy_dict_copies o it rest : copies it (proxy_dict o (it :: rest)).
Proof.
  unfold proxy_dict. destruct (ri_payload it) as [p|].
  - destruct (copy_fields p (dict_fields o)); simpl; auto.
    destruct o; simpl; auto. destruct (check_norm a); simpl; auto.
  - simpl; auto.
Qed.

Lemma proxy_payload_copies o it rest : copies it (proxy_payload o (it :: rest)).
Proof.
  unfold proxy_payload. destruct rest; [|simpl; auto].
  destruct (ri_status it =? SUCCESS) eqn:E; simpl.
  - destruct (ri_op it) as [c|]; simpl; auto.
    destruct (c =? opcode o); simpl; auto.
    destruct (ri_payload it); simpl; auto. lia.
  - destruct (ri_reason it) eqn:R; simpl; auto.
    repeat split; auto. unfold SUCCESS in *. lia.
Qed.

(* KMIPProxy: whatever it hands back carries exactly the first item's status, reason and message *)
Theorem proxy_copies_exactly o it rest : copies it (proxy_call o (Decoded (it :: rest))).
Proof.
  unfold proxy_call. destruct (style_of o).
  - unfold proxy_direct. apply mk_result_copies.
  - apply proxy_process_copies.
  - apply proxy_dict_copies.
  - apply proxy_payload_copies.
Qed.

Lemma proxy_call_nil o : proxy_call o (Decoded []) = PExc.
Proof. destruct o; reflexivity. Qed.

(* ------------------------------------------------------------------ the Pie layer *)
Lemma pie_of_result_return o r v : pie_of_result o r = Return v -> pr_status r = SUCCESS.
Proof.
  unfold pie_of_result. destruct (pr_status r =? SUCCESS) eqn:E; [lia|].
  destruct (pr_reason r); discriminate.
Qed.

Lemma pie_of_result_raise o r c st rs m :
  pie_of_result o r = Raise c st rs m ->
  c = FPie /\ st = pr_status r /\ st <> SUCCESS /\ pr_reason r = Some rs /\ pr_msg r = m.
Proof.
  unfold pie_of_result. destruct (pr_status r =? SUCCESS) eqn:E.
  - unfold pie_success_result, opt2.
    destruct o; repeat match goal with
                       | |- context [match ?x with _ => _ end] => destruct x
                       end; discriminate.
  - destruct (pr_reason r); try discriminate.
    intros H. injection H as <- <- <- <-. repeat split; auto. lia.
Qed.

Lemma pie_of_dict_return o st rs m d v : pie_of_dict o st rs m d = Return v -> st = SUCCESS.
Proof.
  unfold pie_of_dict. destruct (st =? SUCCESS) eqn:E; [lia|]. destruct rs; discriminate.
Qed.

Lemma pie_of_dict_raise o st rs m d c st' rs' m' :
  pie_of_dict o st rs m d = Raise c st' rs' m' ->
  c = FPie /\ st' = st /\ st <> SUCCESS /\ rs = Some rs' /\ m' = m.
Proof.
  unfold pie_of_dict. destruct (st =? SUCCESS) eqn:E; [discriminate|].
  destruct rs; [|discriminate]. intros H. injection H as <- <- <- <-. repeat split; auto. lia.
Qed.

Lemma pie_of_payload_no_raise o p c st rs m : pie_of_payload o p <> Raise c st rs m.
Proof.
  unfold pie_of_payload, opt2.
  destruct o; repeat match goal with
                     | |- context [match ?x with _ => _ end] => destruct x
                     end; discriminate.
Qed.

(* it never reports success for a failed operation: a value comes back only when the first
   (the only legal) item says Success - for EVERY decoded or undecodable response *)
Theorem returns_only_on_success o r v :
  interpret o r = Return v ->
  exists it rest, r = Decoded (it :: rest) /\ ri_status it = SUCCESS.
Proof.
  unfold interpret. destruct (is_pie o); simpl; [|discriminate].
  destruct r as [|items]; [simpl; discriminate|].
  destruct items as [|it rest]; [rewrite proxy_call_nil; discriminate|].
  pose proof (proxy_copies_exactly o it rest) as C.
  destruct (proxy_call o (Decoded (it :: rest))) eqn:E; simpl in C; intros H.
  - apply pie_of_result_return in H. exists it, rest. split; auto. destruct C as (<- & _). auto.
  - apply pie_of_dict_return in H. exists it, rest. split; auto. destruct C as (-> & _). auto.
  - exists it, rest. auto.
  - discriminate.
  - discriminate.
Qed.

Corollary never_success_on_failure o it rest v :
  ri_status it <> SUCCESS -> interpret o (Decoded (it :: rest)) <> Return v.
Proof.
  intros Hs H. apply returns_only_on_success in H. destruct H as (it' & rest' & E & S).
  injection E as <- <-. auto.
Qed.

Theorem undecodable_raises o : interpret o Undecodable = RaiseOther.
Proof. unfold interpret. destruct (is_pie o); reflexivity. Qed.

Theorem empty_response_raises o : interpret o (Decoded []) = RaiseOther.
Proof. unfold interpret. rewrite proxy_call_nil. destruct (is_pie o); reflexivity. Qed.

(* whenever an operation-failure error is raised it carries the first item's status, reason
   and message verbatim - for EVERY response *)
Theorem raise_carries_exact o r c st rs m :
  interpret o r = Raise c st rs m ->
  exists it rest, r = Decoded (it :: rest) /\
    ri_status it = st /\ st <> SUCCESS /\ ri_reason it = Some rs /\ ri_msg it = m.
Proof.
  unfold interpret. destruct (is_pie o); simpl; [|discriminate].
  destruct r as [|items]; [simpl; discriminate|].
  destruct items as [|it rest]; [rewrite proxy_call_nil; discriminate|].
  pose proof (proxy_copies_exactly o it rest) as C.
  destruct (proxy_call o (Decoded (it :: rest))) eqn:E; simpl in C; intros H.
  - apply pie_of_result_raise in H. destruct H as (_ & -> & N & R & M). destruct C as (S & R' & M').
    exists it, rest. rewrite <- S, <- R', <- M'. auto.
  - apply pie_of_dict_raise in H. destruct H as (_ & -> & N & -> & ->). destruct C as (-> & R' & M').
    exists it, rest. auto.
  - exfalso. eapply pie_of_payload_no_raise; eauto.
  - injection H as <- <- <- <-. destruct C as (-> & N & R & M). exists it, rest. auto.
  - discriminate.
Qed.

(* ------------------------------------------------------------------ successful responses *)
Lemma has_attrs_cons p f fs :
  has_attrs p (f :: fs) = true -> (exists v, getattr f p = Some v) /\ has_attrs p fs = true.
Proof.
  unfold has_attrs. simpl. destruct (getattr f p); simpl; intros H; [eauto | discriminate].
Qed.

Ltac attrs_of H :=
  repeat (apply has_attrs_cons in H; let v := fresh "v" in let E := fresh "E" in destruct H as [[v E] H]).

Lemma not_none_inv x : not_none x = true -> exists v, x = Some v /\ v <> VNone.
Proof. destruct x as [[]|]; simpl; try discriminate; intros _; eexists; split; eauto; discriminate. Qed.

(* the data of a successful answer reaches the caller: through result objects, dictionaries
   and payloads alike the method returns exactly what the specification reads off the payload *)
Ltac crunch :=
  unfold interpret, proxy_call, proxy_direct, proxy_process, proxy_dict, proxy_payload, mk_result, fields_of,
    process_item, pie_of_result, pie_of_dict, pie_of_payload, pie_success_result, pie_dict_return, spec_return, opt2, dget;
  cbn -[getattr all_bytes sort_bytes];
  repeat match goal with E : getattr _ _ = Some _ |- _ => rewrite E end;
  cbn -[getattr all_bytes sort_bytes].

Theorem success_returns_payload_data o it p :
  is_pie o = true -> legal_success o it p ->
  exists v, spec_return o p = Some v /\ interpret o (Decoded [it]) = Return v.
Proof.
  intros Hp (Hs & Ho & Hpl & Hw).
  destruct it as [iop ist irs imsg ipl]. simpl in *. subst.
  unfold wf_payload in Hw. apply andb_prop in Hw. destruct Hw as [Ha Hx].
  destruct o; try discriminate Hp; cbn [payload_attrs] in Ha; attrs_of Ha;
    crunch; crunch; eauto.
  all: simpl in Hx; unfold spec_return in Hx; repeat match goal with E : getattr _ _ = Some _ |- _ => rewrite E in Hx end.
  - simpl. destruct v1; simpl in Hx; try discriminate; eauto.
  - simpl. destruct v0; try discriminate. destruct (all_bytes l); try discriminate. eauto.
  - simpl. destruct v, v0; simpl in Hx; try discriminate; eauto.
  - destruct v1; try discriminate; vm_compute; eauto.
Qed.

(* ------------------------------------------------------------------ failures *)
Definition failure_class (o : op) : fcls := match style_of o with SPayload => FCore | _ => FPie end.

(* every legal failure - message or not, operation echoed or not - is raised as an operation
   failure carrying exactly the status, reason and message of the response *)
Theorem failure_carries o it rs :
  is_pie o = true -> legal_failure o it rs ->
  interpret o (Decoded [it]) = Raise (failure_class o) (ri_status it) rs (ri_msg it).
Proof.
  intros Hp (Hs & Hr & Hpl & Hop).
  destruct it as [iop ist irs imsg ipl]. simpl in *. subst.
  assert (Hst : (ist =? SUCCESS) = false) by lia.
  destruct o; try discriminate Hp;
    unfold interpret, proxy_call, proxy_direct, proxy_process, proxy_dict, proxy_payload, mk_result, fields_of,
      process_item, pie_of_result, pie_of_dict, failure_class in *;
    simpl in *; try rewrite Hst; simpl; try reflexivity;
    destruct Hop as [-> | ->]; simpl; try rewrite Hst; simpl; reflexivity.
Qed.

(* ------------------------------------------------------------------ KMIPProxy result objects *)
Theorem proxy_failure_reported o it rs :
  legal_failure o it rs -> proxy_call o (Decoded [it]) <> PExc.
Proof.
  intros (Hs & Hr & Hpl & Hop).
  destruct it as [iop ist irs imsg ipl]. simpl in *. subst.
  assert (Hst : (ist =? SUCCESS) = false) by lia.
  destruct o;
    unfold proxy_call, proxy_direct, proxy_process, proxy_dict, proxy_payload, mk_result, fields_of, process_item;
    simpl in *; try rewrite Hst; simpl; try discriminate;
    destruct Hop as [-> | ->]; simpl; discriminate.
Qed.

(* copy_fields reads each named payload attribute *)
Lemma copy_fields_lookup p fs f :
  copy_fields p fs = Some f ->
  forall rn pn, In (rn, pn) fs ->
    (forall rn' pn', In (rn', pn') fs -> fcode rn' = fcode rn -> pn' = pn) ->
    getattr rn f = getattr pn p.
Proof.
  revert f. induction fs as [|[rn0 pn0] fs IH]; intros f H rn pn Hin Hu; [contradiction|].
  simpl in H. destruct (getattr pn0 p) as [v0|] eqn:E0; [|discriminate].
  destruct (copy_fields p fs) as [t|] eqn:Et; [|discriminate].
  injection H as <-. simpl. unfold fname_eqb.
  destruct (fcode rn =? fcode rn0) eqn:Ec.
  - assert (pn0 = pn) by (apply (Hu rn0 pn0); [left; auto | lia]). subst. auto.
  - destruct Hin as [Hin | Hin]; [injection Hin as -> ->; lia|].
    apply IH; auto. intros. apply (Hu rn' pn'); auto. right; auto.
Qed.
