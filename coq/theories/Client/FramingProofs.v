(* C19 - the client's framing delivers each response intact however the transport splits it,
   and reports an error when the stream ends early.  Induction over chunk lists. *)
From PK Require Import Base.Bytes Base.BytesProofs Client.Client Client.Framing Client.EndToEnd.
From Coq Require Import ZArith List Bool Lia ZifyBool.
Import ListNotations.
Open Scope Z_scope.

Definition chunks_ok (cs : list bytes) : Prop := Forall (fun c => c <> []) cs.

Lemma zlen_app' {A} (a b : list A) : zlen (a ++ b) = zlen a + zlen b.
Proof. unfold zlen. rewrite app_length. lia. Qed.
Lemma zlen_nonneg' {A} (l : list A) : 0 <= zlen l.
Proof. unfold zlen. lia. Qed.
Lemma zlen_cons {A} (x : A) l : zlen (x :: l) = 1 + zlen l.
Proof. unfold zlen. simpl length. lia. Qed.
Lemma zlen_nil {A} : zlen (@nil A) = 0.
Proof. reflexivity. Qed.

Lemma firstn_app_ge {A} n (a b : list A) :
  (length a <= n)%nat -> firstn n (a ++ b) = a ++ firstn (n - length a) b.
Proof. intros H. rewrite firstn_app. rewrite firstn_all2 by lia. reflexivity. Qed.
Lemma skipn_app_ge {A} n (a b : list A) :
  (length a <= n)%nat -> skipn n (a ++ b) = skipn (n - length a) b.
Proof. intros H. rewrite skipn_app. rewrite skipn_all2 by lia. reflexivity. Qed.
Lemma firstn_app_lt {A} n (a b : list A) :
  (n <= length a)%nat -> firstn n (a ++ b) = firstn n a.
Proof.
  intros H. rewrite firstn_app. replace (n - length a)%nat with 0%nat by lia.
  simpl. apply app_nil_r.
Qed.
Lemma skipn_app_lt {A} n (a b : list A) :
  (n <= length a)%nat -> skipn n (a ++ b) = skipn n a ++ b.
Proof.
  intros H. rewrite skipn_app. replace (n - length a)%nat with 0%nat by lia. reflexivity.
Qed.

(* _recv_all is determined by the concatenated stream *)
Lemma recv_all_spec cs : forall need acc,
  chunks_ok cs ->
  let s := concat cs in
  (need <= zlen s ->
     exists rest, recv_all need acc cs = ROk (acc ++ firstn (Z.to_nat need) s) rest /\
                  concat rest = skipn (Z.to_nat need) s /\ chunks_ok rest) /\
  (zlen s < need -> recv_all need acc cs = RShort (zlen acc + zlen s)).
Proof.
  induction cs as [|c cs IH]; intros need acc Hok; simpl.
  - assert (Z0 : zlen (@nil Z) = 0) by reflexivity.
    split; intros H; rewrite Z0 in *.
    + destruct (need <=? 0) eqn:E; [|lia].
      exists []. rewrite firstn_nil, skipn_nil, app_nil_r. repeat split; auto.
    + destruct (need <=? 0) eqn:E; [lia|]. f_equal. lia.
  - inversion Hok as [|? ? Hc Hcs]; subst.
    destruct (need <=? 0) eqn:E.
    + split; intros H; [|pose proof (zlen_nonneg' (c ++ concat cs)); lia].
      exists (c :: cs). replace (Z.to_nat need) with 0%nat by lia.
      simpl. rewrite app_nil_r. repeat split; auto.
    + destruct c as [|x c']; [congruence|].
      set (c := x :: c') in *.
      destruct (zlen c <=? need) eqn:E2.
      * specialize (IH (need - zlen c) (acc ++ c) Hcs). simpl in IH. destruct IH as [IH1 IH2].
        assert (Hn : (length c <= Z.to_nat need)%nat) by (unfold zlen in E2; lia).
        assert (Hsub : (Z.to_nat need - length c)%nat = Z.to_nat (need - zlen c)) by (unfold zlen; lia).
        split; intros H; rewrite zlen_app' in H.
        -- destruct IH1 as (rest & R1 & R2 & R3); [lia|].
           exists rest. rewrite R1. rewrite firstn_app_ge, skipn_app_ge by auto.
           rewrite Hsub, <- app_assoc. auto.
        -- rewrite IH2 by lia. f_equal. rewrite !zlen_app'. lia.
      * assert (Hn : (Z.to_nat need <= length c)%nat) by (unfold zlen in E2; lia).
        split; intros H; [|rewrite zlen_app' in H; pose proof (zlen_nonneg' (concat cs)); lia].
        exists (skipn (Z.to_nat need) c :: cs).
        rewrite firstn_app_lt, skipn_app_lt by auto. simpl. repeat split; auto.
        constructor; auto. intros Hnil.
        assert (L : length (skipn (Z.to_nat need) c) = 0%nat) by (rewrite Hnil; reflexivity).
        rewrite skipn_length in L. unfold zlen in E2. lia.
Qed.

Lemma firstn_firstn_le {A} (n m : nat) (l : list A) : (n <= m)%nat -> firstn n (firstn m l) = firstn n l.
Proof. intros H. rewrite firstn_firstn. f_equal. lia. Qed.

Lemma firstn_plus {A} (a b : nat) (l : list A) : firstn (a + b) l = firstn a l ++ firstn b (skipn a l).
Proof.
  revert l. induction a as [|a IH]; intros l; simpl; auto.
  destruct l; simpl; [destruct b; reflexivity|]. f_equal. apply IH.
Qed.

Lemma skipn_plus {A} (a b : nat) (l : list A) : skipn b (skipn a l) = skipn (a + b) l.
Proof.
  revert l. induction a as [|a IH]; intros l; simpl; auto.
  destruct l; simpl; [destruct b; reflexivity|]. apply IH.
Qed.

Lemma bytes_ok_firstn n bs : bytes_ok bs = true -> bytes_ok (firstn n bs) = true.
Proof.
  unfold bytes_ok. revert n. induction bs as [|b bs IH]; intros [|n] H; simpl in *; auto.
  apply andb_prop in H. destruct H as [H1 H2]. rewrite H1. simpl. auto.
Qed.
Lemma bytes_ok_skipn n bs : bytes_ok bs = true -> bytes_ok (skipn n bs) = true.
Proof.
  unfold bytes_ok. revert n. induction bs as [|b bs IH]; intros [|n] H; simpl in *; auto.
  apply andb_prop in H. destruct H as [H1 H2]. auto.
Qed.

(* KMIPProtocol.read depends on the stream only, not on how the transport split it *)
Theorem read_spec cs :
  chunks_ok cs -> bytes_ok (concat cs) = true -> flatten (read cs) = read_stream (concat cs).
Proof.
  intros Hok Hb. unfold read, read_stream, HEADER_SIZE. cbv zeta.
  set (s := concat cs) in *.
  destruct (recv_all_spec cs 8 [] Hok) as [H1 H2]. fold s in H1, H2.
  pose proof (zlen_nonneg' s) as Hs.
  destruct (zlen s =? 0) eqn:E0.
  { rewrite H2 by lia. rewrite zlen_nil. replace (0 + zlen s) with 0 by lia. reflexivity. }
  destruct (zlen s <? 8) eqn:E8.
  { rewrite H2 by lia. rewrite zlen_nil. simpl. destruct (zlen s =? 0) eqn:E; [lia|]. reflexivity. }
  destruct H1 as (rest & R1 & R2 & R3); [lia|]. rewrite R1. rewrite app_nil_l.
  change (Z.to_nat 8) with 8%nat in *.
  set (size := be_dec (skipn 4 (firstn 8 s))).
  assert (Hsize : 0 <= size).
  { unfold size. apply be_dec_bound. apply bytes_ok_skipn, bytes_ok_firstn, Hb. }
  destruct (recv_all_spec rest size [] R3) as [B1 B2]. rewrite R2 in B1, B2.
  assert (Lsk : zlen (skipn 8 s) = zlen s - 8).
  { unfold zlen. rewrite skipn_length. unfold zlen in E8. lia. }
  rewrite Lsk in B1, B2.
  destruct (zlen s - 8 <? size) eqn:Es.
  - rewrite B2 by lia. simpl. reflexivity.
  - destruct B1 as (rest' & Q1 & Q2 & Q3); [lia|]. rewrite Q1. unfold flatten. rewrite app_nil_l.
    replace (Z.to_nat (8 + size)) with (8 + Z.to_nat size)%nat by lia.
    f_equal.
    + symmetry. apply firstn_plus.
    + rewrite Q2. apply skipn_plus.
Qed.

(* ------------------------------------------------------------------ corollaries *)
(* two transports delivering the same bytes, however split, give the same result *)
Theorem client_framing cs1 cs2 :
  chunks_ok cs1 -> chunks_ok cs2 -> concat cs1 = concat cs2 -> bytes_ok (concat cs1) = true ->
  flatten (read cs1) = flatten (read cs2).
Proof.
  intros H1 H2 E B. rewrite !read_spec; auto; rewrite <- ?E; auto.
Qed.

(* a TTLV message: 8 header bytes whose last four give the length of what follows *)
Definition is_frame (f : bytes) : Prop :=
  exists hdr body, f = hdr ++ body /\ zlen hdr = 8 /\ be_dec (skipn 4 hdr) = zlen body.

Lemma read_stream_frame f more : is_frame f -> read_stream (f ++ more) = SOk f more.
Proof.
  intros (hdr & body & -> & Lh & Lb).
  assert (Hl : length hdr = 8%nat) by (unfold zlen in Lh; lia).
  unfold read_stream, HEADER_SIZE. rewrite !zlen_app', Lh.
  pose proof (zlen_nonneg' body). pose proof (zlen_nonneg' more).
  destruct (8 + zlen body + zlen more =? 0) eqn:E0; [lia|].
  destruct (8 + zlen body + zlen more <? 8) eqn:E8; [lia|].
  rewrite <- app_assoc.
  rewrite (firstn_app_lt 8 hdr) by lia. rewrite firstn_all2 by lia. rewrite Lb.
  destruct (8 + zlen body + zlen more - 8 <? zlen body) eqn:E; [lia|].
  replace (Z.to_nat (8 + zlen body)) with (length hdr + length body)%nat by (unfold zlen; lia).
  rewrite app_assoc. rewrite <- app_length.
  rewrite firstn_app_ge, skipn_app_ge by lia.
  rewrite Nat.sub_diag. simpl. rewrite app_nil_r. reflexivity.
Qed.

(* each response is delivered intact, whatever the chunking, and the bytes after it stay queued *)
Theorem frame_delivered_intact cs f more :
  chunks_ok cs -> bytes_ok (f ++ more) = true -> is_frame f -> concat cs = f ++ more ->
  exists rest, read cs = FOk f rest /\ concat rest = more.
Proof.
  intros Hok Hb Hf E.
  pose proof (read_spec cs Hok) as R. rewrite E in R. specialize (R Hb).
  rewrite read_stream_frame in R by auto.
  destruct (read cs) as [f' rest| |]; simpl in R; try discriminate.
  injection R as -> <-. eauto.
Qed.

Lemma read_stream_truncated f k :
  is_frame f -> (k < length f)%nat ->
  read_stream (firstn k f) = SEof \/ exists e r, read_stream (firstn k f) = SShort e r.
Proof.
  intros (hdr & body & -> & Lh & Lb) Hk.
  assert (Hl : length hdr = 8%nat) by (unfold zlen in Lh; lia).
  rewrite app_length in Hk.
  unfold read_stream, HEADER_SIZE.
  assert (Lz : zlen (firstn k (hdr ++ body)) = Z.of_nat k).
  { unfold zlen. rewrite firstn_length, app_length. lia. }
  rewrite Lz.
  destruct (Z.of_nat k =? 0) eqn:E0; [left; reflexivity|].
  destruct (Z.of_nat k <? 8) eqn:E8; [right; eauto|].
  rewrite firstn_firstn. replace (Nat.min 8 k) with 8%nat by lia.
  rewrite (firstn_app_lt 8 hdr) by lia. rewrite firstn_all2 by lia. rewrite Lb.
  destruct (Z.of_nat k - 8 <? zlen body) eqn:E; [right; eauto|].
  unfold zlen in E. lia.
Qed.

(* the stream ends before the response is complete: an error, never a message *)
Theorem early_end_raises cs f k :
  chunks_ok cs -> bytes_ok f = true -> is_frame f -> (k < length f)%nat -> concat cs = firstn k f ->
  read cs = FEof \/ exists e r, read cs = FShort e r.
Proof.
  intros Hok Hb Hf Hk E.
  pose proof (read_spec cs Hok) as R. rewrite E in R.
  specialize (R (bytes_ok_firstn k f Hb)).
  destruct (read_stream_truncated f k Hf Hk) as [S | (e & r & S)]; rewrite S in R;
    destruct (read cs); simpl in R; try discriminate; eauto.
Qed.

(* after a delivered message the transport is again a well-formed chunk list: the next read starts cleanly *)
Theorem read_leaves_transport_ok cs f rest : chunks_ok cs -> read cs = FOk f rest -> chunks_ok rest.
Proof.
  intros Hok. unfold read. 
  destruct (recv_all_spec cs HEADER_SIZE [] Hok) as [H1 H2].
  destruct (recv_all HEADER_SIZE [] cs) as [hdr r1|] eqn:E1.
  - assert (Hr1 : chunks_ok r1).
    { destruct (Z_le_gt_dec HEADER_SIZE (zlen (concat cs))) as [L|G].
      - destruct (H1 L) as (r & Q1 & _ & Q3). injection Q1 as Qa Qb. rewrite Qb. exact Q3.
      - specialize (H2 ltac:(lia)). discriminate. }
    cbv zeta. set (size := be_dec (skipn 4 hdr)).
    destruct (recv_all_spec r1 size [] Hr1) as [B1 B2].
    destruct (recv_all size [] r1) as [body r2|] eqn:E2; [|discriminate].
    cbv beta iota. intros H. injection H as Ha Hb. rewrite <- Hb.
    destruct (Z_le_gt_dec size (zlen (concat r1))) as [L|G].
    + destruct (B1 L) as (r & Q1 & _ & Q3). injection Q1 as Qa Qb. rewrite Qb. exact Q3.
    + specialize (B2 ltac:(lia)). discriminate.
  - destruct (received =? 0); discriminate.
Qed.

(* ------------------------------------------------------------------ end to end *)
Section EndToEnd.
  (* ResponseMessage.read under the client's KMIP version (C01's subject; arbitrary here) *)
  Variable decode : bytes -> resp.

  Theorem client_call_chunk_independent o cs1 cs2 :
    chunks_ok cs1 -> chunks_ok cs2 -> concat cs1 = concat cs2 -> bytes_ok (concat cs1) = true ->
    client_call decode o cs1 = client_call decode o cs2.
  Proof.
    intros H1 H2 E B. pose proof (client_framing cs1 cs2 H1 H2 E B) as F.
    unfold client_call. destruct (read cs1), (read cs2); simpl in F; try discriminate; auto.
    injection F as -> _. reflexivity.
  Qed.

  Theorem client_call_complete o cs f more :
    chunks_ok cs -> bytes_ok (f ++ more) = true -> is_frame f -> concat cs = f ++ more ->
    client_call decode o cs = interpret o (decode f).
  Proof.
    intros H1 B F E. destruct (frame_delivered_intact cs f more H1 B F E) as (rest & R & _).
    unfold client_call. rewrite R. reflexivity.
  Qed.

  Theorem client_call_truncated_raises o cs f k :
    chunks_ok cs -> bytes_ok f = true -> is_frame f -> (k < length f)%nat -> concat cs = firstn k f ->
    client_call decode o cs = RaiseOther.
  Proof.
    intros H1 B F K E. unfold client_call.
    destruct (early_end_raises cs f k H1 B F K E) as [R | (e & r & R)]; rewrite R; reflexivity.
  Qed.
End EndToEnd.
