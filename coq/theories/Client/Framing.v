(* C19 - model of kmip/services/kmip_protocol.py KMIPProtocol.read / _recv_all over a
   transport that hands the byte stream over in arbitrary pieces.  Definitions only.

   The transport is a list of chunks: socket.recv(n) returns the next chunk, or its first
   n bytes when it is longer (the remainder stays queued); when nothing is queued the
   stream has ended and recv returns b''.  An empty chunk models recv returning b''. *)
From PK Require Import Base.Bytes.
From Coq Require Import ZArith List Bool.
Import ListNotations.
Open Scope Z_scope.

Inductive rres :=
| ROk (data : bytes) (rest : list bytes)
| RShort (received : Z).                       (* RequestLengthMismatch(expected, received) *)

(* _recv_all(total): loop `while bytes_read < total: msg = recv(total - bytes_read); if not msg: break` *)
Fixpoint recv_all (need : Z) (acc : bytes) (chunks : list bytes) : rres :=
  if need <=? 0 then ROk acc chunks else
  match chunks with
  | [] => RShort (zlen acc)
  | c :: rest =>
      match c with
      | [] => RShort (zlen acc)
      | _ :: _ =>
          if zlen c <=? need then recv_all (need - zlen c) (acc ++ c) rest
          else ROk (acc ++ firstn (Z.to_nat need) c) (skipn (Z.to_nat need) c :: rest)
      end
  end.

Inductive fres :=
| FOk (frame : bytes) (rest : list bytes)      (* BytearrayStream(header + payload) *)
| FEof                                         (* EOFError("No data read from socket") *)
| FShort (expected received : Z).              (* RequestLengthMismatch *)

Definition HEADER_SIZE : Z := 8.

Definition read (chunks : list bytes) : fres :=
  match recv_all HEADER_SIZE [] chunks with
  | RShort r => if r =? 0 then FEof else FShort HEADER_SIZE r
  | ROk hdr rest =>
      let size := be_dec (skipn 4 hdr) in          (* unpack('!I', header[4:]) *)
      match recv_all size [] rest with
      | RShort r => FShort size r
      | ROk body rest' => FOk (hdr ++ body) rest'
      end
  end.

(* the same, stated on the undivided stream (the specification) *)
Inductive sres :=
| SOk (frame rest : bytes)
| SEof
| SShort (expected received : Z).

Definition read_stream (s : bytes) : sres :=
  if zlen s =? 0 then SEof
  else if zlen s <? HEADER_SIZE then SShort HEADER_SIZE (zlen s)
  else
    let size := be_dec (skipn 4 (firstn 8 s)) in
    if zlen s - HEADER_SIZE <? size then SShort size (zlen s - HEADER_SIZE)
    else SOk (firstn (Z.to_nat (HEADER_SIZE + size)) s) (skipn (Z.to_nat (HEADER_SIZE + size)) s).

Definition flatten (r : fres) : sres :=
  match r with
  | FOk f rest => SOk f (concat rest)
  | FEof => SEof
  | FShort e r => SShort e r
  end.

Definition nonempty (c : bytes) : bool := match c with [] => false | _ => true end.

(* comparator helpers for the correspondence *)
Fixpoint chunks_eqb (a b : list bytes) : bool :=
  match a, b with
  | [], [] => true
  | x :: a', y :: b' => bytes_eqb x y && chunks_eqb a' b'
  | _, _ => false
  end.
