(* Code model of kmip/core/primitives.py (Base header handling and the ten
   primitive classes), including its quirks.  Definitions only.

   Tie K: harness/prims.py runs every function below against the real classes. *)
From PK Require Export Base.Bytes.
Open Scope Z_scope.

Inductive ptype := PInt | PLong | PBig | PEnum | PBool | PText | PBytes | PDate | PInterval.

Definition type_code (t : ptype) : Z :=
  match t with
  | PInt => 2 | PLong => 3 | PBig => 4 | PEnum => 5 | PBool => 6
  | PText => 7 | PBytes => 8 | PDate => 9 | PInterval => 10
  end.
Definition STRUCT_CODE : Z := 1.

Definition ptype_eqb (a b : ptype) : bool := type_code a =? type_code b.

Inductive pval :=
| VInt (v : Z) | VLong (v : Z) | VBig (v : Z) | VEnum (v : Z) | VBool (b : bool)
| VText (cs : list Z)            (* the UTF-8 bytes of the text *)
| VBytes (bs : bytes) | VDate (v : Z) | VInterval (v : Z).

Definition ptype_of (p : pval) : ptype :=
  match p with
  | VInt _ => PInt | VLong _ => PLong | VBig _ => PBig | VEnum _ => PEnum | VBool _ => PBool
  | VText _ => PText | VBytes _ => PBytes | VDate _ => PDate | VInterval _ => PInterval
  end.

Definition pval_eqb (a b : pval) : bool :=
  match a, b with
  | VInt x, VInt y | VLong x, VLong y | VBig x, VBig y | VEnum x, VEnum y
  | VDate x, VDate y | VInterval x, VInterval y => x =? y
  | VBool x, VBool y => Bool.eqb x y
  | VText x, VText y | VBytes x, VBytes y => bytes_eqb x y
  | _, _ => false
  end.

(* ---------- header: Base.write_tag / write_type / write_length ---------- *)

Definition TWO32 : Z := 4294967296.
Definition TWO31 : Z := 2147483648.
Definition TWO63 : Z := 9223372036854775808.
Definition TWO64 : Z := 18446744073709551616.

Definition tag_ok (tag : Z) : bool := (0 <=? tag) && (tag <? 16777216).

(* write_length raises when the length does not fit four bytes *)
Definition hdr (tag ty len : Z) : option bytes :=
  if (0 <=? len) && (len <? TWO32)
  then Some (be_enc 3 tag ++ [ty] ++ be_enc 4 len)
  else None.


(* ---------- BigInteger.write ---------- *)
Definition bitlen (a : Z) : Z := if a =? 0 then 1 else Z.log2 a + 1.      (* len("{0:b}".format(a)) *)
Definition big_words (v : Z) : Z := bitlen (Z.abs v) / 64 + 1.            (* pads with 64 - len%64 zeros: a full word when len%64 = 0 *)
Definition big_bytes (v : Z) : bytes :=
  let n := 8 * big_words v in be_enc (Z.to_nat n) (v mod pow256 n).

(* ---------- encoders (None = the Python raises) ---------- *)

(* str.encode('utf-8') / bytes.decode('utf-8') (strict): a text value is represented by its UTF-8
   bytes; text_ok says that a byte sequence is well-formed UTF-8 as CPython's strict decoder accepts it
   (no overlong forms, no surrogates U+D800..U+DFFF, nothing above U+10FFFF, no truncated sequence) *)
Definition cont (b : Z) : bool := (128 <=? b) && (b <=? 191).
Definition inr (lo hi b : Z) : bool := (lo <=? b) && (b <=? hi).
Fixpoint utf8_valid (bs : list Z) : bool :=
  match bs with
  | [] => true
  | b0 :: r =>
      if inr 0 127 b0 then utf8_valid r
      else if inr 194 223 b0 then
        match r with b1 :: r1 => cont b1 && utf8_valid r1 | _ => false end
      else if inr 224 239 b0 then
        match r with
        | b1 :: b2 :: r2 =>
            (if b0 =? 224 then inr 160 191 b1 else if b0 =? 237 then inr 128 159 b1 else cont b1)
            && cont b2 && utf8_valid r2
        | _ => false
        end
      else if inr 240 244 b0 then
        match r with
        | b1 :: b2 :: b3 :: r3 =>
            (if b0 =? 240 then inr 144 191 b1 else if b0 =? 244 then inr 128 143 b1 else cont b1)
            && cont b2 && cont b3 && utf8_valid r3
        | _ => false
        end
      else false
  end.
Definition text_ok (cs : list Z) : bool := utf8_valid cs.

Definition with_hdr (tag ty len : Z) (body : bytes) : option bytes :=
  match hdr tag ty len with Some h => Some (h ++ body) | None => None end.

Definition enc_prim (tag : Z) (p : pval) : option bytes :=
  match p with
  | VInt v =>
      if (- TWO31 <=? v) && (v <? TWO31)                         (* struct.pack('!i') range *)
      then with_hdr tag 2 4 (be_enc 4 (to_unsigned 4 v) ++ be_enc 4 0) else None
  | VLong v =>
      if (- TWO63 <=? v) && (v <? TWO63)
      then with_hdr tag 3 8 (be_enc 8 (to_unsigned 8 v)) else None
  | VBig v =>
      let b := big_bytes v in with_hdr tag 4 (zlen b) b
  | VEnum v =>
      if (0 <=? v) && (v <? TWO32)                               (* struct.pack('!I') range *)
      then with_hdr tag 5 4 (be_enc 4 v ++ be_enc 4 0) else None
  | VBool b => with_hdr tag 6 8 (be_enc 8 (if b then 1 else 0))
  | VText cs =>
      if text_ok cs                                              (* the UTF-8 bytes of the str *)
      then with_hdr tag 7 (zlen cs) (cs ++ zpad (zlen cs)) else None
  | VBytes bs => with_hdr tag 8 (zlen bs) (bs ++ zpad (zlen bs))
  | VDate v =>
      if (- TWO63 <=? v) && (v <? TWO63)
      then with_hdr tag 9 8 (be_enc 8 (to_unsigned 8 v)) else None
  | VInterval v =>
      if (0 <=? v) && (v <? TWO32)
      then with_hdr tag 10 4 (be_enc 4 v ++ be_enc 4 0) else None
  end.

(* validate(): what the constructors accept *)
Definition validate_prim (p : pval) : bool :=
  match p with
  | VInt v => (- TWO31 <=? v) && (v <=? TWO31 - 1)
  | VLong v | VDate v => (- TWO63 <=? v) && (v <=? TWO63 - 1)
  | VBig _ | VBool _ | VBytes _ | VText _ => true
  | VEnum v => (0 <=? v) && (v <=? TWO32 - 1)    (* Enumeration.MAX = 4294967295 *)
  | VInterval v => (0 <=? v) && (v <=? TWO32 - 1)  (* Interval.MAX = 4294967295 *)
  end.

(* ---------- decoders ---------- *)

(* Base.read: tag (3), type (1), length (4).  The tag/type must equal the
   expected ones (enums.Tags(tag) / enums.Types(typ) raise on unknown numbers,
   `is not` on anything else). *)
Definition dec_hdr (tag ty : Z) (bs : bytes) : option (Z * bytes) :=
  match take_exact 3 bs with
  | None => None
  | Some (t, r1) =>
      if negb (be_dec t =? tag) then None else
      match take_exact 1 r1 with
      | None => None
      | Some (y, r2) =>
          if negb (be_dec y =? ty) then None else
          match take_exact 4 r2 with
          | None => None
          | Some (l, r3) => Some (be_dec l, r3)
          end
      end
  end.

(* read n bytes one at a time, then the padding one at a time, each must be 0 *)
Definition dec_padded (len : Z) (bs : bytes) : option (bytes * bytes) :=
  match take_exact len bs with
  | None => None
  | Some (v, r) =>
      match take_exact (pad_len len) r with
      | None => None
      | Some (p, r') => if all_zero p then Some (v, r') else None
      end
  end.

Definition dec_u32_pad (bs : bytes) : option (Z * bytes) :=
  match take_exact 4 bs with
  | None => None
  | Some (v, r) =>
      match take_exact 4 r with
      | None => None
      | Some (p, r') => if be_dec p =? 0 then Some (be_dec v, r') else None
      end
  end.

Definition dec_prim (enum_mem : Z -> bool) (t : ptype) (tag : Z) (bs : bytes) : option (pval * bytes) :=
  match dec_hdr tag (type_code t) bs with
  | None => None
  | Some (len, r) =>
      match t with
      | PInt =>
          if negb (len =? 4) then None else
          match dec_u32_pad r with
          | Some (u, r') => Some (VInt (to_signed 4 u), r')
          | None => None
          end
      | PLong =>
          if negb (len =? 8) then None else
          match take_exact 8 r with
          | Some (v, r') => Some (VLong (to_signed 8 (be_dec v)), r')
          | None => None
          end
      | PDate =>
          if negb (len =? 8) then None else
          match take_exact 8 r with
          | Some (v, r') => Some (VDate (to_signed 8 (be_dec v)), r')
          | None => None
          end
      | PBig =>
          if negb (len mod 8 =? 0) then None else
          if len =? 0 then None else                       (* binary[0] on '' raises IndexError *)
          match take_exact len r with
          | Some (v, r') => Some (VBig (to_signed len (be_dec v)), r')
          | None => None
          end
      | PEnum =>
          if negb (len =? 4) then None else
          match dec_u32_pad r with
          | Some (u, r') => if enum_mem u then Some (VEnum u, r') else None
          | None => None
          end
      | PInterval =>
          if negb (len =? 4) then None else
          match dec_u32_pad r with
          | Some (u, r') => Some (VInterval u, r')
          | None => None
          end
      | PBool =>                                            (* the length field is not checked *)
          match take_exact 8 r with
          | Some (v, r') =>
              let u := be_dec v in
              if u =? 1 then Some (VBool true, r')
              else if u =? 0 then Some (VBool false, r') else None
          | None => None
          end
      | PText =>
          match dec_padded len r with
          | Some (v, r') => if text_ok v then Some (VText v, r') else None   (* bytes.decode('utf-8') raises on ill-formed input *)
          | None => None
          end
      | PBytes =>
          match dec_padded len r with
          | Some (v, r') => Some (VBytes v, r')
          | None => None
          end
      end
  end.

(* Values on which encode succeeds: the domain of the round-trip theorems. *)
Definition wf_prim (enum_mem : Z -> bool) (p : pval) : bool :=
  match p with
  | VInt v => (- TWO31 <=? v) && (v <? TWO31)
  | VLong v | VDate v => (- TWO63 <=? v) && (v <? TWO63)
  | VBig v => 8 * big_words v <? TWO32
  | VEnum v => (0 <=? v) && (v <? TWO32) && enum_mem v
  | VInterval v => (0 <=? v) && (v <? TWO32)
  | VBool _ => true
  | VText cs => text_ok cs && (zlen cs <? TWO32)
  | VBytes bs => bytes_ok bs && (zlen bs <? TWO32)
  end.

(* Base.is_tag_next / is_type_next *)
Definition is_tag_next (tag : Z) (bs : bytes) : bool :=
  match take_exact 3 bs with
  | Some (t, _) => be_dec t =? tag
  | None => false
  end.
Definition is_type_next (ty : Z) (bs : bytes) : bool :=
  match take_exact 4 bs with
  | Some (t, _) => nth 3 t 0 =? ty
  | None => false
  end.
