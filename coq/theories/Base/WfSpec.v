(* TTLV as the KMIP specification defines it (section 9.1 "TTLV Encoding"),
   written from the specification text and independent of Prim.v:
   - Item Tag: three bytes, big endian;  Item Type: one byte (1 Structure .. 10 Interval);
   - Item Length: four bytes, big endian, the number of bytes of the Item Value *without* padding;
   - Integer (4 bytes), Enumeration (4), Interval (4): value then padded to 8 bytes;
     Long Integer (8), Boolean (8), Date-Time (8): exactly 8 bytes; numbers big-endian two's complement;
   - Big Integer: a multiple of 8 bytes, big-endian two's complement, sign extended;
   - Text String / Byte String: the raw bytes, then zero padding to a multiple of 8 bytes;
   - Structure: the concatenation of the encodings of its children; length = their total size. *)
From Coq Require Import ZArith List Bool.
Import ListNotations.
Open Scope Z_scope.

(* the number v (0 <= v < 256^n) written in n bytes, most significant first *)
Fixpoint spec_be (n : nat) (v : Z) : list Z :=
  match n with
  | O => []
  | S k => (v / 256 ^ Z.of_nat k) mod 256 :: spec_be k v
  end.

(* two's complement of v on n bytes *)
Definition spec_twos (n : nat) (v : Z) : list Z :=
  spec_be n (if v <? 0 then v + 256 ^ Z.of_nat n else v).

Definition spec_pad (len : Z) : list Z := repeat 0 (Z.to_nat ((8 - len mod 8) mod 8)).

Definition spec_ttlv (tag ty : Z) (value : list Z) : list Z :=
  spec_be 3 tag ++ [ty] ++ spec_be 4 (Z.of_nat (length value)) ++ value ++ spec_pad (Z.of_nat (length value)).

(* Big Integer width: the least number w >= 1 of 8-byte words such that the magnitude plus a sign
   bit fits, |v| < 2^(64w-1) (the specification only requires a multiple of 8 bytes, sign extended) *)
Definition spec_big_width (v w : Z) : Prop :=
  1 <= w /\ Z.abs v < 2 ^ (64 * w - 1) /\ (w = 1 \/ 2 ^ (64 * (w - 1) - 1) <= Z.abs v).

Inductive spec_val :=
| SInt (v : Z) | SLong (v : Z) | SBig (v : Z) | SEnum (v : Z) | SBool (b : bool)
| SText (cs : list Z) | SBytes (bs : list Z) | SDate (v : Z) | SInterval (v : Z).

Definition spec_enc (tag : Z) (x : spec_val) : list Z :=
  match x with
  | SInt v => spec_ttlv tag 2 (spec_twos 4 v)
  | SLong v => spec_ttlv tag 3 (spec_twos 8 v)
  | SBig v => []          (* relational, see spec_enc_rel *)
  | SEnum v => spec_ttlv tag 5 (spec_be 4 v)
  | SBool b => spec_ttlv tag 6 (spec_be 8 (if b then 1 else 0))
  | SText cs => spec_ttlv tag 7 cs
  | SBytes bs => spec_ttlv tag 8 bs
  | SDate v => spec_ttlv tag 9 (spec_twos 8 v)
  | SInterval v => spec_ttlv tag 10 (spec_be 4 v)
  end.

Definition spec_enc_rel (tag : Z) (x : spec_val) (bs : list Z) : Prop :=
  match x with
  | SBig v => exists w, spec_big_width v w /\ bs = spec_ttlv tag 4 (spec_twos (Z.to_nat (8 * w)) v)
  | _ => bs = spec_enc tag x
  end.

(* Well-formed TTLV items as a grammar. *)
Definition is_byte (b : Z) : Prop := 0 <= b < 256.

Definition fixed_len_ok (ty len : Z) : Prop :=
  match ty with
  | 2 | 5 | 10 => len = 4
  | 3 | 6 | 9 => len = 8
  | 4 => 0 < len /\ len mod 8 = 0
  | 7 | 8 => 0 <= len
  | _ => False
  end.

Inductive wf_item : list Z -> Prop :=
| wf_primitive tag ty value :
    0 <= tag < 256 ^ 3 -> fixed_len_ok ty (Z.of_nat (length value)) -> Forall is_byte value ->
    Z.of_nat (length value) < 2 ^ 32 ->
    (ty = 6 -> value = spec_be 8 0 \/ value = spec_be 8 1) ->
    wf_item (spec_ttlv tag ty value)
| wf_structure tag children :
    0 <= tag < 256 ^ 3 -> Forall wf_item children ->
    Z.of_nat (length (concat children)) < 2 ^ 32 ->
    wf_item (spec_be 3 tag ++ [1] ++ spec_be 4 (Z.of_nat (length (concat children))) ++ concat children).
