(* The primitive encoders of the code model are byte-identical to the
   specification model (WfSpec.v) and produce well-formed TTLV. *)
From PK Require Import Base.Bytes Base.BytesProofs Base.Prim Base.PrimProofs Base.WfSpec.
From Coq Require Import ZifyBool.
Open Scope Z_scope.

Lemma be_enc_cons k : forall v, be_enc (S k) v = (v / 256 ^ Z.of_nat k) mod 256 :: be_enc k v.
Proof.
  induction k as [|k IH]; intros v.
  - cbn. rewrite Z.div_1_r. reflexivity.
  - change (be_enc (S (S k)) v) with (be_enc (S k) (v / 256) ++ [v mod 256]).
    rewrite IH. cbn [app]. f_equal.
    + rewrite Z.div_div by (try lia; apply Z.pow_pos_nonneg; lia).
      rewrite Nat2Z.inj_succ, Z.pow_succ_r by lia. reflexivity.
Qed.

Lemma spec_be_be_enc n v : spec_be n v = be_enc n v.
Proof.
  induction n as [|n IH]; [reflexivity|].
  rewrite be_enc_cons. cbn [spec_be]. rewrite IH. reflexivity.
Qed.

Definition to_spec (p : pval) : spec_val :=
  match p with
  | VInt v => SInt v | VLong v => SLong v | VBig v => SBig v | VEnum v => SEnum v | VBool b => SBool b
  | VText cs => SText cs | VBytes bs => SBytes bs | VDate v => SDate v | VInterval v => SInterval v
  end.

Lemma spec_twos_unsigned (n : nat) v :
  - (pow256 (Z.of_nat n) / 2) <= v < pow256 (Z.of_nat n) / 2 -> (0 < n)%nat ->
  spec_twos n v = be_enc n (to_unsigned (Z.of_nat n) v).
Proof.
  intros Hv Hn. unfold spec_twos, to_unsigned. rewrite spec_be_be_enc. f_equal.
  assert (Hp : 0 < pow256 (Z.of_nat n)) by (apply pow256_pos; lia).
  assert (Heven : pow256 (Z.of_nat n) = 2 * (pow256 (Z.of_nat n) / 2)).
  { unfold pow256. replace (Z.of_nat n) with (Z.succ (Z.of_nat n - 1)) by lia. rewrite Z.pow_succ_r by lia.
    replace (256 * 256 ^ (Z.of_nat n - 1)) with ((128 * 256 ^ (Z.of_nat n - 1)) * 2) by lia.
    rewrite Z.div_mul by lia. lia. }
  fold (pow256 (Z.of_nat n)).
  destruct (Z.ltb_spec v 0).
  - apply Z.mod_unique with (-1); lia.
  - symmetry. apply Z.mod_small. lia.
Qed.

Lemma hdr_spec tag ty len h : hdr tag ty len = Some h -> h = spec_be 3 tag ++ [ty] ++ spec_be 4 len /\ 0 <= len < TWO32.
Proof.
  unfold hdr. destruct ((0 <=? len) && (len <? TWO32)) eqn:E; [|discriminate].
  intros H. rewrite !spec_be_be_enc. split; [congruence|lia].
Qed.

Lemma spec_pad_zpad n : spec_pad n = zpad n.
Proof. reflexivity. Qed.

Lemma with_hdr_ttlv tag ty value bs :
  with_hdr tag ty (zlen value) (value ++ zpad (zlen value)) = Some bs -> bs = spec_ttlv tag ty value.
Proof.
  intros H. apply with_hdr_some in H as (h & Hh & ->). apply hdr_spec in Hh as [-> _].
  unfold spec_ttlv, zlen. rewrite <- !app_assoc. reflexivity.
Qed.

Lemma zpad4 : zpad 4 = be_enc 4 0. Proof. reflexivity. Qed.
Lemma zpad8 : zpad 8 = []. Proof. reflexivity. Qed.

Lemma big_words_spec v : spec_big_width v (big_words v).
Proof.
  unfold spec_big_width, big_words.
  pose proof (bitlen_bound (Z.abs v) ltac:(lia)) as [Hlt Hb].
  set (b := bitlen (Z.abs v)) in *.
  pose proof (Z.div_mod b 64 ltac:(lia)) as Hdm. pose proof (Z.mod_pos_bound b 64 ltac:(lia)) as Hm.
  assert (Hq : 0 <= b / 64) by (apply Z.div_pos; lia).
  set (q := b / 64) in *. split; [lia|]. split.
  - assert (2 ^ b <= 2 ^ (64 * (q + 1) - 1)) by (apply Z.pow_le_mono_r; lia). lia.
  - destruct (Z.eq_dec q 0) as [->|Hq0]; [left; lia|right].
    replace (q + 1 - 1) with q by lia.
    (* b >= 64 q >= 64, so |v| >= 2^(b-1) >= 2^(64q-1) *)
    assert (Hlow : 2 ^ (b - 1) <= Z.abs v).
    { unfold b, bitlen. destruct (Z.eqb_spec (Z.abs v) 0) as [E0|E0].
      - exfalso. apply Hq0. unfold q, b, bitlen. rewrite E0. reflexivity.
      - replace (Z.log2 (Z.abs v) + 1 - 1) with (Z.log2 (Z.abs v)) by lia.
        apply Z.log2_spec. lia. }
    assert (2 ^ (64 * q - 1) <= 2 ^ (b - 1)) by (apply Z.pow_le_mono_r; lia). lia.
Qed.

Theorem enc_prim_spec tag p bs :
  enc_prim tag p = Some bs -> spec_enc_rel tag (to_spec p) bs.
Proof.
  intros H. destruct p as [v|v|v|v|b|cs|bs0|v|v]; cbn [enc_prim to_spec spec_enc_rel spec_enc] in *.
  - destruct ((- TWO31 <=? v) && (v <? TWO31)) eqn:E; [|discriminate].
    rewrite <- zpad4 in H. change 4 with (zlen (be_enc 4 (to_unsigned 4 v))) in H at 1.
    change (zpad 4) with (zpad (zlen (be_enc 4 (to_unsigned 4 v)))) in H.
    apply with_hdr_ttlv in H. rewrite H. f_equal.
    symmetry. apply (spec_twos_unsigned 4); [change (pow256 (Z.of_nat 4) / 2) with TWO31; lia | lia].
  - destruct ((- TWO63 <=? v) && (v <? TWO63)) eqn:E; [|discriminate].
    rewrite <- (app_nil_r (be_enc 8 _)) in H. rewrite <- zpad8 in H.
    change 8 with (zlen (be_enc 8 (to_unsigned 8 v))) in H at 1.
    change (zpad 8) with (zpad (zlen (be_enc 8 (to_unsigned 8 v)))) in H.
    apply with_hdr_ttlv in H. rewrite H. f_equal.
    symmetry. apply (spec_twos_unsigned 8); [change (pow256 (Z.of_nat 8) / 2) with TWO63; lia | lia].
  - exists (big_words v). split; [apply big_words_spec|].
    pose proof (big_words_bound v) as [Hw Hv]. cbn zeta in *.
    assert (Hlen : zlen (big_bytes v) = 8 * big_words v).
    { unfold big_bytes. rewrite zlen_be_enc. lia. }
    assert (Hpad : zpad (zlen (big_bytes v)) = []).
    { rewrite Hlen. unfold zpad, pad_len. rewrite Z.mul_comm, Z.mod_mul by lia. reflexivity. }
    rewrite <- (app_nil_r (big_bytes v)) in H at 2. rewrite <- Hpad in H.
    apply with_hdr_ttlv in H. rewrite H. f_equal. unfold big_bytes.
    symmetry. rewrite spec_twos_unsigned.
    + rewrite Z2Nat.id by lia. reflexivity.
    + rewrite Z2Nat.id by lia. exact Hv.
    + lia.
  - destruct ((0 <=? v) && (v <? TWO32)) eqn:E; [|discriminate].
    rewrite <- zpad4 in H. change 4 with (zlen (be_enc 4 v)) in H at 1.
    change (zpad 4) with (zpad (zlen (be_enc 4 v))) in H.
    apply with_hdr_ttlv in H. rewrite H, spec_be_be_enc. reflexivity.
  - rewrite <- (app_nil_r (be_enc 8 _)) in H. rewrite <- zpad8 in H.
    change 8 with (zlen (be_enc 8 (if b then 1 else 0))) in H at 1.
    change (zpad 8) with (zpad (zlen (be_enc 8 (if b then 1 else 0)))) in H.
    apply with_hdr_ttlv in H. rewrite H, spec_be_be_enc. reflexivity.
  - destruct (text_ok cs); [|discriminate]. apply with_hdr_ttlv in H. exact H.
  - apply with_hdr_ttlv in H. exact H.
  - destruct ((- TWO63 <=? v) && (v <? TWO63)) eqn:E; [|discriminate].
    rewrite <- (app_nil_r (be_enc 8 _)) in H. rewrite <- zpad8 in H.
    change 8 with (zlen (be_enc 8 (to_unsigned 8 v))) in H at 1.
    change (zpad 8) with (zpad (zlen (be_enc 8 (to_unsigned 8 v)))) in H.
    apply with_hdr_ttlv in H. rewrite H. f_equal.
    symmetry. apply (spec_twos_unsigned 8); [change (pow256 (Z.of_nat 8) / 2) with TWO63; lia | lia].
  - destruct ((0 <=? v) && (v <? TWO32)) eqn:E; [|discriminate].
    rewrite <- zpad4 in H. change 4 with (zlen (be_enc 4 v)) in H at 1.
    change (zpad 4) with (zpad (zlen (be_enc 4 v))) in H.
    apply with_hdr_ttlv in H. rewrite H, spec_be_be_enc. reflexivity.
Qed.

Lemma bytes_ok_Forall bs : bytes_ok bs = true -> Forall is_byte bs.
Proof.
  unfold bytes_ok. intros H. apply Forall_forall. intros x Hx.
  rewrite forallb_forall in H. specialize (H x Hx). unfold byte_ok, is_byte in *. lia.
Qed.

Lemma utf8_valid_bytes cs : utf8_valid cs = true -> Forall is_byte cs.
Proof.
  (* strong induction on the length: the decoder consumes 1 to 4 bytes per step *)
  assert (H : forall n cs, (length cs <= n)%nat -> utf8_valid cs = true -> Forall is_byte cs).
  { induction n as [|n IH]; intros cs0 Hn Hv.
    - destruct cs0; [constructor|cbn in Hn; lia].
    - destruct cs0 as [|b0 r]; [constructor|]. cbn [utf8_valid] in Hv. cbn [length] in Hn.
      unfold inr, cont in Hv.
      destruct ((0 <=? b0) && (b0 <=? 127)) eqn:E1.
      { constructor; [unfold is_byte; lia|apply IH; [lia|exact Hv]]. }
      destruct ((194 <=? b0) && (b0 <=? 223)) eqn:E2.
      { destruct r as [|b1 r1]; [discriminate|]. apply andb_prop in Hv as [Hc Hv]. cbn [length] in Hn.
        constructor; [unfold is_byte; lia|]. constructor; [unfold is_byte; lia|]. apply IH; [lia|exact Hv]. }
      destruct ((224 <=? b0) && (b0 <=? 239)) eqn:E3.
      { destruct r as [|b1 [|b2 r2]]; try discriminate. apply andb_prop in Hv as [Hv Hv2]. apply andb_prop in Hv as [Hb1 Hb2].
        cbn [length] in Hn.
        assert (0 <= b1 < 256) by (destruct (b0 =? 224); [lia|destruct (b0 =? 237); lia]).
        constructor; [unfold is_byte; lia|]. constructor; [exact H|]. constructor; [unfold is_byte; lia|].
        apply IH; [lia|exact Hv2]. }
      destruct ((240 <=? b0) && (b0 <=? 244)) eqn:E4; [|discriminate].
      destruct r as [|b1 [|b2 [|b3 r3]]]; try discriminate.
      apply andb_prop in Hv as [Hv Hv3]. apply andb_prop in Hv as [Hv Hb3]. apply andb_prop in Hv as [Hb1 Hb2].
      cbn [length] in Hn.
      assert (0 <= b1 < 256) by (destruct (b0 =? 240); [lia|destruct (b0 =? 244); lia]).
      constructor; [unfold is_byte; lia|]. constructor; [exact H|]. constructor; [unfold is_byte; lia|].
      constructor; [unfold is_byte; lia|]. apply IH; [lia|exact Hv3]. }
  intros Hv. exact (H (length cs) cs (le_n _) Hv).
Qed.

Lemma ascii_Forall cs : text_ok cs = true -> Forall is_byte cs.
Proof. exact (utf8_valid_bytes cs). Qed.

(* the value part and type of an encoding, for well-formedness *)
Theorem enc_prim_wf mem tag p bs :
  tag_ok tag = true -> wf_prim mem p = true -> enc_prim tag p = Some bs -> wf_item bs.
Proof.
  intros Ht Hwf H. pose proof (enc_prim_spec _ _ _ H) as Hs.
  assert (Htag : 0 <= tag < 256 ^ 3) by (unfold tag_ok in Ht; change (256 ^ 3) with 16777216; lia).
  destruct p as [v|v|v|v|b|cs|bs0|v|v]; cbn [to_spec spec_enc_rel spec_enc wf_prim] in *.
  - subst bs. apply wf_primitive; try assumption.
    + unfold spec_twos. rewrite spec_be_be_enc, be_enc_length. reflexivity.
    + apply bytes_ok_Forall. unfold spec_twos. rewrite spec_be_be_enc. apply be_enc_bytes_ok.
    + unfold spec_twos. rewrite spec_be_be_enc, be_enc_length. reflexivity.
    + discriminate.
  - subst bs. apply wf_primitive; try assumption.
    + unfold spec_twos. rewrite spec_be_be_enc, be_enc_length. reflexivity.
    + apply bytes_ok_Forall. unfold spec_twos. rewrite spec_be_be_enc. apply be_enc_bytes_ok.
    + unfold spec_twos. rewrite spec_be_be_enc, be_enc_length. reflexivity.
    + discriminate.
  - destruct Hs as (w & (Hw1 & _) & ->).
    (* the width chosen by the code is big_words v *)
    pose proof (enc_prim_spec _ _ _ H) as Hs2. clear Hs2.
    assert (Hlenw : Z.of_nat (length (spec_twos (Z.to_nat (8 * w)) v)) = 8 * w).
    { unfold spec_twos. rewrite spec_be_be_enc, be_enc_length. lia. }
    (* w equals big_words v because both satisfy spec_big_width; we only need the bound from H *)
    apply wf_primitive; try assumption.
    + unfold fixed_len_ok. rewrite Hlenw. split; [lia|]. rewrite Z.mul_comm, Z.mod_mul; lia.
    + apply bytes_ok_Forall. unfold spec_twos. rewrite spec_be_be_enc. apply be_enc_bytes_ok.
    + (* length bound: from the header of H *)
      cbn [enc_prim] in H. apply with_hdr_some in H as (h & Hh & Hb).
      apply hdr_spec in Hh as [-> Hr]. rewrite Hlenw.
      (* bs = header ++ big_bytes v and also = spec_ttlv ... ; compare lengths of the value parts *)
      unfold spec_ttlv in Hb.
      assert (Hl : length (spec_be 3 tag ++ [4] ++ spec_be 4 (Z.of_nat (length (spec_twos (Z.to_nat (8 * w)) v))) ++
                          spec_twos (Z.to_nat (8 * w)) v ++ spec_pad (Z.of_nat (length (spec_twos (Z.to_nat (8 * w)) v))))
                  = length ((spec_be 3 tag ++ [4] ++ spec_be 4 (zlen (big_bytes v))) ++ big_bytes v)) by (rewrite Hb; reflexivity).
      rewrite !app_length in Hl. rewrite !spec_be_be_enc, !be_enc_length in Hl.
      assert (Hp0 : length (spec_pad (Z.of_nat (length (spec_twos (Z.to_nat (8 * w)) v)))) = 0%nat).
      { rewrite Hlenw. unfold spec_pad. rewrite Z.mul_comm, Z.mod_mul by lia. reflexivity. }
      rewrite Hp0 in Hl. cbn [length] in Hl. unfold zlen in Hr. unfold TWO32 in Hr. lia.
    + discriminate.
  - subst bs. apply wf_primitive; try assumption.
    + rewrite spec_be_be_enc, be_enc_length. reflexivity.
    + apply bytes_ok_Forall. rewrite spec_be_be_enc. apply be_enc_bytes_ok.
    + rewrite spec_be_be_enc, be_enc_length. reflexivity.
    + discriminate.
  - subst bs. apply wf_primitive; try assumption.
    + rewrite spec_be_be_enc, be_enc_length. reflexivity.
    + apply bytes_ok_Forall. rewrite spec_be_be_enc. apply be_enc_bytes_ok.
    + rewrite spec_be_be_enc, be_enc_length. reflexivity.
    + intros _. destruct b; [right|left]; reflexivity.
  - subst bs. apply andb_prop in Hwf as [Ha Hl]. apply wf_primitive; try assumption.
    + cbn. lia.
    + apply ascii_Forall; assumption.
    + unfold zlen, TWO32 in Hl. lia.
    + discriminate.
  - subst bs. apply andb_prop in Hwf as [Ha Hl]. apply wf_primitive; try assumption.
    + cbn. lia.
    + apply bytes_ok_Forall; assumption.
    + unfold zlen, TWO32 in Hl. lia.
    + discriminate.
  - subst bs. apply wf_primitive; try assumption.
    + unfold spec_twos. rewrite spec_be_be_enc, be_enc_length. reflexivity.
    + apply bytes_ok_Forall. unfold spec_twos. rewrite spec_be_be_enc. apply be_enc_bytes_ok.
    + unfold spec_twos. rewrite spec_be_be_enc, be_enc_length. reflexivity.
    + discriminate.
  - subst bs. apply wf_primitive; try assumption.
    + rewrite spec_be_be_enc, be_enc_length. reflexivity.
    + apply bytes_ok_Forall. rewrite spec_be_be_enc. apply be_enc_bytes_ok.
    + rewrite spec_be_be_enc, be_enc_length. reflexivity.
    + discriminate.
Qed.
